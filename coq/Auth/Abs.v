(* abs: parsed JSON events -> the abstract authorisation input (Auth/Types.v).
   This is the model of everything Allowed does before it starts deciding: building the
   AuthEvents provider (map keyed by (type, state_key), later events replace earlier ones),
   allowerContext.update (create / power-levels / join-rules contents with their fallbacks),
   NewMemberContentFrom*, NewThirdPartyInviteContentFromAuthEvents, NewPowerLevelContentFromEvent
   with the version's parser, CreatorsFromCreateEvent, and the event accessors of eventV1/2/3.
   Model only, no proofs.

   Events are the JSON objects handed to NewEventFromTrustedJSON; the event ID is the event_id
   member (the harness always supplies one: for formats whose ID is a hash the library accepts a
   stored ID the same way, NewEventFromTrustedJSONWithEventID). Events that parsing would refuse
   (members of the wrong JSON type at the top level) are outside the domain: such members read as
   absent here. *)
From Verif Require Import Lib.Bytes Json.Ast Auth.GoJson Auth.Ids Auth.Types Auth.Versions.
Open Scope N_scope.

Definition k_type := Eval vm_compute in bs "type".
Definition k_state_key := Eval vm_compute in bs "state_key".
Definition k_sender := Eval vm_compute in bs "sender".
Definition k_room_id := Eval vm_compute in bs "room_id".
Definition k_content := Eval vm_compute in bs "content".
Definition k_redacts := Eval vm_compute in bs "redacts".
Definition k_prev_events := Eval vm_compute in bs "prev_events".
Definition k_event_id := Eval vm_compute in bs "event_id".
Definition k_membership := Eval vm_compute in bs "membership".
Definition k_third_party_invite := Eval vm_compute in bs "third_party_invite".
Definition k_via := Eval vm_compute in bs "join_authorised_via_users_server".
Definition k_mxid_mapping := Eval vm_compute in bs "mxid_mapping".
Definition k_user_id := Eval vm_compute in bs "user_id".
Definition k_user_room_key := Eval vm_compute in bs "user_room_key".
Definition k_signatures := Eval vm_compute in bs "signatures".
Definition k_display_name := Eval vm_compute in bs "display_name".
Definition k_signed := Eval vm_compute in bs "signed".
Definition k_mxid := Eval vm_compute in bs "mxid".
Definition k_token := Eval vm_compute in bs "token".
Definition k_key_validity_url := Eval vm_compute in bs "key_validity_url".
Definition k_public_key := Eval vm_compute in bs "public_key".
Definition k_public_keys := Eval vm_compute in bs "public_keys".
Definition k_join_rule := Eval vm_compute in bs "join_rule".
Definition k_allow := Eval vm_compute in bs "allow".
Definition k_federate := Eval vm_compute in bs "m.federate".
Definition k_creator := Eval vm_compute in bs "creator".
Definition k_room_version := Eval vm_compute in bs "room_version".
Definition k_predecessor := Eval vm_compute in bs "predecessor".
Definition k_additional_creators := Eval vm_compute in bs "additional_creators".
Definition k_ban := Eval vm_compute in bs "ban".
Definition k_invite := Eval vm_compute in bs "invite".
Definition k_kick := Eval vm_compute in bs "kick".
Definition k_redact := Eval vm_compute in bs "redact".
Definition k_users := Eval vm_compute in bs "users".
Definition k_users_default := Eval vm_compute in bs "users_default".
Definition k_events := Eval vm_compute in bs "events".
Definition k_events_default := Eval vm_compute in bs "events_default".
Definition k_state_default := Eval vm_compute in bs "state_default".
Definition k_notifications := Eval vm_compute in bs "notifications".

Definition t_create := Eval vm_compute in bs "m.room.create".
Definition t_aliases := Eval vm_compute in bs "m.room.aliases".
Definition t_member := Eval vm_compute in bs "m.room.member".
Definition t_power_levels := Eval vm_compute in bs "m.room.power_levels".
Definition t_redaction := Eval vm_compute in bs "m.room.redaction".
Definition t_join_rules := Eval vm_compute in bs "m.room.join_rules".

Definition s_join := Eval vm_compute in bs "join".
Definition s_invite := Eval vm_compute in bs "invite".
Definition s_leave := Eval vm_compute in bs "leave".
Definition s_ban := Eval vm_compute in bs "ban".
Definition s_knock := Eval vm_compute in bs "knock".
Definition s_public := Eval vm_compute in bs "public".
Definition s_restricted := Eval vm_compute in bs "restricted".
Definition s_knock_restricted := Eval vm_compute in bs "knock_restricted".
Definition s_ed25519 := Eval vm_compute in bs "ed25519".

(* ---------- event accessors ---------- *)
Definition ev_obj (e : json) : list (bytes * json) := match e with JObj m => m | _ => [] end.

Definition ev_str (k : bytes) (e : json) : bytes :=
  match dec_string (field k (ev_obj e)) with DVal s => s | _ => [] end.

Definition ev_type (e : json) : bytes := ev_str k_type e.
Definition ev_sender (e : json) : bytes := ev_str k_sender e.
Definition ev_redacts (e : json) : bytes := ev_str k_redacts e.
Definition ev_id (e : json) : bytes := ev_str k_event_id e.
Definition ev_state_key (e : json) : option bytes :=
  match dec_string (field k_state_key (ev_obj e)) with DVal s => Some s | _ => None end.
Definition ev_content (e : json) : option json := field k_content (ev_obj e).

Definition state_key_is (e : json) (s : bytes) : bool :=
  match ev_state_key e with Some k => bytes_eqb k s | None => false end.

(* prev_events: event IDs (format 2) or [id, hashes] pairs (format 1) *)
Definition ref_id (j : json) : bytes :=
  match j with
  | JStr s => s
  | JArr (JStr s :: _) => s
  | _ => []
  end.
Definition ev_prev (e : json) : list bytes :=
  match field k_prev_events (ev_obj e) with
  | Some (JArr l) => map ref_id l
  | _ => []
  end.

(* RoomID().String(): in the domainless format the create event's room is named by its event ID *)
Definition ev_room (f : ver_flags) (e : json) : bytes :=
  if vf_event_v3 f && bytes_eqb (ev_type e) t_create && state_key_is e [] then
    33 :: match ev_id e with _ :: r => r | [] => [] end
  else ev_str k_room_id e.

(* ---------- the AuthEvents provider ---------- *)
Fixpoint find_auth (ty sk : bytes) (auths : list json) : option json :=
  match auths with
  | [] => None
  | a :: r =>
      match find_auth ty sk r with
      | Some x => Some x
      | None => if bytes_eqb (ev_type a) ty && state_key_is a sk then Some a else None
      end
  end.

Definition provider_ok (auths : list json) : bool :=
  forallb (fun a => match ev_state_key a with Some _ => true | None => false end) auths.

Fixpoint distinct_rooms (rooms : list bytes) (seen : list bytes) : list bytes :=
  match rooms with
  | [] => seen
  | r :: rs => if mem_bytes r seen then distinct_rooms rs seen else distinct_rooms rs (r :: seen)
  end.

Definition one_room (f : ver_flags) (auths : list json) : bool :=
  match distinct_rooms (map (ev_room f) auths) [] with
  | [] => true
  | [_] => true
  | _ => false
  end.

(* ---------- contents ---------- *)
Definition mship_of (s : bytes) : mship :=
  if bytes_eqb s s_join then MsJoin
  else if bytes_eqb s s_invite then MsInvite
  else if bytes_eqb s s_leave then MsLeave
  else if bytes_eqb s s_ban then MsBan
  else if bytes_eqb s s_knock then MsKnock
  else MsOther.

Definition jrule_of (s : bytes) : jrule :=
  if bytes_eqb s s_public then JrPublic
  else if bytes_eqb s s_invite then JrInvite
  else if bytes_eqb s s_knock then JrKnock
  else if bytes_eqb s s_restricted then JrRestricted
  else if bytes_eqb s s_knock_restricted then JrKnockRestricted
  else JrOther.

(* Unmarshal of a content into a struct: the content must exist; null leaves the zero struct *)
Inductive content_obj := CoMissing | CoNull | CoObj (o : list (bytes * json)) | CoWrong.
Definition content_of (e : json) : content_obj :=
  match ev_content e with
  | None => CoMissing
  | Some JNull => CoNull
  | Some (JObj o) => CoObj o
  | Some _ => CoWrong
  end.

(* a string-typed member: Some value (empty when absent/null), None when of the wrong type *)
Definition str_field (k : bytes) (o : list (bytes * json)) : option bytes :=
  match dec_string (field k o) with DVal s => Some s | DAbsent => Some [] | DBad => None end.

(* map[string]map[string]string: list of (outer key, inner key) *)
Fixpoint inner_keys (outer : bytes) (m : list (bytes * json)) : option (list (bytes * bytes)) :=
  match m with
  | [] => Some []
  | (k, v) :: r =>
      match v with
      | JStr _ | JNull => match inner_keys outer r with Some l => Some ((outer, k) :: l) | None => None end
      | _ => None
      end
  end.
Fixpoint sig_pairs (m : list (bytes * json)) : option (list (bytes * bytes)) :=
  match m with
  | [] => Some []
  | (d, v) :: r =>
      match v with
      | JNull => sig_pairs r
      | JObj im => match inner_keys d im, sig_pairs r with
                   | Some a, Some b => Some (a ++ b)
                   | _, _ => None
                   end
      | _ => None
      end
  end.
Definition dec_sig_map (v : option json) : option (list (bytes * bytes)) :=
  match v with
  | None => Some []
  | Some JNull => Some []
  | Some (JObj m) => sig_pairs m
  | Some _ => None
  end.

Definition tpi_zero : tpi_info := {| t_mxid := []; t_token := []; t_sigs := [] |}.

(* MemberThirdPartyInvite *)
Definition dec_tpi (v : option json) : option (option tpi_info) :=
  match v with
  | None => Some None
  | Some JNull => Some None
  | Some (JObj t) =>
      match str_field k_display_name t with
      | None => None
      | Some _ =>
          match field k_signed t with
          | None => Some (Some tpi_zero)
          | Some JNull => Some (Some tpi_zero)
          | Some (JObj s) =>
              match str_field k_mxid s, str_field k_token s, dec_sig_map (field k_signatures s) with
              | Some mx, Some tk, Some sg =>
                  Some (Some {| t_mxid := mx; t_token := tk;
                                t_sigs := filter (fun dk => is_prefix s_ed25519 (snd dk)) sg |})
              | _, _, _ => None
              end
          | Some _ => None
          end
      end
  | Some _ => None
  end.

(* MXIDMapping *)
Definition dec_mapping (v : option json) : option (option (option bytes)) :=
  match v with
  | None => Some None
  | Some JNull => Some None
  | Some (JObj m) =>
      match str_field k_user_room_key m, str_field k_user_id m, dec_sig_map (field k_signatures m) with
      | Some _, Some uid, Some _ => Some (Some (user_domain uid))
      | _, _, _ => None
      end
  | Some _ => None
  end.

Definition member_zero : member_info :=
  {| m_membership := MsOther; m_tpi := None; m_via := []; m_mapping := None |}.

(* NewMemberContentFromEvent: only the four members of the fallback struct can make it fail *)
Definition member_of_event (e : json) : option member_info :=
  match content_of e with
  | CoMissing | CoWrong => None
  | CoNull => Some member_zero
  | CoObj o =>
      match str_field k_membership o, dec_tpi (field k_third_party_invite o),
            str_field k_via o, dec_mapping (field k_mxid_mapping o) with
      | Some ms, Some tp, Some via, Some mp =>
          Some {| m_membership := mship_of ms; m_tpi := tp; m_via := via; m_mapping := mp |}
      | _, _, _, _ => None
      end
  end.

(* NewMemberContentFromAuthEvents *)
Definition member_from_auth (auths : list json) (user : bytes) : option mship :=
  match find_auth t_member user auths with
  | None => Some MsLeave
  | Some e => option_map m_membership (member_of_event e)
  end.

(* PDU.Membership() of an auth event: only the membership member is decoded *)
Definition membership_only (e : json) : option mship :=
  match content_of e with
  | CoMissing | CoWrong => None
  | CoNull => Some MsOther
  | CoObj o => option_map mship_of (str_field k_membership o)
  end.

(* base64 text that spec.Base64Bytes accepts (either alphabet, unpadded) *)
Definition is_b64std_char (c : N) : bool :=
  ((65 <=? c) && (c <=? 90)) || ((97 <=? c) && (c <=? 122)) || ((48 <=? c) && (c <=? 57))
  || (c =? 43) || (c =? 47).
Definition b64_ok (s : bytes) : bool :=
  let url := existsb (fun c => (c =? 45) || (c =? 95)) s in
  forallb (fun c => if url then is_b64url_char c else is_b64std_char c) s
  && negb (N.of_nat (length s) mod 4 =? 1).

(* public_keys of ThirdPartyInviteContent: the key texts *)
Fixpoint dec_public_keys (l : list json) : option (list bytes) :=
  match l with
  | [] => Some []
  | JNull :: r => option_map (cons []) (dec_public_keys r)
  | JObj k :: r =>
      match dec_string (field k_public_key k), str_field k_key_validity_url k, dec_public_keys r with
      | DVal pk, Some _, Some rest => if b64_ok pk then Some (pk :: rest) else None
      | DAbsent, Some _, Some rest => Some ([] :: rest)
      | _, _, _ => None
      end
  | _ => None
  end.

Definition tpi_event_keys (e : json) : option (list bytes) :=
  match content_of e with
  | CoMissing | CoWrong => None
  | CoNull => Some []
  | CoObj o =>
      match str_field k_display_name o, str_field k_key_validity_url o, str_field k_public_key o with
      | Some _, Some _, Some _ =>
          match field k_public_keys o with
          | None => Some []
          | Some JNull => Some []
          | Some (JArr l) => dec_public_keys l
          | Some _ => None
          end
      | _, _, _ => None
      end
  end.

(* the single public_key member of the m.room.third_party_invite content (the specification also
   honours it; the library reads public_keys only) *)
Definition tpi_event_single_key (e : json) : list bytes :=
  match content_of e with
  | CoObj o => match dec_string (field k_public_key o) with
               | DVal pk => match pk with [] => [] | _ => [pk] end
               | _ => []
               end
  | _ => []
  end.

(* JoinRuleContent; the allow list must have the right shape *)
Fixpoint allow_ok (l : list json) : bool :=
  match l with
  | [] => true
  | JNull :: r => allow_ok r
  | JObj a :: r =>
      match str_field k_type a, str_field k_room_id a with
      | Some _, Some _ => allow_ok r
      | _, _ => false
      end
  | _ => false
  end.

Definition join_rule_of (auths : list json) : jrule :=
  match find_auth t_join_rules [] auths with
  | None => JrInvite
  | Some e =>
      match content_of e with
      | CoMissing | CoWrong => JrOther   (* unparseable: the context keeps the zero JoinRuleContent *)
      | CoNull => JrInvite
      | CoObj o =>
          (* a malformed allow list makes the full decoding fail; join_rule is then read alone *)
          match dec_string (field k_join_rule o) with
          | DBad => JrOther
          | DAbsent => JrInvite
          | DVal s => jrule_of s
          end
      end
  end.

(* CreateContent (NewCreateContentFromAuthEvents + CreatorsFromCreateEvent) *)
Definition predecessor_ok (v : option json) : bool :=
  match v with
  | None => true
  | Some JNull => true
  | Some (JObj p) => match str_field k_room_id p, str_field k_event_id p with
                     | Some _, Some _ => true | _, _ => false end
  | Some _ => false
  end.

Definition create_of (f : ver_flags) (auths : list json) : option create_info :=
  match find_auth t_create [] auths with
  | None => None
  | Some e =>
      let o := match content_of e with CoObj o => Some o | CoNull => Some [] | _ => None end in
      match o with
      | None => None
      | Some o =>
          match dec_bool (field k_federate o), str_field k_creator o, dec_string (field k_room_version o),
                predecessor_ok (field k_predecessor o), str_field k_type o,
                dec_string_list (field k_additional_creators o) with
          | DBad, _, _, _, _, _ => None
          | _, None, _, _, _, _ => None
          | _, _, DBad, _, _, _ => None
          | _, _, _, false, _, _ => None
          | _, _, _, _, None, _ => None
          | _, _, _, _, _, DBad => None
          | fed, Some _, rv, true, Some _, ac =>
              match user_domain (ev_sender e) with
              | None => None
              | Some d =>
                  Some {| c_room := ev_room f e; c_event_id := ev_id e; c_sender := ev_sender e;
                          c_sender_domain := d;
                          c_federate := match fed with DVal b => b | _ => true end;
                          c_room_version := match rv with DVal v => Some v | _ => None end;
                          c_additional := match ac with DVal l => l | _ => [] end |}
              end
          end
      end
  end.

(* NewPowerLevelContentFromEvent with the version's parser *)
Definition named_level (int_only : bool) (k : bytes) (o : list (bytes * json)) (dflt : Z) : option Z :=
  if int_only then
    match dec_int64 (field k o) with DVal z => Some z | DAbsent => Some dflt | DBad => None end
  else
    match field k o with
    | None => Some dflt
    | Some j => level_json j
    end.

Definition pl_of_obj (int_only : bool) (o : list (bytes * json)) : option pl_content :=
  let lv := if int_only then strict_level_json else level_json in
  match named_level int_only k_ban o (pl_ban pl_defaults),
        named_level int_only k_invite o (pl_invite pl_defaults),
        named_level int_only k_kick o (pl_kick pl_defaults),
        named_level int_only k_redact o (pl_redact pl_defaults) with
  | Some b, Some i, Some k, Some r =>
      match named_level int_only k_users_default o (pl_users_default pl_defaults),
            named_level int_only k_events_default o (pl_events_default pl_defaults),
            named_level int_only k_state_default o (pl_state_default pl_defaults) with
      | Some ud, Some ed, Some sd =>
          match dec_level_map lv (field k_users o), dec_level_map lv (field k_events o),
                dec_level_map lv (field k_notifications o) with
          | Some us, Some es, Some ns =>
              Some {| pl_ban := b; pl_invite := i; pl_kick := k; pl_redact := r;
                      pl_users_default := ud; pl_events_default := ed; pl_state_default := sd;
                      pl_users := us; pl_events := es; pl_notifs := ns |}
          | _, _, _ => None
          end
      | _, _, _ => None
      end
  | _, _, _, _ => None
  end.

Definition pl_of_event (int_only : bool) (e : json) : option pl_content :=
  match content_of e with
  | CoMissing | CoWrong => None
  | CoNull => Some pl_defaults
  | CoObj o => pl_of_obj int_only o
  end.

Definition kind_of (ty : bytes) : ekind :=
  if bytes_eqb ty t_create then KCreate
  else if bytes_eqb ty t_aliases then KAliases
  else if bytes_eqb ty t_member then KMember
  else if bytes_eqb ty t_power_levels then KPowerLevels
  else if bytes_eqb ty t_redaction then KRedaction
  else KOther.

(* what checkCreateEventV1 / V3 read from the event under test. A member of the wrong JSON type
   makes the checker's Unmarshal fail, which rejects exactly like the member's own rule. *)
Definition create_check_of (f : ver_flags) (e : json) : create_check :=
  let o := match content_of e with CoObj o => Some o | CoNull => Some [] | _ => None end in
  match o with
  | None => {| cc_content_ok := false; cc_has_creator := false; cc_room_version_known := true;
               cc_additional_ok := true; cc_room_id_present := false |}
  | Some o =>
      {| cc_content_ok := true;
         cc_has_creator := match dec_string (field k_creator o) with DVal _ => true | _ => false end;
         cc_room_version_known :=
           match dec_string (field k_room_version o) with
           | DVal v => known_room_version v
           | DAbsent => true
           | DBad => false
           end;
         cc_additional_ok :=
           match dec_string_list (field k_additional_creators o) with
           | DVal l => forallb (fun u => match user_id_parse u with Some _ => true | None => false end) l
           | DAbsent => true
           | DBad => false
           end;
         (* the member is there (a JSON null counts as absent, as encoding/json has it) *)
         cc_room_id_present :=
           match dec_string (field k_room_id (ev_obj e)) with DVal _ => true | _ => false end |}
  end.

(* the power-levels part of allowerContext.update: (usable event present, effective content) *)
Definition pl_of_auths (f : ver_flags) (creator : bytes) (auths : list json) : bool * pl_content :=
  match find_auth t_power_levels [] auths with
  | None => (false, pl_absent creator)
  | Some p =>
      match pl_of_event (vf_int_levels f) p with
      | Some c => (true, c)
      | None => (false, pl_zero)
      end
  end.

Section Abs.
  (* third-party-invite signature verification is an oracle:
     sig_ok public_key_text server key_id = VerifyJSON(server, key_id, key, signed) succeeds *)
  Variable sig_ok : bytes -> bytes -> bytes -> bool.

  Definition abs (f : ver_flags) (e : json) (auths : list json) : auth_input :=
    let create := create_of f auths in
    let creator := match create with Some c => c_sender c | None => [] end in
    let pls := pl_of_auths f creator auths in
    let sender := ev_sender e in
    let target := match ev_state_key e with Some k => k | None => [] end in
    let nm := member_of_event e in
    let tpi := match nm with Some m => m_tpi m | None => None end in
    let via := match nm with Some m => m_via m | None => [] end in
    (* thirdPartyInviteToken: an invite without a token is refused, no event is looked up *)
    let tpi_raw := match tpi with
                   | Some t => match t_token t with
                               | [] => None
                               | _ => find_auth tpi_type (t_token t) auths
                               end
                   | None => None
                   end in
    let tpi_ev := option_map tpi_event_keys tpi_raw in
    let sig_under (keys : list bytes) :=
      match tpi with
      | Some t => existsb (fun pk => existsb (fun dk => sig_ok pk (fst dk) (snd dk)) (t_sigs t)) keys
      | None => false
      end in
    let is_pl := match kind_of (ev_type e) with KPowerLevels => true | _ => false end in
    let is_member := match kind_of (ev_type e) with KMember => true | _ => false end in
    let new_pl := if is_pl then pl_of_event (vf_int_levels f) e else None in
    {| ai_flags := f;
       ai_provider_ok := provider_ok auths;
       ai_one_room := one_room f auths;
       ai_kind := kind_of (ev_type e);
       ai_type := ev_type e;
       ai_room := ev_room f e;
       ai_room_kind := room_id_parse (ev_room f e);
       ai_sender := sender;
       ai_sender_domain := user_domain sender;
       ai_state_key := ev_state_key e;
       ai_prev := ev_prev e;
       ai_create := create;
       ai_pl_present := fst pls;
       ai_pl := snd pls;
       ai_join_rule := join_rule_of auths;
       ai_sender_member := member_from_auth auths sender;
       ai_new_member := if is_member then nm else None;
       ai_target_member := member_from_auth auths target;
       ai_tpi_event := if is_member then tpi_ev else None;
       ai_sig_ok := match tpi_ev with Some (Some keys) => sig_under keys | _ => false end;
       ai_sig_ok_spec :=
         match tpi_raw, tpi_ev with
         | Some te, Some (Some keys) => sig_under (keys ++ tpi_event_single_key te)
         | _, _ => false
         end;
       ai_tpi_sender_ok := match tpi_raw with Some te => bytes_eqb (ev_sender te) sender | None => false end;
       ai_via_split_ok := split_id_ok 64 via;
       ai_via_member := match find_auth t_member via auths with
                        | None => None
                        | Some ve => Some (membership_only ve)
                        end;
       ai_new_pl := new_pl;
       ai_new_pl_users_ok :=
         match new_pl with
         | Some p => forallb (fun kv => match user_id_parse (fst kv) with Some _ => true | None => false end)
                             (pl_users p)
         | None => true
         end;
       ai_redacts_domain := domain_from_id (ev_redacts e);
       ai_cc := create_check_of f e |}.
End Abs.
