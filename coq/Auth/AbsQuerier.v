(* abs with the UserIDForSender callback as a parameter (model only). Auth/Abs.v fixes the callback
   every caller uses outside pseudo-ID rooms, spec.NewUserID(sender, true); in a pseudo-ID room
   (org.matrix.msc4014) sender IDs are keys and the callback resolves them to user IDs through
   the room's mapping. q sender = Some (domain of the user ID) when the callback resolves the
   sender, None when it fails. Sender IDs stay what the events say: they key the users map of the
   power levels and the member events; only domains come from the callback. *)
From Verif Require Import Lib.Bytes Json.Ast Auth.GoJson Auth.Ids Auth.Types Auth.Versions Auth.Abs.
Open Scope N_scope.

Section AbsQuerier.
  Variable q : bytes -> option bytes.
  Variable sig_ok : bytes -> bytes -> bytes -> bool.

  (* NewCreateContentFromAuthEvents with that callback *)
  Definition create_of_q (f : ver_flags) (auths : list json) : option create_info :=
    match find_auth t_create [] auths with
    | None => None
    | Some e =>
        let o := match content_of e with CoObj o => Some o | CoNull => Some [] | _ => None end in
        match o with
        | None => None
        | Some o =>
            match dec_bool (field k_federate o), str_field k_creator o, dec_string (field k_room_version o),
                  predecessor_ok (field k_predecessor o), str_field k_type o,
                  dec_string_list (field k_additional_creators o) with
            | DBad, _, _, _, _, _ => None
            | _, None, _, _, _, _ => None
            | _, _, DBad, _, _, _ => None
            | _, _, _, false, _, _ => None
            | _, _, _, _, None, _ => None
            | _, _, _, _, _, DBad => None
            | fed, Some _, rv, true, Some _, ac =>
                match q (ev_sender e) with
                | None => None
                | Some d =>
                    Some {| c_room := ev_room f e; c_event_id := ev_id e; c_sender := ev_sender e;
                            c_sender_domain := d;
                            c_federate := match fed with DVal b => b | _ => true end;
                            c_room_version := match rv with DVal v => Some v | _ => None end;
                            c_additional := match ac with DVal l => l | _ => [] end |}
                end
            end
        end
    end.

  Definition abs_q (f : ver_flags) (e : json) (auths : list json) : auth_input :=
    let a := abs sig_ok f e auths in
    let create := create_of_q f auths in
    let creator := match create with Some c => c_sender c | None => [] end in
    let pls := pl_of_auths f creator auths in
    {| ai_flags := ai_flags a; ai_provider_ok := ai_provider_ok a; ai_one_room := ai_one_room a;
       ai_kind := ai_kind a; ai_type := ai_type a; ai_room := ai_room a; ai_room_kind := ai_room_kind a;
       ai_sender := ai_sender a;
       ai_sender_domain := q (ev_sender e);
       ai_state_key := ai_state_key a; ai_prev := ai_prev a;
       ai_create := create;
       ai_pl_present := fst pls;
       ai_pl := snd pls;
       ai_join_rule := ai_join_rule a; ai_sender_member := ai_sender_member a;
       ai_new_member := ai_new_member a; ai_target_member := ai_target_member a;
       ai_tpi_event := ai_tpi_event a; ai_sig_ok := ai_sig_ok a; ai_sig_ok_spec := ai_sig_ok_spec a;
       ai_tpi_sender_ok := ai_tpi_sender_ok a;
       ai_via_split_ok := ai_via_split_ok a; ai_via_member := ai_via_member a;
       ai_new_pl := ai_new_pl a;
       ai_new_pl_users_ok :=
         match ai_new_pl a with
         | Some p => forallb (fun kv => match q (fst kv) with Some _ => true | None => false end) (pl_users p)
         | None => true
         end;
       ai_redacts_domain := ai_redacts_domain a; ai_cc := ai_cc a |}.
End AbsQuerier.

Lemma forallb_ext_q {A} (g h : A -> bool) l : (forall y, g y = h y) -> forallb g l = forallb h l.
Proof. intro H. induction l; simpl; [reflexivity|]. rewrite H, IHl. reflexivity. Qed.

(* the callback of the callers outside pseudo-ID rooms gives abs back *)
Lemma abs_q_default sig_ok f e auths :
  abs_q user_domain sig_ok f e auths = abs sig_ok f e auths.
Proof.
  unfold abs_q, abs. cbv zeta. cbn [ai_flags ai_provider_ok ai_one_room ai_kind ai_type ai_room ai_room_kind
    ai_sender ai_state_key ai_prev ai_join_rule ai_sender_member ai_new_member ai_target_member ai_tpi_event
    ai_sig_ok ai_sig_ok_spec ai_tpi_sender_ok ai_via_split_ok ai_via_member ai_new_pl ai_redacts_domain ai_cc].
  f_equal.
  destruct (if match kind_of (ev_type e) with KPowerLevels => true | _ => false end
            then pl_of_event (vf_int_levels f) e else None); [|reflexivity].
  apply forallb_ext_q. intros [k v]. simpl. unfold user_domain. destruct (user_id_parse k) as [[? ?]|]; reflexivity.
Qed.
