(* The authorisation rules of the Matrix specification (room versions 1-12), transcribed in the
   specification's own rule order over the abstract input (DESIGN.md Appendix B), adjusted by
   exactly the library's documented departures (DESIGN.md 6.1): each departure that is a local
   choice is one named definition dep_... below (true = the library's documented behaviour,
   false = the literal text), so both readings are visible. Departures that live in the reading of
   the JSON (3: defaults without a power-levels event, 4: creator = sender of the create event,
   5: effective values, 6: Python-int level spellings before v10, 12: no re-validation of the
   auth-event selection) are part of abs and of the pl_content record.
   decide_spec answers accept (true) / reject (false). No proofs here. *)
From Verif Require Import Lib.Bytes Auth.Ids Auth.Types Auth.Versions.
Open Scope Z_scope.

(* which clauses exist in which room version (specification side; compared with the table generated
   from eventversion.go by rules_agree / spec_table_agrees in Props/C07.v) *)
Record spec_rules := {
  sr_knock : bool;            (* v7+: membership knock, join rule knock *)
  sr_restricted : bool;       (* v8+: join rule restricted *)
  sr_notifications : bool;    (* v6+: notification levels are checked *)
  sr_creator_required : bool; (* v1-10: content.creator *)
  sr_v10 : bool;              (* v10+: join rule knock_restricted in the literal text *)
  sr_v12 : bool;              (* v12: privileged creators, additional_creators, no room_id on create *)
  sr_pseudo : bool;           (* MSC4014 pseudo IDs (aliases state key) *)
  sr_aliases : bool           (* v1-5: m.room.aliases has its own rule in the literal text *)
}.

Definition mk_rules (kn rs nt cr v10 v12 ps al : bool) : spec_rules :=
  {| sr_knock := kn; sr_restricted := rs; sr_notifications := nt; sr_creator_required := cr;
     sr_v10 := v10; sr_v12 := v12; sr_pseudo := ps; sr_aliases := al |}.

Definition spec_table : list (bytes * spec_rules) :=
  [ (bs "1",  mk_rules false false false true  false false false true);
    (bs "2",  mk_rules false false false true  false false false true);
    (bs "3",  mk_rules false false false true  false false false true);
    (bs "4",  mk_rules false false false true  false false false true);
    (bs "5",  mk_rules false false false true  false false false true);
    (bs "6",  mk_rules false false true  true  false false false false);
    (bs "7",  mk_rules true  false true  true  false false false false);
    (bs "8",  mk_rules true  true  true  true  false false false false);
    (bs "9",  mk_rules true  true  true  true  false false false false);
    (bs "10", mk_rules true  true  true  true  true  false false false);
    (bs "11", mk_rules true  true  true  false true  false false false);
    (bs "12", mk_rules true  true  true  false true  true  false false);
    (* unstable versions, as their MSCs define them *)
    (bs "org.matrix.msc4014", mk_rules true true true true true false true false);    (* v10 + pseudo IDs *)
    (bs "org.matrix.msc3667", mk_rules true false true true false false false false); (* v7 + integer levels *)
    (bs "org.matrix.msc3787", mk_rules true true true true true false false false);   (* v9 + knock_restricted *)
    (bs "org.matrix.hydra.11", mk_rules true true true false true true false false)   (* v12 *)
  ].

Definition spec_rules_of (ver : bytes) : option spec_rules :=
  (fix go (l : list (bytes * spec_rules)) :=
     match l with
     | [] => None
     | (v, r) :: l' => if bytes_eqb ver v then Some r else go l'
     end) spec_table.

(* versions whose power levels must be integer literals (v10 and later; MSC3667 is the proposal
   that introduced the rule; MSC3787 is based on v9 and keeps the lenient spelling) -- hand
   written, never read from the generated table *)
Definition spec_int_level_versions : list bytes :=
  [ bs "10"; bs "11"; bs "12"; bs "org.matrix.msc4014"; bs "org.matrix.msc3667"; bs "org.matrix.hydra.11" ].

Definition spec_int_levels (ver : bytes) : bool := mem_bytes ver spec_int_level_versions.

(* the switches a conforming implementation of version ver has, derived from the hand-written
   matrix above only. The specification oracles (the prop operations of C07 and C08) read the events with
   these, never with the switches generated from eventversion.go, so that a rewired table entry
   in the source makes the implementation disagree with the oracle on concrete inputs. *)
Definition spec_flags_of (ver : bytes) : option ver_flags :=
  match spec_rules_of ver with
  | None => None
  | Some sv =>
      Some {| vf_knocking := sr_knock sv;
              vf_restricted := Some (sr_restricted sv);
              vf_pl_check := if sr_v12 sv then PlV3 else if sr_notifications sv then PlV2 else PlV1;
              vf_int_levels := spec_int_levels ver;
              vf_create_check := if sr_v12 sv then CrV3 else if sr_creator_required sv then CrV1 else CrV2;
              vf_priv_creators := sr_v12 sv;
              vf_pseudo_ids := sr_pseudo sv;
              vf_event_v3 := sr_v12 sv |}
  end.

(* ---------- the departures (DESIGN.md 6.1) ---------- *)
Definition dep1_leave_to_leave : bool := true.        (* one's own leave -> leave is allowed *)
Definition dep2_unban_needs_ban_level_only : bool := true.
Definition dep7_knock_restricted_wherever_enabled : bool := true.
Definition dep9_aliases_rule_in_every_version : bool := true.
Definition dep10_invited_or_joined_may_join_under_any_rule : bool := true.
Definition dep13_knock_to_leave_in_every_version : bool := true.
Definition dep13_first_join_needs_sender_eq_state_key : bool := true.
(* dep 8 (v1/v2 redaction rule selected by the create event's room_version, own-domain test on the
   sender) and dep 11 (restricted join without authoriser judged as under invite) are written
   directly into the clauses they replace. *)

(* L(u) *)
Definition spec_level (sv : spec_rules) (a : auth_input) (c : create_info) (u : bytes) : Z :=
  if sr_v12 sv && mem_bytes u (c_sender c :: c_additional c) then creator_level
  else if negb (ai_pl_present a)
       then (if bytes_eqb u (c_sender c) then creator_level - 1 else 0)   (* dep 3 *)
       else pl_user_level (ai_pl a) u.

Definition mem_is (m : option mship) (x : mship) : bool :=
  match m with Some y => mship_eqb y x | None => false end.

(* rule 3: the create event, its room, the federation flag *)
Definition rule3_create (a : auth_input) : option create_info :=
  match ai_create a with
  | Some c =>
      if bytes_eqb (ai_room a) (c_room c) then
        match ai_sender_domain a with
        | Some d => if bytes_eqb d (c_sender_domain c) || c_federate c then Some c else None
        | None => None
        end
      else None
  | None => None
  end.

(* rule 1 *)
Definition spec_create (sv : spec_rules) (a : auth_input) : bool :=
  let cc := ai_cc a in
  match ai_state_key a with
  | Some [] =>
      match ai_prev a, ai_sender_domain a with
      | [], Some d =>
          (if sr_v12 sv then negb (cc_room_id_present cc)
           else match ai_room_kind a with RoomWithDomain rd => bytes_eqb d rd | _ => false end)
          && (cc_content_ok cc || (negb (sr_creator_required sv) && negb (sr_v12 sv)))
          && cc_room_version_known cc
          && (negb (sr_creator_required sv) || cc_has_creator cc)
          && (negb (sr_v12 sv) || cc_additional_ok cc)
      | _, _ => false
      end
  | _ => false
  end.

(* rule 4 *)
Definition spec_aliases (sv : spec_rules) (a : auth_input) : bool :=
  match rule3_create a, ai_state_key a, ai_sender_domain a with
  | Some _, Some k, Some d => bytes_eqb k (if sr_pseudo sv then ai_sender a else d)
  | _, _, _ => false
  end.

(* rule 5, membership join *)
Definition spec_join (sv : spec_rules) (a : auth_input) (c : create_info) (m : member_info)
           (target : bytes) (old : mship) : bool :=
  let self := bytes_eqb target (ai_sender a) in
  (* (a) the creator's first join *)
  if match ai_prev a with [p] => bytes_eqb p (c_event_id c) | _ => false end
     && bytes_eqb target (c_sender c)
     && (negb dep13_first_join_needs_sender_eq_state_key || self)
  then true
  else if negb self then false                                   (* (b) *)
  else if mship_eqb old MsBan then false                         (* (c) *)
  else
    let invited_or_joined := mship_eqb old MsInvite || mship_eqb old MsJoin in
    match ai_join_rule a with
    | JrInvite => invited_or_joined                              (* (d) *)
    | JrKnock => if sr_knock sv then invited_or_joined
                 else dep10_invited_or_joined_may_join_under_any_rule && invited_or_joined
    | JrRestricted | JrKnockRestricted =>                        (* (e) *)
        let enabled :=
          match ai_join_rule a with
          | JrKnockRestricted =>
              sr_restricted sv && (dep7_knock_restricted_wherever_enabled || sr_v10 sv)
          | _ => sr_restricted sv
          end in
        if negb enabled then false      (* such a rule rejects every join where it does not exist *)
        else if invited_or_joined then true
        else match m_via m with
             | [] => false                                      (* dep 11: as under invite *)
             | via =>
                 (sr_pseudo sv || ai_via_split_ok a)
                 && match ai_via_member a with
                    | Some (Some vm) => mship_eqb vm MsJoin
                    | _ => false
                    end
                 && (pl_invite (ai_pl a) <=? spec_level sv a c via)
             end
    | JrPublic => true                                           (* (f) *)
    | JrOther => dep10_invited_or_joined_may_join_under_any_rule && invited_or_joined  (* (g) *)
    end.

(* rule 5, membership invite carrying third_party_invite. The rule belongs to membership invite
   only: on join / leave / ban / knock events a third_party_invite block is just content and plays
   no part below (Auth/TpiBlock.v: block_ignored). *)
Definition spec_third_party_invite (a : auth_input) (t : tpi_info) (target : bytes) (old : mship) : bool :=
  negb (mship_eqb old MsBan)
  && bytes_eqb target (t_mxid t)
  && match ai_tpi_event a with Some (Some _) => true | _ => false end
  && ai_tpi_sender_ok a
  && ai_sig_ok_spec a.

Definition spec_member (sv : spec_rules) (a : auth_input) : bool :=
  match ai_state_key a, ai_new_member a, ai_target_member a, ai_sender_member a with
  | Some target, Some m, Some old, Some sender_m =>
      match ai_create a with
      | None => false
      | Some c =>
          (* the sender is the sender; only the pseudo-ID version maps it through mxid_mapping *)
          let dom := match (if sr_pseudo sv then m_mapping m else None) with
                     | Some md => md | None => ai_sender_domain a end in
          match dom with
          | None => false
          | Some d =>
              if negb (bytes_eqb (ai_room a) (c_room c)) then false
              else if negb (bytes_eqb d (c_sender_domain c) || c_federate c) then false
              else
                let self := bytes_eqb target (ai_sender a) in
                let L := spec_level sv a c in
                let p := ai_pl a in
                match m_membership m with
                | MsJoin => spec_join sv a c m target old
                | MsInvite =>
                    match m_tpi m with
                    | Some t => spec_third_party_invite a t target old
                    | None =>
                        mship_eqb sender_m MsJoin
                        && negb (mship_eqb old MsJoin || mship_eqb old MsBan)
                        && (pl_invite p <=? L (ai_sender a))
                    end
                | MsLeave =>
                    if self then
                      mship_eqb old MsInvite || mship_eqb old MsJoin
                      || (mship_eqb old MsKnock && (sr_knock sv || dep13_knock_to_leave_in_every_version))
                      || (mship_eqb old MsLeave && dep1_leave_to_leave)
                    else if negb (mship_eqb sender_m MsJoin) then false
                    else if mship_eqb old MsBan then
                      (pl_ban p <=? L (ai_sender a))
                      && (dep2_unban_needs_ban_level_only
                          || ((pl_kick p <=? L (ai_sender a)) && (L target <? L (ai_sender a))))
                    else (pl_kick p <=? L (ai_sender a)) && (L target <? L (ai_sender a))
                | MsBan =>
                    mship_eqb sender_m MsJoin
                    && (pl_ban p <=? L (ai_sender a)) && (L target <? L (ai_sender a))
                | MsKnock =>
                    sr_knock sv
                    && match ai_join_rule a with
                       | JrKnock => true
                       | JrKnockRestricted => dep7_knock_restricted_wherever_enabled || sr_v10 sv
                       | _ => false
                       end
                    && self
                    && negb (mship_eqb old MsBan || mship_eqb old MsInvite || mship_eqb old MsJoin)
                | MsOther => false
                end
          end
      end
  | _, _, _, _ => false
  end.

(* rules 6, 8, 9 (7 is the third_party_invite case of the required level) *)
Definition spec_generic (sv : spec_rules) (a : auth_input) : option create_info :=
  match rule3_create a with
  | Some c =>
      if mem_is (ai_sender_member a) MsJoin
         && (pl_event_level (ai_pl a) (ai_type a) (match ai_state_key a with Some _ => true | None => false end)
             <=? spec_level sv a c (ai_sender a))
         && match ai_state_key a with
            | Some (c0 :: r) => negb ((c0 =? 64)%N) || bytes_eqb (c0 :: r) (ai_sender a)
            | _ => true
            end
      then Some c else None
  | None => None
  end.

(* rule 10 *)
Definition changed_ok (L o n : Z) : bool := (o =? n) || ((o <=? L) && (n <=? L)).

Definition spec_power_levels (sv : spec_rules) (a : auth_input) : bool :=
  match spec_generic sv a, ai_new_pl a with
  | Some c, Some new =>
      let old := ai_pl a in
      let L := spec_level sv a c (ai_sender a) in
      ai_new_pl_users_ok a                                                         (* (a) *)
      && (negb (sr_v12 sv) ||
          negb (existsb (fun u => mem_bytes u (c_sender c :: c_additional c)) (map fst (pl_users new)))) (* (b) *)
      && forallb (fun g : pl_content -> Z => changed_ok L (g old) (g new))          (* (d) *)
                 [pl_users_default; pl_events_default; pl_state_default; pl_ban; pl_redact; pl_kick; pl_invite]
      && forallb (fun ty => changed_ok L (pl_event_entry old ty) (pl_event_entry new ty))   (* (e) *)
                 (map fst (pl_events old) ++ map fst (pl_events new))
      && (negb (sr_notifications sv) ||
          forallb (fun n => changed_ok L (pl_notif_level old n) (pl_notif_level new n))
                  (map fst (pl_notifs old) ++ map fst (pl_notifs new)))
      && forallb (fun u =>                                                          (* (f) *)
                    let o := pl_user_level old u in
                    let n := pl_user_level new u in
                    (o =? n) || ((n <=? L) && (bytes_eqb u (ai_sender a) || (o <? L))))
                 (map fst (pl_users old) ++ map fst (pl_users new))
  | _, _ => false
  end.

(* rule 11 (dep 8) *)
Definition spec_redaction (sv : spec_rules) (a : auth_input) : bool :=
  match spec_generic sv a with
  | Some c =>
      let old_rules := match c_room_version c with
                       | Some v => bytes_eqb v [49%N] || bytes_eqb v [50%N]
                       | None => true
                       end in
      if negb old_rules then true
      else
        (pl_redact (ai_pl a) <=? spec_level sv a c (ai_sender a))
        || match ai_redacts_domain a, ai_sender_domain a with
           | Some rd, Some d => bytes_eqb d rd
           | _, _ => false
           end
  | None => false
  end.

Definition decide_spec (sv : spec_rules) (a : auth_input) : bool :=
  ai_one_room a                                                                    (* rule 0 *)
  && match ai_kind a with
     | KCreate => spec_create sv a
     | KAliases => if dep9_aliases_rule_in_every_version || sr_aliases sv then spec_aliases sv a
                   else match spec_generic sv a with Some _ => true | None => false end
     | KMember => spec_member sv a
     | KPowerLevels => spec_power_levels sv a
     | KRedaction => spec_redaction sv a
     | KOther => match spec_generic sv a with Some _ => true | None => false end
     end.
