(* The link between the two vocabularies of property C09: on events whose member names are
   spelled exactly (exact_keys), every (type, state_key) pair the check consults (needed7, over
   C07's accessors, which match member names exactly) is among the tuples of StateNeededForAuth
   (StateNeeded.v, which matches member names the way encoding/json does).
   Excluded: a member event whose content is null -- the needed-state computation fails for it
   (nil membershipContent) and names nothing, while the check still looks up the create event
   before rejecting. *)
From Verif Require Import Lib.Bytes Json.Ast Auth.GoJson Auth.Ids Auth.Types Auth.Versions Auth.Abs
     Auth.C09Needed Auth.StateNeeded Auth.StateNeededProofs.
Open Scope N_scope.

(* ---------- encoding/json's lookup is the exact lookup when no key is a case variant ---------- *)
Lemma fold_eqb_refl k : fold_eqb k k = true.
Proof. induction k as [|c k IH]; simpl; [reflexivity|]. rewrite N.eqb_refl, IH. reflexivity. Qed.

Lemma exact_for_spec ks m k :
  exact_for ks m = true -> In k ks ->
  forall kv, In kv m -> fold_eqb k (fst kv) = bytes_eqb k (fst kv).
Proof.
  unfold exact_for. rewrite forallb_forall. intros H Hk kv Hkv.
  specialize (H kv Hkv). rewrite forallb_forall in H. specialize (H k Hk).
  destruct (bytes_eqb k (fst kv)) eqn:E.
  - apply bytes_eqb_eq in E. rewrite <- E. apply fold_eqb_refl.
  - destruct (fold_eqb k (fst kv)); [discriminate H|reflexivity].
Qed.

Lemma field_acc_exact k (m : list (bytes * json)) acc :
  (forall kv, In kv m -> fold_eqb k (fst kv) = bytes_eqb k (fst kv)) ->
  field_acc k m acc = assoc_last_acc k m acc.
Proof.
  revert acc. induction m as [|[k' v] m IH]; intros acc H; simpl; [reflexivity|].
  pose proof (H (k', v) (or_introl eq_refl)) as E. simpl in E. rewrite E. apply IH. intros kv Hkv. apply H. right. exact Hkv.
Qed.

Lemma field_exact ks m k :
  exact_for ks m = true -> In k ks -> StateNeeded.field k (JObj m) = assoc_last k m.
Proof. intros E Hk. apply field_acc_exact. exact (exact_for_spec ks m k E Hk). Qed.

(* ---------- the accessors agree ---------- *)
Definition top_keys : list bytes :=
  [k_type; k_sender; k_state_key; k_content; k_room_id; k_event_id; k_prev_events; k_redacts].
Definition content_keys : list bytes := [k_membership; k_third_party_invite; k_via; k_mxid_mapping].
Definition tpi_keys : list bytes := [k_signed; k_display_name].
Definition signed_keys : list bytes := [k_token; k_mxid; k_signatures].

Lemma top_field e k : exact_keys e = true -> In k top_keys ->
  StateNeeded.field k e = GoJson.field k (ev_obj e).
Proof.
  intros X Hk. destruct e as [| | | | |m]; try reflexivity.
  unfold exact_keys, obj_exact in X. apply andb_true_iff in X as [X _].
  exact (field_exact _ _ _ X Hk).
Qed.

Lemma ev_type_agree e : exact_keys e = true -> StateNeeded.ev_type e = Abs.ev_type e.
Proof.
  intro X. unfold StateNeeded.ev_type, StateNeeded.str_field, Abs.ev_type, ev_str.
  change (bs "type") with k_type. rewrite (top_field e k_type X) by (simpl; tauto).
  destruct (GoJson.field k_type (ev_obj e)) as [[]|]; reflexivity.
Qed.

Lemma ev_sender_agree e : exact_keys e = true -> StateNeeded.ev_sender e = Abs.ev_sender e.
Proof.
  intro X. unfold StateNeeded.ev_sender, StateNeeded.str_field, Abs.ev_sender, ev_str.
  change (bs "sender") with k_sender. rewrite (top_field e k_sender X) by (simpl; tauto).
  destruct (GoJson.field k_sender (ev_obj e)) as [[]|]; reflexivity.
Qed.

Lemma ev_state_key_agree e : exact_keys e = true -> StateNeeded.ev_state_key e = Abs.ev_state_key e.
Proof.
  intro X. unfold StateNeeded.ev_state_key, StateNeeded.optstr_field, Abs.ev_state_key.
  change (bs "state_key") with k_state_key. rewrite (top_field e k_state_key X) by (simpl; tauto).
  destruct (GoJson.field k_state_key (ev_obj e)) as [[]|]; reflexivity.
Qed.

Lemma ev_content_agree e : exact_keys e = true ->
  StateNeeded.ev_content e = match Abs.ev_content e with Some c => c | None => JNull end.
Proof.
  intro X. unfold StateNeeded.ev_content, Abs.ev_content.
  change (bs "content") with k_content. rewrite (top_field e k_content X) by (simpl; tauto).
  reflexivity.
Qed.

(* exactness of the nested objects *)
Lemma content_exact e o : exact_keys e = true -> content_of e = CoObj o ->
  exact_for content_keys o = true /\
  obj_exact tpi_keys (assoc_last k_third_party_invite o)
    (fun t => obj_exact signed_keys (assoc_last k_signed t) (fun _ => true)) = true.
Proof.
  intros X C. unfold content_of, Abs.ev_content in C.
  destruct e as [| | | | |m]; try discriminate C.
  unfold exact_keys in X. cbn [obj_exact] in X. apply andb_true_iff in X as [_ X].
  cbn [ev_obj] in C. unfold GoJson.field in C.
  destruct (assoc_last k_content m) as [[| | | | |o']|]; try discriminate C.
  inversion C; subst o'. cbn [obj_exact] in X. apply andb_true_iff in X. exact X.
Qed.

(* ---------- the link ---------- *)
Definition null_member (e : json) : bool :=
  match kind_of (Abs.ev_type e), content_of e with
  | KMember, CoNull => true
  | _, _ => false
  end.

Lemma consts_link :
  m_room_create = t_create /\ m_room_aliases = t_aliases /\ m_room_member = t_member /\
  m_room_join_rules = t_join_rules /\ m_room_power_levels = t_power_levels /\
  m_room_third_party_invite = tpi_type /\ k_join = s_join /\ k_knock = s_knock.
Proof. repeat split; reflexivity. Qed.

Lemma in_finish_tuples r k :
  In k (tuples (finish r)) <-> In k (tuples r).
Proof.
  rewrite !tuples_In. unfold finish. cbn [n_create n_join_rules n_power_levels n_member n_tpi].
  split; intros [H|[H|[H|[[u [H E]]|[t [H E]]]]]]; try tauto.
  - right. right. right. left. exists u. split; [apply unique_strings_In; exact H|exact E].
  - right. right. right. right. exists t. split; [apply unique_strings_In; exact H|exact E].
  - right. right. right. left. exists u. split; [apply unique_strings_In; exact H|exact E].
  - right. right. right. right. exists t. split; [apply unique_strings_In; exact H|exact E].
Qed.

(* what accumulateStateNeeded names, by event type *)
Lemma acc_aliases typ sender sk c :
  bytes_eqb typ m_room_create = false -> bytes_eqb typ m_room_aliases = true ->
  n_create (fst (accumulate needed0 typ sender sk c)) = true.
Proof. intros E1 E2. unfold accumulate. rewrite E1, E2. reflexivity. Qed.

Lemma acc_other typ sender sk c :
  bytes_eqb typ m_room_create = false -> bytes_eqb typ m_room_aliases = false ->
  bytes_eqb typ m_room_member = false ->
  let r := fst (accumulate needed0 typ sender sk c) in
  n_create r = true /\ n_power_levels r = true /\ In sender (n_member r).
Proof.
  intros E1 E2 E3. unfold accumulate. rewrite E1, E2, E3. cbn [fst n_create n_power_levels n_member needed0 app].
  repeat split. left. reflexivity.
Qed.

Lemma acc_member typ sender sk mc :
  bytes_eqb typ m_room_create = false -> bytes_eqb typ m_room_aliases = false ->
  bytes_eqb typ m_room_member = true ->
  let r := fst (accumulate needed0 typ sender sk (Some mc)) in
  n_create r = true /\ n_power_levels r = true /\ In sender (n_member r) /\
  (forall t, sk = Some t -> In t (n_member r)) /\
  (bytes_eqb (mc_membership mc) k_join || bytes_eqb (mc_membership mc) k_knock = true -> n_join_rules r = true) /\
  (mc_tpi mc <> Some [] ->
     (mc_via mc <> [] -> In (mc_via mc) (n_member r)) /\ (forall t, mc_tpi mc = Some t -> In t (n_tpi r))).
Proof.
  intros E1 E2 E3. unfold accumulate. rewrite E1, E2, E3.
  assert (J : forall b, bytes_eqb (mc_membership mc) k_join || bytes_eqb (mc_membership mc) k_knock = true ->
              false || bytes_eqb (mc_membership mc) k_join || bytes_eqb (mc_membership mc) k_knock || b = true).
  { intros b H. cbn [orb]. rewrite H. reflexivity. }
  destruct (mc_tpi mc) as [[|c0 tk]|] eqn:T;
    cbn [fst n_create n_power_levels n_member n_join_rules n_tpi needed0 app opt_list].
  - split; [reflexivity|]. split; [reflexivity|]. split; [left; reflexivity|].
    split; [intros t ->; right; left; reflexivity|]. split; [apply J|].
    intro H. contradiction H. reflexivity.
  - repeat split; auto.
    + left. reflexivity.
    + intros t ->. right. left. reflexivity.
    + intro V. right. apply in_or_app. right. destruct (mc_via mc); [contradiction V; reflexivity|left; reflexivity].
    + intros t Ht. inversion Ht. left. reflexivity.
  - repeat split; auto.
    + left. reflexivity.
    + intros t ->. right. left. reflexivity.
    + intro V. right. apply in_or_app. right. destruct (mc_via mc); [contradiction V; reflexivity|left; reflexivity].
    + intros t Ht. discriminate Ht.
Qed.

(* the member content as the two models read it *)
Lemma str_field_link ks o k s :
  exact_for ks o = true -> In k ks -> Abs.str_field k o = Some s -> StateNeeded.str_field k (JObj o) = s.
Proof.
  intros X Hk. unfold Abs.str_field, StateNeeded.str_field. rewrite (field_exact ks o k X Hk).
  unfold GoJson.field. destruct (assoc_last k o) as [[]|]; simpl; congruence.
Qed.

Lemma mship_join s : mship_of s = MsJoin -> bytes_eqb s s_join = true.
Proof. unfold mship_of. destruct (bytes_eqb s s_join); [reflexivity|]. repeat (destruct (bytes_eqb s _); try discriminate). Qed.

Lemma mship_knock s : mship_of s = MsKnock -> bytes_eqb s s_knock = true.
Proof. unfold mship_of. destruct (bytes_eqb s s_knock); [reflexivity|]. repeat (destruct (bytes_eqb s _); try discriminate). Qed.

Lemma tpi_link o tp :
  exact_for content_keys o = true ->
  obj_exact tpi_keys (assoc_last k_third_party_invite o)
    (fun t => obj_exact signed_keys (assoc_last k_signed t) (fun _ => true)) = true ->
  dec_tpi (GoJson.field k_third_party_invite o) = Some tp ->
  tpi_of (JObj o) = option_map t_token tp.
Proof.
  intros X XT. unfold tpi_of. change (bs "third_party_invite") with k_third_party_invite.
  rewrite (field_exact content_keys o k_third_party_invite X) by (simpl; tauto).
  unfold GoJson.field, dec_tpi. destruct (assoc_last k_third_party_invite o) as [[| | | | |t]|];
    try discriminate; try (intro H; inversion H; reflexivity).
  cbn [obj_exact] in XT. apply andb_true_iff in XT as [XT XS].
  change (bs "signed") with k_signed. rewrite (field_exact tpi_keys t k_signed XT) by (simpl; tauto).
  destruct (Abs.str_field k_display_name t); [|discriminate].
  unfold GoJson.field. destruct (assoc_last k_signed t) as [[| | | | |sg]|];
    try discriminate; try (intro H; inversion H; reflexivity).
  cbn [obj_exact] in XS. apply andb_true_iff in XS as [XS _].
  destruct (Abs.str_field k_mxid sg); [|discriminate].
  destruct (Abs.str_field k_token sg) as [tk|] eqn:TK; [|discriminate].
  destruct (dec_sig_map _); [|discriminate]. intro H. inversion H. cbn [option_map t_token]. f_equal.
  change (bs "token") with k_token. apply (str_field_link signed_keys); [exact XS|simpl; tauto|exact TK].
Qed.

Lemma nonempty_ne s : nonempty s = true -> s <> [].
Proof. destruct s; [discriminate|]. intros _ H. discriminate H. Qed.

Theorem needed7_within_state_needed e :
  exact_keys e = true -> null_member e = false ->
  forall k, In k (needed7 e) -> In k (tuples (state_needed e)).
Proof.
  intros X NM k. rewrite state_needed_single, in_finish_tuples, tuples_In.
  rewrite (ev_type_agree e X), (ev_sender_agree e X), (ev_state_key_agree e X), (ev_content_agree e X).
  destruct consts_link as (C1 & C2 & C3 & C4 & C5 & C6 & C7 & C8).
  unfold needed7, null_member in *. unfold kind_of in *.
  destruct (bytes_eqb (Abs.ev_type e) t_create) eqn:E1; [intros []|].
  destruct (bytes_eqb (Abs.ev_type e) t_aliases) eqn:E2.
  { intros [<-|[]]. left. split; [|rewrite C1; reflexivity].
    apply acc_aliases; [rewrite C1; exact E1|rewrite C2; exact E2]. }
  destruct (bytes_eqb (Abs.ev_type e) t_member) eqn:E3.
  2:{ rewrite <- C3 in E3. rewrite E3.
      destruct (acc_other (Abs.ev_type e) (Abs.ev_sender e) (Abs.ev_state_key e) None) as (A1 & A2 & A3);
        [rewrite C1; exact E1|rewrite C2; exact E2|exact E3|].
      rewrite C1, C3, C5.
      destruct (bytes_eqb (Abs.ev_type e) t_power_levels); [|destruct (bytes_eqb (Abs.ev_type e) t_redaction)];
        (intros [<-|[<-|[<-|[]]]]; [left; auto|right; right; left; auto|right; right; right; left; eauto]). }
  destruct (member_of_event e) as [m|] eqn:M; [|intros []].
  unfold member_of_event in M. destruct (content_of e) as [| |o|] eqn:CO; try discriminate M; [discriminate NM|].
  destruct (content_exact e o X CO) as [XC XT].
  destruct (Abs.str_field k_membership o) as [ms|] eqn:MS; [|discriminate M].
  destruct (dec_tpi (GoJson.field k_third_party_invite o)) as [tp|] eqn:TP; [|discriminate M].
  destruct (Abs.str_field k_via o) as [via|] eqn:VIA; [|discriminate M].
  destruct (dec_mapping _); [|discriminate M]. inversion M; subst m; clear M.
  rewrite <- C3 in E3. rewrite E3.
  unfold content_of in CO. destruct (Abs.ev_content e) as [[| | | | |o']|]; try discriminate CO.
  inversion CO; subst o'; clear CO.
  change (member_content (JObj o)) with
    (Some {| mc_membership := StateNeeded.str_field (bs "membership") (JObj o); mc_tpi := tpi_of (JObj o);
             mc_via := StateNeeded.str_field (bs "join_authorised_via_users_server") (JObj o) |}).
  change (bs "membership") with k_membership. change (bs "join_authorised_via_users_server") with k_via.
  rewrite (str_field_link content_keys o k_membership ms XC) by (simpl; tauto || exact MS).
  rewrite (str_field_link content_keys o k_via via XC) by (simpl; tauto || exact VIA).
  rewrite (tpi_link o tp XC XT TP).
  set (mc := {| mc_membership := ms; mc_tpi := option_map t_token tp; mc_via := via |}).
  destruct (acc_member (Abs.ev_type e) (Abs.ev_sender e) (Abs.ev_state_key e) mc)
    as (A1 & A2 & A3 & A4 & A5 & A6); [rewrite C1; exact E1|rewrite C2; exact E2|exact E3|].
  cbn [mc_membership mc_tpi mc_via mc] in A5, A6.
  rewrite C1, C3, C4, C5, C6. rewrite C7, C8 in A5.
  unfold needed7_member. cbn [m_tpi m_membership m_via].
  (* the join rule *)
  assert (JR : In k (match mship_of ms with MsJoin | MsKnock => [(t_join_rules, [])] | _ => [] end) ->
               n_join_rules (fst (accumulate needed0 (Abs.ev_type e) (Abs.ev_sender e) (Abs.ev_state_key e) (Some mc))) = true
               /\ k = (t_join_rules, [])).
  { destruct (mship_of ms) eqn:MM; cbn [In]; try tauto; intros [<-|[]]; (split; [|reflexivity]); apply A5.
    - rewrite (mship_join ms MM). reflexivity.
    - rewrite (mship_knock ms MM). apply orb_true_r. }
  rewrite !in_app_iff. intros [B|[T|R]].
  - destruct B as [<-|[<-|[<-|[]]]]; [left; auto|right; right; left; auto|right; right; right; left; eauto].
  - destruct (Abs.ev_state_key e) as [t|]; [|destruct T]. destruct T as [<-|[]].
    right. right. right. left. exists t. split; [apply A4; reflexivity|reflexivity].
  - destruct tp as [t|]; cbn [option_map] in A6.
    + destruct (nonempty (t_token t)) eqn:NE; [|destruct R].
      destruct A6 as [A6 A7]; [intro H; inversion H as [H']; apply (nonempty_ne _ NE); exact H'|].
      rewrite !in_app_iff in R. destruct R as [[<-|[]]|[R|R]].
      * right. right. right. right. exists (t_token t). split; [apply A7; reflexivity|reflexivity].
      * right. left. apply JR. exact R.
      * destruct (nonempty via) eqn:NV; [|destruct R]. destruct R as [<-|[]].
        right. right. right. left. exists via. split; [apply A6, nonempty_ne, NV|reflexivity].
    + destruct A6 as [A6 A7]; [discriminate|]. apply in_app_iff in R. destruct R as [R|R].
      * right. left. apply JR. exact R.
      * destruct (nonempty via) eqn:NV; [|destruct R]. destruct R as [<-|[]].
        right. right. right. left. exists via. split; [apply A6, nonempty_ne, NV|reflexivity].
Qed.
