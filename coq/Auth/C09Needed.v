(* The read-set of a check in the vocabulary of C07's auth model (property C09): the
   (type, state_key) pairs under which the repaired check (CheckerAuth.allowed9) consults the
   provider for an event. C09NeededProofs.v proves that the verdict depends on the auth state
   only through these lookups; the harness compares the read-set with StateNeededForAuth.
   Executable Gallina only. *)
From Verif Require Import Lib.Bytes Json.Ast Auth.GoJson Auth.Ids Auth.Types Auth.Versions Auth.Abs.
Open Scope N_scope.

Definition nonempty (s : bytes) : bool := match s with [] => false | _ => true end.

Definition needed7_member (e : json) (m : member_info) : list (bytes * bytes) :=
  [(t_create, []); (t_power_levels, []); (t_member, Abs.ev_sender e)] ++
  match Abs.ev_state_key e with Some target => [(t_member, target)] | None => [] end ++
  match m_tpi m with
  | Some t =>
      if nonempty (t_token t) then
        (* the invite is looked up; everything else is read as usual *)
        [(tpi_type, t_token t)] ++
        (match m_membership m with MsJoin | MsKnock => [(t_join_rules, [])] | _ => [] end) ++
        (if nonempty (m_via m) then [(t_member, m_via m)] else [])
      else []   (* rejected before the join rule or the authoriser are read *)
  | None =>
      (match m_membership m with MsJoin | MsKnock => [(t_join_rules, [])] | _ => [] end) ++
      (if nonempty (m_via m) then [(t_member, m_via m)] else [])
  end.

Definition needed7 (e : json) : list (bytes * bytes) :=
  match kind_of (Abs.ev_type e) with
  | KCreate => []
  | KAliases => [(t_create, [])]
  | KMember =>
      match member_of_event e with
      | Some m => needed7_member e m
      | None => []          (* content does not parse: rejected without reading anything *)
      end
  | _ => [(t_create, []); (t_power_levels, []); (t_member, Abs.ev_sender e)]
  end.
