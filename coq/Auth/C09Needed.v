(* The read-set of a check in the vocabulary of C07's auth model (property C09): the
   (type, state_key) pairs under which the repaired check (CheckerAuth.allowed9) consults the
   provider for an event. C09NeededProofs.v proves that the verdict depends on the auth state
   only through these lookups; the harness compares the read-set with StateNeededForAuth.
   Executable Gallina only. *)
From Verif Require Import Lib.Bytes Json.Ast Auth.GoJson Auth.Ids Auth.Types Auth.Versions Auth.Abs.
Open Scope N_scope.

Definition nonempty (s : bytes) : bool := match s with [] => false | _ => true end.

Definition needed7_member (e : json) (m : member_info) : list (bytes * bytes) :=
  [(t_create, []); (t_power_levels, []); (t_member, Abs.ev_sender e)] ++
  match Abs.ev_state_key e with Some target => [(t_member, target)] | None => [] end ++
  match m_tpi m with
  | Some t =>
      if nonempty (t_token t) then
        (* the invite is looked up; everything else is read as usual *)
        [(tpi_type, t_token t)] ++
        (match m_membership m with MsJoin | MsKnock => [(t_join_rules, [])] | _ => [] end) ++
        (if nonempty (m_via m) then [(t_member, m_via m)] else [])
      else []   (* rejected before the join rule or the authoriser are read *)
  | None =>
      (match m_membership m with MsJoin | MsKnock => [(t_join_rules, [])] | _ => [] end) ++
      (if nonempty (m_via m) then [(t_member, m_via m)] else [])
  end.

Definition needed7 (e : json) : list (bytes * bytes) :=
  match kind_of (Abs.ev_type e) with
  | KCreate => []
  | KAliases => [(t_create, [])]
  | KMember =>
      match member_of_event e with
      | Some m => needed7_member e m
      | None => []          (* content does not parse: rejected without reading anything *)
      end
  | _ => [(t_create, []); (t_power_levels, []); (t_member, Abs.ev_sender e)]
  end.

(* ---------- the domain on which C07's accessors (exact key match) and encoding/json (ASCII
   case-insensitive match, modelled in StateNeeded.v) read the same members ---------- *)
From Verif Require Import Auth.StateNeeded.

Definition exact_for (ks : list bytes) (m : list (bytes * json)) : bool :=
  forallb (fun kv => forallb (fun k => implb (fold_eqb k (fst kv)) (bytes_eqb k (fst kv))) ks) m.

Definition obj_exact (ks : list bytes) (j : option json) (inner : list (bytes * json) -> bool) : bool :=
  match j with
  | Some (JObj m) => exact_for ks m && inner m
  | _ => true
  end.

Definition exact_keys (e : json) : bool :=
  obj_exact [k_type; k_sender; k_state_key; k_content; k_room_id; k_event_id; k_prev_events; k_redacts] (Some e)
    (fun m => obj_exact [k_membership; k_third_party_invite; k_via; k_mxid_mapping] (assoc_last k_content m)
      (fun c => obj_exact [k_signed; k_display_name] (assoc_last k_third_party_invite c)
        (fun t => obj_exact [k_token; k_mxid; k_signatures] (assoc_last k_signed t) (fun _ => true)))).
