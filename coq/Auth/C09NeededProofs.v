(* verdict_depends_on_needed_only over C07's auth model (with the empty-token repair):
   two auth states that answer the lookups of needed7 e alike (and agree on the two whole-provider
   tests NewAuthEvents / Valid) give the same verdict. *)
From Verif Require Import Lib.Bytes Json.Ast Auth.GoJson Auth.Ids Auth.Types Auth.Versions Auth.Abs Auth.Decide
     Auth.Model Auth.Checker Auth.CheckerAuth Auth.CheckerAuthProofs Auth.C09Needed.
Open Scope N_scope.

(* ---------- which fields each branch of the decision reads ---------- *)
Definition tpi_loaded (a : auth_input) (m : member_info) : bool :=
  match m_tpi m with
  | None => true
  | Some _ => match ai_tpi_event a with Some (Some _) => true | _ => false end
  end.

Lemma decide_member_reads a a' :
  ai_flags a = ai_flags a' -> ai_room a = ai_room a' -> ai_sender a = ai_sender a' ->
  ai_sender_domain a = ai_sender_domain a' -> ai_state_key a = ai_state_key a' -> ai_prev a = ai_prev a' ->
  ai_new_member a = ai_new_member a' -> ai_via_split_ok a = ai_via_split_ok a' ->
  (forall target m, ai_state_key a = Some target -> ai_new_member a = Some m ->
     ai_create a = ai_create a' /\ ai_pl_present a = ai_pl_present a' /\ ai_pl a = ai_pl a' /\
     ai_sender_member a = ai_sender_member a' /\ ai_target_member a = ai_target_member a' /\
     (m_tpi m <> None -> ai_tpi_event a = ai_tpi_event a' /\ ai_sig_ok a = ai_sig_ok a') /\
     (tpi_loaded a m = true ->
        ((m_membership m = MsJoin \/ m_membership m = MsKnock) -> ai_join_rule a = ai_join_rule a') /\
        (m_via m <> [] -> ai_via_member a = ai_via_member a'))) ->
  decide_member a = decide_member a'.
Proof.
  destruct a, a'; simpl. intros; subst.
  unfold decide_member; simpl.
  destruct ai_state_key0 as [target|]; [|reflexivity].
  destruct ai_new_member0 as [m|]; [|reflexivity].
  destruct (H7 target m eq_refl eq_refl) as [? [? [? [? [? [HT HL]]]]]]. clear H7. subst.
  destruct ai_target_member0 as [old|]; [|reflexivity].
  destruct ai_sender_member0 as [sm|]; [|reflexivity].
  unfold tpi_loaded in HL; simpl in HL.
  destruct m as [ms tp via mp]; simpl in *.
  destruct tp as [t|].
  - destruct HT as [HT1 HT2]; [discriminate|]. subst.
    destruct ai_tpi_event0 as [[keys|]|]; simpl; try reflexivity.
    destruct (HL eq_refl) as [HJ HV]. clear HL.
    destruct ai_create0 as [c|]; [|reflexivity].
    destruct ms; simpl;
      try (rewrite (HJ (or_introl eq_refl)) by auto); try (rewrite (HJ (or_intror eq_refl)) by auto);
      unfold member_self, member_other, restricted_join; simpl;
      destruct via as [|v0 vr]; destruct old; simpl; try reflexivity;
      try (rewrite (HV ltac:(discriminate))); reflexivity.
  - clear HT. destruct (HL eq_refl) as [HJ HV]. clear HL.
    destruct ai_create0 as [c|]; [|reflexivity].
    destruct ms; simpl;
      try (rewrite (HJ (or_introl eq_refl)) by auto); try (rewrite (HJ (or_intror eq_refl)) by auto);
      unfold member_self, member_other, restricted_join; simpl;
      destruct via as [|v0 vr]; destruct old; simpl; try reflexivity;
      try (rewrite (HV ltac:(discriminate))); reflexivity.
Qed.

Lemma decide_create_reads a a' :
  ai_flags a = ai_flags a' -> ai_state_key a = ai_state_key a' -> ai_prev a = ai_prev a' ->
  ai_sender_domain a = ai_sender_domain a' -> ai_room_kind a = ai_room_kind a' -> ai_cc a = ai_cc a' ->
  decide_create a = decide_create a'.
Proof. destruct a, a'; simpl. intros; subst. reflexivity. Qed.

Lemma decide_aliases_reads a a' :
  ai_flags a = ai_flags a' -> ai_state_key a = ai_state_key a' -> ai_room a = ai_room a' ->
  ai_sender a = ai_sender a' -> ai_sender_domain a = ai_sender_domain a' -> ai_create a = ai_create a' ->
  decide_aliases a = decide_aliases a'.
Proof. destruct a, a'; simpl. intros; subst. reflexivity. Qed.

(* everything the other three kinds read *)
Definition common_fields_eq (a a' : auth_input) : Prop :=
  ai_flags a = ai_flags a' /\ ai_type a = ai_type a' /\ ai_room a = ai_room a' /\ ai_sender a = ai_sender a' /\
  ai_sender_domain a = ai_sender_domain a' /\ ai_state_key a = ai_state_key a' /\
  ai_create a = ai_create a' /\ ai_pl_present a = ai_pl_present a' /\ ai_pl a = ai_pl a' /\
  ai_sender_member a = ai_sender_member a' /\
  ai_new_pl a = ai_new_pl a' /\ ai_new_pl_users_ok a = ai_new_pl_users_ok a' /\
  ai_redacts_domain a = ai_redacts_domain a'.

Lemma decide_default_reads a a' : common_fields_eq a a' -> decide_default a = decide_default a'.
Proof.
  unfold common_fields_eq. destruct a, a'; simpl.
  intros [? [? [? [? [? [? [? [? [? [? [? [? ?]]]]]]]]]]]]; subst. reflexivity.
Qed.

Lemma decide_power_levels_reads a a' : common_fields_eq a a' -> decide_power_levels a = decide_power_levels a'.
Proof.
  unfold common_fields_eq. destruct a, a'; simpl.
  intros [? [? [? [? [? [? [? [? [? [? [? [? ?]]]]]]]]]]]]; subst. reflexivity.
Qed.

Lemma decide_redaction_reads a a' : common_fields_eq a a' -> decide_redaction a = decide_redaction a'.
Proof.
  unfold common_fields_eq. destruct a, a'; simpl.
  intros [? [? [? [? [? [? [? [? [? [? [? [? ?]]]]]]]]]]]]; subst. reflexivity.
Qed.

Lemma decide_model_reads a a' :
  ai_provider_ok a = ai_provider_ok a' -> ai_one_room a = ai_one_room a' ->
  ai_room_kind a = ai_room_kind a' -> ai_kind a = ai_kind a' ->
  (ai_kind a = KCreate -> decide_create a = decide_create a') ->
  (ai_kind a = KAliases -> decide_aliases a = decide_aliases a') ->
  (ai_kind a = KMember -> decide_member a = decide_member a') ->
  (ai_kind a = KPowerLevels -> decide_power_levels a = decide_power_levels a') ->
  (ai_kind a = KRedaction -> decide_redaction a = decide_redaction a') ->
  (ai_kind a = KOther -> decide_default a = decide_default a') ->
  decide_model a = decide_model a'.
Proof.
  intros H1 H2 H3 H4 C1 C2 C3 C4 C5 C6. unfold decide_model.
  rewrite <- H1, <- H2, <- H3, <- H4.
  destruct (negb (ai_provider_ok a)); [reflexivity|].
  destruct (negb (ai_one_room a)); [reflexivity|].
  destruct (ai_room_kind a); try reflexivity;
    destruct (ai_kind a); auto.
Qed.

(* ---------- the provider enters abs only through find_auth, provider_ok and one_room ---------- *)
Definition agree_on (ks : list (bytes * bytes)) (st st' : list json) : Prop :=
  forall ty sk, In (ty, sk) ks -> find_auth ty sk st = find_auth ty sk st'.

Lemma create_of_agree f st st' :
  find_auth t_create [] st = find_auth t_create [] st' -> create_of f st = create_of f st'.
Proof. intro H. rewrite (create_of_slot f st), (create_of_slot f st'), H. reflexivity. Qed.

Lemma join_rule_of_agree st st' :
  find_auth t_join_rules [] st = find_auth t_join_rules [] st' -> join_rule_of st = join_rule_of st'.
Proof. intro H. rewrite (join_rule_of_slot st), (join_rule_of_slot st'), H. reflexivity. Qed.

Lemma member_from_auth_agree st st' u :
  find_auth t_member u st = find_auth t_member u st' -> member_from_auth st u = member_from_auth st' u.
Proof. intro H. unfold member_from_auth. rewrite H. reflexivity. Qed.

Section Needed.
  Variable sig_of : json -> bytes -> bytes -> bytes -> bool.
  Variable f : ver_flags.

  Notation A := (abs_fixed sig_of f).

  Lemma in_needed7_create e :
    kind_of (Abs.ev_type e) <> KCreate ->
    (kind_of (Abs.ev_type e) = KMember -> member_of_event e <> None) ->
    In (t_create, []) (needed7 e).
  Proof.
    unfold needed7. destruct (kind_of (Abs.ev_type e)); intros H M; try congruence; simpl; auto.
    destruct (member_of_event e); [|exfalso; apply M; auto].
    unfold needed7_member. simpl. auto.
  Qed.

  Lemma pl_fields_agree e st st' :
    find_auth t_create [] st = find_auth t_create [] st' ->
    find_auth t_power_levels [] st = find_auth t_power_levels [] st' ->
    ai_pl_present (A e st) = ai_pl_present (A e st') /\ ai_pl (A e st) = ai_pl (A e st').
  Proof.
    intros HC HP. unfold abs_fixed, abs9_core, abs. cbv zeta. cbn [ai_pl_present ai_pl]. unfold pl_of_auths.
    rewrite (create_of_agree f st st' HC), HP. split; reflexivity.
  Qed.

  Lemma common_agree e st st' :
    In (t_create, []) (needed7 e) -> In (t_power_levels, []) (needed7 e) ->
    In (t_member, Abs.ev_sender e) (needed7 e) ->
    agree_on (needed7 e) st st' -> common_fields_eq (A e st) (A e st').
  Proof.
    intros I1 I2 I3 AG.
    destruct (pl_fields_agree e st st' (AG _ _ I1) (AG _ _ I2)) as [P1 P2].
    unfold common_fields_eq. repeat split; try reflexivity; try assumption.
    - apply (create_of_agree f). apply (AG _ _ I1).
    - apply member_from_auth_agree. apply (AG _ _ I3).
  Qed.

  Theorem allowed9_depends_on_needed7 e st st' :
    agree_on (needed7 e) st st' ->
    provider_ok st = provider_ok st' -> valid9 f st = valid9 f st' ->
    allowed9 sig_of f e st = allowed9 sig_of f e st'.
  Proof.
    intros AG PO OR. unfold allowed9.
    apply decide_model_reads; try reflexivity; try assumption.
    - (* aliases *)
      intro K. change (kind_of (Abs.ev_type e) = KAliases) in K.
      apply decide_aliases_reads; try reflexivity.
      apply (create_of_agree f). apply AG. unfold needed7. rewrite K. simpl. auto.
    - (* member *)
      intro K. change (kind_of (Abs.ev_type e) = KMember) in K.
      apply decide_member_reads; try reflexivity.
      intros target m SK NM.
      change (Abs.ev_state_key e = Some target) in SK.
      assert (ME : member_of_event e = Some m).
      { unfold abs_fixed, abs9_core, abs in NM. cbv zeta in NM. cbn [ai_new_member] in NM.
        rewrite K in NM. exact NM. }
      assert (N7 : needed7 e = needed7_member e m) by (unfold needed7; rewrite K, ME; reflexivity).
      rewrite N7 in AG. unfold needed7_member in AG. rewrite SK in AG.
      assert (I1 : find_auth t_create [] st = find_auth t_create [] st') by (apply AG; simpl; auto).
      assert (I2 : find_auth t_power_levels [] st = find_auth t_power_levels [] st') by (apply AG; simpl; auto).
      assert (I3 : find_auth t_member (Abs.ev_sender e) st = find_auth t_member (Abs.ev_sender e) st')
        by (apply AG; simpl; auto).
      assert (I4 : find_auth t_member target st = find_auth t_member target st') by (apply AG; simpl; auto 6).
      destruct (pl_fields_agree e st st' I1 I2) as [P1 P2].
      split; [apply (create_of_agree f); exact I1|].
      split; [exact P1|]. split; [exact P2|].
      split; [apply member_from_auth_agree; exact I3|].
      split.
      { unfold abs_fixed, abs9_core, abs. cbv zeta. cbn [ai_target_member]. rewrite SK.
        apply member_from_auth_agree; exact I4. }
      (* the conditional reads *)
      assert (ETI : empty_token_invite e =
                    match m_tpi m with Some t => negb (nonempty (t_token t)) | None => false end).
      { unfold empty_token_invite. rewrite K, ME. destruct (m_tpi m) as [t|]; [|reflexivity].
        destruct (t_token t); reflexivity. }
      split.
      + intro TP. destruct (m_tpi m) as [t|] eqn:MT; [|congruence].
        unfold abs_fixed, abs9_core. cbn [ai_tpi_event ai_sig_ok]. rewrite ETI.
        destruct (nonempty (t_token t)) eqn:NE; simpl; [|split; reflexivity].
        assert (I5 : find_auth tpi_type (t_token t) st = find_auth tpi_type (t_token t) st')
          by (apply AG; simpl; auto 8).
        unfold abs. cbv zeta. cbn [ai_tpi_event ai_sig_ok]. rewrite K, ME, MT, I5. split; reflexivity.
      + intro LD.
        assert (REST : In (t_join_rules, []) (needed7_member e m) \/ True) by (right; exact I).
        clear REST.
        (* when the invite is loaded the token is not empty, so the remaining keys are in needed7 *)
        assert (TAIL : forall k,
                  In k ((match m_membership m with MsJoin | MsKnock => [(t_join_rules, [])] | _ => [] end) ++
                        (if nonempty (m_via m) then [(t_member, m_via m)] else [])) ->
                  find_auth (fst k) (snd k) st = find_auth (fst k) (snd k) st').
        { intros [ty sk] Hk. apply AG. simpl. right; right; right; right.
          destruct (m_tpi m) as [t|] eqn:MT.
          - destruct (nonempty (t_token t)) eqn:NE.
            + simpl. right. exact Hk.
            + exfalso. unfold tpi_loaded in LD. rewrite MT in LD.
              unfold abs_fixed, abs9_core in LD. cbn [ai_tpi_event] in LD. rewrite ETI in LD.
              simpl in LD. discriminate.
          - exact Hk. }
        split.
        * intro MS. unfold abs_fixed, abs9_core, abs. cbv zeta. cbn [ai_join_rule].
          apply join_rule_of_agree. apply (TAIL (t_join_rules, [])).
          apply in_or_app. left. destruct MS as [MS|MS]; rewrite MS; simpl; auto.
        * intro VN. unfold abs_fixed, abs9_core, abs. cbv zeta. cbn [ai_via_member].
          rewrite ME. cbn [m_via].
          assert (HV : find_auth t_member (m_via m) st = find_auth t_member (m_via m) st').
          { apply (TAIL (t_member, m_via m)). apply in_or_app. right.
            destruct (m_via m); [congruence|]. simpl. auto. }
          rewrite HV. reflexivity.
    - (* power levels *)
      intro K. change (kind_of (Abs.ev_type e) = KPowerLevels) in K.
      apply decide_power_levels_reads. apply common_agree; try exact AG; unfold needed7; rewrite K; simpl; auto.
    - (* redaction *)
      intro K. change (kind_of (Abs.ev_type e) = KRedaction) in K.
      apply decide_redaction_reads. apply common_agree; try exact AG; unfold needed7; rewrite K; simpl; auto.
    - (* other *)
      intro K. change (kind_of (Abs.ev_type e) = KOther) in K.
      apply decide_default_reads. apply common_agree; try exact AG; unfold needed7; rewrite K; simpl; auto.
  Qed.
End Needed.
