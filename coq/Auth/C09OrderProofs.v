(* Supply order and unrelated state, in the vocabulary of C07's auth model (property C09):
   find_auth, provider_ok and one_room are invariant under permutation of a provider list with
   one event per key, and find_auth ignores events filed under other keys. *)
From Verif Require Import Lib.Bytes Json.Ast Auth.GoJson Auth.Ids Auth.Types Auth.Versions Auth.Abs
     Auth.Checker Auth.CheckerAuth Auth.CheckerAuthProofs.
From Coq Require Import Permutation.
Open Scope N_scope.

(* the key an AuthEvents provider files an event under (None: not a state event) *)
Definition key7 (a : json) : bytes * option bytes := (Abs.ev_type a, Abs.ev_state_key a).

Lemma matches7_key ty sk a : matches7 (ty, sk) a = true <-> key7 a = (ty, Some sk).
Proof.
  unfold matches7, key7, state_key_is. simpl. rewrite andb_true_iff, bytes_eqb_eq.
  destruct (Abs.ev_state_key a) as [k|].
  - rewrite bytes_eqb_eq. split; [intros [? ?]; subst; reflexivity|intro H; inversion H; auto].
  - split; [intros [_ H]; discriminate|intro H; inversion H].
Qed.

Lemma find_auth_app ty sk a b :
  find_auth ty sk (a ++ b) = match find_auth ty sk b with Some x => Some x | None => find_auth ty sk a end.
Proof.
  induction a as [|x a IH]; simpl; [destruct (find_auth ty sk b); reflexivity|].
  rewrite IH. destruct (find_auth ty sk b); reflexivity.
Qed.

Lemma find_auth_none_iff ty sk l :
  find_auth ty sk l = None <-> forall e, In e l -> matches7 (ty, sk) e = false.
Proof.
  split; [apply find_auth_none|].
  induction l as [|a r IH]; intro H; simpl; [reflexivity|].
  rewrite IH by (intros e He; apply H; right; exact He).
  pose proof (H a (or_introl eq_refl)) as M. unfold matches7 in M. simpl in M. rewrite M. reflexivity.
Qed.

Lemma find_auth_distinct ty sk l e :
  NoDup (map key7 l) -> In e l -> key7 e = (ty, Some sk) -> find_auth ty sk l = Some e.
Proof.
  intros ND Hin Hk. apply in_split in Hin as [a [b E]]. subst l.
  rewrite map_app in ND. simpl in ND. apply NoDup_remove_2 in ND.
  rewrite find_auth_app. simpl.
  assert (Fb : find_auth ty sk b = None).
  { apply find_auth_none_iff. intros x Hx. destruct (matches7 (ty, sk) x) eqn:M; [|reflexivity].
    apply matches7_key in M. exfalso. apply ND. apply in_or_app. right. rewrite Hk, <- M. apply in_map. exact Hx. }
  rewrite Fb. apply matches7_key in Hk. unfold matches7 in Hk. simpl in Hk. rewrite Hk. reflexivity.
Qed.

Lemma find_auth_permutation ty sk st st' :
  NoDup (map key7 st) -> Permutation st st' -> find_auth ty sk st = find_auth ty sk st'.
Proof.
  intros ND P.
  assert (ND' : NoDup (map key7 st')) by (eapply Permutation_NoDup; [apply Permutation_map; exact P|exact ND]).
  destruct (find_auth ty sk st) as [e|] eqn:F.
  - apply find_auth_matches in F as [Hin M]. apply matches7_key in M. symmetry.
    apply find_auth_distinct; auto. eapply Permutation_in; eauto.
  - destruct (find_auth ty sk st') as [e'|] eqn:F'; [|reflexivity].
    apply find_auth_matches in F' as [Hin M]. apply matches7_key in M.
    assert (In e' st) by (eapply Permutation_in; [apply Permutation_sym; exact P|exact Hin]).
    rewrite (find_auth_distinct ty sk st e' ND H M) in F. discriminate.
Qed.

Lemma provider_ok_permutation st st' : Permutation st st' -> provider_ok st = provider_ok st'.
Proof.
  intro P. unfold provider_ok.
  destruct (forallb _ st) eqn:A; symmetry.
  - rewrite forallb_forall in *. intros x Hx. apply A. eapply Permutation_in; [apply Permutation_sym; exact P|exact Hx].
  - destruct (forallb _ st') eqn:B; [|reflexivity].
    rewrite forallb_forall in B. rewrite <- A. symmetry. apply forallb_forall.
    intros x Hx. apply B. eapply Permutation_in; eauto.
Qed.

(* un-needed state: events filed under other keys do not change a lookup *)
Lemma find_auth_add_unrelated ty sk st extra :
  (forall x, In x extra -> matches7 (ty, sk) x = false) ->
  find_auth ty sk (st ++ extra) = find_auth ty sk st /\ find_auth ty sk (extra ++ st) = find_auth ty sk st.
Proof.
  intro H. rewrite !find_auth_app.
  assert (E : find_auth ty sk extra = None) by (apply find_auth_none_iff; exact H).
  rewrite E. split; [reflexivity|]. destruct (find_auth ty sk st); reflexivity.
Qed.

Lemma find_auth_filter ty sk st (keep : json -> bool) :
  (forall x, In x st -> matches7 (ty, sk) x = true -> keep x = true) ->
  find_auth ty sk (filter keep st) = find_auth ty sk st.
Proof.
  induction st as [|a r IH]; intro H; simpl; [reflexivity|].
  assert (IH' : find_auth ty sk (filter keep r) = find_auth ty sk r)
    by (apply IH; intros x Hx; apply H; right; exact Hx).
  destruct (keep a) eqn:K; simpl; rewrite IH'; [reflexivity|].
  destruct (find_auth ty sk r); [reflexivity|].
  destruct (bytes_eqb (Abs.ev_type a) ty && state_key_is a sk) eqn:M; [|reflexivity].
  rewrite (H a (or_introl eq_refl) M) in K. discriminate.
Qed.

(* ---------- AuthEvents.Valid: all events of one room ---------- *)
Lemma distinct_rooms_spec rooms seen x :
  In x (distinct_rooms rooms seen) <-> In x rooms \/ In x seen.
Proof.
  revert seen; induction rooms as [|r rs IH]; intro seen; simpl; [tauto|].
  destruct (mem_bytes r seen) eqn:M; rewrite IH; simpl.
  - apply mem_bytes_In in M. split; [intros [H|H]; auto|intros [[H|H]|H]; subst; auto].
  - split; [intros [H|[H|H]]; auto|intros [[H|H]|H]; auto].
Qed.

Lemma distinct_rooms_nodup rooms seen : NoDup seen -> NoDup (distinct_rooms rooms seen).
Proof.
  revert seen; induction rooms as [|r rs IH]; intros seen ND; simpl; [exact ND|].
  destruct (mem_bytes r seen) eqn:M; apply IH; [exact ND|].
  constructor; [|exact ND]. intro H. apply mem_bytes_In in H. congruence.
Qed.

Lemma one_room_spec f st :
  one_room f st = true <-> forall a b, In a st -> In b st -> ev_room f a = ev_room f b.
Proof.
  unfold one_room.
  pose proof (distinct_rooms_nodup (map (ev_room f) st) [] (NoDup_nil _)) as ND.
  pose proof (fun x => distinct_rooms_spec (map (ev_room f) st) [] x) as SP.
  destruct (distinct_rooms (map (ev_room f) st) []) as [|r1 [|r2 rest]].
  - split; [|reflexivity]. intros _ a b Ha Hb. exfalso. apply (proj2 (SP (ev_room f a))). left. apply in_map. exact Ha.
  - split; [|reflexivity]. intros _ a b Ha Hb.
    assert (Ea : In (ev_room f a) [r1]) by (apply SP; left; apply in_map; exact Ha).
    assert (Eb : In (ev_room f b) [r1]) by (apply SP; left; apply in_map; exact Hb).
    simpl in Ea, Eb. destruct Ea as [Ea|[]], Eb as [Eb|[]]. congruence.
  - split; [discriminate|]. intro H. exfalso.
    assert (I1 : In r1 (map (ev_room f) st)) by (destruct (proj1 (SP r1) (or_introl eq_refl)) as [X|[]]; exact X).
    assert (I2 : In r2 (map (ev_room f) st)) by (destruct (proj1 (SP r2) (or_intror (or_introl eq_refl))) as [X|[]]; exact X).
    apply in_map_iff in I1 as [a [Ea Ha]]. apply in_map_iff in I2 as [b [Eb Hb]].
    pose proof (H a b Ha Hb) as E. rewrite Ea, Eb in E.
    inversion ND as [|? ? N1 _]. apply N1. left. symmetry. exact E.
Qed.

Lemma one_room_same_members f st st' :
  (forall x, In x st <-> In x st') -> one_room f st = one_room f st'.
Proof.
  intro H. destruct (one_room f st) eqn:A; symmetry.
  - apply one_room_spec. rewrite one_room_spec in A. intros a b Ha Hb. apply A; apply H; assumption.
  - destruct (one_room f st') eqn:B; [|reflexivity].
    rewrite <- A. symmetry. apply one_room_spec. rewrite one_room_spec in B.
    intros a b Ha Hb. apply B; apply H; assumption.
Qed.

Lemma one_room_permutation f st st' : Permutation st st' -> one_room f st = one_room f st'.
Proof.
  intro P. apply one_room_same_members. intro x. split; intro H.
  - eapply Permutation_in; eauto.
  - eapply Permutation_in; [apply Permutation_sym; exact P|exact H].
Qed.

(* ---------- the entries held (AuthEvents.Valid speaks about them) ---------- *)
Lemma held7_incl auths x : In x (held7 auths) -> In x auths.
Proof. unfold held7. intro H. apply filter_In in H. tauto. Qed.

Lemma json_eqb_refl : forall j, json_eqb j j = true.
Proof.
  fix IH 1. intros [| b | r | s | l | m]; simpl; try reflexivity.
  - destruct b; reflexivity.
  - apply bytes_eqb_refl.
  - apply bytes_eqb_refl.
  - induction l as [|x l IHl]; [reflexivity|]. rewrite (IH x). exact IHl.
  - induction m as [|[k v] m IHm]; [reflexivity|]. rewrite bytes_eqb_refl, (IH v). exact IHm.
Qed.

(* with one event per key the provider holds every state event supplied *)
Lemma held7_distinct auths x :
  NoDup (map key7 auths) ->
  (In x (held7 auths) <-> In x auths /\ Abs.ev_state_key x <> None).
Proof.
  intro ND. unfold held7. rewrite filter_In. split.
  - intros [Hin H]. split; [exact Hin|]. destruct (Abs.ev_state_key x); [discriminate|discriminate].
  - intros [Hin Hs]. split; [exact Hin|].
    destruct (Abs.ev_state_key x) as [sk|] eqn:K; [|congruence].
    rewrite (find_auth_distinct (Abs.ev_type x) sk auths x ND Hin); [apply json_eqb_refl|].
    unfold key7. rewrite K. reflexivity.
Qed.

Lemma valid9_permutation f st st' :
  NoDup (map key7 st) -> Permutation st st' -> valid9 f st = valid9 f st'.
Proof.
  intros ND P.
  assert (ND' : NoDup (map key7 st')) by (eapply Permutation_NoDup; [apply Permutation_map; exact P|exact ND]).
  unfold valid9. apply one_room_same_members. intro x.
  rewrite (held7_distinct st x ND), (held7_distinct st' x ND').
  split; intros [H1 H2]; split; auto.
  - eapply Permutation_in; eauto.
  - eapply Permutation_in; [apply Permutation_sym; exact P|exact H1].
Qed.

Lemma one_room_sub f st l :
  one_room f st = true -> (forall x, In x l -> In x st) -> one_room f l = true.
Proof.
  intros OR H. apply one_room_spec. rewrite one_room_spec in OR.
  intros a b Ha Hb. apply OR; apply H; assumption.
Qed.

(* all supplied events of one room: whatever part of them is held is of one room *)
Lemma valid9_of_one_room f st l :
  one_room f st = true -> (forall x, In x l -> In x st) -> valid9 f l = true.
Proof.
  intros OR H. unfold valid9. apply (one_room_sub f st); [exact OR|].
  intros x Hx. apply H. apply held7_incl. exact Hx.
Qed.

Lemma valid9_distinct f st :
  NoDup (map key7 st) -> provider_ok st = true -> valid9 f st = one_room f st.
Proof.
  intros ND PO. unfold valid9. apply one_room_same_members. intro x.
  rewrite (held7_distinct st x ND). split; [tauto|]. intro H. split; [exact H|].
  unfold provider_ok in PO. rewrite forallb_forall in PO. specialize (PO x H).
  destruct (Abs.ev_state_key x); [discriminate|discriminate].
Qed.

(* ---------- the verdict is that of the entries held ---------- *)
Lemma find_auth_filter_winner ty sk st (keep : json -> bool) :
  (forall w, find_auth ty sk st = Some w -> keep w = true) ->
  find_auth ty sk (filter keep st) = find_auth ty sk st.
Proof.
  induction st as [|a r IH]; intro H; [reflexivity|]. simpl in *.
  destruct (find_auth ty sk r) as [x|] eqn:F.
  - assert (IH' : find_auth ty sk (filter keep r) = Some x) by (apply IH; intros w E; apply H; exact E).
    destruct (keep a); simpl; rewrite IH'; reflexivity.
  - assert (IH' : find_auth ty sk (filter keep r) = None) by (apply IH; intros w E; discriminate).
    destruct (bytes_eqb (Abs.ev_type a) ty && state_key_is a sk) eqn:M.
    + rewrite (H a eq_refl). simpl. rewrite IH', M. reflexivity.
    + destruct (keep a); simpl; rewrite IH'; [rewrite M|]; reflexivity.
Qed.

Lemma find_auth_held7 ty sk st : find_auth ty sk (held7 st) = find_auth ty sk st.
Proof.
  unfold held7. apply find_auth_filter_winner. intros w F.
  pose proof F as F'. apply find_auth_matches in F' as [_ M]. apply matches7_key in M.
  unfold key7 in M. inversion M as [[E1 E2]]. rewrite E2, E1, F. apply json_eqb_refl.
Qed.

Lemma provider_ok_held7 st : provider_ok (held7 st) = true.
Proof.
  unfold provider_ok, held7. apply forallb_forall. intros x Hx. apply filter_In in Hx as [_ P].
  destruct (Abs.ev_state_key x); [reflexivity|discriminate].
Qed.

Lemma held7_idem_members st x : In x (held7 (held7 st)) <-> In x (held7 st).
Proof.
  split; [apply held7_incl|]. intro H. unfold held7 at 1. apply filter_In. split; [exact H|].
  unfold held7 in H. apply filter_In in H as [_ P].
  destruct (Abs.ev_state_key x) as [sk|]; [|discriminate].
  rewrite find_auth_held7. exact P.
Qed.

Lemma valid9_held7 f st : valid9 f (held7 st) = valid9 f st.
Proof. unfold valid9. apply one_room_same_members. apply held7_idem_members. Qed.
