(* Model of the reused checker of eventauth.go (property C09): allowerContext with its cached
   create / power-levels / join-rules contents, newAllowerContext, update, allowed, and the way
   stateResolverV2.authAndApplyEvents drives one context through many events.

   Event identity (Go: pointer equality of the PDU held in the cache and the PDU the provider
   returns) is an explicit token; provider identity (provider != a.provider) is an explicit
   number. What the checks compute from the cached contents is a parameter of the model
   (Section variables), so that the cache discipline is described once, for any auth model.

   Two switches describe the tree before the C09 repairs, for the refutation examples:
     clears = false : update keeps a cached entry when reloading fails          (before c3168fe)
     the join rule returned by a check is written back into the cache (leak)    (before 8497f3e)
   The repaired code is  clears = true, leak = false.
   Executable Gallina only; proofs are in CheckerProofs.v. *)
From Verif Require Import Lib.Bytes Json.Ast Auth.StateNeeded.
Open Scope N_scope.

(* a provider object: its identity and the (token, event) pairs in insertion order *)
Record provider := { p_id : N; p_events : list (N * json) }.

Definition p_auths (p : provider) : list json := map snd (p_events p).

Definition key_create : bytes * bytes := (m_room_create, []).
Definition key_power_levels : bytes * bytes := (m_room_power_levels, []).
Definition key_join_rules : bytes * bytes := (m_room_join_rules, []).

Definition tok_eqb (a b : option (N * json)) : bool :=
  match a, b with
  | Some (t, _), Some (u, _) => t =? u
  | None, None => true
  | _, _ => false
  end.

Section Checker.
  (* how the provider files an event under a (type, state_key) pair, and the sender of an event *)
  Variable matches : bytes * bytes -> json -> bool.
  Variable sender_of : json -> bytes.

  Fixpoint find_last (k : bytes * bytes) (l : list (N * json)) (acc : option (N * json)) : option (N * json) :=
    match l with
    | [] => acc
    | x :: l' => find_last k l' (if matches k (snd x) then Some x else acc)
    end.
  (* AuthEvents.Create / PowerLevels / JoinRules: the event object stored under the key (the last
     one added) *)
  Definition p_find (p : provider) (k : bytes * bytes) : option (N * json) := find_last k (p_events p) None.

  (* parsed contents and verdicts of the auth model in use *)
  Variables CC PC JC V : Type.
  (* NewCreateContentFromAuthEvents on the create slot; None = error (no event, bad content) *)
  Variable load_create : option json -> option CC.
  (* NewPowerLevelContentFromAuthEvents on the power-levels slot and the creator (sender of the
     cached create event, empty without one): defaults when the slot is empty; None = error *)
  Variable load_pl : option json -> bytes -> option PC.
  (* NewJoinRuleContentFromAuthEvents on the join-rules slot: the default rule when the slot is
     empty; None = error *)
  Variable load_jr : option json -> option JC.

  (* what a check sees of the context: createEvent, create, powerLevelsEvent, powerLevels, joinRule
     (None for a content = the Go zero value) *)
  Record view := {
    v_create_ev : option json;
    v_create : option CC;
    v_pl_ev : option json;
    v_pl : option PC;
    v_jr : option JC
  }.

  (* allowerContext.allowed: the verdict, and the join rule the membership check ends with
     (None: the check does not touch the rule) *)
  Variable decide : view -> list json -> json -> V * option JC.

  Record ctx := {
    c_prov : option N;
    c_create_ev : option (N * json);
    c_create : option CC;
    c_pl_ev : option (N * json);
    c_pl : option PC;
    c_jr_ev : option (N * json);
    c_jr : option JC
  }.

  Definition ctx0 : ctx :=
    {| c_prov := None; c_create_ev := None; c_create := None; c_pl_ev := None; c_pl := None;
       c_jr_ev := None; c_jr := None |}.

  Definition view_of (c : ctx) : view :=
    {| v_create_ev := option_map snd (c_create_ev c); v_create := c_create c;
       v_pl_ev := option_map snd (c_pl_ev c); v_pl := c_pl c; v_jr := c_jr c |}.

  Section Update.
    Variable clears : bool.

    (* if provider != a.provider { a.provider = provider; events = nil } *)
    Definition upd_provider (c : ctx) (p : provider) : ctx :=
      match c_prov c with
      | Some i => if i =? p_id p then c
                  else {| c_prov := Some (p_id p); c_create_ev := None; c_create := c_create c;
                          c_pl_ev := None; c_pl := c_pl c; c_jr_ev := None; c_jr := c_jr c |}
      | None => {| c_prov := Some (p_id p); c_create_ev := None; c_create := c_create c;
                   c_pl_ev := None; c_pl := c_pl c; c_jr_ev := None; c_jr := c_jr c |}
      end.

    (* a.xEvent == nil || a.xEvent != e *)
    Definition stale (cached e : option (N * json)) : bool :=
      match cached with None => true | Some _ => negb (tok_eqb cached e) end.

    Definition upd_create (c : ctx) (p : provider) : ctx :=
      let e := p_find p key_create in
      if stale (c_create_ev c) e then
        let ev0 := if clears then None else c_create_ev c in
        let cc0 := if clears then None else c_create c in
        match load_create (option_map snd e) with
        | Some cc => {| c_prov := c_prov c; c_create_ev := e; c_create := Some cc;
                        c_pl_ev := c_pl_ev c; c_pl := c_pl c; c_jr_ev := c_jr_ev c; c_jr := c_jr c |}
        | None => {| c_prov := c_prov c; c_create_ev := ev0; c_create := cc0;
                     c_pl_ev := c_pl_ev c; c_pl := c_pl c; c_jr_ev := c_jr_ev c; c_jr := c_jr c |}
        end
      else c.

    Definition upd_pl (c : ctx) (p : provider) : ctx :=
      let e := p_find p key_power_levels in
      if stale (c_pl_ev c) e then
        let ev0 := if clears then None else c_pl_ev c in
        let pc0 := if clears then None else c_pl c in
        let creator := match c_create_ev c with Some (_, ce) => sender_of ce | None => [] end in
        match load_pl (option_map snd e) creator with
        | Some pc => {| c_prov := c_prov c; c_create_ev := c_create_ev c; c_create := c_create c;
                        c_pl_ev := e; c_pl := Some pc; c_jr_ev := c_jr_ev c; c_jr := c_jr c |}
        | None => {| c_prov := c_prov c; c_create_ev := c_create_ev c; c_create := c_create c;
                     c_pl_ev := ev0; c_pl := pc0; c_jr_ev := c_jr_ev c; c_jr := c_jr c |}
        end
      else c.

    Definition upd_jr (c : ctx) (p : provider) : ctx :=
      let e := p_find p key_join_rules in
      if stale (c_jr_ev c) e then
        let ev0 := if clears then None else c_jr_ev c in
        let jc0 := if clears then None else c_jr c in
        match load_jr (option_map snd e) with
        | Some jc => {| c_prov := c_prov c; c_create_ev := c_create_ev c; c_create := c_create c;
                        c_pl_ev := c_pl_ev c; c_pl := c_pl c; c_jr_ev := e; c_jr := Some jc |}
        | None => {| c_prov := c_prov c; c_create_ev := c_create_ev c; c_create := c_create c;
                     c_pl_ev := c_pl_ev c; c_pl := c_pl c; c_jr_ev := ev0; c_jr := jc0 |}
        end
      else c.

    (* allowerContext.update *)
    Definition update (c : ctx) (p : provider) : ctx :=
      upd_jr (upd_pl (upd_create (upd_provider c p) p) p) p.

    Variable leak : bool.

    (* update(provider) then allowed(event), as in authAndApplyEvents *)
    Definition step (c : ctx) (pe : provider * json) : ctx * V :=
      let c1 := update c (fst pe) in
      let (v, jr') := decide (view_of c1) (p_auths (fst pe)) (snd pe) in
      let c2 := match leak, jr' with
                | true, Some j => {| c_prov := c_prov c1; c_create_ev := c_create_ev c1; c_create := c_create c1;
                                     c_pl_ev := c_pl_ev c1; c_pl := c_pl c1; c_jr_ev := c_jr_ev c1; c_jr := Some j |}
                | _, _ => c1
                end in
      (c2, v).

    Fixpoint run_from (c : ctx) (steps : list (provider * json)) : list V :=
      match steps with
      | [] => []
      | pe :: rest => let (c', v) := step c pe in v :: run_from c' rest
      end.
  End Update.

  (* the repaired code *)
  Definition run_checker (c : ctx) (steps : list (provider * json)) : list V := run_from true false c steps.

  (* newAllowerContext(provider, ...) : a new context, updated once *)
  Definition new_context (p : provider) : ctx := update true ctx0 p.

  (* gomatrixserverlib.Allowed without the Valid() guard: a new context, one check *)
  Definition one_shot (pe : provider * json) : V := snd (step true false ctx0 pe).
End Checker.

Arguments v_create_ev {CC PC JC} v.
Arguments v_create {CC PC JC} v.
Arguments v_pl_ev {CC PC JC} v.
Arguments v_pl {CC PC JC} v.
Arguments v_jr {CC PC JC} v.
Arguments c_prov {CC PC JC} c.
Arguments c_create_ev {CC PC JC} c.
Arguments c_create {CC PC JC} c.
Arguments c_pl_ev {CC PC JC} c.
Arguments c_pl {CC PC JC} c.
Arguments c_jr_ev {CC PC JC} c.
Arguments c_jr {CC PC JC} c.
Arguments view_of {CC PC JC} c.
Arguments upd_provider {CC PC JC} c p.
Arguments upd_create matches {CC PC JC} load_create clears c p.
Arguments upd_pl matches sender_of {CC PC JC} load_pl clears c p.
Arguments upd_jr matches {CC PC JC} load_jr clears c p.
Arguments update matches sender_of {CC PC JC} load_create load_pl load_jr clears c p.
Arguments step matches sender_of {CC PC JC V} load_create load_pl load_jr decide clears leak c pe.
Arguments run_from matches sender_of {CC PC JC V} load_create load_pl load_jr decide clears leak c steps.
Arguments run_checker matches sender_of {CC PC JC V} load_create load_pl load_jr decide c steps.
Arguments new_context matches sender_of {CC PC JC} load_create load_pl load_jr p.
Arguments one_shot matches sender_of {CC PC JC V} load_create load_pl load_jr decide pe.
