(* The reused checker (Checker.v) over the executable auth model of property C07
   (Auth/Abs.v, Auth/Decide.v, Auth/Model.v): the three cached contents are C07's create_of,
   pl_of_event / pl_absent and join_rule_of applied to the one event of the slot; a check is C07's
   decide_model on C07's abs in which the four fields that come from the cache (ai_create,
   ai_pl_present, ai_pl, ai_join_rule) are taken from the context instead.

   One difference to C07's abs: a member event whose third_party_invite has an empty token is
   rejected without consulting any m.room.third_party_invite event (repair f68c1de of the C09
   clone; C07's abs describes the code before it and looks up the tuple with the empty state key).
   Executable Gallina only; proofs are in CheckerAuthProofs.v. *)
From Verif Require Import Lib.Bytes Json.Ast Auth.StateNeeded Auth.Checker.
From Verif Require Import Auth.GoJson Auth.Ids Auth.Types Auth.Versions Auth.Abs Auth.Decide Auth.Model.
Open Scope N_scope.

(* AuthEvents files an event under (Type(), *StateKey()) *)
Definition matches7 (k : bytes * bytes) (a : json) : bool :=
  bytes_eqb (Abs.ev_type a) (fst k) && state_key_is a (snd k).

(* the entries an AuthEvents provider HOLDS after the events were added in this order: the last
   event of every (type, state_key); events without a state key are not taken *)
Definition held7 (auths : list json) : list json :=
  filter (fun a => match Abs.ev_state_key a with
                   | Some sk => match find_auth (Abs.ev_type a) sk auths with
                                | Some w => json_eqb w a
                                | None => false
                                end
                   | None => false
                   end) auths.

(* AuthEvents.Valid(): the entries held are of one room (the provider counts entries per room:
   an entry that was replaced no longer counts, repair F59) *)
Definition valid9 (f : ver_flags) (auths : list json) : bool := one_room f (held7 auths).

Definition slot (o : option json) : list json := match o with Some e => [e] | None => [] end.

Section CheckerAuth.
  (* the signature oracle of C07's abs, per event under test: sig_of e key_text server key_id =
     VerifyJSON(server, key_id, key, signed object of e) succeeds *)
  Variable sig_of : json -> bytes -> bytes -> bytes -> bool.
  Variable f : ver_flags.

  (* NewCreateContentFromAuthEvents on the create slot *)
  Definition load_create7 (o : option json) : option create_info := create_of f (slot o).
  (* NewPowerLevelContentFromAuthEvents on the power-levels slot *)
  Definition load_pl7 (o : option json) (creator : bytes) : option pl_content :=
    match o with
    | None => Some (pl_absent creator)
    | Some e => pl_of_event (vf_int_levels f) e
    end.
  (* NewJoinRuleContentFromAuthEvents on the join-rules slot. C07's join_rule_of folds an
     unparsable content into JrOther (the zero JoinRuleContent), so loading never fails here. *)
  Definition load_jr7 (o : option json) : option jrule := Some (join_rule_of (slot o)).

  Definition empty_token_invite (e : json) : bool :=
    match kind_of (Abs.ev_type e), member_of_event e with
    | KMember, Some m => match m_tpi m with
                         | Some t => match t_token t with [] => true | _ => false end
                         | None => false
                         end
    | _, _ => false
    end.

  (* C07's abs with the cache-borne fields supplied from outside. guard: the AuthEvents.Valid()
     test, which only gomatrixserverlib.Allowed makes (a context fed by state resolution does not) *)
  Definition abs9_core (guard : bool) (create : option create_info) (pl_present : bool) (pl : pl_content)
             (jr : jrule) (e : json) (auths : list json) : auth_input :=
    let r := abs (sig_of e) f e auths in
    {| ai_flags := ai_flags r;
       ai_provider_ok := ai_provider_ok r;
       ai_one_room := if guard then valid9 f auths else true;
       ai_kind := ai_kind r;
       ai_type := ai_type r;
       ai_room := ai_room r;
       ai_room_kind := ai_room_kind r;
       ai_sender := ai_sender r;
       ai_sender_domain := ai_sender_domain r;
       ai_state_key := ai_state_key r;
       ai_prev := ai_prev r;
       ai_create := create;
       ai_pl_present := pl_present;
       ai_pl := pl;
       ai_join_rule := jr;
       ai_sender_member := ai_sender_member r;
       ai_new_member := ai_new_member r;
       ai_target_member := ai_target_member r;
       ai_tpi_event := if empty_token_invite e then None else ai_tpi_event r;
       ai_sig_ok := if empty_token_invite e then false else ai_sig_ok r;
       ai_sig_ok_spec := if empty_token_invite e then false else ai_sig_ok_spec r;
       ai_tpi_sender_ok := if empty_token_invite e then false else ai_tpi_sender_ok r;
       ai_via_split_ok := ai_via_split_ok r;
       ai_via_member := ai_via_member r;
       ai_new_pl := ai_new_pl r;
       ai_new_pl_users_ok := ai_new_pl_users_ok r;
       ai_redacts_domain := ai_redacts_domain r;
       ai_cc := ai_cc r |}.

  (* the fields a check reads from the context: createEvent/create, powerLevelsEvent/powerLevels, joinRule *)
  Definition abs9 (guard : bool) (v : view create_info pl_content jrule) (e : json) (auths : list json) : auth_input :=
    abs9_core guard (v_create v) (match v_pl_ev v with Some _ => true | None => false end)
              (match v_pl v with Some p => p | None => pl_zero end)
              (match v_jr v with Some j => j | None => JrOther end) e auths.

  (* allowerContext.allowed; the repaired check never writes to the cached join rule *)
  Definition decide9 (v : view create_info pl_content jrule) (auths : list json) (e : json)
    : verdict * option jrule :=
    (decide_model (abs9 false v e auths), None).

  Definition run_checker9 := run_checker matches7 Abs.ev_sender load_create7 load_pl7 load_jr7 decide9.
  Definition one_shot9 := one_shot matches7 Abs.ev_sender load_create7 load_pl7 load_jr7 decide9.
  Definition new_context9 := new_context matches7 Abs.ev_sender load_create7 load_pl7 load_jr7.

  (* the auth verdict of the repaired code for an event against a list of auth events supplied in
     that order: C07's model with the empty-token repair *)
  Definition abs_fixed (e : json) (auths : list json) : auth_input :=
    let r := abs (sig_of e) f e auths in
    abs9_core true (ai_create r) (ai_pl_present r) (ai_pl r) (ai_join_rule r) e auths.
  Definition allowed9 (e : json) (auths : list json) : verdict := decide_model (abs_fixed e auths).
End CheckerAuth.

(* by version string, as C07's allowed_model *)
Definition allowed_model9 (sig_of : json -> bytes -> bytes -> bytes -> bool) (ver : bytes) (e : json) (auths : list json)
  : option verdict :=
  match flags_of_version ver with
  | Some f => Some (allowed9 sig_of f e auths)
  | None => None
  end.
