(* The reused checker over C07's auth model: a new context shows a check exactly the fields C07's
   abs computes, hence one check through a new context is allowed9, and by CheckerProofs every
   check through a reused context is. *)
From Verif Require Import Lib.Bytes Json.Ast Auth.StateNeeded Auth.Checker Auth.CheckerProofs.
From Verif Require Import Auth.GoJson Auth.Ids Auth.Types Auth.Versions Auth.Abs Auth.Decide Auth.Model
     Auth.CheckerAuth.
Open Scope N_scope.

(* ---------- C07's find_auth: the last event filed under the key ---------- *)
Lemma find_auth_matches ty sk l e :
  find_auth ty sk l = Some e -> In e l /\ matches7 (ty, sk) e = true.
Proof.
  induction l as [|a r IH]; simpl; [discriminate|].
  destruct (find_auth ty sk r) as [x|] eqn:F.
  - intro H; inversion H; subst. destruct (IH eq_refl) as [H1 H2]. split; [right; exact H1|exact H2].
  - destruct (bytes_eqb (Abs.ev_type a) ty && state_key_is a sk) eqn:M; [|discriminate].
    intro H; inversion H; subst. split; [left; reflexivity|exact M].
Qed.

Lemma find_auth_none ty sk l :
  find_auth ty sk l = None -> forall e, In e l -> matches7 (ty, sk) e = false.
Proof.
  induction l as [|a r IH]; simpl; [intros _ e []|].
  destruct (find_auth ty sk r) as [x|] eqn:F; [discriminate|].
  destruct (bytes_eqb (Abs.ev_type a) ty && state_key_is a sk) eqn:M; [discriminate|].
  intros _ e [H|H]; [subst; exact M|apply IH; auto].
Qed.

Lemma find_auth_slot ty sk l :
  find_auth ty sk (slot (find_auth ty sk l)) = find_auth ty sk l.
Proof.
  destruct (find_auth ty sk l) as [e|] eqn:F; simpl; [|reflexivity].
  apply find_auth_matches in F as [_ M]. unfold matches7 in M. simpl in M. rewrite M. reflexivity.
Qed.

Lemma find_last_is_find_auth ty sk l acc :
  option_map snd (find_last matches7 (ty, sk) l acc) =
  match find_auth ty sk (map snd l) with Some x => Some x | None => option_map snd acc end.
Proof.
  revert acc; induction l as [|x l IH]; intro acc; simpl; [reflexivity|].
  rewrite IH. destruct (find_auth ty sk (map snd l)); [reflexivity|].
  unfold matches7; simpl. destruct (bytes_eqb (Abs.ev_type (snd x)) ty && state_key_is (snd x) sk); reflexivity.
Qed.

Lemma p_find_is_find_auth p ty sk :
  option_map snd (p_find matches7 p (ty, sk)) = find_auth ty sk (p_auths p).
Proof.
  unfold p_find, p_auths. rewrite find_last_is_find_auth. destruct (find_auth ty sk (map snd (p_events p))); reflexivity.
Qed.

(* ---------- the cached contents are functions of the slot's event ---------- *)
Lemma create_of_slot f auths : create_of f auths = create_of f (slot (find_auth t_create [] auths)).
Proof. unfold create_of. rewrite find_auth_slot. reflexivity. Qed.

Lemma join_rule_of_slot auths : join_rule_of auths = join_rule_of (slot (find_auth t_join_rules [] auths)).
Proof. unfold join_rule_of. rewrite find_auth_slot. reflexivity. Qed.

Lemma create_of_sender f auths c e :
  find_auth t_create [] auths = Some e -> create_of f auths = Some c -> c_sender c = Abs.ev_sender e.
Proof.
  unfold create_of. intros F. rewrite F.
  destruct (match content_of e with CoObj o => Some o | CoNull => Some [] | _ => None end) as [o|]; [|discriminate].
  destruct (dec_bool (field k_federate o)); destruct (str_field k_creator o);
    destruct (dec_string (field k_room_version o)); destruct (predecessor_ok (field k_predecessor o));
    destruct (str_field k_type o); destruct (dec_string_list (field k_additional_creators o));
    try discriminate;
    destruct (user_domain (Abs.ev_sender e)); try discriminate;
    intro H; inversion H; reflexivity.
Qed.

Lemma key_create_eq : key_create = (t_create, []). Proof. reflexivity. Qed.
Lemma key_power_levels_eq : key_power_levels = (t_power_levels, []). Proof. reflexivity. Qed.
Lemma key_join_rules_eq : key_join_rules = (t_join_rules, []). Proof. reflexivity. Qed.

Section Proofs.
  Variable sig_of : json -> bytes -> bytes -> bytes -> bool.
  Variable f : ver_flags.

  Notation fresh := (fresh_view matches7 Abs.ev_sender _ _ _ (load_create7 f) (load_pl7 f) load_jr7).

  (* what a new context shows a check = the cache-borne fields of C07's abs *)
  Lemma fresh_view_is_abs p e :
    let r := abs (sig_of e) f e (p_auths p) in
    let v := fresh p in
    v_create v = ai_create r /\
    (match v_pl_ev v with Some _ => true | None => false end) = ai_pl_present r /\
    (match v_pl v with Some q => q | None => pl_zero end) = ai_pl r /\
    (match v_jr v with Some j => j | None => JrOther end) = ai_join_rule r.
  Proof.
    set (auths := p_auths p).
    assert (FC : option_map snd (p_find matches7 p key_create) = find_auth t_create [] auths)
      by (rewrite key_create_eq; apply p_find_is_find_auth).
    assert (FP : option_map snd (p_find matches7 p key_power_levels) = find_auth t_power_levels [] auths)
      by (rewrite key_power_levels_eq; apply p_find_is_find_auth).
    assert (FJ : option_map snd (p_find matches7 p key_join_rules) = find_auth t_join_rules [] auths)
      by (rewrite key_join_rules_eq; apply p_find_is_find_auth).
    unfold fresh_view, fresh_pl, fresh_create, fresh_jr, load_create7, load_pl7, load_jr7.
    cbv zeta. rewrite FC, FP, FJ.
    rewrite <- create_of_slot, <- join_rule_of_slot.
    cbn [v_create v_pl_ev v_pl v_jr fst snd].
    unfold abs. cbv zeta. cbn [ai_create ai_pl_present ai_pl ai_join_rule]. unfold pl_of_auths.
    destruct (create_of f auths) as [c|] eqn:C; simpl.
    - destruct (find_auth t_create [] auths) as [ce|] eqn:FCE.
      2:{ unfold create_of in C. rewrite FCE in C. discriminate. }
      simpl. rewrite (create_of_sender f auths c ce FCE C).
      destruct (find_auth t_power_levels [] auths) as [pe|]; simpl.
      + destruct (pl_of_event (vf_int_levels f) pe); simpl; repeat split; reflexivity.
      + repeat split; reflexivity.
    - destruct (find_auth t_power_levels [] auths) as [pe|]; simpl.
      + destruct (pl_of_event (vf_int_levels f) pe); simpl; repeat split; reflexivity.
      + repeat split; reflexivity.
  Qed.

  (* one check through a new context (no Valid() guard) *)
  Lemma one_shot9_is_abs9 p e :
    one_shot9 sig_of f (p, e) = decide_model (abs9 sig_of f false (fresh p) e (p_auths p)).
  Proof.
    unfold one_shot9, one_shot, step. simpl.
    unfold decide9. simpl.
    assert (E : view_of (update matches7 Abs.ev_sender (load_create7 f) (load_pl7 f) load_jr7 true
                           (ctx0 create_info pl_content jrule) p) = fresh p).
    { apply (update_ctx0_view matches7 Abs.ev_sender _ _ _ (load_create7 f) (load_pl7 f) load_jr7). }
    rewrite E. reflexivity.
  Qed.

  (* ... which is gomatrixserverlib.Allowed when the provider holds events of one room *)
  Theorem one_shot9_is_allowed9 p e :
    valid9 f (p_auths p) = true ->
    one_shot9 sig_of f (p, e) = allowed9 sig_of f e (p_auths p).
  Proof.
    intro R. rewrite one_shot9_is_abs9. unfold allowed9, abs_fixed, abs9.
    destruct (fresh_view_is_abs p e) as [E1 [E2 [E3 E4]]].
    rewrite E1, E2, E3, E4. unfold abs9_core. simpl. rewrite R. reflexivity.
  Qed.

  (* C07's allowed_model is allowed9 except on member events with an empty third-party-invite token *)
  Theorem allowed9_is_allowed_model e auths :
    empty_token_invite e = false -> valid9 f auths = one_room f auths ->
    allowed9 sig_of f e auths = decide_model (abs (sig_of e) f e auths).
  Proof.
    intros T VR. unfold allowed9, abs_fixed, abs9_core. rewrite T, VR. reflexivity.
  Qed.

  (* checker_reuse_transparent over the auth model *)
  Theorem run_checker9_transparent (ev_of : N -> json) p0 steps :
    p_wf ev_of p0 -> (forall pe, In pe steps -> p_wf ev_of (fst pe)) ->
    run_checker9 sig_of f (new_context9 f p0) steps = map (one_shot9 sig_of f) steps.
  Proof.
    intros W0 W. unfold run_checker9, new_context9, one_shot9.
    apply (run_after_new_context matches7 Abs.ev_sender _ _ _ _ (load_create7 f) (load_pl7 f) load_jr7
             (decide9 sig_of f) (fun _ _ _ => eq_refl) ev_of p0 steps W0 W).
  Qed.

  Corollary run_checker9_is_allowed9 (ev_of : N -> json) p0 steps :
    p_wf ev_of p0 -> (forall pe, In pe steps -> p_wf ev_of (fst pe)) ->
    (forall pe, In pe steps -> valid9 f (p_auths (fst pe)) = true) ->
    run_checker9 sig_of f (new_context9 f p0) steps =
    map (fun pe => allowed9 sig_of f (snd pe) (p_auths (fst pe))) steps.
  Proof.
    intros W0 W R. rewrite (run_checker9_transparent ev_of p0 steps W0 W).
    apply map_ext_in. intros [p e] H. apply one_shot9_is_allowed9. apply (R _ H).
  Qed.
End Proofs.
