(* The reused checker is transparent (property C09): whatever was checked before, the verdict a
   reused allowerContext gives for (provider, event) is the verdict of a new context.
   The cache-coherence invariant: a cached event token stands for the event the provider holds
   under that token, and the cached content is what loading that event yields. *)
From Verif Require Import Lib.Bytes Json.Ast Auth.StateNeeded Auth.Checker.
Open Scope N_scope.

Section Proofs.
  Variable matches : bytes * bytes -> json -> bool.
  Variable sender_of : json -> bytes.
  Notation find_last := (find_last matches).
  Notation p_find := (p_find matches).

  Lemma find_last_in k l acc x :
    find_last k l acc = Some x -> In x l \/ acc = Some x.
  Proof.
    revert acc; induction l as [|y l IH]; intros acc H; simpl in H; [right; exact H|].
    apply IH in H as [H|H]; [left; right; exact H|].
    destruct (matches k (snd y)).
    - inversion H; subst. left; left; reflexivity.
    - right; exact H.
  Qed.

  Lemma p_find_in p k x : p_find p k = Some x -> In x (p_events p).
  Proof. unfold Checker.p_find. intro H. apply find_last_in in H as [H|H]; [exact H|discriminate]. Qed.

  Variables CC PC JC V : Type.
  Variable load_create : option json -> option CC.
  Variable load_pl : option json -> bytes -> option PC.
  Variable load_jr : option json -> option JC.
  Variable decide : view CC PC JC -> list json -> json -> V * option JC.

  (* the content of a power-levels EVENT does not depend on who created the room (the creator
     only enters the defaults used when there is no event) *)
  Hypothesis load_pl_event_creator : forall e c1 c2, load_pl (Some e) c1 = load_pl (Some e) c2.

  (* event objects: a token names one event *)
  Variable ev_of : N -> json.
  Definition p_wf (p : provider) : Prop := forall t e, In (t, e) (p_events p) -> e = ev_of t.

  Notation ctx := (ctx CC PC JC).
  Notation update := (update matches sender_of load_create load_pl load_jr true).
  Notation view_of := (@view_of CC PC JC) (only parsing).

  Definition inv (c : ctx) : Prop :=
    (forall t e, c_create_ev c = Some (t, e) ->
        e = ev_of t /\ c_create c = load_create (Some e) /\ c_create c <> None) /\
    (forall t e, c_pl_ev c = Some (t, e) ->
        e = ev_of t /\ (forall cr, c_pl c = load_pl (Some e) cr) /\ c_pl c <> None) /\
    (forall t e, c_jr_ev c = Some (t, e) ->
        e = ev_of t /\ c_jr c = load_jr (Some e) /\ c_jr c <> None).

  Lemma inv_ctx0 : inv (ctx0 CC PC JC).
  Proof. repeat split; simpl in *; discriminate. Qed.

  Lemma inv_upd_provider c p : inv c -> inv (upd_provider c p).
  Proof.
    intros I. unfold upd_provider. destruct (c_prov c) as [i|].
    - destruct (i =? p_id p); [exact I|]. repeat split; simpl in *; discriminate.
    - repeat split; simpl in *; discriminate.
  Qed.

  (* what a new context holds for the provider *)
  Definition fresh_create (p : provider) : option json * option CC :=
    let e := p_find p key_create in
    match load_create (option_map snd e) with
    | Some cc => (option_map snd e, Some cc)
    | None => (None, None)
    end.
  Definition fresh_pl (p : provider) : option json * option PC :=
    let e := p_find p key_power_levels in
    let creator := match fst (fresh_create p) with Some ce => sender_of ce | None => [] end in
    match load_pl (option_map snd e) creator with
    | Some pc => (option_map snd e, Some pc)
    | None => (None, None)
    end.
  Definition fresh_jr (p : provider) : option JC :=
    match load_jr (option_map snd (p_find p key_join_rules)) with
    | Some jc => Some jc
    | None => None
    end.
  Definition fresh_view (p : provider) : view CC PC JC :=
    {| v_create_ev := fst (fresh_create p); v_create := snd (fresh_create p);
       v_pl_ev := fst (fresh_pl p); v_pl := snd (fresh_pl p); v_jr := fresh_jr p |}.

  Lemma stale_false cached e :
    stale cached e = false -> exists t a b, cached = Some (t, a) /\ e = Some (t, b).
  Proof.
    unfold stale. destruct cached as [[t a]|]; [|discriminate].
    destruct e as [[u b]|]; simpl; [|discriminate].
    intro H. apply negb_false_iff in H. apply N.eqb_eq in H. subst. eauto.
  Qed.

  Lemma upd_create_spec c p :
    inv c -> p_wf p ->
    let c' := upd_create matches load_create true c p in
    inv c' /\
    (option_map snd (c_create_ev c'), c_create c') = fresh_create p /\
    c_pl_ev c' = c_pl_ev c /\ c_pl c' = c_pl c /\ c_jr_ev c' = c_jr_ev c /\ c_jr c' = c_jr c.
  Proof.
    intros I W. unfold upd_create, fresh_create.
    destruct I as [I1 [I2 I3]].
    destruct (stale (c_create_ev c) (p_find p key_create)) eqn:S.
    - destruct (p_find p key_create) as [[t e]|] eqn:F; simpl.
      + destruct (load_create (Some e)) as [cc|] eqn:L; simpl.
        * split; [|repeat split; reflexivity].
          { split; [|split]; simpl.
            - intros t' e' H'; inversion H'; subst; split; [apply W; apply (p_find_in _ _ _ F)|split; [symmetry; exact L|discriminate]].
            - intros t' e' H'; apply (I2 _ _ H').
            - intros t' e' H'; apply (I3 _ _ H'). }
        * split; [|repeat split; reflexivity].
          { split; [|split]; simpl.
            - intros t' e' H'; discriminate H'.
            - intros t' e' H'; apply (I2 _ _ H').
            - intros t' e' H'; apply (I3 _ _ H'). }
      + destruct (load_create None) as [cc|] eqn:L; simpl.
        * split; [|repeat split; reflexivity].
          { split; [|split]; simpl.
            - intros t' e' H'; discriminate H'.
            - intros t' e' H'; apply (I2 _ _ H').
            - intros t' e' H'; apply (I3 _ _ H'). }
        * split; [|repeat split; reflexivity].
          { split; [|split]; simpl.
            - intros t' e' H'; discriminate H'.
            - intros t' e' H'; apply (I2 _ _ H').
            - intros t' e' H'; apply (I3 _ _ H'). }
    - apply stale_false in S as [t [a [b [Hc He]]]].
      split; [exact (conj I1 (conj I2 I3))|].
      split; [|repeat split; reflexivity].
      rewrite He. simpl.
      destruct (I1 _ _ Hc) as [Ha [Hl Hn]].
      assert (Hb : b = ev_of t) by (apply W; apply (p_find_in p key_create); exact He).
      assert (E : a = b) by congruence. rewrite <- E.
      rewrite Hc. simpl. rewrite <- Hl. destruct (c_create c) as [cc|]; [reflexivity|congruence].
  Qed.

  Lemma upd_pl_spec c p :
    inv c -> p_wf p ->
    (option_map snd (c_create_ev c), c_create c) = fresh_create p ->
    let c' := upd_pl matches sender_of load_pl true c p in
    inv c' /\
    (option_map snd (c_pl_ev c'), c_pl c') = fresh_pl p /\
    c_create_ev c' = c_create_ev c /\ c_create c' = c_create c /\ c_jr_ev c' = c_jr_ev c /\ c_jr c' = c_jr c.
  Proof.
    intros I W FC. unfold upd_pl, fresh_pl.
    destruct I as [I1 [I2 I3]].
    assert (CR : match c_create_ev c with Some (_, ce) => sender_of ce | None => [] end =
                 match fst (fresh_create p) with Some ce => sender_of ce | None => [] end).
    { rewrite <- FC. simpl. destruct (c_create_ev c) as [[? ?]|]; reflexivity. }
    rewrite <- CR.
    set (creator := match c_create_ev c with Some (_, ce) => sender_of ce | None => [] end).
    destruct (stale (c_pl_ev c) (p_find p key_power_levels)) eqn:S.
    - destruct (p_find p key_power_levels) as [[t e]|] eqn:F; simpl.
      + destruct (load_pl (Some e) creator) as [cc|] eqn:L; simpl.
        * split; [|repeat split; reflexivity].
          { split; [|split]; simpl.
            - intros t' e' H'; apply (I1 _ _ H').
            - intros t' e' H'; inversion H'; subst; split; [apply W; apply (p_find_in _ _ _ F)|split; [intro cr; rewrite <- L; apply load_pl_event_creator|discriminate]].
            - intros t' e' H'; apply (I3 _ _ H'). }
        * split; [|repeat split; reflexivity].
          { split; [|split]; simpl.
            - intros t' e' H'; apply (I1 _ _ H').
            - intros t' e' H'; discriminate H'.
            - intros t' e' H'; apply (I3 _ _ H'). }
      + destruct (load_pl None creator) as [cc|] eqn:L; simpl.
        * split; [|repeat split; reflexivity].
          { split; [|split]; simpl.
            - intros t' e' H'; apply (I1 _ _ H').
            - intros t' e' H'; discriminate H'.
            - intros t' e' H'; apply (I3 _ _ H'). }
        * split; [|repeat split; reflexivity].
          { split; [|split]; simpl.
            - intros t' e' H'; apply (I1 _ _ H').
            - intros t' e' H'; discriminate H'.
            - intros t' e' H'; apply (I3 _ _ H'). }
    - apply stale_false in S as [t [a [b [Hc He]]]].
      split; [exact (conj I1 (conj I2 I3))|].
      split; [|repeat split; reflexivity].
      rewrite He. simpl.
      destruct (I2 _ _ Hc) as [Ha [Hl Hn]].
      assert (Hb : b = ev_of t) by (apply W; apply (p_find_in p key_power_levels); exact He).
      assert (E : a = b) by congruence. rewrite <- E.
      rewrite Hc. simpl. rewrite <- (Hl creator). destruct (c_pl c) as [pc|]; [reflexivity|congruence].
  Qed.

  Lemma upd_jr_spec c p :
    inv c -> p_wf p ->
    let c' := upd_jr matches load_jr true c p in
    inv c' /\
    c_jr c' = fresh_jr p /\
    c_create_ev c' = c_create_ev c /\ c_create c' = c_create c /\ c_pl_ev c' = c_pl_ev c /\ c_pl c' = c_pl c.
  Proof.
    intros I W. unfold upd_jr, fresh_jr.
    destruct I as [I1 [I2 I3]].
    destruct (stale (c_jr_ev c) (p_find p key_join_rules)) eqn:S.
    - destruct (p_find p key_join_rules) as [[t e]|] eqn:F; simpl.
      + destruct (load_jr (Some e)) as [cc|] eqn:L; simpl.
        * split; [|repeat split; reflexivity].
          { split; [|split]; simpl.
            - intros t' e' H'; apply (I1 _ _ H').
            - intros t' e' H'; apply (I2 _ _ H').
            - intros t' e' H'; inversion H'; subst; split; [apply W; apply (p_find_in _ _ _ F)|split; [symmetry; exact L|discriminate]]. }
        * split; [|repeat split; reflexivity].
          { split; [|split]; simpl.
            - intros t' e' H'; apply (I1 _ _ H').
            - intros t' e' H'; apply (I2 _ _ H').
            - intros t' e' H'; discriminate H'. }
      + destruct (load_jr None) as [cc|] eqn:L; simpl.
        * split; [|repeat split; reflexivity].
          { split; [|split]; simpl.
            - intros t' e' H'; apply (I1 _ _ H').
            - intros t' e' H'; apply (I2 _ _ H').
            - intros t' e' H'; discriminate H'. }
        * split; [|repeat split; reflexivity].
          { split; [|split]; simpl.
            - intros t' e' H'; apply (I1 _ _ H').
            - intros t' e' H'; apply (I2 _ _ H').
            - intros t' e' H'; discriminate H'. }
    - apply stale_false in S as [t [a [b [Hc He]]]].
      split; [exact (conj I1 (conj I2 I3))|].
      split; [|repeat split; reflexivity].
      rewrite He. simpl.
      destruct (I3 _ _ Hc) as [Ha [Hl Hn]].
      assert (Hb : b = ev_of t) by (apply W; apply (p_find_in p key_join_rules); exact He).
      assert (E : a = b) by congruence. rewrite <- E.
      rewrite <- Hl. destruct (c_jr c) as [jc|]; [reflexivity|congruence].
  Qed.

  (* after update, a coherent context shows the checks exactly what a new context would *)
  Lemma update_spec c p :
    inv c -> p_wf p -> inv (update c p) /\ view_of (update c p) = fresh_view p.
  Proof.
    intros I W. unfold Checker.update.
    pose proof (inv_upd_provider c p I) as I0.
    destruct (upd_create_spec _ p I0 W) as [I1 [F1 [A1 [A2 [A3 A4]]]]].
    set (c1 := upd_create matches load_create true (upd_provider c p) p) in *.
    destruct (upd_pl_spec c1 p I1 W F1) as [I2 [F2 [B1 [B2 [B3 B4]]]]].
    set (c2 := upd_pl matches sender_of load_pl true c1 p) in *.
    destruct (upd_jr_spec c2 p I2 W) as [I3 [F3 [C1 [C2 [C3 C4]]]]].
    set (c3 := upd_jr matches load_jr true c2 p) in *.
    split; [exact I3|].
    unfold Checker.view_of, fresh_view.
    rewrite C1, C2, C3, C4, F3, B1, B2.
    assert (E1 : option_map snd (c_create_ev c1) = fst (fresh_create p)) by (rewrite <- F1; reflexivity).
    assert (E2 : c_create c1 = snd (fresh_create p)) by (rewrite <- F1; reflexivity).
    assert (E3 : option_map snd (c_pl_ev c2) = fst (fresh_pl p)) by (rewrite <- F2; reflexivity).
    assert (E4 : c_pl c2 = snd (fresh_pl p)) by (rewrite <- F2; reflexivity).
    rewrite E1, E2, E3, E4. reflexivity.
  Qed.

  (* a new context needs no assumption on tokens: nothing is cached yet *)
  Lemma update_ctx0_view p : view_of (update (ctx0 CC PC JC) p) = fresh_view p.
  Proof.
    unfold Checker.update, upd_provider, upd_create, upd_pl, upd_jr, fresh_view, fresh_pl, fresh_create, fresh_jr,
      Checker.view_of. simpl.
    destruct (load_create (option_map snd (p_find p key_create))) as [cc|]; simpl.
    - destruct (p_find p key_create) as [[t ce]|]; simpl;
        match goal with |- context [load_pl ?a ?b] => destruct (load_pl a b) end; simpl;
        destruct (load_jr (option_map snd (p_find p key_join_rules))); reflexivity.
    - match goal with |- context [load_pl ?a ?b] => destruct (load_pl a b) end; simpl;
        destruct (load_jr (option_map snd (p_find p key_join_rules))); reflexivity.
  Qed.

  Corollary update_reuse_is_fresh c p :
    inv c -> p_wf p -> view_of (update c p) = view_of (update (ctx0 CC PC JC) p).
  Proof.
    intros I W. destruct (update_spec c p I W) as [_ E].
    destruct (update_spec (ctx0 CC PC JC) p inv_ctx0 W) as [_ E0]. congruence.
  Qed.

  Notation run_checker := (run_checker matches sender_of load_create load_pl load_jr decide).
  Notation one_shot := (one_shot matches sender_of load_create load_pl load_jr decide).

  (* checker_reuse_transparent, for a context in any coherent state *)
  Theorem run_checker_transparent steps :
    forall c, inv c -> (forall pe, In pe steps -> p_wf (fst pe)) ->
      run_checker c steps = map one_shot steps.
  Proof.
    induction steps as [|pe rest IH]; intros c I W; [reflexivity|].
    unfold Checker.run_checker in *. simpl.
    assert (Wp : p_wf (fst pe)) by (apply W; left; reflexivity).
    destruct (update_spec c (fst pe) I Wp) as [I' E].
    unfold step at 1.
    destruct (decide (Checker.view_of (update c (fst pe))) (p_auths (fst pe)) (snd pe)) as [v jr'] eqn:D.
    f_equal.
    - unfold Checker.one_shot, step.
      rewrite <- (update_reuse_is_fresh c (fst pe) I Wp). rewrite D. reflexivity.
    - apply IH; [exact I'|]. intros pe' H. apply W. right. exact H.
  Qed.

  (* as state resolution uses it: the context is created on some provider first *)
  Corollary run_after_new_context p0 steps :
    p_wf p0 -> (forall pe, In pe steps -> p_wf (fst pe)) ->
    run_checker (new_context matches sender_of load_create load_pl load_jr p0) steps = map one_shot steps.
  Proof.
    intros W0 W. apply run_checker_transparent; [|exact W].
    apply (update_spec _ p0 inv_ctx0 W0).
  Qed.
End Proofs.
