(* The library's decision procedure on the abstract input: allowerContext.allowed and everything
   below it (createEventAllowed, aliasEventAllowed, memberEventAllowed / membershipAllowed{,Self,
   Other,SelfForRestrictedJoin,FromThirdPartyInvite}, checkKnocking, powerLevelsEventAllowed with
   checkEventLevels / checkPowerLevelEventV1-3 / checkUserLevels, redactEventAllowed,
   defaultEventAllowed / commonChecks, userPowerLevel), in the order the code performs its checks,
   because the order decides between the error classes. Model only, no proofs. *)
From Verif Require Import Lib.Bytes Auth.Ids Auth.Types Auth.Versions.
Open Scope Z_scope.

Definition creators_of (c : create_info) : list bytes := c_sender c :: c_additional c.

(* allowerContext.userPowerLevel *)
Definition user_power_level (f : ver_flags) (c : create_info) (pl_present : bool) (pl : pl_content)
           (u : bytes) : Z :=
  if vf_priv_creators f && mem_bytes u (creators_of c) then creator_level
  else if negb pl_present then (if bytes_eqb u (c_sender c) then creator_level - 1 else 0)
  else pl_user_level pl u.

(* CreateContent.DomainAllowed *)
Definition domain_allowed (c : create_info) (d : bytes) : bool :=
  bytes_eqb d (c_sender_domain c) || c_federate c.

(* ---------- power-level change checks ---------- *)

(* one (old, new) pair of checkEventLevels *)
Definition level_pair_ok (L old new : Z) : bool :=
  (old =? new) || ((new <=? L) && (old <=? L)).

(* the named pairs checkEventLevels starts with *)
Definition named_pairs (old new : pl_content) : list (Z * Z) :=
  [ (pl_ban old, pl_ban new); (pl_invite old, pl_invite new); (pl_kick old, pl_kick new);
    (pl_redact old, pl_redact new); (pl_state_default old, pl_state_default new);
    (pl_events_default old, pl_events_default new);
    (pl_users_default old, pl_users_default new) ].

Definition event_pairs (old new : pl_content) : list (Z * Z) :=
  map (fun ty => (pl_event_entry old ty, pl_event_entry new ty))
      (map fst (pl_events new) ++ map fst (pl_events old)).

Definition check_event_levels (L : Z) (old new : pl_content) : bool :=
  forallb (fun p => level_pair_ok L (fst p) (snd p)) (named_pairs old new ++ event_pairs old new).

(* one entry of checkPowerLevelEventV2 *)
Definition notif_pair_ok (L old new : Z) : bool :=
  (old =? new) || ((new <=? L) && (old <=? L)).

Definition check_notif_levels (L : Z) (old new : pl_content) : bool :=
  forallb (fun n => notif_pair_ok L (pl_notif_level old n) (pl_notif_level new n))
          (map fst (pl_notifs new) ++ map fst (pl_notifs old)).

(* one entry of checkUserLevels *)
Definition user_pair_ok (L : Z) (is_sender : bool) (old new : Z) : bool :=
  (old =? new) || ((new <=? L) && (is_sender || (old <? L))).

Definition check_user_levels (L : Z) (sender : bytes) (old new : pl_content) : bool :=
  forallb (fun u => user_pair_ok L (bytes_eqb u sender) (pl_user_level old u) (pl_user_level new u))
          (map fst (pl_users new) ++ map fst (pl_users old)).

(* ---------- shared prefix of all ordinary events ---------- *)

(* newEventAllower + commonChecks; None = passed *)
Definition common_checks (a : auth_input) : option verdict :=
  match ai_sender_member a with
  | None => Some VNotAllowed
  | Some sm =>
      match ai_create a with
      | None => Some VNotAllowed
      | Some c =>
          if negb (bytes_eqb (ai_room a) (c_room c)) then Some VNotAllowed else
          match ai_sender_domain a with
          | None => Some VErr
          | Some d =>
              if negb (domain_allowed c d) then Some VNotAllowed else
              if negb (mship_eqb sm MsJoin) then Some VNotAllowed else
              let L := user_power_level (ai_flags a) c (ai_pl_present a) (ai_pl a) (ai_sender a) in
              let need := pl_event_level (ai_pl a) (ai_type a)
                                         (match ai_state_key a with Some _ => true | None => false end) in
              if L <? need then Some VNotAllowed else
              match ai_state_key a with
              | Some (c0 :: r) =>
                  if (c0 =? 64)%N && negb (bytes_eqb (c0 :: r) (ai_sender a)) then Some VNotAllowed
                  else None
              | _ => None
              end
          end
      end
  end.

Definition decide_default (a : auth_input) : verdict :=
  match common_checks a with Some v => v | None => VOk end.

(* ---------- m.room.create ---------- *)
Definition decide_create (a : auth_input) : verdict :=
  match ai_state_key a with
  | Some [] =>
      match ai_prev a with
      | _ :: _ => VNotAllowed
      | [] =>
          match ai_sender_domain a with
          | None => VErr
          | Some d =>
              let cc := ai_cc a in
              let domain_check (k : verdict) : verdict :=
                match ai_room_kind a with
                | RoomWithDomain rd => if bytes_eqb d rd then k else VNotAllowed
                | _ => VPanic
                end in
              match vf_create_check (ai_flags a) with
              | CrV1 =>
                  domain_check
                    (if negb (cc_content_ok cc) then VNotAllowed
                     else if negb (cc_has_creator cc) then VNotAllowed
                     else if negb (cc_room_version_known cc) then VNotAllowed
                     else VOk)
              | CrV2 => domain_check VOk
              | CrV3 =>
                  if negb (cc_content_ok cc) then VNotAllowed
                  else if negb (cc_room_version_known cc) then VNotAllowed
                  else if negb (cc_additional_ok cc) then VNotAllowed
                  else if cc_room_id_present cc then VNotAllowed
                  else VOk
              end
          end
      end
  | _ => VNotAllowed
  end.

(* ---------- m.room.aliases ---------- *)
Definition decide_aliases (a : auth_input) : verdict :=
  match ai_sender_domain a with
  | None => VErr
  | Some d =>
      match ai_create a with
      | None => VNotAllowed
      | Some c =>
          if negb (bytes_eqb (ai_room a) (c_room c)) then VNotAllowed
          else if negb (domain_allowed c d) then VNotAllowed
          else
            let want := if vf_pseudo_ids (ai_flags a) then ai_sender a else d in
            match ai_state_key a with
            | Some k => if bytes_eqb k want then VOk else VNotAllowed
            | None => VNotAllowed
            end
      end
  end.

(* ---------- m.room.power_levels ---------- *)

(* the level the notification check judges the sender at: the users map of the current content,
   and the creator level for creators where the version's checker knows about creators *)
Definition notif_sender_level (f : ver_flags) (c : create_info) (old : pl_content) (sender : bytes) : Z :=
  match vf_pl_check f with
  | PlV3 => if mem_bytes sender (creators_of c) then creator_level else pl_user_level old sender
  | _ => pl_user_level old sender
  end.

(* powerLevelsEventAllowed after the content has been parsed and its user IDs validated:
   checkEventLevels, the version's CheckPowerLevelEvent, checkUserLevels *)
Definition pl_change_allowed (f : ver_flags) (c : create_info) (pl_present : bool)
           (old new : pl_content) (sender : bytes) : verdict :=
  let L := user_power_level f c pl_present old sender in
  if negb (check_event_levels L old new) then VNotAllowed else
  let Ln := notif_sender_level f c old sender in
  let users_ok := if check_user_levels L sender old new then VOk else VNotAllowed in
  match vf_pl_check f with
  | PlV1 => users_ok
  | PlV2 => if negb (check_notif_levels Ln old new) then VNotAllowed else users_ok
  | PlV3 =>
      if negb (check_notif_levels Ln old new) then VNotAllowed
      else if existsb (fun u => mem_bytes u (creators_of c)) (map fst (pl_users new)) then VErr
      else users_ok
  end.

Definition decide_power_levels (a : auth_input) : verdict :=
  match common_checks a with
  | Some v => v
  | None =>
      match ai_create a, ai_new_pl a with
      | None, _ => VNotAllowed
      | _, None => VNotAllowed
      | Some c, Some new =>
          if negb (ai_new_pl_users_ok a) then VErr
          else pl_change_allowed (ai_flags a) c (ai_pl_present a) (ai_pl a) new (ai_sender a)
      end
  end.

(* ---------- m.room.redaction ---------- *)
Definition s_v1 : bytes := [49%N].
Definition s_v2 : bytes := [50%N].

Definition decide_redaction (a : auth_input) : verdict :=
  match common_checks a with
  | Some v => v
  | None =>
      match ai_create a, ai_sender_domain a with
      | Some c, Some d =>
          let old_rules := match c_room_version c with
                           | Some v => bytes_eqb v s_v1 || bytes_eqb v s_v2
                           | None => true
                           end in
          if negb old_rules then VOk else
          match ai_redacts_domain a with
          | None => VNotAllowed
          | Some rd =>
              if bytes_eqb d rd then VOk
              else if pl_redact (ai_pl a) <=?
                      user_power_level (ai_flags a) c (ai_pl_present a) (ai_pl a) (ai_sender a)
              then VOk else VNotAllowed
          end
      | _, _ => VNotAllowed
      end
  end.

(* ---------- m.room.member ---------- *)

(* membershipAllowedSelfForRestrictedJoin: Some v = return v, None = go on with rule r *)
Definition restricted_join (a : auth_input) (c : create_info) (m : member_info) (old : mship)
  : verdict + jrule :=
  match vf_restricted (ai_flags a) with
  | None => inl VPanic
  | Some false => inl VNotAllowed
  | Some true =>
      if mship_eqb old MsJoin || mship_eqb old MsInvite
         || match m_via m with [] => true | _ => false end
      then inr JrInvite
      else if negb (vf_pseudo_ids (ai_flags a)) && negb (ai_via_split_ok a) then inl VNotAllowed
      else match ai_via_member a with
           | None => inl VNotAllowed
           | Some None => inl VNotAllowed
           | Some (Some vm) =>
               if negb (mship_eqb vm MsJoin) then inl VNotAllowed
               else if user_power_level (ai_flags a) c (ai_pl_present a) (ai_pl a) (m_via m)
                       <? pl_invite (ai_pl a)
               then inl VNotAllowed
               else inr JrPublic
           end
  end.

Definition member_self (a : auth_input) (c : create_info) (m : member_info) (old : mship) : verdict :=
  if mship_eqb old MsLeave && mship_eqb (m_membership m) MsLeave then VOk
  else if mship_eqb old MsBan then VNotAllowed
  else
    match m_membership m with
    | MsKnock =>
        if negb (vf_knocking (ai_flags a)) then VNotAllowed
        else match ai_join_rule a with
             | JrKnock | JrKnockRestricted =>
                 match old with
                 | MsJoin | MsInvite | MsBan => VNotAllowed
                 | _ => VOk
                 end
             | _ => VNotAllowed
             end
    | MsJoin =>
        let after (r : jrule) : verdict :=
          match old with
          | MsInvite | MsJoin => VOk
          | MsLeave => match r with JrPublic => VOk | _ => VNotAllowed end
          | _ => VNotAllowed
          end in
        match ai_join_rule a with
        | JrRestricted | JrKnockRestricted =>
            match restricted_join a c m old with
            | inl v => v
            | inr JrPublic => VOk
            | inr r => after r
            end
        | r => after r
        end
    | MsLeave =>
        match old with
        | MsJoin | MsInvite | MsKnock => VOk
        | _ => VNotAllowed
        end
    | _ => VNotAllowed
    end.

Definition member_other (a : auth_input) (c : create_info) (m : member_info)
           (old sender_m : mship) (target : bytes) : verdict :=
  let lvl := user_power_level (ai_flags a) c (ai_pl_present a) (ai_pl a) in
  let sl := lvl (ai_sender a) in
  let tl := lvl target in
  if negb (mship_eqb sender_m MsJoin) then VNotAllowed else
  match m_membership m with
  | MsBan => if (pl_ban (ai_pl a) <=? sl) && (tl <? sl) then VOk else VNotAllowed
  | MsLeave =>
      if mship_eqb old MsBan then (if pl_ban (ai_pl a) <=? sl then VOk else VNotAllowed)
      else if (pl_kick (ai_pl a) <=? sl) && (tl <? sl) then VOk else VNotAllowed
  | MsInvite =>
      if sl <? pl_invite (ai_pl a) then VNotAllowed
      else match old with
           | MsJoin | MsBan => VNotAllowed
           | _ => VOk
           end
  | _ => VNotAllowed
  end.

Definition decide_member (a : auth_input) : verdict :=
  match ai_state_key a, ai_new_member a, ai_target_member a, ai_sender_member a with
  | Some target, Some m, Some old, Some sender_m =>
      let tpi_loaded := match m_tpi m with
                        | None => true
                        | Some _ => match ai_tpi_event a with Some (Some _) => true | _ => false end
                        end in
      if negb tpi_loaded then VNotAllowed else
      match ai_create a with
      | None => VNotAllowed
      | Some c =>
          if negb (bytes_eqb (c_room c) (ai_room a)) then VNotAllowed else
          (* mxid_mapping stands in for the sender in the pseudo-ID room version only *)
          let dom := match (if vf_pseudo_ids (ai_flags a) then m_mapping m else None) with
                     | Some md => md
                     | None => ai_sender_domain a
                     end in
          match dom with
          | None => VErr
          | Some d =>
              if negb (domain_allowed c d) then VNotAllowed else
              let self := bytes_eqb target (ai_sender a) in
              let first_join :=
                bytes_eqb target (c_sender c) && mship_eqb (m_membership m) MsJoin && self
                && match ai_prev a with [p] => bytes_eqb p (c_event_id c) | _ => false end in
              if first_join then VOk else
              match m_membership m, m_tpi m with
              | MsInvite, Some t =>
                  if negb (bytes_eqb target (t_mxid t)) then VNotAllowed
                  else if ai_sig_ok a then VOk else VNotAllowed
              | _, _ =>
                  if self then member_self a c m old
                  else member_other a c m old sender_m target
              end
          end
      end
  | _, _, _, _ => VNotAllowed
  end.

(* ---------- Allowed ---------- *)
Definition decide_model (a : auth_input) : verdict :=
  if negb (ai_provider_ok a) then VErr
  else if negb (ai_one_room a) then VNotAllowed
  else match ai_room_kind a with
       | RoomBad => VPanic
       | _ =>
           match ai_kind a with
           | KCreate => decide_create a
           | KAliases => decide_aliases a
           | KMember => decide_member a
           | KPowerLevels => decide_power_levels a
           | KRedaction => decide_redaction a
           | KOther => decide_default a
           end
       end.
