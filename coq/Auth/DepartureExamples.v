(* Concrete abstract inputs for the reachability examples of the 13 departures (Props/C07.v).
   Definitions only. *)
From Verif Require Import Lib.Bytes Auth.Ids Auth.Types Auth.Versions Auth.AllowedSpec Auth.Departures.
Open Scope Z_scope.

Definition set_kind (v : ekind) (a : auth_input) : auth_input :=
  {| ai_flags := ai_flags a;
     ai_provider_ok := ai_provider_ok a;
     ai_one_room := ai_one_room a;
     ai_kind := v;
     ai_type := ai_type a;
     ai_room := ai_room a;
     ai_room_kind := ai_room_kind a;
     ai_sender := ai_sender a;
     ai_sender_domain := ai_sender_domain a;
     ai_state_key := ai_state_key a;
     ai_prev := ai_prev a;
     ai_create := ai_create a;
     ai_pl_present := ai_pl_present a;
     ai_pl := ai_pl a;
     ai_join_rule := ai_join_rule a;
     ai_sender_member := ai_sender_member a;
     ai_new_member := ai_new_member a;
     ai_target_member := ai_target_member a;
     ai_tpi_event := ai_tpi_event a;
     ai_sig_ok := ai_sig_ok a;
     ai_sig_ok_spec := ai_sig_ok_spec a;
     ai_tpi_sender_ok := ai_tpi_sender_ok a;
     ai_via_split_ok := ai_via_split_ok a;
     ai_via_member := ai_via_member a;
     ai_new_pl := ai_new_pl a;
     ai_new_pl_users_ok := ai_new_pl_users_ok a;
     ai_redacts_domain := ai_redacts_domain a;
     ai_cc := ai_cc a |}.

Definition set_type (v : bytes) (a : auth_input) : auth_input :=
  {| ai_flags := ai_flags a;
     ai_provider_ok := ai_provider_ok a;
     ai_one_room := ai_one_room a;
     ai_kind := ai_kind a;
     ai_type := v;
     ai_room := ai_room a;
     ai_room_kind := ai_room_kind a;
     ai_sender := ai_sender a;
     ai_sender_domain := ai_sender_domain a;
     ai_state_key := ai_state_key a;
     ai_prev := ai_prev a;
     ai_create := ai_create a;
     ai_pl_present := ai_pl_present a;
     ai_pl := ai_pl a;
     ai_join_rule := ai_join_rule a;
     ai_sender_member := ai_sender_member a;
     ai_new_member := ai_new_member a;
     ai_target_member := ai_target_member a;
     ai_tpi_event := ai_tpi_event a;
     ai_sig_ok := ai_sig_ok a;
     ai_sig_ok_spec := ai_sig_ok_spec a;
     ai_tpi_sender_ok := ai_tpi_sender_ok a;
     ai_via_split_ok := ai_via_split_ok a;
     ai_via_member := ai_via_member a;
     ai_new_pl := ai_new_pl a;
     ai_new_pl_users_ok := ai_new_pl_users_ok a;
     ai_redacts_domain := ai_redacts_domain a;
     ai_cc := ai_cc a |}.

Definition set_sender (v : bytes) (a : auth_input) : auth_input :=
  {| ai_flags := ai_flags a;
     ai_provider_ok := ai_provider_ok a;
     ai_one_room := ai_one_room a;
     ai_kind := ai_kind a;
     ai_type := ai_type a;
     ai_room := ai_room a;
     ai_room_kind := ai_room_kind a;
     ai_sender := v;
     ai_sender_domain := ai_sender_domain a;
     ai_state_key := ai_state_key a;
     ai_prev := ai_prev a;
     ai_create := ai_create a;
     ai_pl_present := ai_pl_present a;
     ai_pl := ai_pl a;
     ai_join_rule := ai_join_rule a;
     ai_sender_member := ai_sender_member a;
     ai_new_member := ai_new_member a;
     ai_target_member := ai_target_member a;
     ai_tpi_event := ai_tpi_event a;
     ai_sig_ok := ai_sig_ok a;
     ai_sig_ok_spec := ai_sig_ok_spec a;
     ai_tpi_sender_ok := ai_tpi_sender_ok a;
     ai_via_split_ok := ai_via_split_ok a;
     ai_via_member := ai_via_member a;
     ai_new_pl := ai_new_pl a;
     ai_new_pl_users_ok := ai_new_pl_users_ok a;
     ai_redacts_domain := ai_redacts_domain a;
     ai_cc := ai_cc a |}.

Definition set_sender_domain (v : option bytes) (a : auth_input) : auth_input :=
  {| ai_flags := ai_flags a;
     ai_provider_ok := ai_provider_ok a;
     ai_one_room := ai_one_room a;
     ai_kind := ai_kind a;
     ai_type := ai_type a;
     ai_room := ai_room a;
     ai_room_kind := ai_room_kind a;
     ai_sender := ai_sender a;
     ai_sender_domain := v;
     ai_state_key := ai_state_key a;
     ai_prev := ai_prev a;
     ai_create := ai_create a;
     ai_pl_present := ai_pl_present a;
     ai_pl := ai_pl a;
     ai_join_rule := ai_join_rule a;
     ai_sender_member := ai_sender_member a;
     ai_new_member := ai_new_member a;
     ai_target_member := ai_target_member a;
     ai_tpi_event := ai_tpi_event a;
     ai_sig_ok := ai_sig_ok a;
     ai_sig_ok_spec := ai_sig_ok_spec a;
     ai_tpi_sender_ok := ai_tpi_sender_ok a;
     ai_via_split_ok := ai_via_split_ok a;
     ai_via_member := ai_via_member a;
     ai_new_pl := ai_new_pl a;
     ai_new_pl_users_ok := ai_new_pl_users_ok a;
     ai_redacts_domain := ai_redacts_domain a;
     ai_cc := ai_cc a |}.

Definition set_state_key (v : option bytes) (a : auth_input) : auth_input :=
  {| ai_flags := ai_flags a;
     ai_provider_ok := ai_provider_ok a;
     ai_one_room := ai_one_room a;
     ai_kind := ai_kind a;
     ai_type := ai_type a;
     ai_room := ai_room a;
     ai_room_kind := ai_room_kind a;
     ai_sender := ai_sender a;
     ai_sender_domain := ai_sender_domain a;
     ai_state_key := v;
     ai_prev := ai_prev a;
     ai_create := ai_create a;
     ai_pl_present := ai_pl_present a;
     ai_pl := ai_pl a;
     ai_join_rule := ai_join_rule a;
     ai_sender_member := ai_sender_member a;
     ai_new_member := ai_new_member a;
     ai_target_member := ai_target_member a;
     ai_tpi_event := ai_tpi_event a;
     ai_sig_ok := ai_sig_ok a;
     ai_sig_ok_spec := ai_sig_ok_spec a;
     ai_tpi_sender_ok := ai_tpi_sender_ok a;
     ai_via_split_ok := ai_via_split_ok a;
     ai_via_member := ai_via_member a;
     ai_new_pl := ai_new_pl a;
     ai_new_pl_users_ok := ai_new_pl_users_ok a;
     ai_redacts_domain := ai_redacts_domain a;
     ai_cc := ai_cc a |}.

Definition set_prev (v : list bytes) (a : auth_input) : auth_input :=
  {| ai_flags := ai_flags a;
     ai_provider_ok := ai_provider_ok a;
     ai_one_room := ai_one_room a;
     ai_kind := ai_kind a;
     ai_type := ai_type a;
     ai_room := ai_room a;
     ai_room_kind := ai_room_kind a;
     ai_sender := ai_sender a;
     ai_sender_domain := ai_sender_domain a;
     ai_state_key := ai_state_key a;
     ai_prev := v;
     ai_create := ai_create a;
     ai_pl_present := ai_pl_present a;
     ai_pl := ai_pl a;
     ai_join_rule := ai_join_rule a;
     ai_sender_member := ai_sender_member a;
     ai_new_member := ai_new_member a;
     ai_target_member := ai_target_member a;
     ai_tpi_event := ai_tpi_event a;
     ai_sig_ok := ai_sig_ok a;
     ai_sig_ok_spec := ai_sig_ok_spec a;
     ai_tpi_sender_ok := ai_tpi_sender_ok a;
     ai_via_split_ok := ai_via_split_ok a;
     ai_via_member := ai_via_member a;
     ai_new_pl := ai_new_pl a;
     ai_new_pl_users_ok := ai_new_pl_users_ok a;
     ai_redacts_domain := ai_redacts_domain a;
     ai_cc := ai_cc a |}.

Definition set_create (v : option create_info) (a : auth_input) : auth_input :=
  {| ai_flags := ai_flags a;
     ai_provider_ok := ai_provider_ok a;
     ai_one_room := ai_one_room a;
     ai_kind := ai_kind a;
     ai_type := ai_type a;
     ai_room := ai_room a;
     ai_room_kind := ai_room_kind a;
     ai_sender := ai_sender a;
     ai_sender_domain := ai_sender_domain a;
     ai_state_key := ai_state_key a;
     ai_prev := ai_prev a;
     ai_create := v;
     ai_pl_present := ai_pl_present a;
     ai_pl := ai_pl a;
     ai_join_rule := ai_join_rule a;
     ai_sender_member := ai_sender_member a;
     ai_new_member := ai_new_member a;
     ai_target_member := ai_target_member a;
     ai_tpi_event := ai_tpi_event a;
     ai_sig_ok := ai_sig_ok a;
     ai_sig_ok_spec := ai_sig_ok_spec a;
     ai_tpi_sender_ok := ai_tpi_sender_ok a;
     ai_via_split_ok := ai_via_split_ok a;
     ai_via_member := ai_via_member a;
     ai_new_pl := ai_new_pl a;
     ai_new_pl_users_ok := ai_new_pl_users_ok a;
     ai_redacts_domain := ai_redacts_domain a;
     ai_cc := ai_cc a |}.

Definition set_pl_present (v : bool) (a : auth_input) : auth_input :=
  {| ai_flags := ai_flags a;
     ai_provider_ok := ai_provider_ok a;
     ai_one_room := ai_one_room a;
     ai_kind := ai_kind a;
     ai_type := ai_type a;
     ai_room := ai_room a;
     ai_room_kind := ai_room_kind a;
     ai_sender := ai_sender a;
     ai_sender_domain := ai_sender_domain a;
     ai_state_key := ai_state_key a;
     ai_prev := ai_prev a;
     ai_create := ai_create a;
     ai_pl_present := v;
     ai_pl := ai_pl a;
     ai_join_rule := ai_join_rule a;
     ai_sender_member := ai_sender_member a;
     ai_new_member := ai_new_member a;
     ai_target_member := ai_target_member a;
     ai_tpi_event := ai_tpi_event a;
     ai_sig_ok := ai_sig_ok a;
     ai_sig_ok_spec := ai_sig_ok_spec a;
     ai_tpi_sender_ok := ai_tpi_sender_ok a;
     ai_via_split_ok := ai_via_split_ok a;
     ai_via_member := ai_via_member a;
     ai_new_pl := ai_new_pl a;
     ai_new_pl_users_ok := ai_new_pl_users_ok a;
     ai_redacts_domain := ai_redacts_domain a;
     ai_cc := ai_cc a |}.

Definition set_pl (v : pl_content) (a : auth_input) : auth_input :=
  {| ai_flags := ai_flags a;
     ai_provider_ok := ai_provider_ok a;
     ai_one_room := ai_one_room a;
     ai_kind := ai_kind a;
     ai_type := ai_type a;
     ai_room := ai_room a;
     ai_room_kind := ai_room_kind a;
     ai_sender := ai_sender a;
     ai_sender_domain := ai_sender_domain a;
     ai_state_key := ai_state_key a;
     ai_prev := ai_prev a;
     ai_create := ai_create a;
     ai_pl_present := ai_pl_present a;
     ai_pl := v;
     ai_join_rule := ai_join_rule a;
     ai_sender_member := ai_sender_member a;
     ai_new_member := ai_new_member a;
     ai_target_member := ai_target_member a;
     ai_tpi_event := ai_tpi_event a;
     ai_sig_ok := ai_sig_ok a;
     ai_sig_ok_spec := ai_sig_ok_spec a;
     ai_tpi_sender_ok := ai_tpi_sender_ok a;
     ai_via_split_ok := ai_via_split_ok a;
     ai_via_member := ai_via_member a;
     ai_new_pl := ai_new_pl a;
     ai_new_pl_users_ok := ai_new_pl_users_ok a;
     ai_redacts_domain := ai_redacts_domain a;
     ai_cc := ai_cc a |}.

Definition set_join_rule (v : jrule) (a : auth_input) : auth_input :=
  {| ai_flags := ai_flags a;
     ai_provider_ok := ai_provider_ok a;
     ai_one_room := ai_one_room a;
     ai_kind := ai_kind a;
     ai_type := ai_type a;
     ai_room := ai_room a;
     ai_room_kind := ai_room_kind a;
     ai_sender := ai_sender a;
     ai_sender_domain := ai_sender_domain a;
     ai_state_key := ai_state_key a;
     ai_prev := ai_prev a;
     ai_create := ai_create a;
     ai_pl_present := ai_pl_present a;
     ai_pl := ai_pl a;
     ai_join_rule := v;
     ai_sender_member := ai_sender_member a;
     ai_new_member := ai_new_member a;
     ai_target_member := ai_target_member a;
     ai_tpi_event := ai_tpi_event a;
     ai_sig_ok := ai_sig_ok a;
     ai_sig_ok_spec := ai_sig_ok_spec a;
     ai_tpi_sender_ok := ai_tpi_sender_ok a;
     ai_via_split_ok := ai_via_split_ok a;
     ai_via_member := ai_via_member a;
     ai_new_pl := ai_new_pl a;
     ai_new_pl_users_ok := ai_new_pl_users_ok a;
     ai_redacts_domain := ai_redacts_domain a;
     ai_cc := ai_cc a |}.

Definition set_sender_member (v : option mship) (a : auth_input) : auth_input :=
  {| ai_flags := ai_flags a;
     ai_provider_ok := ai_provider_ok a;
     ai_one_room := ai_one_room a;
     ai_kind := ai_kind a;
     ai_type := ai_type a;
     ai_room := ai_room a;
     ai_room_kind := ai_room_kind a;
     ai_sender := ai_sender a;
     ai_sender_domain := ai_sender_domain a;
     ai_state_key := ai_state_key a;
     ai_prev := ai_prev a;
     ai_create := ai_create a;
     ai_pl_present := ai_pl_present a;
     ai_pl := ai_pl a;
     ai_join_rule := ai_join_rule a;
     ai_sender_member := v;
     ai_new_member := ai_new_member a;
     ai_target_member := ai_target_member a;
     ai_tpi_event := ai_tpi_event a;
     ai_sig_ok := ai_sig_ok a;
     ai_sig_ok_spec := ai_sig_ok_spec a;
     ai_tpi_sender_ok := ai_tpi_sender_ok a;
     ai_via_split_ok := ai_via_split_ok a;
     ai_via_member := ai_via_member a;
     ai_new_pl := ai_new_pl a;
     ai_new_pl_users_ok := ai_new_pl_users_ok a;
     ai_redacts_domain := ai_redacts_domain a;
     ai_cc := ai_cc a |}.

Definition set_new_member (v : option member_info) (a : auth_input) : auth_input :=
  {| ai_flags := ai_flags a;
     ai_provider_ok := ai_provider_ok a;
     ai_one_room := ai_one_room a;
     ai_kind := ai_kind a;
     ai_type := ai_type a;
     ai_room := ai_room a;
     ai_room_kind := ai_room_kind a;
     ai_sender := ai_sender a;
     ai_sender_domain := ai_sender_domain a;
     ai_state_key := ai_state_key a;
     ai_prev := ai_prev a;
     ai_create := ai_create a;
     ai_pl_present := ai_pl_present a;
     ai_pl := ai_pl a;
     ai_join_rule := ai_join_rule a;
     ai_sender_member := ai_sender_member a;
     ai_new_member := v;
     ai_target_member := ai_target_member a;
     ai_tpi_event := ai_tpi_event a;
     ai_sig_ok := ai_sig_ok a;
     ai_sig_ok_spec := ai_sig_ok_spec a;
     ai_tpi_sender_ok := ai_tpi_sender_ok a;
     ai_via_split_ok := ai_via_split_ok a;
     ai_via_member := ai_via_member a;
     ai_new_pl := ai_new_pl a;
     ai_new_pl_users_ok := ai_new_pl_users_ok a;
     ai_redacts_domain := ai_redacts_domain a;
     ai_cc := ai_cc a |}.

Definition set_target_member (v : option mship) (a : auth_input) : auth_input :=
  {| ai_flags := ai_flags a;
     ai_provider_ok := ai_provider_ok a;
     ai_one_room := ai_one_room a;
     ai_kind := ai_kind a;
     ai_type := ai_type a;
     ai_room := ai_room a;
     ai_room_kind := ai_room_kind a;
     ai_sender := ai_sender a;
     ai_sender_domain := ai_sender_domain a;
     ai_state_key := ai_state_key a;
     ai_prev := ai_prev a;
     ai_create := ai_create a;
     ai_pl_present := ai_pl_present a;
     ai_pl := ai_pl a;
     ai_join_rule := ai_join_rule a;
     ai_sender_member := ai_sender_member a;
     ai_new_member := ai_new_member a;
     ai_target_member := v;
     ai_tpi_event := ai_tpi_event a;
     ai_sig_ok := ai_sig_ok a;
     ai_sig_ok_spec := ai_sig_ok_spec a;
     ai_tpi_sender_ok := ai_tpi_sender_ok a;
     ai_via_split_ok := ai_via_split_ok a;
     ai_via_member := ai_via_member a;
     ai_new_pl := ai_new_pl a;
     ai_new_pl_users_ok := ai_new_pl_users_ok a;
     ai_redacts_domain := ai_redacts_domain a;
     ai_cc := ai_cc a |}.

Definition set_new_pl (v : option pl_content) (a : auth_input) : auth_input :=
  {| ai_flags := ai_flags a;
     ai_provider_ok := ai_provider_ok a;
     ai_one_room := ai_one_room a;
     ai_kind := ai_kind a;
     ai_type := ai_type a;
     ai_room := ai_room a;
     ai_room_kind := ai_room_kind a;
     ai_sender := ai_sender a;
     ai_sender_domain := ai_sender_domain a;
     ai_state_key := ai_state_key a;
     ai_prev := ai_prev a;
     ai_create := ai_create a;
     ai_pl_present := ai_pl_present a;
     ai_pl := ai_pl a;
     ai_join_rule := ai_join_rule a;
     ai_sender_member := ai_sender_member a;
     ai_new_member := ai_new_member a;
     ai_target_member := ai_target_member a;
     ai_tpi_event := ai_tpi_event a;
     ai_sig_ok := ai_sig_ok a;
     ai_sig_ok_spec := ai_sig_ok_spec a;
     ai_tpi_sender_ok := ai_tpi_sender_ok a;
     ai_via_split_ok := ai_via_split_ok a;
     ai_via_member := ai_via_member a;
     ai_new_pl := v;
     ai_new_pl_users_ok := ai_new_pl_users_ok a;
     ai_redacts_domain := ai_redacts_domain a;
     ai_cc := ai_cc a |}.

Definition set_redacts_domain (v : option bytes) (a : auth_input) : auth_input :=
  {| ai_flags := ai_flags a;
     ai_provider_ok := ai_provider_ok a;
     ai_one_room := ai_one_room a;
     ai_kind := ai_kind a;
     ai_type := ai_type a;
     ai_room := ai_room a;
     ai_room_kind := ai_room_kind a;
     ai_sender := ai_sender a;
     ai_sender_domain := ai_sender_domain a;
     ai_state_key := ai_state_key a;
     ai_prev := ai_prev a;
     ai_create := ai_create a;
     ai_pl_present := ai_pl_present a;
     ai_pl := ai_pl a;
     ai_join_rule := ai_join_rule a;
     ai_sender_member := ai_sender_member a;
     ai_new_member := ai_new_member a;
     ai_target_member := ai_target_member a;
     ai_tpi_event := ai_tpi_event a;
     ai_sig_ok := ai_sig_ok a;
     ai_sig_ok_spec := ai_sig_ok_spec a;
     ai_tpi_sender_ok := ai_tpi_sender_ok a;
     ai_via_split_ok := ai_via_split_ok a;
     ai_via_member := ai_via_member a;
     ai_new_pl := ai_new_pl a;
     ai_new_pl_users_ok := ai_new_pl_users_ok a;
     ai_redacts_domain := v;
     ai_cc := ai_cc a |}.

Definition ex_flags10 : ver_flags :=
  {| vf_knocking := true; vf_restricted := Some true; vf_pl_check := PlV2; vf_int_levels := true;
     vf_create_check := CrV1; vf_priv_creators := false; vf_pseudo_ids := false; vf_event_v3 := false |}.

Definition alice : bytes := bs "@alice:hs1".
Definition bob : bytes := bs "@bob:hs2".
Definition creator : bytes := bs "@creator:hs1".

Definition ex_create10 : create_info :=
  {| c_room := bs "!r:hs1"; c_event_id := bs "$c"; c_sender := creator;
     c_sender_domain := bs "hs1"; c_federate := true; c_room_version := Some (bs "10");
     c_additional := [] |}.

Definition ex_cc : create_check :=
  {| cc_content_ok := true; cc_has_creator := true; cc_room_version_known := true;
     cc_additional_ok := true; cc_room_id_present := true |}.

(* a room with a power-levels event: alice (joined) has level 50 *)
Definition ex_pl (alice_level kick : Z) : pl_content :=
  {| pl_ban := 50; pl_invite := 0; pl_kick := kick; pl_redact := 50; pl_users_default := 0;
     pl_events_default := 0; pl_state_default := 50;
     pl_users := [(alice, alice_level)]; pl_events := [(bs "m.room.power_levels", 0)]; pl_notifs := [] |}.

(* base: an m.room.member event sent by alice about herself, in a room with power levels *)
Definition ex_base : auth_input :=
  {| ai_flags := ex_flags10; ai_provider_ok := true; ai_one_room := true; ai_kind := KMember;
     ai_type := bs "m.room.member"; ai_room := bs "!r:hs1"; ai_room_kind := RoomWithDomain (bs "hs1");
     ai_sender := alice; ai_sender_domain := Some (bs "hs1"); ai_state_key := Some alice;
     ai_prev := [bs "$p"]; ai_create := Some ex_create10; ai_pl_present := true;
     ai_pl := ex_pl 50 50; ai_join_rule := JrInvite;
     ai_sender_member := Some MsJoin; ai_new_member := None; ai_target_member := Some MsJoin;
     ai_tpi_event := None; ai_sig_ok := false; ai_sig_ok_spec := false; ai_tpi_sender_ok := false;
     ai_via_split_ok := false; ai_via_member := None; ai_new_pl := None; ai_new_pl_users_ok := true;
     ai_redacts_domain := None; ai_cc := ex_cc |}.

Definition ex_member (ms : mship) : option member_info :=
  Some {| m_membership := ms; m_tpi := None; m_via := []; m_mapping := None |}.

(* extras as extra_of computes them for well-selected auth events of a version 3+ room *)
Definition ex_extra : spec_extra :=
  {| sx_creator := Some creator; sx_old_named := []; sx_new_named := []; sx_levels_literal := true;
     sx_selection_ok := true; sx_event_id_domain := None; sx_v1v2 := false |}.

Definition rules_v10 : spec_rules := mk_rules true true true true true false false false.
Definition rules_v8 : spec_rules := mk_rules true true true true false false false false.
Definition rules_v6 : spec_rules := mk_rules false false true true false false false false.
