(* Proofs about the 13 departures (Auth/Departures.v): the switches all on give the rules, each
   departure can change the verdict only under its condition of DESIGN.md 6.1, and the literal text
   and the rules differ only where some condition holds. *)
From Verif Require Import Lib.Bytes Json.Ast Auth.GoJson Auth.Ids Auth.Types Auth.Versions Auth.Abs
     Auth.AllowedSpec Auth.Departures.
Open Scope Z_scope.

(* case analysis on the innermost scrutinee of some conditional of the goal *)
Ltac break_one :=
  match goal with
  | |- context[match ?x with _ => _ end] =>
      lazymatch x with
      | context[match _ with _ => _ end] => fail
      | _ => destruct x eqn:?
      end
  end.

Ltac unfold_bool := cbv beta iota delta [andb orb negb].

Ltac unfold_spec :=
  unfold decide_spec_with, decide_spec_literal, decide_spec, generic_ok_with,
    spec_member_with, spec_member, spec_join_with, spec_join,
    spec_power_levels_with, spec_power_levels, effective_level_checks,
    spec_redaction_with, spec_redaction, redaction_rules_by_create,
    spec_generic_with, spec_generic, spec_third_party_invite,
    spec_pl_with, spec_level_with, spec_level, spec_creator, creator_differs,
    spec_aliases, rule3_create, mem_is,
    dep1_leave_to_leave, dep2_unban_needs_ban_level_only, dep7_knock_restricted_wherever_enabled,
    dep9_aliases_rule_in_every_version, dep10_invited_or_joined_may_join_under_any_rule,
    dep13_knock_to_leave_in_every_version, dep13_first_join_needs_sender_eq_state_key.

Theorem with_all_on sv a x : decide_spec_with all_on sv a x = decide_spec sv a.
Proof.
  unfold_spec. cbn [all_on mk_dep d1 d2 d3 d4 d5 d6 d7 d8 d9 d10 d11 d12 d13].
  unfold_bool.
  repeat break_one; try reflexivity; try congruence.
Qed.

Ltac unfold_conds :=
  unfold cond1, cond2, cond3, cond4, cond6, cond7, cond8, cond9, cond10, cond11, cond12, cond13,
    member_case, is_kind, opt_bytes_eqb, Bool.eqb.

Ltac use_eqs :=
  repeat match goal with
         | H : bytes_eqb _ _ = true |- _ => apply bytes_eqb_eq in H; subst
         end.

Ltac leaf := intros; try reflexivity; try congruence; use_eqs; try reflexivity; try congruence.

(* the premises of the main theorem: a switched-off departure's condition does not hold *)
Definition off_implies_not_cond (d : departures) (sv : spec_rules) (a : auth_input) (x : spec_extra) : Prop :=
  forall k, dep_nth d k = false -> cond_nth sv a x k = false.

Lemma off_implies_unpack d sv a x :
  off_implies_not_cond d sv a x ->
  (d1 d = false -> cond1 a = false) /\ (d2 d = false -> cond2 sv a = false)
  /\ (d3 d = false -> cond3 a = false) /\ (d4 d = false -> cond4 sv a x = false)
  /\ (d5 d = false -> cond5 a x = false) /\ (d6 d = false -> cond6 a x = false)
  /\ (d7 d = false -> cond7 sv a = false) /\ (d8 d = false -> cond8 a x = false)
  /\ (d9 d = false -> cond9 sv a = false) /\ (d10 d = false -> cond10 sv a = false)
  /\ (d12 d = false -> cond12 x = false) /\ (d13 d = false -> cond13 sv a = false).
Proof.
  intro H. repeat split; intro Hd.
  - exact (H 1%N Hd). - exact (H 2%N Hd). - exact (H 3%N Hd). - exact (H 4%N Hd).
  - exact (H 5%N Hd). - exact (H 6%N Hd). - exact (H 7%N Hd). - exact (H 8%N Hd).
  - exact (H 9%N Hd). - exact (H 10%N Hd). - exact (H 12%N Hd). - exact (H 13%N Hd).
Qed.

(* descend through the two sides of an equation while they are conditionals on the same scrutinee;
   identical sides close at once, so only the paths to the place where the sides differ are split *)
Ltac atom_of x :=
  match x with
  | context[match ?y with _ => _ end] =>
      lazymatch y with
      | context[match _ with _ => _ end] => fail
      | _ => destruct y eqn:?
      end
  end.

Ltac same_head :=
  match goal with
  | |- _ -> ?l = ?l => intros _; reflexivity
  | |- _ -> (match ?x with _ => _ end) = (match ?x with _ => _ end) =>
      first [ atom_of x | destruct x eqn:? ]
  end.

Ltac leaf2 :=
  intros; try reflexivity; try congruence; use_eqs; rewrite ?bytes_eqb_refl in *;
  try reflexivity; try congruence; try (simpl in *; congruence).

Ltac descend := repeat same_head; try (intros; reflexivity); repeat break_one; leaf2.

Ltac prep :=
  unfold_conds; unfold_spec;
  cbn [all_on mk_dep d1 d2 d3 d4 d5 d6 d7 d8 d9 d10 d11 d12 d13];
  unfold_bool.

(* ---------- departure 5: with the same keys on both sides the two readings coincide ---------- *)
Lemma in_keys_lookup k m : In k (map fst m) -> exists z, lookup_z k m = Some z.
Proof.
  induction m as [|[k' v] m IH]; simpl; [tauto|].
  intros [H|H].
  - subst k'. destruct (lookup_z k m); [eauto|]. rewrite bytes_eqb_refl. eauto.
  - destruct (IH H) as [z Hz]. rewrite Hz. eauto.
Qed.

Lemma subset_keys_in l1 l2 k : subset_keys l1 l2 = true -> In k l1 -> In k l2.
Proof.
  unfold subset_keys. rewrite forallb_forall. intros H Hin. apply mem_bytes_In. apply H. exact Hin.
Qed.

Lemma same_keys_both l1 l2 k :
  same_keys l1 l2 = true -> In k (l1 ++ l2) -> In k l1 /\ In k l2.
Proof.
  unfold same_keys. intros H Hin. apply andb_true_iff in H as [H1 H2].
  apply in_app_or in Hin as [Hin|Hin]; split; eauto using subset_keys_in.
Qed.

Lemma forallb_ext_in_c {A} (f g : A -> bool) l :
  (forall y, In y l -> f y = g y) -> forallb f l = forallb g l.
Proof.
  induction l as [|y l IH]; simpl; intro H; [reflexivity|].
  rewrite (H y (or_introl eq_refl)), IH; [reflexivity|]. intros z Hz. apply H. right. exact Hz.
Qed.

Lemma mem_bytes_false_neq k l t : mem_bytes t l = false -> In k l -> bytes_eqb k t = false.
Proof.
  intros Hm Hin. destruct (bytes_eqb k t) eqn:E; [|reflexivity].
  apply bytes_eqb_eq in E. subst k. apply mem_bytes_In in Hin. congruence.
Qed.

Lemma named_pair_agree L old new on nn (kg : bytes * (pl_content -> Z)) :
  (mem_bytes (fst kg) on && mem_bytes (fst kg) nn
   || negb (mem_bytes (fst kg) on) && negb (mem_bytes (fst kg) nn) && (snd kg old =? snd kg new)) = true ->
  lit_pair L (present_level on old kg) (present_level nn new kg) = changed_ok L (snd kg old) (snd kg new).
Proof.
  unfold present_level, lit_pair, changed_ok.
  destruct (mem_bytes (fst kg) on), (mem_bytes (fst kg) nn); simpl; intro H; try discriminate.
  - reflexivity.
  - rewrite H. reflexivity.
Qed.

Lemma checks_agree sv x L s old new :
  forallb (fun kg : bytes * (pl_content -> Z) =>
             (mem_bytes (fst kg) (sx_old_named x) && mem_bytes (fst kg) (sx_new_named x))
             || (negb (mem_bytes (fst kg) (sx_old_named x))
                 && negb (mem_bytes (fst kg) (sx_new_named x))
                 && (snd kg old =? snd kg new))) named_level_keys = true ->
  same_keys (map fst (pl_events old)) (map fst (pl_events new)) = true ->
  same_keys (map fst (pl_notifs old)) (map fst (pl_notifs new)) = true ->
  same_keys (map fst (pl_users old)) (map fst (pl_users new)) = true ->
  literal_level_checks sv x L s old new = effective_level_checks sv L s old new.
Proof.
  intros Hn He Hno Hu. unfold literal_level_checks, effective_level_checks.
  f_equal; [f_equal; [f_equal|]|].
  - (* named keys *)
    rewrite forallb_forall in Hn. unfold named_level_keys in *. simpl.
    rewrite !(named_pair_agree L old new (sx_old_named x) (sx_new_named x));
      try (apply Hn; simpl; tauto).
    reflexivity.
  - (* events *)
    apply forallb_ext_in_c. intros ty Hin.
    destruct (same_keys_both _ _ _ He Hin) as [Ho Hnw].
    destruct (in_keys_lookup _ _ Ho) as [ov Eo]. destruct (in_keys_lookup _ _ Hnw) as [nv En].
    unfold pl_event_entry. rewrite Eo, En. reflexivity.
  - (* notifications *)
    f_equal. apply forallb_ext_in_c. intros n Hin.
    destruct (same_keys_both _ _ _ Hno Hin) as [Ho Hnw].
    destruct (in_keys_lookup _ _ Ho) as [ov Eo]. destruct (in_keys_lookup _ _ Hnw) as [nv En].
    unfold pl_notif_level. rewrite Eo, En. reflexivity.
  - (* users *)
    apply forallb_ext_in_c. intros u Hin.
    destruct (same_keys_both _ _ _ Hu Hin) as [Ho Hnw].
    destruct (in_keys_lookup _ _ Ho) as [ov Eo]. destruct (in_keys_lookup _ _ Hnw) as [nv En].
    unfold pl_user_level. rewrite Eo, En. reflexivity.
Qed.

Section OneSwitch.
  Variables (sv : spec_rules) (a : auth_input) (x : spec_extra).
  Variables b1 b2 b3 b4 b5 b6 b7 b8 b9 b10 b11 b12 b13 : bool.

  Lemma switch1 :
    cond1 a = false ->
    decide_spec_with (mk_dep false b2 true true b5 b6 b7 b8 b9 b10 b11 b12 b13) sv a x
    = decide_spec_with (mk_dep true b2 true true b5 b6 b7 b8 b9 b10 b11 b12 b13) sv a x.
  Proof. prep. descend. Qed.

  Lemma switch2 :
    cond2 sv a = false ->
    decide_spec_with (mk_dep b1 false true true b5 b6 b7 b8 b9 b10 b11 b12 b13) sv a x
    = decide_spec_with (mk_dep b1 true true true b5 b6 b7 b8 b9 b10 b11 b12 b13) sv a x.
  Proof. prep. descend. Qed.

  Lemma switch3 :
    cond3 a = false ->
    decide_spec_with (mk_dep b1 b2 false b4 b5 b6 b7 b8 b9 b10 b11 b12 b13) sv a x
    = decide_spec_with (mk_dep b1 b2 true b4 b5 b6 b7 b8 b9 b10 b11 b12 b13) sv a x.
  Proof.
    unfold cond3. intro H. apply Bool.negb_false_iff in H.
    unfold_spec. cbn [mk_dep d1 d2 d3 d4 d5 d6 d7 d8 d9 d10 d11 d12 d13].
    rewrite !H. unfold_bool. reflexivity.
  Qed.

  Lemma switch4 :
    cond4 sv a x = false ->
    decide_spec_with (mk_dep b1 b2 true false b5 b6 b7 b8 b9 b10 b11 b12 b13) sv a x
    = decide_spec_with (mk_dep b1 b2 true true b5 b6 b7 b8 b9 b10 b11 b12 b13) sv a x.
  Proof.
    unfold cond4. intro H.
    unfold_spec. cbn [mk_dep d1 d2 d3 d4 d5 d6 d7 d8 d9 d10 d11 d12 d13].
    destruct (ai_create a) as [c|]; [|reflexivity].
    unfold_bool. cbv beta iota delta [andb orb negb] in H.
    destruct (bytes_eqb (ai_room a) (c_room c)); cbv beta iota;
      [destruct (ai_sender_domain a) as [dm|]; cbv beta iota;
       [destruct (bytes_eqb dm (c_sender_domain c)); cbv beta iota;
        [|destruct (c_federate c); cbv beta iota]|]|];
      rewrite ?H; cbv beta iota; try reflexivity;
      repeat (match goal with
              | |- context[match (if ?X then Some ?c0 else None) with _ => _ end] => destruct X
              end; cbv beta iota; rewrite ?H; cbv beta iota; try reflexivity).
  Qed.

  Lemma switch5 :
    cond5 a x = false ->
    decide_spec_with (mk_dep b1 b2 true true false b6 b7 b8 b9 b10 b11 b12 b13) sv a x
    = decide_spec_with (mk_dep b1 b2 true true true b6 b7 b8 b9 b10 b11 b12 b13) sv a x.
  Proof.
    unfold cond5, is_kind, decide_spec_with. intro H.
    destruct (ai_kind a); try reflexivity.
    unfold spec_power_levels_with.
    change (spec_generic_with (mk_dep b1 b2 true true false b6 b7 b8 b9 b10 b11 b12 b13) sv a x)
      with (spec_generic_with (mk_dep b1 b2 true true true b6 b7 b8 b9 b10 b11 b12 b13) sv a x).
    destruct (spec_generic_with _ sv a x) as [c|]; [|reflexivity].
    destruct (ai_new_pl a) as [new|]; [|reflexivity].
    cbn [mk_dep d3 d5 d6 negb andb].
    change (spec_pl_with (mk_dep b1 b2 true true false b6 b7 b8 b9 b10 b11 b12 b13) sv a c x) with (ai_pl a).
    change (spec_pl_with (mk_dep b1 b2 true true true b6 b7 b8 b9 b10 b11 b12 b13) sv a c x) with (ai_pl a).
    change (spec_level_with (mk_dep b1 b2 true true false b6 b7 b8 b9 b10 b11 b12 b13) sv a c x (ai_sender a))
      with (spec_level_with (mk_dep b1 b2 true true true b6 b7 b8 b9 b10 b11 b12 b13) sv a c x (ai_sender a)).
    cbv beta iota zeta in H. cbn [andb] in H. apply Bool.negb_false_iff in H.
    apply andb_true_iff in H as [H H0]. apply andb_true_iff in H as [H H1].
    apply andb_true_iff in H as [H H3].
    rewrite (checks_agree sv x _ (ai_sender a) (ai_pl a) new); auto.
  Qed.

  Lemma switch6 :
    cond6 a x = false ->
    decide_spec_with (mk_dep b1 b2 true true b5 false b7 b8 b9 b10 b11 b12 b13) sv a x
    = decide_spec_with (mk_dep b1 b2 true true b5 true b7 b8 b9 b10 b11 b12 b13) sv a x.
  Proof. prep. descend. Qed.

  Lemma switch7 :
    cond7 sv a = false ->
    decide_spec_with (mk_dep b1 b2 true true b5 b6 false b8 b9 b10 b11 b12 b13) sv a x
    = decide_spec_with (mk_dep b1 b2 true true b5 b6 true b8 b9 b10 b11 b12 b13) sv a x.
  Proof. prep. descend. Qed.

  Lemma switch8 :
    cond8 a x = false ->
    decide_spec_with (mk_dep b1 b2 true true b5 b6 b7 false b9 b10 b11 b12 b13) sv a x
    = decide_spec_with (mk_dep b1 b2 true true b5 b6 b7 true b9 b10 b11 b12 b13) sv a x.
  Proof. prep. descend. Qed.

  Lemma switch9 :
    cond9 sv a = false ->
    decide_spec_with (mk_dep b1 b2 true true b5 b6 b7 b8 false b10 b11 b12 b13) sv a x
    = decide_spec_with (mk_dep b1 b2 true true b5 b6 b7 b8 true b10 b11 b12 b13) sv a x.
  Proof. prep. descend. Qed.

  Lemma switch10 :
    cond10 sv a = false ->
    decide_spec_with (mk_dep b1 b2 true true b5 b6 true b8 b9 false b11 b12 b13) sv a x
    = decide_spec_with (mk_dep b1 b2 true true b5 b6 true b8 b9 true b11 b12 b13) sv a x.
  Proof. prep. descend. Qed.

  Lemma switch11 :
    cond11 = false ->
    decide_spec_with (mk_dep b1 b2 true true b5 b6 b7 b8 b9 b10 false b12 b13) sv a x
    = decide_spec_with (mk_dep b1 b2 true true b5 b6 b7 b8 b9 b10 true b12 b13) sv a x.
  Proof. prep. descend. Qed.

  Lemma switch12 :
    cond12 x = false ->
    decide_spec_with (mk_dep b1 b2 true true b5 b6 b7 b8 b9 b10 b11 false b13) sv a x
    = decide_spec_with (mk_dep b1 b2 true true b5 b6 b7 b8 b9 b10 b11 true b13) sv a x.
  Proof. prep. descend. Qed.

  Lemma switch13 :
    cond13 sv a = false ->
    decide_spec_with (mk_dep b1 b2 true true b5 b6 b7 b8 b9 b10 b11 b12 false) sv a x
    = decide_spec_with (mk_dep b1 b2 true true b5 b6 b7 b8 b9 b10 b11 b12 true) sv a x.
  Proof. prep. descend. Qed.

End OneSwitch.

(* ---------- each departure alone ---------- *)
Lemma differs_bool (c l r : bool) : (c = false -> l = r) -> l <> r -> c = true.
Proof. destruct c; [reflexivity|]. intros H N. exfalso. apply N. apply H. reflexivity. Qed.

Theorem only_off_differs_when sv a x k :
  In k dep_numbers ->
  decide_spec_with (only_off k) sv a x <> decide_spec_with all_on sv a x ->
  cond_nth sv a x k = true.
Proof.
  intros Hin. unfold dep_numbers in Hin. simpl in Hin.
  destruct Hin as [<-|[<-|[<-|[<-|[<-|[<-|[<-|[<-|[<-|[<-|[<-|[<-|[<-|[]]]]]]]]]]]]]];
    apply differs_bool; intro Hc; unfold cond_nth in Hc; simpl in Hc.
  - exact (switch1 sv a x _ _ _ _ _ _ _ _ _ _ Hc).
  - exact (switch2 sv a x _ _ _ _ _ _ _ _ _ _ Hc).
  - exact (switch3 sv a x _ _ _ _ _ _ _ _ _ _ _ _ Hc).
  - exact (switch4 sv a x _ _ _ _ _ _ _ _ _ _ _ Hc).
  - exact (switch5 sv a x _ _ _ _ _ _ _ _ _ _ Hc).
  - exact (switch6 sv a x _ _ _ _ _ _ _ _ _ _ Hc).
  - exact (switch7 sv a x _ _ _ _ _ _ _ _ _ _ Hc).
  - exact (switch8 sv a x _ _ _ _ _ _ _ _ _ _ Hc).
  - exact (switch9 sv a x _ _ _ _ _ _ _ _ _ _ Hc).
  - exact (switch10 sv a x _ _ _ _ _ _ _ _ _ Hc).
  - exact (switch11 sv a x _ _ _ _ _ _ _ _ _ _ Hc).
  - exact (switch12 sv a x _ _ _ _ _ _ _ _ _ _ Hc).
  - exact (switch13 sv a x _ _ _ _ _ _ _ _ _ _ Hc).
Qed.

(* ---------- all of them together: the literal text against the rules ---------- *)
Theorem literal_equals_rules_without_conditions sv a x :
  (forall k, In k dep_numbers -> cond_nth sv a x k = false) ->
  decide_spec_with all_off sv a x = decide_spec_with all_on sv a x.
Proof.
  intro H.
  assert (C1 := H 1%N). assert (C2 := H 2%N). assert (C3 := H 3%N). assert (C4 := H 4%N).
  assert (C5 := H 5%N). assert (C6 := H 6%N). assert (C7 := H 7%N). assert (C8 := H 8%N).
  assert (C9 := H 9%N). assert (C10 := H 10%N). assert (C11 := H 11%N). assert (C12 := H 12%N).
  assert (C13 := H 13%N). clear H.
  unfold dep_numbers, cond_nth in *. simpl in *.
  unfold all_off, all_on.
  etransitivity; [apply switch3; tauto|].
  etransitivity; [apply switch4; tauto|].
  etransitivity; [apply switch7; tauto|].
  etransitivity; [apply switch1; tauto|].
  etransitivity; [apply switch2; tauto|].
  etransitivity; [apply switch5; tauto|].
  etransitivity; [apply switch6; tauto|].
  etransitivity; [apply switch8; tauto|].
  etransitivity; [apply switch9; tauto|].
  etransitivity; [apply switch10; tauto|].
  etransitivity; [apply switch11; tauto|].
  etransitivity; [apply switch12; tauto|].
  apply switch13; tauto.
Qed.

Theorem literal_differs_only_under_departures sv a x :
  decide_spec_literal sv a x <> decide_spec sv a ->
  exists k, In k dep_numbers /\ cond_nth sv a x k = true.
Proof.
  intro Hne. rewrite <- (with_all_on sv a x) in Hne. unfold decide_spec_literal in Hne.
  destruct (existsb (cond_nth sv a x) dep_numbers) eqn:E.
  - apply existsb_exists in E. exact E.
  - exfalso. apply Hne. apply literal_equals_rules_without_conditions.
    intros k Hin. destruct (cond_nth sv a x k) eqn:Ck; [|reflexivity].
    assert (existsb (cond_nth sv a x) dep_numbers = true) by (apply existsb_exists; eauto).
    congruence.
Qed.
