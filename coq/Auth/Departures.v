(* The 13 documented departures of DESIGN.md 6.1 as switches.

   decide_spec_with d sv a x is the rule list of Auth/AllowedSpec.v in which every place where a
   departure replaces the literal text of the specification asks the record d : departures.
     decide_spec_with all_on  = decide_spec          (the rules the property speaks about)
     decide_spec_with all_off = decide_spec_literal  (Appendix B without any "(dep k)" replacement)
   Departures 1, 2, 7, 9, 10, 11, 13 are choices inside the decision on the abstract record.
   Departures 3, 4, 5, 6, 8, 12 concern how the record is read from the events; the literal reading
   needs facts the record does not keep (content.creator, which named level keys are present, how
   the levels are spelled, the auth-event selection, the domain of the event's own ID, the version
   name). These are supplied by spec_extra, computed from the JSON events by extra_of below -- the
   toggles therefore sit where the record is built from the events, on the specification side.
   Model / specification definitions only; proofs are in Auth/DepartureProofs.v. *)
From Verif Require Import Lib.Bytes Json.Ast Auth.GoJson Auth.Ids Auth.Types Auth.Versions Auth.Abs
     Auth.AllowedSpec.
Open Scope Z_scope.

Record departures := {
  d1 : bool;   (* one's own leave -> leave is allowed *)
  d2 : bool;   (* unbanning needs only the ban level *)
  d3 : bool;   (* no power-levels event: creator 2^53-1, state_default 50; comparisons still run *)
  d4 : bool;   (* the creator is the sender of the create event, not content.creator *)
  d5 : bool;   (* power-level comparisons use effective values (absent = default) *)
  d6 : bool;   (* before v10, levels spelled as floats or padded strings are accepted *)
  d7 : bool;   (* knock_restricted is honoured wherever knocking / restricted joins exist *)
  d8 : bool;   (* v1/v2 redaction rule: selected by the create content, sender's own domain *)
  d9 : bool;   (* m.room.aliases keeps its own rule in every version *)
  d10 : bool;  (* an invited or joined user may join under any join rule *)
  d11 : bool;  (* a restricted join without authoriser is judged as under invite *)
  d12 : bool;  (* the auth-event selection is not re-validated *)
  d13 : bool   (* own knock -> leave in every version; the first join needs sender = state key *)
}.

Definition mk_dep (b1 b2 b3 b4 b5 b6 b7 b8 b9 b10 b11 b12 b13 : bool) : departures :=
  {| d1 := b1; d2 := b2; d3 := b3; d4 := b4; d5 := b5; d6 := b6; d7 := b7; d8 := b8; d9 := b9;
     d10 := b10; d11 := b11; d12 := b12; d13 := b13 |}.

Definition all_on : departures := mk_dep true true true true true true true true true true true true true.
Definition all_off : departures :=
  mk_dep false false false false false false false false false false false false false.

(* every departure on except number k *)
Definition only_off (k : N) : departures :=
  let b (i : N) := negb (k =? i)%N in
  mk_dep (b 1%N) (b 2%N) (b 3%N) (b 4%N) (b 5%N) (b 6%N) (b 7%N) (b 8%N) (b 9%N) (b 10%N) (b 11%N)
         (b 12%N) (b 13%N).

Definition dep_nth (d : departures) (k : N) : bool :=
  if (k =? 1)%N then d1 d else if (k =? 2)%N then d2 d else if (k =? 3)%N then d3 d
  else if (k =? 4)%N then d4 d else if (k =? 5)%N then d5 d else if (k =? 6)%N then d6 d
  else if (k =? 7)%N then d7 d else if (k =? 8)%N then d8 d else if (k =? 9)%N then d9 d
  else if (k =? 10)%N then d10 d else if (k =? 11)%N then d11 d else if (k =? 12)%N then d12 d
  else if (k =? 13)%N then d13 d else true.

(* what the literal text needs to know beyond the abstract record *)
Record spec_extra := {
  sx_creator : option bytes;        (* content.creator of the create auth event *)
  sx_old_named : list bytes;        (* named level keys present in the current power-levels content *)
  sx_new_named : list bytes;        (* named level keys present in the content under test *)
  sx_levels_literal : bool;         (* every level of the content under test is an integer or a plain
                                       integer string (versions before 10), an integer (10+) *)
  sx_selection_ok : bool;           (* auth events: one per (type, state key), all of them selected *)
  sx_event_id_domain : option bytes;(* domain of the event's own ID *)
  sx_v1v2 : bool                    (* the room version is 1 or 2 *)
}.

(* ---------- departures 3 and 4: the creator and the levels without a power-levels event ---------- *)
Definition creator_differs (d : departures) (sv : spec_rules) (c : create_info) (x : spec_extra) : bool :=
  negb (d4 d) && sr_creator_required sv
  && match sx_creator x with Some cr => negb (bytes_eqb cr (c_sender c)) | None => false end.

Definition spec_creator (d : departures) (sv : spec_rules) (c : create_info) (x : spec_extra) : bytes :=
  if creator_differs d sv c x
  then match sx_creator x with Some cr => cr | None => c_sender c end
  else c_sender c.

(* literal text: without a power-levels event the creator has level 100 and state_default is 0 *)
Definition literal_absent (creator : bytes) : pl_content :=
  {| pl_ban := pl_ban pl_defaults; pl_invite := pl_invite pl_defaults; pl_kick := pl_kick pl_defaults;
     pl_redact := pl_redact pl_defaults; pl_users_default := pl_users_default pl_defaults;
     pl_events_default := pl_events_default pl_defaults; pl_state_default := 0;
     pl_users := [(creator, 100)]; pl_events := []; pl_notifs := [] |}.

Definition spec_pl_with (d : departures) (sv : spec_rules) (a : auth_input) (c : create_info)
           (x : spec_extra) : pl_content :=
  if creator_differs d sv c x then
    (if ai_pl_present a then ai_pl a
     else if d3 d then pl_absent (spec_creator d sv c x) else literal_absent (spec_creator d sv c x))
  else if d3 d || ai_pl_present a then ai_pl a
  else literal_absent (c_sender c).

Definition spec_level_with (d : departures) (sv : spec_rules) (a : auth_input) (c : create_info)
           (x : spec_extra) (u : bytes) : Z :=
  if sr_v12 sv && mem_bytes u (c_sender c :: c_additional c) then creator_level
  else if negb (ai_pl_present a)
       then (if bytes_eqb u (spec_creator d sv c x)
             then (if d3 d then creator_level - 1 else 100) else 0)
       else pl_user_level (ai_pl a) u.

(* ---------- rule 5, join ---------- *)
Definition spec_join_with (d : departures) (sv : spec_rules) (a : auth_input) (c : create_info)
           (x : spec_extra) (m : member_info) (target : bytes) (old : mship) : bool :=
  let self := bytes_eqb target (ai_sender a) in
  if match ai_prev a with [p] => bytes_eqb p (c_event_id c) | _ => false end
     && bytes_eqb target (spec_creator d sv c x)
     && (negb (d13 d) || self)
  then true
  else if negb self then false
  else if mship_eqb old MsBan then false
  else
    let invited_or_joined := mship_eqb old MsInvite || mship_eqb old MsJoin in
    match ai_join_rule a with
    | JrInvite => invited_or_joined
    | JrKnock => if sr_knock sv then invited_or_joined else d10 d && invited_or_joined
    | JrRestricted | JrKnockRestricted =>
        (* literal text: before v10 knock_restricted is a join rule the version does not know *)
        if match ai_join_rule a with
           | JrKnockRestricted => negb (d7 d) && negb (sr_v10 sv)
           | _ => false
           end
        then d10 d && invited_or_joined
        else
        let enabled :=
          match ai_join_rule a with
          | JrKnockRestricted => sr_restricted sv && (d7 d || sr_v10 sv)
          | _ => sr_restricted sv
          end in
        if negb enabled then false
        else if invited_or_joined then true
        else match m_via m with
             | [] => d11 d && invited_or_joined   (* dep 11: as under invite; literal: reject *)
             | via =>
                 (sr_pseudo sv || ai_via_split_ok a)
                 && match ai_via_member a with
                    | Some (Some vm) => mship_eqb vm MsJoin
                    | _ => false
                    end
                 && (pl_invite (spec_pl_with d sv a c x) <=? spec_level_with d sv a c x via)
             end
    | JrPublic => true
    | JrOther => d10 d && invited_or_joined
    end.

Definition spec_member_with (d : departures) (sv : spec_rules) (a : auth_input) (x : spec_extra) : bool :=
  match ai_state_key a, ai_new_member a, ai_target_member a, ai_sender_member a with
  | Some target, Some m, Some old, Some sender_m =>
      match ai_create a with
      | None => false
      | Some c =>
          let dom := match (if sr_pseudo sv then m_mapping m else None) with
                     | Some md => md | None => ai_sender_domain a end in
          match dom with
          | None => false
          | Some dm =>
              if negb (bytes_eqb (ai_room a) (c_room c)) then false
              else if negb (bytes_eqb dm (c_sender_domain c) || c_federate c) then false
              else
                let self := bytes_eqb target (ai_sender a) in
                let L := spec_level_with d sv a c x in
                let p := spec_pl_with d sv a c x in
                match m_membership m with
                | MsJoin => spec_join_with d sv a c x m target old
                | MsInvite =>
                    match m_tpi m with
                    | Some t => spec_third_party_invite a t target old
                    | None =>
                        mship_eqb sender_m MsJoin
                        && negb (mship_eqb old MsJoin || mship_eqb old MsBan)
                        && (pl_invite p <=? L (ai_sender a))
                    end
                | MsLeave =>
                    if self then
                      mship_eqb old MsInvite || mship_eqb old MsJoin
                      || (mship_eqb old MsKnock && (sr_knock sv || d13 d))
                      || (mship_eqb old MsLeave && d1 d)
                    else if negb (mship_eqb sender_m MsJoin) then false
                    else if mship_eqb old MsBan then
                      (pl_ban p <=? L (ai_sender a))
                      && (d2 d || ((pl_kick p <=? L (ai_sender a)) && (L target <? L (ai_sender a))))
                    else (pl_kick p <=? L (ai_sender a)) && (L target <? L (ai_sender a))
                | MsBan =>
                    mship_eqb sender_m MsJoin
                    && (pl_ban p <=? L (ai_sender a)) && (L target <? L (ai_sender a))
                | MsKnock =>
                    sr_knock sv
                    && match ai_join_rule a with
                       | JrKnock => true
                       | JrKnockRestricted => d7 d || sr_v10 sv
                       | _ => false
                       end
                    && self
                    && negb (mship_eqb old MsBan || mship_eqb old MsInvite || mship_eqb old MsJoin)
                | MsOther => false
                end
          end
      end
  | _, _, _, _ => false
  end.

(* ---------- rules 6, 8, 9 ---------- *)
Definition spec_generic_with (d : departures) (sv : spec_rules) (a : auth_input) (x : spec_extra)
  : option create_info :=
  match rule3_create a with
  | Some c =>
      if mem_is (ai_sender_member a) MsJoin
         && (pl_event_level (spec_pl_with d sv a c x) (ai_type a)
                            (match ai_state_key a with Some _ => true | None => false end)
             <=? spec_level_with d sv a c x (ai_sender a))
         && match ai_state_key a with
            | Some (c0 :: r) => negb ((c0 =? 64)%N) || bytes_eqb (c0 :: r) (ai_sender a)
            | _ => true
            end
      then Some c else None
  | None => None
  end.

(* ---------- rule 10 ---------- *)
(* literal text: an entry or key that is added is judged on its new value only, one that is removed
   on its current value only, one that stays on both *)
Definition lit_pair (L : Z) (o n : option Z) : bool :=
  match o, n with
  | Some ov, Some nv => (ov =? nv) || ((ov <=? L) && (nv <=? L))
  | None, Some nv => nv <=? L
  | Some ov, None => ov <=? L
  | None, None => true
  end.

Definition lit_user (L : Z) (is_sender : bool) (o n : option Z) : bool :=
  match o, n with
  | Some ov, Some nv => (ov =? nv) || ((nv <=? L) && (is_sender || (ov <? L)))
  | None, Some nv => nv <=? L
  | Some ov, None => is_sender || (ov <? L)
  | None, None => true
  end.

Definition named_level_keys : list (bytes * (pl_content -> Z)) :=
  [ (k_users_default, pl_users_default); (k_events_default, pl_events_default);
    (k_state_default, pl_state_default); (k_ban, pl_ban); (k_redact, pl_redact);
    (k_kick, pl_kick); (k_invite, pl_invite) ].

Definition present_level (names : list bytes) (p : pl_content) (kg : bytes * (pl_content -> Z)) : option Z :=
  if mem_bytes (fst kg) names then Some (snd kg p) else None.

Definition literal_level_checks (sv : spec_rules) (x : spec_extra) (L : Z) (sender : bytes)
           (old new : pl_content) : bool :=
  forallb (fun kg => lit_pair L (present_level (sx_old_named x) old kg) (present_level (sx_new_named x) new kg))
          named_level_keys
  && forallb (fun ty => lit_pair L (lookup_z ty (pl_events old)) (lookup_z ty (pl_events new)))
             (map fst (pl_events old) ++ map fst (pl_events new))
  && (negb (sr_notifications sv) ||
      forallb (fun n => lit_pair L (lookup_z n (pl_notifs old)) (lookup_z n (pl_notifs new)))
              (map fst (pl_notifs old) ++ map fst (pl_notifs new)))
  && forallb (fun u => lit_user L (bytes_eqb u sender) (lookup_z u (pl_users old)) (lookup_z u (pl_users new)))
             (map fst (pl_users old) ++ map fst (pl_users new)).

Definition effective_level_checks (sv : spec_rules) (L : Z) (sender : bytes) (old new : pl_content) : bool :=
  forallb (fun g : pl_content -> Z => changed_ok L (g old) (g new))
          [pl_users_default; pl_events_default; pl_state_default; pl_ban; pl_redact; pl_kick; pl_invite]
  && forallb (fun ty => changed_ok L (pl_event_entry old ty) (pl_event_entry new ty))
             (map fst (pl_events old) ++ map fst (pl_events new))
  && (negb (sr_notifications sv) ||
      forallb (fun n => changed_ok L (pl_notif_level old n) (pl_notif_level new n))
              (map fst (pl_notifs old) ++ map fst (pl_notifs new)))
  && forallb (fun u =>
                let o := pl_user_level old u in
                let n := pl_user_level new u in
                (o =? n) || ((n <=? L) && (bytes_eqb u sender || (o <? L))))
             (map fst (pl_users old) ++ map fst (pl_users new)).

Definition spec_power_levels_with (d : departures) (sv : spec_rules) (a : auth_input) (x : spec_extra) : bool :=
  match spec_generic_with d sv a x, ai_new_pl a with
  | Some c, Some new =>
      let old := spec_pl_with d sv a c x in
      let L := spec_level_with d sv a c x (ai_sender a) in
      (d6 d || sx_levels_literal x)
      && ai_new_pl_users_ok a
      && (negb (sr_v12 sv) ||
          negb (existsb (fun u => mem_bytes u (c_sender c :: c_additional c)) (map fst (pl_users new))))
      && (if negb (d3 d) && negb (ai_pl_present a) then true  (* literal 10(c): no current levels: allow *)
          else if d5 d then effective_level_checks sv L (ai_sender a) old new
          else literal_level_checks sv x L (ai_sender a) old new)
  | _, _ => false
  end.

(* ---------- rule 11 ---------- *)
Definition redaction_rules_by_create (c : create_info) : bool :=
  match c_room_version c with
  | Some v => bytes_eqb v [49%N] || bytes_eqb v [50%N]
  | None => true
  end.

Definition spec_redaction_with (d : departures) (sv : spec_rules) (a : auth_input) (x : spec_extra) : bool :=
  match spec_generic_with d sv a x with
  | Some c =>
      let old_rules := if d8 d then redaction_rules_by_create c else sx_v1v2 x in
      let own_domain := if d8 d then ai_sender_domain a else sx_event_id_domain x in
      if negb old_rules then true
      else
        (pl_redact (spec_pl_with d sv a c x) <=? spec_level_with d sv a c x (ai_sender a))
        || match ai_redacts_domain a, own_domain with
           | Some rd, Some dm => bytes_eqb dm rd
           | _, _ => false
           end
  | None => false
  end.

Definition generic_ok_with (d : departures) (sv : spec_rules) (a : auth_input) (x : spec_extra) : bool :=
  match spec_generic_with d sv a x with Some _ => true | None => false end.

Definition decide_spec_with (d : departures) (sv : spec_rules) (a : auth_input) (x : spec_extra) : bool :=
  (d12 d || sx_selection_ok x)                                       (* rule 2 *)
  && ai_one_room a
  && match ai_kind a with
     | KCreate => spec_create sv a
     | KAliases => if d9 d || sr_aliases sv then spec_aliases sv a else generic_ok_with d sv a x
     | KMember => spec_member_with d sv a x
     | KPowerLevels => spec_power_levels_with d sv a x
     | KRedaction => spec_redaction_with d sv a x
     | KOther => generic_ok_with d sv a x
     end.

Definition decide_spec_literal (sv : spec_rules) (a : auth_input) (x : spec_extra) : bool :=
  decide_spec_with all_off sv a x.

(* ---------- where each departure can matter (the conditions of DESIGN.md 6.1) ---------- *)
Definition is_kind (a : auth_input) (k : ekind) : bool :=
  match ai_kind a, k with
  | KCreate, KCreate | KAliases, KAliases | KMember, KMember | KPowerLevels, KPowerLevels
  | KRedaction, KRedaction | KOther, KOther => true
  | _, _ => false
  end.

Definition member_case (a : auth_input) (P : bytes -> member_info -> mship -> mship -> bool) : bool :=
  is_kind a KMember &&
  match ai_state_key a, ai_new_member a, ai_target_member a, ai_sender_member a with
  | Some t, Some m, Some old, Some sm => P t m old sm
  | _, _, _, _ => false
  end.

(* 1: leave -> leave by oneself *)
Definition cond1 (a : auth_input) : bool :=
  member_case a (fun t m old _ => bytes_eqb t (ai_sender a) && mship_eqb (m_membership m) MsLeave
                                  && mship_eqb old MsLeave).

(* 2: unbanning somebody while the kick test or the target-below-sender test fails *)
Definition cond2 (sv : spec_rules) (a : auth_input) : bool :=
  member_case a (fun t m old _ =>
    negb (bytes_eqb t (ai_sender a)) && mship_eqb (m_membership m) MsLeave && mship_eqb old MsBan
    && match ai_create a with
       | Some c => negb ((pl_kick (ai_pl a) <=? spec_level sv a c (ai_sender a))
                         && (spec_level sv a c t <? spec_level sv a c (ai_sender a)))
       | None => false
       end).

(* 3: no (usable) power-levels event *)
Definition cond3 (a : auth_input) : bool := negb (ai_pl_present a).

(* 4: content.creator names somebody else than the sender of the create event (v1-10) *)
Definition cond4 (sv : spec_rules) (a : auth_input) (x : spec_extra) : bool :=
  match ai_create a with
  | Some c => sr_creator_required sv
              && match sx_creator x with Some cr => negb (bytes_eqb cr (c_sender c)) | None => false end
  | None => false
  end.

(* 5: a power-levels event that adds or removes a named key or a map entry *)
Definition subset_keys (l1 l2 : list bytes) : bool := forallb (fun k => mem_bytes k l2) l1.
Definition same_keys (l1 l2 : list bytes) : bool := subset_keys l1 l2 && subset_keys l2 l1.

Definition cond5 (a : auth_input) (x : spec_extra) : bool :=
  is_kind a KPowerLevels &&
  match ai_new_pl a with
  | Some new =>
      let old := ai_pl a in
      negb (forallb (fun kg : bytes * (pl_content -> Z) =>
                       (mem_bytes (fst kg) (sx_old_named x) && mem_bytes (fst kg) (sx_new_named x))
                       || (negb (mem_bytes (fst kg) (sx_old_named x))
                           && negb (mem_bytes (fst kg) (sx_new_named x))
                           && (snd kg old =? snd kg new))) named_level_keys
            && same_keys (map fst (pl_events old)) (map fst (pl_events new))
            && same_keys (map fst (pl_notifs old)) (map fst (pl_notifs new))
            && same_keys (map fst (pl_users old)) (map fst (pl_users new)))
  | None => false
  end.

(* 6: a power-levels event before v10 with a level spelled as a float or a padded string *)
Definition cond6 (a : auth_input) (x : spec_extra) : bool :=
  is_kind a KPowerLevels && negb (sx_levels_literal x).

(* 7: join or knock under knock_restricted before v10 *)
Definition cond7 (sv : spec_rules) (a : auth_input) : bool :=
  member_case a (fun _ m _ _ =>
    match ai_join_rule a with JrKnockRestricted => true | _ => false end
    && negb (sr_v10 sv)
    && (mship_eqb (m_membership m) MsJoin || mship_eqb (m_membership m) MsKnock)).

Definition opt_bytes_eqb (o1 o2 : option bytes) : bool :=
  match o1, o2 with
  | Some b1, Some b2 => bytes_eqb b1 b2
  | None, None => true
  | _, _ => false
  end.

(* 8: a redaction where the create content selects another rule set than the room version does,
   or where the sender's domain is not the domain of the redaction event's own ID *)
Definition cond8 (a : auth_input) (x : spec_extra) : bool :=
  is_kind a KRedaction &&
  match ai_create a with
  | Some c => negb (Bool.eqb (redaction_rules_by_create c) (sx_v1v2 x))
              || negb (opt_bytes_eqb (ai_sender_domain a) (sx_event_id_domain x))
  | None => false
  end.

(* 9: m.room.aliases in room version 6 or later *)
Definition cond9 (sv : spec_rules) (a : auth_input) : bool :=
  is_kind a KAliases && negb (sr_aliases sv).

(* 10: join by an invited or joined user under a join rule other than invite / knock / restricted /
   public *)
Definition cond10 (sv : spec_rules) (a : auth_input) : bool :=
  member_case a (fun _ m old _ =>
    mship_eqb (m_membership m) MsJoin
    && (mship_eqb old MsInvite || mship_eqb old MsJoin)
    && match ai_join_rule a with
       | JrOther => true
       | JrKnock => negb (sr_knock sv)
       | _ => false
       end).

(* 11: never -- whoever reaches the clause is neither invited nor joined, and is refused under
   either reading *)
Definition cond11 : bool := false.

(* 12: the auth events contain duplicates or events outside the selection *)
Definition cond12 (x : spec_extra) : bool := negb (sx_selection_ok x).

(* 13: own knock -> leave before v7; a first join sent by somebody else than the creator *)
Definition cond13 (sv : spec_rules) (a : auth_input) : bool :=
  member_case a (fun t m old _ =>
    (mship_eqb (m_membership m) MsLeave && bytes_eqb t (ai_sender a) && mship_eqb old MsKnock
     && negb (sr_knock sv))
    || (mship_eqb (m_membership m) MsJoin && negb (bytes_eqb t (ai_sender a))
        && match ai_create a with
           | Some c => match ai_prev a with [p] => bytes_eqb p (c_event_id c) | _ => false end
                       && bytes_eqb t (c_sender c)
           | None => false
           end)).

Definition cond_nth (sv : spec_rules) (a : auth_input) (x : spec_extra) (k : N) : bool :=
  if (k =? 1)%N then cond1 a else if (k =? 2)%N then cond2 sv a else if (k =? 3)%N then cond3 a
  else if (k =? 4)%N then cond4 sv a x else if (k =? 5)%N then cond5 a x else if (k =? 6)%N then cond6 a x
  else if (k =? 7)%N then cond7 sv a else if (k =? 8)%N then cond8 a x else if (k =? 9)%N then cond9 sv a
  else if (k =? 10)%N then cond10 sv a else if (k =? 11)%N then cond11 else if (k =? 12)%N then cond12 x
  else if (k =? 13)%N then cond13 sv a else false.

Definition dep_numbers : list N :=
  [1; 2; 3; 4; 5; 6; 7; 8; 9; 10; 11; 12; 13]%N.

(* ---------- spec_extra from the JSON events ---------- *)
Definition present_named (o : list (bytes * json)) : list bytes :=
  filter (fun k => match field k o with Some _ => true | None => false end)
         (map fst named_level_keys).

Definition content_members (e : json) : list (bytes * json) :=
  match content_of e with CoObj o => o | _ => [] end.

(* a level as the literal text of versions 1-9 has it: an integer, or a string holding one *)
Definition literal_level (j : json) : bool :=
  match j with
  | JNum raw => match num_int raw with Some z => in_int64 z | None => false end
  | JStr s => match go_parse_int64 s with Some _ => true | None => false end
  | _ => false
  end.

Definition levels_literal (o : list (bytes * json)) : bool :=
  forallb (fun k => match field k o with Some j => literal_level j | None => true end)
          (map fst named_level_keys)
  && forallb (fun mk => match field mk o with
                        | Some (JObj m) => forallb (fun kv => literal_level (snd kv)) m
                        | _ => true
                        end) [k_users; k_events; k_notifications].

(* the auth events selection of the specification *)
Definition spec_selection (e : json) : list (bytes * bytes) :=
  match kind_of (ev_type e) with
  | KCreate => []
  | k =>
      let base := [(t_create, []); (t_power_levels, []); (t_member, ev_sender e)] in
      match k, ev_state_key e, member_of_event e with
      | KMember, Some target, Some m =>
          base ++ [(t_member, target)]
          ++ (match m_membership m with
              | MsJoin | MsInvite | MsKnock => [(t_join_rules, [])]
              | _ => []
              end)
          ++ (match m_membership m, m_tpi m with
              | MsInvite, Some t => [(tpi_type, t_token t)]
              | _, _ => []
              end)
          ++ (match m_membership m, m_via m with
              | MsJoin, _ :: _ => [(t_member, m_via m)]
              | _, _ => []
              end)
      | _, _, _ => base
      end
  end.

Definition pair_eqb (p q : bytes * bytes) : bool := bytes_eqb (fst p) (fst q) && bytes_eqb (snd p) (snd q).

Fixpoint no_dup_pairs (l : list (bytes * bytes)) : bool :=
  match l with
  | [] => true
  | p :: r => negb (existsb (pair_eqb p) r) && no_dup_pairs r
  end.

Definition selection_ok (e : json) (auths : list json) : bool :=
  let keys := map (fun a => (ev_type a, match ev_state_key a with Some k => k | None => [] end)) auths in
  forallb (fun a => match ev_state_key a with Some _ => true | None => false end) auths
  && no_dup_pairs keys
  && forallb (fun p => existsb (pair_eqb p) (spec_selection e)) keys.

Definition extra_of (ver : bytes) (e : json) (auths : list json) : spec_extra :=
  let is_pl := match kind_of (ev_type e) with KPowerLevels => true | _ => false end in
  {| sx_creator :=
       match find_auth t_create [] auths with
       | Some ce => match dec_string (field k_creator (content_members ce)) with
                    | DVal cr => Some cr
                    | _ => None
                    end
       | None => None
       end;
     sx_old_named :=
       match find_auth t_power_levels [] auths with
       | Some pe => present_named (content_members pe)
       | None => []
       end;
     sx_new_named := if is_pl then present_named (content_members e) else [];
     sx_levels_literal :=
       if is_pl && negb (spec_int_levels ver) then levels_literal (content_members e) else true;
     sx_selection_ok := selection_ok e auths;
     sx_event_id_domain := domain_from_id (ev_id e);
     sx_v1v2 := bytes_eqb ver [49%N] || bytes_eqb ver [50%N] |}.

(* ---------- on JSON events ---------- *)
Definition allowed_spec_with (d : departures) (sig_ok : bytes -> bytes -> bytes -> bool)
           (ver : bytes) (e : json) (auths : list json) : option bool :=
  match spec_flags_of ver, spec_rules_of ver with
  | Some sf, Some sv => Some (decide_spec_with d sv (abs sig_ok sf e auths) (extra_of ver e auths))
  | _, _ => None
  end.

(* the departures that decide the verdict on their own: switching off just that one changes it *)
Definition decisive_departures (sv : spec_rules) (a : auth_input) (x : spec_extra) : list N :=
  filter (fun k => negb (Bool.eqb (decide_spec_with (only_off k) sv a x) (decide_spec_with all_on sv a x)))
         dep_numbers.

Definition holding_conditions (sv : spec_rules) (a : auth_input) (x : spec_extra) : list N :=
  filter (cond_nth sv a x) dep_numbers.
