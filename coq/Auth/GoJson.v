(* How Go's encoding/json fills struct fields from a JSON object, as far as event authorisation
   depends on it (model only, no proofs).

   Modelled: last member with a given key wins; JSON null leaves a plain field untouched;
   a member of the wrong JSON type makes Unmarshal return an error; int64 fields accept integer
   literals only (no fraction, no exponent) within the int64 range; map values that are null
   become zero entries; levelJSONValue (pre-v10 power levels) replicates Python int().
   NOT modelled (outside every generator): key matching that differs in letter case only,
   duplicate members, float literals with more than 15 significant digits or beyond 2^53 in
   levelJSONValue, non-ASCII white space around integer strings. *)
From Verif Require Import Lib.Bytes Json.Ast.
Open Scope N_scope.

Inductive dec (A : Type) : Type :=
| DAbsent : dec A
| DBad : dec A
| DVal : A -> dec A.
Arguments DAbsent {A}.
Arguments DBad {A}.
Arguments DVal {A} _.

Definition field (k : bytes) (o : list (bytes * json)) : option json := assoc_last k o.

Definition dec_string (v : option json) : dec bytes :=
  match v with
  | None => DAbsent
  | Some JNull => DAbsent
  | Some (JStr s) => DVal s
  | Some _ => DBad
  end.

Definition dec_bool (v : option json) : dec bool :=
  match v with
  | None => DAbsent
  | Some JNull => DAbsent
  | Some (JBool b) => DVal b
  | Some _ => DBad
  end.

Definition int64_min : Z := (-9223372036854775808)%Z.
Definition int64_max : Z := 9223372036854775807%Z.
Definition in_int64 (z : Z) : bool := ((int64_min <=? z) && (z <=? int64_max))%Z.

Definition dec_int64 (v : option json) : dec Z :=
  match v with
  | None => DAbsent
  | Some JNull => DAbsent
  | Some (JNum raw) =>
      match num_int raw with
      | Some z => if in_int64 z then DVal z else DBad
      | None => DBad
      end
  | Some _ => DBad
  end.

(* []string *)
Fixpoint all_strings (l : list json) : option (list bytes) :=
  match l with
  | [] => Some []
  | JStr s :: l' => match all_strings l' with Some r => Some (s :: r) | None => None end
  | JNull :: l' => match all_strings l' with Some r => Some ([] :: r) | None => None end
  | _ => None
  end.

Definition dec_string_list (v : option json) : dec (list bytes) :=
  match v with
  | None => DAbsent
  | Some JNull => DAbsent
  | Some (JArr l) => match all_strings l with Some r => DVal r | None => DBad end
  | Some _ => DBad
  end.

(* ---------- levelJSONValue.UnmarshalJSON ---------- *)

Definition is_go_space (c : N) : bool :=
  (c =? 32) || (c =? 9) || (c =? 10) || (c =? 11) || (c =? 12) || (c =? 13).

Fixpoint trim_left (s : bytes) : bytes :=
  match s with
  | c :: r => if is_go_space c then trim_left r else s
  | [] => []
  end.
Definition trim_space (s : bytes) : bytes := rev (trim_left (rev (trim_left s))).

(* strconv.ParseInt(s, 10, 64) *)
Definition go_parse_int64 (s : bytes) : option Z :=
  match parse_int s with
  | Some z => if in_int64 z then Some z else None
  | None => None
  end.

Fixpoint split_digits (s : bytes) : bytes * bytes :=
  match s with
  | c :: r => if is_digit c then let (d, r') := split_digits r in (c :: d, r') else ([], s)
  | [] => ([], [])
  end.

Definition digits_val (d : bytes) : N :=
  match parse_dec_acc 0 d with Some n => n | None => 0 end.

(* exact truncation toward zero of a JSON number literal with fraction and/or exponent *)
Definition float_trunc (raw : bytes) : option Z :=
  let (neg, s1) := match raw with
                   | c :: r => if c =? 45 then (true, r) else (false, raw)
                   | [] => (false, raw)
                   end in
  let (ip, s2) := split_digits s1 in
  let (fp, s3) := match s2 with
                  | c :: r => if c =? 46 then split_digits r else ([], s2)
                  | [] => ([], s2)
                  end in
  let '(eneg, ed) := match s3 with
                     | _e :: c :: r =>
                         if c =? 45 then (true, r) else if c =? 43 then (false, r) else (false, c :: r)
                     | _ => (false, [])
                     end in
  let mant := digits_val (ip ++ fp) in
  let e := digits_val ed in
  let fl := N.of_nat (length fp) in
  let mag : option N :=
    if mant =? 0 then Some 0
    else if eneg then
      let k := e + fl in if 400 <? k then Some 0 else Some (mant / 10 ^ k)
    else if fl <=? e then
      let k := e - fl in if 30 <? k then None else Some (mant * 10 ^ k)
    else Some (mant / 10 ^ (fl - e)) in
  match mag with
  | None => None
  | Some m => let z := if neg then Z.opp (Z.of_N m) else Z.of_N m in
              if in_int64 z then Some z else None
  end.

Definition level_json (j : json) : option Z :=
  match j with
  | JNum raw =>
      match num_int raw with
      | Some z => if in_int64 z then Some z else None
      | None => float_trunc raw
      end
  | JStr s => go_parse_int64 (trim_space s)
  | _ => None
  end.

(* value of a map[string]int64 entry decoded by encoding/json (v10+) *)
Definition strict_level_json (j : json) : option Z :=
  match j with
  | JNull => Some 0%Z
  | JNum raw => match num_int raw with
                | Some z => if in_int64 z then Some z else None
                | None => None
                end
  | _ => None
  end.

Fixpoint map_levels (f : json -> option Z) (m : list (bytes * json)) : option (list (bytes * Z)) :=
  match m with
  | [] => Some []
  | (k, v) :: m' =>
      match f v, map_levels f m' with
      | Some z, Some r => Some ((k, z) :: r)
      | _, _ => None
      end
  end.

(* a map-typed member: absent / null => no entries *)
Definition dec_level_map (f : json -> option Z) (v : option json) : option (list (bytes * Z)) :=
  match v with
  | None => Some []
  | Some JNull => Some []
  | Some (JObj m) => map_levels f m
  | Some _ => None
  end.

(* Go map lookup after decoding: the last entry with the key *)
Definition lookup_level (k : bytes) (m : list (bytes * Z)) : option Z := assoc_last k m.
