(* Identifier helpers used by event authorisation (model only).
   spec.NewUserID(id, true) (the UserIDForSender every caller of Allowed passes for rooms without
   pseudo IDs), SplitID, domainFromID, ParseAndValidateServerName.
   NOT modelled: IPv6 literals in server names (a host starting with '[' is treated as invalid;
   the generators never produce one). *)
From Verif Require Import Lib.Bytes.
Open Scope N_scope.

Definition is_dns_char (c : N) : bool :=
  ((65 <=? c) && (c <=? 90)) || ((97 <=? c) && (c <=? 122)) || ((48 <=? c) && (c <=? 57))
  || (c =? 45) || (c =? 46).

Fixpoint all_dns (s : bytes) : bool :=
  match s with [] => true | c :: r => is_dns_char c && all_dns r end.

(* split at the LAST colon *)
Fixpoint split_last_colon (s : bytes) : option (bytes * bytes) :=
  match s with
  | [] => None
  | c :: r =>
      match split_last_colon r with
      | Some (a, b) => Some (c :: a, b)
      | None => if c =? 58 then Some ([], r) else None
      end
  end.

Fixpoint all_digit_bytes (s : bytes) : bool :=
  match s with [] => true | c :: r => is_digit c && all_digit_bytes r end.

(* strconv.ParseUint(s, 10, 16) succeeds *)
Definition port_ok (s : bytes) : bool :=
  match s with
  | [] => false
  | _ => all_digit_bytes s &&
         match parse_dec s with Some n => n <=? 65535 | None => false end
  end.

Definition host_ok (h : bytes) : bool :=
  match h with [] => false | _ => all_dns h end.

Definition server_name_ok (s : bytes) : bool :=
  match s with
  | [] => false
  | _ =>
      match split_last_colon s with
      | Some (h, p) => if port_ok p then host_ok h else false
      | None => host_ok s
      end
  end.

(* everything after the first colon *)
Definition after_first_colon (s : bytes) : option bytes :=
  match split_at 58 s with Some (_, d) => Some d | None => None end.

(* spec.NewUserID(id, true): Some (localpart, domain) *)
Definition user_id_parse (id : bytes) : option (bytes * bytes) :=
  let n := N.of_nat (length id) in
  if (n <? 4) || (255 <? n) then None else
  match id with
  | c :: r =>
      if c =? 64 then
        match split_at 58 r with
        | Some (l, d) => if server_name_ok d then Some (l, d) else None
        | None => None
        end
      else None
  | [] => None
  end.

Definition user_domain (id : bytes) : option bytes :=
  match user_id_parse id with Some (_, d) => Some d | None => None end.

(* SplitID('@', id) succeeds *)
Definition split_id_ok (sigil : N) (id : bytes) : bool :=
  match id with
  | c :: _ => (c =? sigil) && match split_at 58 id with Some _ => true | None => false end
  | [] => false
  end.

(* domainFromID *)
Definition domain_from_id (id : bytes) : option bytes := after_first_colon id.

(* spec.NewRoomID accepts: the form with a domain, or 43 url-safe base64 characters *)
Definition is_b64url_char (c : N) : bool :=
  ((65 <=? c) && (c <=? 90)) || ((97 <=? c) && (c <=? 122)) || ((48 <=? c) && (c <=? 57))
  || (c =? 45) || (c =? 95).
Fixpoint all_b64url (s : bytes) : bool :=
  match s with [] => true | c :: r => is_b64url_char c && all_b64url r end.

Inductive room_id_kind := RoomBad | RoomDomainless | RoomWithDomain (d : bytes).

Definition room_id_parse (id : bytes) : room_id_kind :=
  if N.of_nat (length id) <? 4 then RoomBad else
  match id with
  | c :: r =>
      if c =? 33 then
        match split_at 58 r with
        | Some (l, d) => if server_name_ok d && negb (match l with [] => true | _ => false end)
                         then RoomWithDomain d else RoomBad
        | None => if (N.of_nat (length r) =? 43) && all_b64url r then RoomDomainless else RoomBad
        end
      else RoomBad
  | [] => RoomBad
  end.
