(* allowed_model: the executable model of gomatrixserverlib.Allowed on parsed JSON events.
   allowed_model sig_ok ver event auth_events = decide_model (abs ...), None when the version is
   not in the generated table (or uses a switch value this model does not know).
   Import this file (and Auth.Types for the verdict type) to use the auth model elsewhere. *)
From Verif Require Import Lib.Bytes Json.Ast Json.Parse Auth.GoJson Auth.Ids Auth.Types Auth.Versions
     Auth.Abs Auth.Decide.
Open Scope N_scope.

Definition allowed_model (sig_ok : bytes -> bytes -> bytes -> bool)
           (ver : bytes) (e : json) (auths : list json) : option verdict :=
  match flags_of_version ver with
  | Some f => Some (decide_model (abs sig_ok f e auths))
  | None => None
  end.

(* no third-party-invite signature ever verifies (enough for callers that never build such invites) *)
Definition no_sig : bytes -> bytes -> bytes -> bool := fun _ _ _ => false.

Definition allowed_bool (ver : bytes) (e : json) (auths : list json) : bool :=
  match allowed_model no_sig ver e auths with Some VOk => true | _ => false end.

Definition verdict_bytes (v : option verdict) : bytes :=
  match v with
  | Some VOk => bs "ok"
  | Some VNotAllowed => bs "notallowed"
  | Some VErr => bs "err"
  | Some VPanic => bs "panic"
  | None => bs "unknown-version"
  end.

Fixpoint parse_all (l : list bytes) : option (list json) :=
  match l with
  | [] => Some []
  | t :: r => match parse_json t, parse_all r with
              | Some j, Some js => Some (j :: js)
              | _, _ => None
              end
  end.
