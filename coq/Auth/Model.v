(* allowed_model: the executable model of gomatrixserverlib.Allowed on parsed JSON events.
   allowed_model sig_ok ver event auth_events = decide_model (abs ...), None when the version is
   not in the generated table (or uses a switch value this model does not know).
   Import this file (and Auth.Types for the verdict type) to use the auth model elsewhere. *)
From Verif Require Import Lib.Bytes Json.Ast Json.Parse Auth.GoJson Auth.Ids Auth.Types Auth.Versions
     Auth.Abs Auth.Decide.
Open Scope N_scope.

Definition allowed_model (sig_ok : bytes -> bytes -> bytes -> bool)
           (ver : bytes) (e : json) (auths : list json) : option verdict :=
  match flags_of_version ver with
  | Some f => Some (decide_model (abs sig_ok f e auths))
  | None => None
  end.

(* The same check when the UserIDForSender callback answers (nil, nil) -- instead of an error --
   for a sender it cannot resolve (the callers' pseudo-ID queriers do): every place that asks
   the callback then refuses with a NotAllowed error. The remaining other-class errors are: the
   provider could not be built, an mxid_mapping whose user_id is not a user ID (spec.NewUserID),
   and a creator named in a version-12 power-levels event. *)
Definition nil_querier_verdict (a : auth_input) (v : verdict) : verdict :=
  match v with
  | VErr =>
      if negb (ai_provider_ok a) then VErr
      else match ai_kind a with
           | KMember =>
               match ai_new_member a with
               | Some m => match m_mapping m with Some None => VErr | _ => VNotAllowed end
               | None => VNotAllowed
               end
           | KPowerLevels =>
               match ai_sender_domain a with
               | None => VNotAllowed
               | Some _ => if ai_new_pl_users_ok a then VErr else VNotAllowed
               end
           | _ => VNotAllowed
           end
  | _ => v
  end.

Definition allowed_model_nilq (sig_ok : bytes -> bytes -> bytes -> bool)
           (ver : bytes) (e : json) (auths : list json) : option verdict :=
  match flags_of_version ver with
  | Some f => let a := abs sig_ok f e auths in Some (nil_querier_verdict a (decide_model a))
  | None => None
  end.

(* no third-party-invite signature ever verifies (enough for callers that never build such invites) *)
Definition no_sig : bytes -> bytes -> bytes -> bool := fun _ _ _ => false.

Definition allowed_bool (ver : bytes) (e : json) (auths : list json) : bool :=
  match allowed_model no_sig ver e auths with Some VOk => true | _ => false end.

Definition verdict_bytes (v : option verdict) : bytes :=
  match v with
  | Some VOk => bs "ok"
  | Some VNotAllowed => bs "notallowed"
  | Some VErr => bs "err"
  | Some VPanic => bs "panic"
  | None => bs "unknown-version"
  end.

Fixpoint parse_all (l : list bytes) : option (list json) :=
  match l with
  | [] => Some []
  | t :: r => match parse_json t, parse_all r with
              | Some j, Some js => Some (j :: js)
              | _, _ => None
              end
  end.
