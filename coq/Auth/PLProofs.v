(* C08: proofs about the power-level change check (model: Auth/Decide.v pl_change_allowed;
   specification: Auth/PLSpec.v no_escalation). *)
From Verif Require Import Lib.Bytes Json.Ast Auth.GoJson Auth.Ids Auth.Types Auth.Versions Auth.Abs
     Auth.Decide Auth.PLSpec.
Open Scope Z_scope.

Lemma lookup_z_in k m z : lookup_z k m = Some z -> In k (map fst m).
Proof.
  revert z. induction m as [|[k' v] m IH]; simpl; intro z; [discriminate|].
  destruct (lookup_z k m) eqn:E.
  - intros _. right. eapply IH. reflexivity.
  - destruct (bytes_eqb k k') eqn:Ek; [|discriminate].
    intros _. left. apply bytes_eqb_eq in Ek. congruence.
Qed.

Lemma lookup_z_none_or_in k m : lookup_z k m = None \/ In k (map fst m).
Proof. destruct (lookup_z k m) eqn:E; [right; eapply lookup_z_in; eauto | left; reflexivity]. Qed.

Lemma level_pair_ok_spec L o n :
  level_pair_ok L o n = true -> n <> o -> n <= L /\ o <= L.
Proof.
  unfold level_pair_ok. intros H Hne.
  apply orb_true_iff in H as [H|H].
  - apply Z.eqb_eq in H. congruence.
  - apply andb_true_iff in H as [H1 H2]. apply Z.leb_le in H1, H2. auto.
Qed.

Lemma notif_pair_ok_spec L o n :
  notif_pair_ok L o n = true -> n <> o -> n <= L /\ o <= L.
Proof. exact (level_pair_ok_spec L o n). Qed.

Lemma user_pair_ok_spec L s o n :
  user_pair_ok L s o n = true -> n <> o -> n <= L /\ (s = false -> o < L).
Proof.
  unfold user_pair_ok. intros H Hne.
  apply orb_true_iff in H as [H|H].
  - apply Z.eqb_eq in H. congruence.
  - apply andb_true_iff in H as [H1 H2]. apply Z.leb_le in H1. split; [assumption|].
    intros ->. simpl in H2. apply Z.ltb_lt in H2. assumption.
Qed.

(* what acceptance means for the three loops *)
Lemma pl_allowed_inv f c present old new sender :
  pl_change_allowed f c present old new sender = VOk ->
  check_event_levels (user_power_level f c present old sender) old new = true
  /\ check_user_levels (user_power_level f c present old sender) sender old new = true
  /\ (notif_checked f = true -> check_notif_levels (notif_sender_level f c old sender) old new = true)
  /\ (vf_pl_check f = PlV3 ->
      existsb (fun u => mem_bytes u (creators_of c)) (map fst (pl_users new)) = false).
Proof.
  unfold pl_change_allowed, notif_checked.
  destruct (check_event_levels _ old new) eqn:He; simpl; [|discriminate].
  destruct (vf_pl_check f) eqn:Ev.
  - destruct (check_user_levels _ sender old new) eqn:Hu; [|discriminate].
    intros _. repeat split; auto; discriminate.
  - destruct (check_notif_levels _ old new) eqn:Hn; simpl; [|discriminate].
    destruct (check_user_levels _ sender old new) eqn:Hu; [|discriminate].
    intros _. repeat split; auto; discriminate.
  - destruct (check_notif_levels _ old new) eqn:Hn; simpl; [|discriminate].
    destruct (existsb _ _) eqn:Hc; [discriminate|].
    destruct (check_user_levels _ sender old new) eqn:Hu; [|discriminate].
    intros _. repeat split; auto.
Qed.

Lemma creator_level_pred : creator_level - 1 = 9007199254740991.
Proof. reflexivity. Qed.

Lemma absent_user_level cr u :
  pl_user_level (pl_absent cr) u = if bytes_eqb u cr then 9007199254740991 else 0.
Proof. unfold pl_user_level, pl_absent. simpl. destruct (bytes_eqb u cr); reflexivity. Qed.

Lemma zero_user_level u : pl_user_level pl_zero u = 0.
Proof. reflexivity. Qed.

(* the level used by the notification check never exceeds the sender's effective level *)
Lemma notif_level_le f c present old sender :
  flags_consistent f -> old_wf c present old ->
  notif_sender_level f c old sender <= user_power_level f c present old sender.
Proof.
  intros [Hc1 Hc2] Hwf. unfold notif_sender_level, user_power_level.
  assert (Hbase : pl_user_level old sender <=
                  (if negb present then if bytes_eqb sender (c_sender c) then creator_level - 1 else 0
                   else pl_user_level old sender)).
  { destruct present; simpl; [lia|].
    destruct (Hwf eq_refl) as [-> | ->].
    - rewrite absent_user_level. destruct (bytes_eqb sender (c_sender c)); cbv; congruence.
    - rewrite zero_user_level. destruct (bytes_eqb sender (c_sender c)); cbv; congruence. }
  destruct (vf_pl_check f) eqn:Ev.
  - destruct (vf_priv_creators f) eqn:Ep; [specialize (Hc2 eq_refl); congruence|].
    rewrite Bool.andb_false_l. exact Hbase.
  - destruct (vf_priv_creators f) eqn:Ep; [specialize (Hc2 eq_refl); congruence|].
    rewrite Bool.andb_false_l. exact Hbase.
  - rewrite (Hc1 eq_refl). rewrite Bool.andb_true_l.
    destruct (mem_bytes sender (creators_of c)); [apply Z.le_refl|exact Hbase].
Qed.

Lemma named_pairs_in g old new :
  In g named_getters -> In (g old, g new) (named_pairs old new).
Proof.
  unfold named_getters, named_pairs. simpl.
  intros [<-|[<-|[<-|[<-|[<-|[<-|[<-|[]]]]]]]]; tauto.
Qed.

Lemma event_level_changed L old new ty :
  (forall x, In x (named_pairs old new ++ event_pairs old new) -> level_pair_ok L (fst x) (snd x) = true) ->
  pl_event_entry new ty <> pl_event_entry old ty ->
  pl_event_entry new ty <= L /\ pl_event_entry old ty <= L.
Proof.
  intros He Hne.
  assert (Hin : In (pl_event_entry old ty, pl_event_entry new ty)
                   (named_pairs old new ++ event_pairs old new)).
  { destruct (lookup_z_none_or_in ty (pl_events new)) as [En|I1].
    - destruct (lookup_z_none_or_in ty (pl_events old)) as [Eo|I2].
      + unfold pl_event_entry. rewrite En, Eo. apply in_or_app. left.
        unfold named_pairs. simpl. tauto.
      + apply in_or_app. right. unfold event_pairs. apply in_map_iff. exists ty.
        split; [reflexivity|apply in_or_app; right; assumption].
    - apply in_or_app. right. unfold event_pairs. apply in_map_iff. exists ty.
      split; [reflexivity|apply in_or_app; left; assumption]. }
  pose proof (level_pair_ok_spec L _ _ (He _ Hin)) as H. cbn [fst snd] in H. apply H. exact Hne.
Qed.

Theorem accept_no_escalation f c present old new sender :
  flags_consistent f -> old_wf c present old ->
  pl_change_allowed f c present old new sender = VOk ->
  no_escalation f c (user_power_level f c present old sender) sender old new.
Proof.
  intros Hcons Hwf Hacc.
  destruct (pl_allowed_inv _ _ _ _ _ _ Hacc) as (He & Hu & Hn & Hcr).
  set (L := user_power_level f c present old sender) in *.
  unfold check_event_levels in He. rewrite forallb_forall in He.
  unfold check_user_levels in Hu. rewrite forallb_forall in Hu.
  assert (Hnamed : forall g, In g named_getters -> g new <> g old -> g new <= L /\ g old <= L).
  { intros g Hg Hne. apply level_pair_ok_spec; [|assumption].
    apply (He (g old, g new)). apply in_or_app. left. apply named_pairs_in. assumption. }
  unfold no_escalation. repeat split.
  - apply Hnamed; assumption.
  - apply Hnamed; assumption.
  - apply (event_level_changed L old new ty He H).
  - apply (event_level_changed L old new ty He H).
  - (* notifications: new *)
    rename H into Hchk. rename H0 into Hne.
    specialize (Hn Hchk). unfold check_notif_levels in Hn. rewrite forallb_forall in Hn.
    pose proof (notif_level_le f c present old sender Hcons Hwf) as Hle. fold L in Hle.
    assert (Hin : In n (map fst (pl_notifs new) ++ map fst (pl_notifs old))).
    { unfold pl_notif_level in Hne.
      destruct (lookup_z_none_or_in n (pl_notifs new)) as [En|I1]; [|apply in_or_app; left; assumption].
      destruct (lookup_z_none_or_in n (pl_notifs old)) as [Eo|I2]; [|apply in_or_app; right; assumption].
      rewrite En, Eo in Hne. congruence. }
    destruct (notif_pair_ok_spec _ _ _ (Hn n Hin) Hne). lia.
  - rename H into Hchk. rename H0 into Hne.
    specialize (Hn Hchk). unfold check_notif_levels in Hn. rewrite forallb_forall in Hn.
    pose proof (notif_level_le f c present old sender Hcons Hwf) as Hle. fold L in Hle.
    assert (Hin : In n (map fst (pl_notifs new) ++ map fst (pl_notifs old))).
    { unfold pl_notif_level in Hne.
      destruct (lookup_z_none_or_in n (pl_notifs new)) as [En|I1]; [|apply in_or_app; left; assumption].
      destruct (lookup_z_none_or_in n (pl_notifs old)) as [Eo|I2]; [|apply in_or_app; right; assumption].
      rewrite En, Eo in Hne. congruence. }
    destruct (notif_pair_ok_spec _ _ _ (Hn n Hin) Hne). lia.
  - (* 4a *)
    intros u Hne.
    destruct (lookup_z_none_or_in u (pl_users new)) as [En|I1];
      [destruct (lookup_z_none_or_in u (pl_users old)) as [Eo|I2]|].
    + unfold pl_user_level in *. rewrite En, Eo in *.
      apply (Hnamed pl_users_default); [simpl; tauto|assumption].
    + apply (user_pair_ok_spec L _ _ _ (Hu u ltac:(apply in_or_app; right; assumption)) Hne).
    + apply (user_pair_ok_spec L _ _ _ (Hu u ltac:(apply in_or_app; left; assumption)) Hne).
  - (* 4b *)
    intros u Hin Hns Hne. unfold user_keys in Hin.
    assert (Hin' : In u (map fst (pl_users new) ++ map fst (pl_users old))).
    { apply in_app_or in Hin. apply in_or_app. tauto. }
    apply (user_pair_ok_spec L _ _ _ (Hu u Hin') Hne).
    apply bytes_eqb_neq. assumption.
  - (* 5 *)
    intros Hp cr Hcr' Hin.
    destruct Hcons as [_ Hc2]. specialize (Hcr (Hc2 Hp)).
    assert (existsb (fun u => mem_bytes u (creators_of c)) (map fst (pl_users new)) = true).
    { apply existsb_exists. exists cr. split; [assumption|]. apply mem_bytes_In. assumption. }
    congruence.
Qed.

(* every version of the generated table is consistent *)
Lemma generated_flags_consistent :
  forallb (fun ver => match flags_of_version ver with
                      | Some f => match vf_pl_check f, vf_priv_creators f with
                                  | PlV3, true => true
                                  | PlV3, false => false
                                  | _, true => false
                                  | _, false => true
                                  end
                      | None => false
                      end) all_versions = true.
Proof. vm_compute. reflexivity. Qed.

Lemma version_flags_consistent ver f :
  In ver all_versions -> flags_of_version ver = Some f -> flags_consistent f.
Proof.
  intros Hin Hf. pose proof generated_flags_consistent as H. rewrite forallb_forall in H.
  specialize (H ver Hin). rewrite Hf in H. unfold flags_consistent.
  destruct (vf_pl_check f), (vf_priv_creators f); try discriminate; split; congruence.
Qed.

(* abs always produces a well-formed current content *)
Lemma abs_old_wf sig_ok f e auths c :
  ai_create (abs sig_ok f e auths) = Some c ->
  old_wf c (ai_pl_present (abs sig_ok f e auths)) (ai_pl (abs sig_ok f e auths)).
Proof.
  unfold abs, old_wf. simpl. intros Hc. rewrite Hc. unfold pl_of_auths.
  destruct (find_auth t_power_levels [] auths); simpl.
  - destruct (pl_of_event (vf_int_levels f) j); simpl; [discriminate|]. right. reflexivity.
  - left. reflexivity.
Qed.

(* ---- histories ---- *)
Definition levels_bounded (B : Z) (p : pl_content) : Prop := forall u, pl_user_level p u <= B.

Lemma sender_level_bounded f c present cur sender B :
  creator_level <= B -> levels_bounded B cur ->
  user_power_level f c present cur sender <= B.
Proof.
  intros HB Hb. unfold user_power_level.
  assert (0 < creator_level) by reflexivity.
  destruct (vf_priv_creators f && mem_bytes sender (creators_of c)); [assumption|].
  destruct (negb present); [destruct (bytes_eqb sender (c_sender c)); lia|apply Hb].
Qed.

Lemma step_bound f c present cur s :
  flags_consistent f -> old_wf c present cur ->
  pl_change_allowed f c present cur (st_new s) (st_sender s) = VOk ->
  forall u, pl_user_level (st_new s) u <=
            Z.max (pl_user_level cur u) (user_power_level f c present cur (st_sender s)).
Proof.
  intros Hc Hwf Hacc u.
  destruct (accept_no_escalation _ _ _ _ _ _ Hc Hwf Hacc) as (_ & _ & _ & H4a & _).
  destruct (Z.eq_dec (pl_user_level (st_new s) u) (pl_user_level cur u)) as [E|N].
  - rewrite E. lia.
  - specialize (H4a u N). lia.
Qed.

Lemma history_bounded f c :
  flags_consistent f ->
  forall steps present cur B,
    old_wf c present cur -> creator_level <= B -> levels_bounded B cur ->
    accepted_history f c present cur steps ->
    levels_bounded B (final_content cur steps).
Proof.
  intros Hc steps. induction steps as [|s rest IH]; intros present cur B Hwf HB Hb Hacc; simpl.
  - exact Hb.
  - destruct Hacc as [Hs Hrest].
    apply (IH true (st_new s) B); try assumption.
    + unfold old_wf. discriminate.
    + intro u. pose proof (step_bound f c present cur s Hc Hwf Hs u) as Hsb.
      pose proof (sender_level_bounded f c present cur (st_sender s) B HB Hb).
      specialize (Hb u). lia.
Qed.

(* integer-only parsing: a named member accepted by the strict parser is null or an integer literal *)
Lemma strict_named_int_or_null k o d z j :
  named_level true k o d = Some z -> field k o = Some j -> int_or_null j.
Proof.
  unfold named_level, dec_int64. intros H Hf. rewrite Hf in H.
  destruct j; try discriminate; [left; reflexivity|].
  destruct (num_int raw) eqn:En; [|discriminate].
  right. exists raw, z0. split; reflexivity || assumption.
Qed.

Lemma strict_level_int_or_null j z : strict_level_json j = Some z -> int_or_null j.
Proof.
  unfold strict_level_json. destruct j; try discriminate; [left; reflexivity|].
  destruct (num_int raw) eqn:En; [|discriminate]. intros _.
  right. exists raw, z0. split; reflexivity || assumption.
Qed.

Lemma map_levels_all f m r :
  map_levels f m = Some r -> forall k v, In (k, v) m -> exists z, f v = Some z.
Proof.
  revert r. induction m as [|[k0 v0] m IH]; simpl; intros r H k v Hin; [contradiction|].
  destruct (f v0) eqn:E0; [|discriminate].
  destruct (map_levels f m) eqn:Em; [|discriminate].
  destruct Hin as [Heq|Hin].
  - inversion Heq; subst. eauto.
  - eapply IH; eauto.
Qed.

(* ---- integer-only parsing, all members ---- *)
Definition named_specs : list (bytes * Z) :=
  [ (k_ban, pl_ban pl_defaults); (k_invite, pl_invite pl_defaults); (k_kick, pl_kick pl_defaults);
    (k_redact, pl_redact pl_defaults); (k_users_default, pl_users_default pl_defaults);
    (k_events_default, pl_events_default pl_defaults); (k_state_default, pl_state_default pl_defaults) ].

Lemma pl_of_obj_inv b o p :
  pl_of_obj b o = Some p ->
  (forall k d, In (k, d) named_specs -> exists z, named_level b k o d = Some z)
  /\ (forall mk, In mk [k_users; k_events; k_notifications] ->
        exists r, dec_level_map (if b then strict_level_json else level_json) (field mk o) = Some r).
Proof.
  unfold pl_of_obj.
  destruct (named_level b k_ban o _) eqn:E1; [|discriminate].
  destruct (named_level b k_invite o _) eqn:E2; [|discriminate].
  destruct (named_level b k_kick o _) eqn:E3; [|discriminate].
  destruct (named_level b k_redact o _) eqn:E4; [|discriminate].
  destruct (named_level b k_users_default o _) eqn:E5; [|discriminate].
  destruct (named_level b k_events_default o _) eqn:E6; [|discriminate].
  destruct (named_level b k_state_default o _) eqn:E7; [|discriminate].
  destruct (dec_level_map _ (field k_users o)) eqn:M1; [|discriminate].
  destruct (dec_level_map _ (field k_events o)) eqn:M2; [|discriminate].
  destruct (dec_level_map _ (field k_notifications o)) eqn:M3; [|discriminate].
  intros _. split.
  - intros k d Hin. unfold named_specs in Hin. simpl in Hin.
    destruct Hin as [H|[H|[H|[H|[H|[H|[H|[]]]]]]]]; inversion H; subst; eauto.
  - intros mk Hin. simpl in Hin. destruct Hin as [<-|[<-|[<-|[]]]]; eauto.
Qed.

Theorem strict_parse_integer_only o p :
  pl_of_obj true o = Some p ->
  (forall k d, In (k, d) named_specs -> forall j, field k o = Some j -> int_or_null j)
  /\ (forall mk, In mk [k_users; k_events; k_notifications] ->
      forall m, field mk o = Some (JObj m) -> forall k v, In (k, v) m -> int_or_null v).
Proof.
  intros H. destruct (pl_of_obj_inv _ _ _ H) as [Hn Hm]. split.
  - intros k d Hin j Hf. destruct (Hn k d Hin) as [z Hz].
    eapply strict_named_int_or_null; eauto.
  - intros mk Hin m Hf k v Hkv. destruct (Hm mk Hin) as [r Hr]. rewrite Hf in Hr. simpl in Hr.
    destruct (map_levels_all _ _ _ Hr k v Hkv) as [z Hz].
    eapply strict_level_int_or_null; eauto.
Qed.

(* the shared prefix never accepts by itself *)
Lemma common_checks_not_ok a v : common_checks a = Some v -> v <> VOk.
Proof.
  unfold common_checks.
  destruct (ai_sender_member a); [|intros H; inversion H; discriminate].
  destruct (ai_create a); [|intros H; inversion H; discriminate].
  destruct (negb (bytes_eqb _ _)); [intros H; inversion H; discriminate|].
  destruct (ai_sender_domain a); [|intros H; inversion H; discriminate].
  destruct (negb (domain_allowed _ _)); [intros H; inversion H; discriminate|].
  destruct (negb (mship_eqb _ _)); [intros H; inversion H; discriminate|].
  destruct (_ <? _); [intros H; inversion H; discriminate|].
  destruct (ai_state_key a) as [[|c0 r]|]; try discriminate.
  destruct (_ && _); [intros H; inversion H; discriminate|discriminate].
Qed.
