(* C08, specification side: what "no escalation" means for an accepted power-levels change,
   written directly over the old and the new content (no reference to the model's check loops).
   Levels are effective values: an absent key or entry counts as its default (DESIGN 5.0, 6.1 dep 5);
   event-type entries with the non-state default. *)
From Verif Require Import Lib.Bytes Json.Ast Auth.GoJson Auth.Ids Auth.Types Auth.Versions Auth.Decide.
Open Scope Z_scope.

Definition named_getters : list (pl_content -> Z) :=
  [pl_ban; pl_kick; pl_invite; pl_redact; pl_events_default; pl_state_default; pl_users_default].

Definition notif_checked (f : ver_flags) : bool :=
  match vf_pl_check f with PlV1 => false | _ => true end.

Definition user_keys (old new : pl_content) : list bytes :=
  map fst (pl_users old) ++ map fst (pl_users new).

(* the five clauses; L is the sender's effective level *)
Definition no_escalation (f : ver_flags) (c : create_info) (L : Z) (sender : bytes)
           (old new : pl_content) : Prop :=
  (* 1 named thresholds *)
  (forall g, In g named_getters -> g new <> g old -> g new <= L /\ g old <= L)
  (* 2 per-event-type levels *)
  /\ (forall ty, pl_event_entry new ty <> pl_event_entry old ty ->
                 pl_event_entry new ty <= L /\ pl_event_entry old ty <= L)
  (* 3 notification levels, from version 6 *)
  /\ (notif_checked f = true ->
      forall n, pl_notif_level new n <> pl_notif_level old n ->
                pl_notif_level new n <= L /\ pl_notif_level old n <= L)
  (* 4a nobody's level is set above the sender's *)
  /\ (forall u, pl_user_level new u <> pl_user_level old u -> pl_user_level new u <= L)
  (* 4b no other user's entry at or above the sender's level is changed or removed *)
  /\ (forall u, In u (user_keys old new) -> u <> sender ->
                pl_user_level new u <> pl_user_level old u -> pl_user_level old u < L)
  (* 5 creators are not named where creators are privileged *)
  /\ (vf_priv_creators f = true ->
      forall cr, In cr (creators_of c) -> ~ In cr (map fst (pl_users new))).

(* ---- the same predicate as a decision procedure over the finitely many keys that can differ
        (used as the run-time oracle C08.prop.no_escalation) ---- *)
Definition chg_ok (L o n : Z) : bool := (n =? o) || ((n <=? L) && (o <=? L)).

Definition fresh_key : bytes := Eval vm_compute in bs "@fresh.key/not-in-any-map:example.org".

Definition no_escalation_b (f : ver_flags) (c : create_info) (L : Z) (sender : bytes)
           (old new : pl_content) : bool :=
  forallb (fun g : pl_content -> Z => chg_ok L (g old) (g new)) named_getters
  && forallb (fun ty => chg_ok L (pl_event_entry old ty) (pl_event_entry new ty))
             (fresh_key :: tpi_type :: map fst (pl_events old) ++ map fst (pl_events new))
  && (negb (notif_checked f) ||
      forallb (fun n => chg_ok L (pl_notif_level old n) (pl_notif_level new n))
              (fresh_key :: map fst (pl_notifs old) ++ map fst (pl_notifs new)))
  && forallb (fun u => (pl_user_level new u =? pl_user_level old u) || (pl_user_level new u <=? L))
             (fresh_key :: sender :: user_keys old new)
  && forallb (fun u => bytes_eqb u sender || (pl_user_level new u =? pl_user_level old u)
                       || (pl_user_level old u <? L))
             (user_keys old new)
  && (negb (vf_priv_creators f) ||
      forallb (fun cr => negb (mem_bytes cr (map fst (pl_users new)))) (creators_of c)).

(* table consistency the theorems need: the checker that knows about creators is used exactly
   where creators are privileged *)
Definition flags_consistent (f : ver_flags) : Prop :=
  (vf_pl_check f = PlV3 -> vf_priv_creators f = true)
  /\ (vf_priv_creators f = true -> vf_pl_check f = PlV3).

(* the current content is what allowerContext.update can produce *)
Definition old_wf (c : create_info) (present : bool) (old : pl_content) : Prop :=
  present = false -> old = pl_absent (c_sender c) \/ old = pl_zero.

(* integer-only levels (version 10 and later): every level member that is present is an integer
   literal -- or null, which encoding/json skips *)
Definition int_or_null (j : json) : Prop :=
  j = JNull \/ exists raw z, j = JNum raw /\ num_int raw = Some z.

(* ---- histories ---- *)
Record pl_step := { st_sender : bytes; st_new : pl_content }.

(* state: (a power-levels event exists, effective content) *)
Fixpoint accepted_history (f : ver_flags) (c : create_info) (present : bool) (cur : pl_content)
         (steps : list pl_step) : Prop :=
  match steps with
  | [] => True
  | s :: rest =>
      pl_change_allowed f c present cur (st_new s) (st_sender s) = VOk
      /\ accepted_history f c true (st_new s) rest
  end.

Fixpoint final_content (cur : pl_content) (steps : list pl_step) : pl_content :=
  match steps with
  | [] => cur
  | s :: rest => final_content (st_new s) rest
  end.
