(* C07: the library's decision procedure (Auth/Decide.v) against the specification's rule list
   (Auth/AllowedSpec.v), family by family, for every abstract input. *)
From Verif Require Import Lib.Bytes Json.Ast Auth.GoJson Auth.Ids Auth.Types Auth.Versions Auth.Abs
     Auth.Decide Auth.AllowedSpec Auth.PLSpec Auth.PLProofs.
Open Scope Z_scope.

Definition accepted (v : verdict) : bool := match v with VOk => true | _ => false end.

(* the switches of the generated version table say what the specification's version matrix says *)
Definition rules_agree (f : ver_flags) (sv : spec_rules) : Prop :=
  vf_knocking f = sr_knock sv
  /\ vf_restricted f = Some (sr_restricted sv)
  /\ vf_pl_check f = (if sr_v12 sv then PlV3 else if sr_notifications sv then PlV2 else PlV1)
  /\ vf_create_check f = (if sr_v12 sv then CrV3 else if sr_creator_required sv then CrV1 else CrV2)
  /\ vf_priv_creators f = sr_v12 sv
  /\ vf_pseudo_ids f = sr_pseudo sv
  /\ (sr_v12 sv = true -> sr_creator_required sv = false)
  /\ (sr_v12 sv = true -> sr_notifications sv = true).

(* what parsing and the provider guarantee about the abstract input *)
Definition auth_wf (sv : spec_rules) (a : auth_input) : Prop :=
  ai_provider_ok a = true
  /\ ai_room_kind a <> RoomBad
  /\ (ai_kind a = KCreate -> sr_v12 sv = false -> exists rd, ai_room_kind a = RoomWithDomain rd)
  /\ (ai_state_key a = Some (ai_sender a) -> ai_target_member a = ai_sender_member a).

(* ---- the input classes on which the unchanged library is known to differ (findings) ---- *)
(* F18: third-party invites *)
Definition no_F18 (a : auth_input) : Prop :=
  forall m t keys, ai_new_member a = Some m -> m_membership m = MsInvite -> m_tpi m = Some t ->
    ai_tpi_event a = Some (Some keys) ->
    ai_target_member a <> Some MsBan /\ ai_tpi_sender_ok a = true /\ ai_sig_ok_spec a = ai_sig_ok a.
(* F27: a membership event other than an invite that carries a third_party_invite block is refused
   by the library when the m.room.third_party_invite event is not among the auth events, although
   the rules ignore the block there (recorded known finding; witness F27_refuted in Props/C07.v) *)
Definition no_tpi_on_non_invite (a : auth_input) : Prop :=
  forall m t, ai_new_member a = Some m -> m_tpi m = Some t -> m_membership m <> MsInvite ->
    exists keys, ai_tpi_event a = Some (Some keys).
(* F22: version 11 create events with an unknown room_version *)
Definition no_F22 (sv : spec_rules) (a : auth_input) : Prop :=
  ai_kind a = KCreate -> sr_v12 sv = false -> sr_creator_required sv = false ->
  cc_room_version_known (ai_cc a) = true.
(* F26: join under public from knock / an unrecognised previous membership *)
Definition no_F26 (a : auth_input) : Prop :=
  forall m, ai_new_member a = Some m -> m_membership m = MsJoin -> ai_join_rule a = JrPublic ->
    ai_target_member a <> Some MsKnock /\ ai_target_member a <> Some MsOther.
(* F53: a v1/v2 redaction by a sender whose level reaches the redact level, whose redacts has no
   domain part: the library extracts the domain before it looks at the level and refuses *)
Definition no_F53 (a : auth_input) : Prop :=
  ai_kind a = KRedaction -> ai_redacts_domain a <> None.
(* a power-levels auth event that does not parse (the context then keeps a zero content) *)
Definition no_broken_power_levels (a : auth_input) : Prop :=
  forall c, ai_create a = Some c -> ai_pl_present a = false -> ai_pl a = pl_absent (c_sender c).

Lemma level_eq a sv c u :
  rules_agree (ai_flags a) sv ->
  user_power_level (ai_flags a) c (ai_pl_present a) (ai_pl a) u = spec_level sv a c u.
Proof.
  intros (_ & _ & _ & _ & Hp & _ & _). unfold user_power_level, spec_level, creators_of.
  rewrite Hp. reflexivity.
Qed.

Ltac zcmp :=
  repeat match goal with
         | |- context[?x <? ?y] => destruct (Z.ltb_spec x y)
         | |- context[?x <=? ?y] => destruct (Z.leb_spec x y)
         | |- context[?x =? ?y] => destruct (Z.eqb_spec x y)
         end.

(* ---------- create ---------- *)
Lemma create_rules a sv :
  rules_agree (ai_flags a) sv -> auth_wf sv a -> no_F22 sv a -> ai_kind a = KCreate ->
  spec_create sv a = accepted (decide_create a).
Proof.
  intros (_ & _ & _ & Hcc & _ & _ & Hsv & _) (_ & Hrk & Hdom & _) HF22 Hk.
  unfold spec_create, decide_create. rewrite Hcc.
  destruct (ai_state_key a) as [[|? ?]|]; try reflexivity.
  destruct (ai_prev a); [|reflexivity].
  destruct (ai_sender_domain a) as [d|]; [|reflexivity].
  destruct (sr_v12 sv) eqn:E12.
  - rewrite (Hsv eq_refl).
    destruct (cc_content_ok (ai_cc a)), (cc_room_version_known (ai_cc a)), (cc_additional_ok (ai_cc a)),
      (cc_room_id_present (ai_cc a)), (cc_has_creator (ai_cc a)); reflexivity.
  - destruct (Hdom Hk eq_refl) as [rd Hrd]. rewrite Hrd.
    destruct (sr_creator_required sv) eqn:Ecr.
    + destruct (bytes_eqb d rd), (cc_content_ok (ai_cc a)), (cc_room_version_known (ai_cc a)),
        (cc_has_creator (ai_cc a)); reflexivity.
    + rewrite (HF22 Hk E12 Ecr).
      destruct (bytes_eqb d rd), (cc_content_ok (ai_cc a)); reflexivity.
Qed.

(* ---------- aliases ---------- *)
Lemma alias_rules a sv :
  rules_agree (ai_flags a) sv ->
  spec_aliases sv a = accepted (decide_aliases a).
Proof.
  intros (_ & _ & _ & _ & _ & Hps & _). unfold spec_aliases, decide_aliases, rule3_create, domain_allowed.
  rewrite Hps.
  destruct (ai_sender_domain a) as [d|]; [|destruct (ai_create a) as [c|]; [destruct (bytes_eqb _ _)|]; reflexivity].
  destruct (ai_create a) as [c|]; [|reflexivity].
  destruct (bytes_eqb (ai_room a) (c_room c)); [|reflexivity]. simpl.
  destruct (bytes_eqb d (c_sender_domain c) || c_federate c); [|reflexivity]. simpl.
  destruct (ai_state_key a) as [k|]; [|reflexivity].
  destruct (bytes_eqb k _); reflexivity.
Qed.

(* ---------- the shared prefix: rules 3, 6, 8, 9 ---------- *)
Lemma generic_prefix a sv :
  rules_agree (ai_flags a) sv ->
  match common_checks a with
  | None => exists c, ai_create a = Some c /\ spec_generic sv a = Some c
                      /\ (exists d, ai_sender_domain a = Some d)
  | Some v => v <> VOk /\ spec_generic sv a = None
  end.
Proof.
  intros Hra. unfold common_checks, spec_generic, rule3_create, domain_allowed, mem_is.
  destruct (ai_sender_member a) as [sm|].
  2:{ split; [discriminate|].
      destruct (ai_create a); [|reflexivity]. destruct (bytes_eqb _ _); [|reflexivity].
      destruct (ai_sender_domain a); [|reflexivity]. destruct (_ || _); reflexivity. }
  destruct (ai_create a) as [c|]; [|split; [discriminate|reflexivity]].
  destruct (bytes_eqb (ai_room a) (c_room c)); simpl; [|split; [discriminate|reflexivity]].
  destruct (ai_sender_domain a) as [d|]; [|split; [discriminate|reflexivity]].
  destruct (bytes_eqb d (c_sender_domain c) || c_federate c); simpl; [|split; [discriminate|reflexivity]].
  destruct (mship_eqb sm MsJoin); simpl; [|split; [discriminate|reflexivity]].
  rewrite (level_eq a sv c (ai_sender a) Hra).
  match goal with |- context[?n <=? ?l] => rewrite (Z.leb_antisym l n); destruct (l <? n) end; simpl.
  { split; [discriminate|reflexivity]. }
  destruct (ai_state_key a) as [[|c0 r]|].
  - exists c. repeat split; eauto.
  - destruct ((c0 =? 64)%N); simpl.
    + destruct (match ai_sender a with [] => false | y :: b' => (c0 =? y)%N && bytes_eqb r b' end); simpl.
      * exists c. repeat split; eauto.
      * split; [discriminate|reflexivity].
    + exists c. repeat split; eauto.
  - exists c. repeat split; eauto.
Qed.

Lemma generic_rules a sv :
  rules_agree (ai_flags a) sv ->
  (match spec_generic sv a with Some _ => true | None => false end) = accepted (decide_default a).
Proof.
  intros Hra. unfold decide_default. pose proof (generic_prefix a sv Hra) as H.
  destruct (common_checks a) as [v|].
  - destruct H as [Hv ->]. destruct v; try reflexivity. congruence.
  - destruct H as (c & _ & -> & _). reflexivity.
Qed.

(* ---------- redaction ---------- *)
Lemma redaction_rules a sv :
  rules_agree (ai_flags a) sv -> ai_redacts_domain a <> None ->
  spec_redaction sv a = accepted (decide_redaction a).
Proof.
  intros Hra Hrd. unfold spec_redaction, decide_redaction. pose proof (generic_prefix a sv Hra) as H.
  destruct (common_checks a) as [v|].
  - destruct H as [Hv ->]. destruct v; try reflexivity. congruence.
  - destruct H as (c & Hc & -> & d & Hd). rewrite Hc, Hd.
    rewrite (level_eq a sv c (ai_sender a) Hra).
    destruct (ai_redacts_domain a) as [rd|]; [|congruence].
    destruct (c_room_version c) as [v|].
    + destruct (bytes_eqb v s_v1 || bytes_eqb v s_v2) eqn:E; unfold s_v1, s_v2 in E; rewrite E; simpl;
        [|reflexivity].
      destruct (bytes_eqb d rd); [rewrite Bool.orb_true_r; reflexivity|].
      rewrite Bool.orb_false_r. destruct (_ <=? _); reflexivity.
    + simpl.
      destruct (bytes_eqb d rd); [rewrite Bool.orb_true_r; reflexivity|].
      rewrite Bool.orb_false_r. destruct (_ <=? _); reflexivity.
Qed.

(* ---------- membership ---------- *)
Ltac ltb_cases :=
  rewrite ?Z.leb_antisym; rewrite ?Z.ltb_irrefl; rewrite ?Bool.andb_false_r; simpl;
  repeat match goal with |- context[?x <? ?y] => destruct (x <? y) end;
  simpl; try reflexivity.

Lemma mship_eqb_true x y : mship_eqb x y = true -> x = y.
Proof. destruct x, y; simpl; congruence. Qed.

Lemma member_rules a sv :
  rules_agree (ai_flags a) sv -> auth_wf sv a -> no_F18 a -> no_tpi_on_non_invite a -> no_F26 a ->
  spec_member sv a = accepted (decide_member a).
Proof.
  intros Hra (_ & _ & _ & Hself) HF18 Htpi HF26.
  pose proof Hra as (Hkn & Hrs & _ & _ & _ & Hps & _).
  unfold spec_member, decide_member. rewrite Hps.
  destruct (ai_state_key a) as [target|] eqn:Esk; [|reflexivity].
  destruct (ai_new_member a) as [m|] eqn:Enm; [|reflexivity].
  destruct (ai_target_member a) as [old|] eqn:Etm; [|reflexivity].
  destruct (ai_sender_member a) as [sender_m|] eqn:Esm; [|reflexivity].
  (* the third-party-invite event must be loadable whenever the content names one *)
  assert (Hload : match m_tpi m with
                  | None => true
                  | Some _ => match ai_tpi_event a with Some (Some _) => true | _ => false end
                  end = false ->
                  exists t, m_tpi m = Some t /\ m_membership m = MsInvite
                            /\ match ai_tpi_event a with Some (Some _) => false | _ => true end = true).
  { destruct (m_tpi m) as [t|] eqn:Et; [|discriminate].
    intro Hl. exists t. split; [reflexivity|].
    destruct (mship_eqb (m_membership m) MsInvite) eqn:Ei.
    - split; [apply mship_eqb_true; assumption|]. destruct (ai_tpi_event a) as [[?|]|]; congruence.
    - exfalso. destruct (Htpi m t Enm Et) as [keys Hk].
      + intro Hc. rewrite Hc in Ei. discriminate.
      + rewrite Hk in Hl. discriminate. }
  destruct (match m_tpi m with
            | None => true
            | Some _ => match ai_tpi_event a with Some (Some _) => true | _ => false end
            end) eqn:Eload; simpl.
  2:{ destruct (Hload eq_refl) as (t & Et & Em & Hnl). rewrite Em, Et.
      destruct (ai_create a) as [c|]; [|reflexivity].
      destruct (match (if sr_pseudo sv then m_mapping m else None) with Some md => md | None => ai_sender_domain a end); [|reflexivity].
      destruct (negb (bytes_eqb (ai_room a) (c_room c))); [reflexivity|].
      destruct (negb (_ || _)); [reflexivity|].
      unfold spec_third_party_invite.
      destruct (ai_tpi_event a) as [[?|]|]; try discriminate;
        rewrite ?Bool.andb_false_r; reflexivity. }
  destruct (ai_create a) as [c|] eqn:Ec; [|reflexivity].
  replace (bytes_eqb (c_room c) (ai_room a)) with (bytes_eqb (ai_room a) (c_room c)).
  2:{ destruct (bytes_eqb (ai_room a) (c_room c)) eqn:E1.
      - apply bytes_eqb_eq in E1. rewrite E1. symmetry. apply bytes_eqb_refl.
      - symmetry. apply bytes_eqb_neq. apply bytes_eqb_neq in E1. congruence. }
  destruct (bytes_eqb (ai_room a) (c_room c)); simpl.
  2:{ destruct (match (if sr_pseudo sv then m_mapping m else None) with Some md => md | None => ai_sender_domain a end); reflexivity. }
  destruct (match (if sr_pseudo sv then m_mapping m else None) with Some md => md | None => ai_sender_domain a end) as [d|]; [|reflexivity].
  unfold domain_allowed.
  destruct (bytes_eqb d (c_sender_domain c) || c_federate c); simpl; [|reflexivity].
  unfold member_self, member_other, restricted_join, spec_join, spec_third_party_invite.
  rewrite ?(level_eq a sv c _ Hra). rewrite ?Hkn, ?Hrs, ?Hps.
  unfold dep1_leave_to_leave, dep2_unban_needs_ban_level_only, dep7_knock_restricted_wherever_enabled,
    dep10_invited_or_joined_may_join_under_any_rule, dep13_knock_to_leave_in_every_version,
    dep13_first_join_needs_sender_eq_state_key.
  destruct (bytes_eqb target (ai_sender a)) eqn:Eself.
  - (* own membership *)
    apply bytes_eqb_eq in Eself. subst target.
    assert (Hos : old = sender_m) by (specialize (Hself eq_refl); congruence). subst sender_m.
    destruct (m_membership m) eqn:Em; simpl; repeat (rewrite ?Bool.andb_false_r; simpl).
    + (* join *)
      destruct (match ai_prev a with [p] => bytes_eqb p (c_event_id c) | _ => false end);
        destruct (bytes_eqb (ai_sender a) (c_sender c)); simpl; try reflexivity;
      (destruct old; simpl; try reflexivity;
       destruct (ai_join_rule a) eqn:Ejr; simpl; try reflexivity;
       try (exfalso; destruct (HF26 m Enm Em Ejr) as [H1 H2]; congruence);
       destruct (sr_knock sv), (sr_restricted sv); simpl; try reflexivity;
       destruct (m_via m) eqn:Ev; simpl; try reflexivity;
       destruct (sr_pseudo sv), (ai_via_split_ok a); simpl; try reflexivity;
       destruct (ai_via_member a) as [[[]|]|]; simpl; try reflexivity; ltb_cases).
    + (* invite *)
      destruct (m_tpi m) as [t|] eqn:Et.
      * destruct (ai_tpi_event a) as [[keys|]|] eqn:Ete; try discriminate.
        destruct (HF18 m t keys Enm Em Et Ete) as (Hb & Hso & Hsig).
        rewrite Hso, Hsig. 
        destruct old; try congruence; simpl;
          destruct (bytes_eqb (ai_sender a) (t_mxid t)), (ai_sig_ok a); reflexivity.
      * destruct old; simpl; ltb_cases.
    + (* leave *)
      destruct old; simpl; destruct (sr_knock sv); reflexivity.
    + (* ban *)
      destruct old; simpl; ltb_cases.
    + (* knock *)
      destruct old; simpl; destruct (sr_knock sv); simpl; try reflexivity;
        destruct (ai_join_rule a); simpl; try reflexivity; destruct (sr_v10 sv); reflexivity.
    + destruct old; reflexivity.
  - (* somebody else's membership *)
    destruct (m_membership m) eqn:Em; simpl; repeat (rewrite ?Bool.andb_false_r; simpl).
    + destruct (match ai_prev a with [p] => bytes_eqb p (c_event_id c) | _ => false end);
        destruct (bytes_eqb target (c_sender c)); simpl; try reflexivity;
        destruct (mship_eqb sender_m MsJoin); reflexivity.
    + destruct (m_tpi m) as [t|] eqn:Et.
      * destruct (ai_tpi_event a) as [[keys|]|] eqn:Ete; try discriminate.
        destruct (HF18 m t keys Enm Em Et Ete) as (Hb & Hso & Hsig).
        rewrite Hso, Hsig.
        destruct old; try congruence; simpl;
          destruct (bytes_eqb target (t_mxid t)), (ai_sig_ok a); reflexivity.
      * destruct (mship_eqb sender_m MsJoin); simpl; [|reflexivity].
        destruct old; simpl; ltb_cases.
    + destruct (mship_eqb sender_m MsJoin); simpl; [|reflexivity].
      destruct old; simpl; ltb_cases.
    + destruct (mship_eqb sender_m MsJoin); simpl; [|reflexivity]. ltb_cases.
    + destruct (mship_eqb sender_m MsJoin); simpl; rewrite ?Bool.andb_false_r; reflexivity.
    + destruct (mship_eqb sender_m MsJoin); reflexivity.
Qed.

(* ---------- power levels ---------- *)
Lemma forallb_map_c {A B} (f : B -> bool) (g : A -> B) l :
  forallb f (map g l) = forallb (fun x => f (g x)) l.
Proof. induction l; simpl; congruence. Qed.

Lemma forallb_ext_c {A} (f g : A -> bool) l : (forall x, f x = g x) -> forallb f l = forallb g l.
Proof. intro H. induction l; simpl; [reflexivity|]. rewrite H, IHl. reflexivity. Qed.

Lemma forallb_app_comm {A} (f : A -> bool) l1 l2 :
  forallb f (l1 ++ l2) = forallb f (l2 ++ l1).
Proof. rewrite !forallb_app. apply Bool.andb_comm. Qed.

Lemma changed_ok_eq L o n : changed_ok L o n = level_pair_ok L o n.
Proof. unfold changed_ok, level_pair_ok. f_equal. apply Bool.andb_comm. Qed.

Lemma event_levels_eq L old new :
  check_event_levels L old new =
  forallb (fun g : pl_content -> Z => changed_ok L (g old) (g new))
          [pl_users_default; pl_events_default; pl_state_default; pl_ban; pl_redact; pl_kick; pl_invite]
  && forallb (fun ty => changed_ok L (pl_event_entry old ty) (pl_event_entry new ty))
             (map fst (pl_events old) ++ map fst (pl_events new)).
Proof.
  unfold check_event_levels, event_pairs. rewrite forallb_app, forallb_map_c. f_equal.
  - unfold named_pairs. simpl. rewrite !changed_ok_eq.
    repeat match goal with |- context[level_pair_ok ?a ?b ?c] => destruct (level_pair_ok a b c) end;
      reflexivity.
  - rewrite forallb_app_comm. apply forallb_ext_c. intros ty. simpl. symmetry. apply changed_ok_eq.
Qed.

Lemma notif_levels_eq L old new :
  check_notif_levels L old new =
  forallb (fun n => changed_ok L (pl_notif_level old n) (pl_notif_level new n))
          (map fst (pl_notifs old) ++ map fst (pl_notifs new)).
Proof.
  unfold check_notif_levels. rewrite forallb_app_comm. apply forallb_ext_c. intros n.
  unfold notif_pair_ok, changed_ok. f_equal. apply Bool.andb_comm.
Qed.

Lemma user_levels_eq L sender old new :
  check_user_levels L sender old new =
  forallb (fun u => let o := pl_user_level old u in let n := pl_user_level new u in
                    (o =? n) || ((n <=? L) && (bytes_eqb u sender || (o <? L))))
          (map fst (pl_users old) ++ map fst (pl_users new)).
Proof. unfold check_user_levels. rewrite forallb_app_comm. reflexivity. Qed.

Lemma notif_level_eq a sv c :
  rules_agree (ai_flags a) sv -> no_broken_power_levels a -> ai_create a = Some c ->
  notif_sender_level (ai_flags a) c (ai_pl a) (ai_sender a) = spec_level sv a c (ai_sender a).
Proof.
  intros (_ & _ & Hpl & _ & _ & _ & _) Hnb Hc. unfold notif_sender_level, spec_level, creators_of.
  rewrite Hpl.
  assert (Hbase : pl_user_level (ai_pl a) (ai_sender a) =
                  if negb (ai_pl_present a)
                  then (if bytes_eqb (ai_sender a) (c_sender c) then creator_level - 1 else 0)
                  else pl_user_level (ai_pl a) (ai_sender a)).
  { destruct (ai_pl_present a) eqn:Ep; simpl; [reflexivity|].
    rewrite (Hnb c Hc Ep), absent_user_level. destruct (bytes_eqb _ _); reflexivity. }
  destruct (sr_v12 sv); lazy beta iota.
  - rewrite Bool.andb_true_l.
    destruct (mem_bytes (ai_sender a) (c_sender c :: c_additional c)); [reflexivity|exact Hbase].
  - rewrite Bool.andb_false_l. destruct (sr_notifications sv); exact Hbase.
Qed.

Lemma power_levels_rules a sv :
  rules_agree (ai_flags a) sv -> no_broken_power_levels a ->
  spec_power_levels sv a = accepted (decide_power_levels a).
Proof.
  intros Hra Hnb. unfold spec_power_levels, decide_power_levels.
  pose proof (generic_prefix a sv Hra) as H.
  destruct (common_checks a) as [v|].
  - destruct H as [Hv ->]. destruct v; try reflexivity. congruence.
  - destruct H as (c & Hc & -> & _). rewrite Hc.
    destruct (ai_new_pl a) as [new|]; [|reflexivity].
    destruct (ai_new_pl_users_ok a); [|reflexivity]. cbn [negb andb].
    unfold pl_change_allowed.
    rewrite (notif_level_eq a sv c Hra Hnb Hc), (level_eq a sv c (ai_sender a) Hra).
    rewrite event_levels_eq, notif_levels_eq, user_levels_eq.
    destruct Hra as (_ & _ & Hpl & _ & _ & _ & _ & Hvn). rewrite Hpl. unfold creators_of.
    set (L := spec_level sv a c (ai_sender a)).
    set (E1 := forallb _ [pl_users_default; pl_events_default; pl_state_default; pl_ban; pl_redact; pl_kick; pl_invite]).
    set (E2 := forallb _ (map fst (pl_events (ai_pl a)) ++ map fst (pl_events new))).
    set (N := forallb _ (map fst (pl_notifs (ai_pl a)) ++ map fst (pl_notifs new))).
    set (U := forallb _ (map fst (pl_users (ai_pl a)) ++ map fst (pl_users new))).
    set (C := existsb _ (map fst (pl_users new))).
    destruct (sr_v12 sv); [rewrite (Hvn eq_refl)|];
      destruct (sr_notifications sv), E1, E2, N, U, C; reflexivity.
Qed.

(* ---------- all families ---------- *)
Theorem refines_spec a sv :
  rules_agree (ai_flags a) sv -> auth_wf sv a ->
  no_F18 a -> no_tpi_on_non_invite a -> no_F22 sv a -> no_F26 a -> no_F53 a -> no_broken_power_levels a ->
  decide_spec sv a = accepted (decide_model a).
Proof.
  intros Hra Hwf H18 Htpi H22 H26 H53 Hnb. pose proof Hwf as (Hp & Hrk & _ & _).
  unfold decide_spec, decide_model. rewrite Hp. simpl.
  destruct (ai_one_room a); simpl; [|reflexivity].
  destruct (ai_room_kind a) eqn:Erk; [congruence| |];
    (destruct (ai_kind a) eqn:Ek;
     [ apply create_rules; assumption
     | apply alias_rules; assumption
     | apply member_rules; assumption
     | apply power_levels_rules; assumption
     | apply redaction_rules; [assumption|apply H53; assumption]
     | apply generic_rules; assumption ]).
Qed.

(* ---------- the generated version table against the specification's version matrix ---------- *)
Definition pl_checker_eqb (x y : pl_checker) : bool :=
  match x, y with PlV1, PlV1 | PlV2, PlV2 | PlV3, PlV3 => true | _, _ => false end.
Definition create_checker_eqb (x y : create_checker) : bool :=
  match x, y with CrV1, CrV1 | CrV2, CrV2 | CrV3, CrV3 => true | _, _ => false end.

Definition rules_agree_b (f : ver_flags) (sv : spec_rules) : bool :=
  Bool.eqb (vf_knocking f) (sr_knock sv)
  && match vf_restricted f with Some b => Bool.eqb b (sr_restricted sv) | None => false end
  && pl_checker_eqb (vf_pl_check f)
       (if sr_v12 sv then PlV3 else if sr_notifications sv then PlV2 else PlV1)
  && create_checker_eqb (vf_create_check f)
       (if sr_v12 sv then CrV3 else if sr_creator_required sv then CrV1 else CrV2)
  && Bool.eqb (vf_priv_creators f) (sr_v12 sv)
  && Bool.eqb (vf_pseudo_ids f) (sr_pseudo sv)
  && (negb (sr_v12 sv) || negb (sr_creator_required sv))
  && (negb (sr_v12 sv) || sr_notifications sv).

Lemma rules_agree_b_sound f sv : rules_agree_b f sv = true -> rules_agree f sv.
Proof.
  unfold rules_agree_b, rules_agree. intro H.
  repeat (apply andb_true_iff in H; destruct H as [H ?]).
  repeat split.
  - apply Bool.eqb_prop; assumption.
  - destruct (vf_restricted f); [|discriminate]. f_equal. apply Bool.eqb_prop; assumption.
  - destruct (vf_pl_check f), (sr_v12 sv), (sr_notifications sv); simpl in *; congruence.
  - destruct (vf_create_check f), (sr_v12 sv), (sr_creator_required sv); simpl in *; congruence.
  - apply Bool.eqb_prop; assumption.
  - apply Bool.eqb_prop; assumption.
  - intro E. rewrite E in *. simpl in *. destruct (sr_creator_required sv); simpl in *; congruence.
  - intro E. rewrite E in *. simpl in *. assumption.
Qed.

(* every version of the generated table *)
Lemma generated_table_agrees :
  forallb (fun ver =>
             match flags_of_version ver, spec_rules_of ver with
             | Some f, Some sv => rules_agree_b f sv
             | _, _ => false
             end) all_versions = true.
Proof. vm_compute. reflexivity. Qed.

Lemma version_rules_agree ver f sv :
  In ver all_versions ->
  flags_of_version ver = Some f -> spec_rules_of ver = Some sv -> rules_agree f sv.
Proof.
  intros Hin Hf Hs. pose proof generated_table_agrees as H. rewrite forallb_forall in H.
  specialize (H ver Hin). rewrite Hf, Hs in H.
  apply rules_agree_b_sound. exact H.
Qed.

(* stronger: every switch authorisation reads (including the level parser and the event format)
   is, version by version, the one the hand-written specification matrix prescribes; and the two
   tables list the same versions *)
Definition flags_eqb (x y : ver_flags) : bool :=
  Bool.eqb (vf_knocking x) (vf_knocking y)
  && match vf_restricted x, vf_restricted y with
     | Some a, Some b => Bool.eqb a b
     | None, None => true
     | _, _ => false
     end
  && pl_checker_eqb (vf_pl_check x) (vf_pl_check y)
  && Bool.eqb (vf_int_levels x) (vf_int_levels y)
  && create_checker_eqb (vf_create_check x) (vf_create_check y)
  && Bool.eqb (vf_priv_creators x) (vf_priv_creators y)
  && Bool.eqb (vf_pseudo_ids x) (vf_pseudo_ids y)
  && Bool.eqb (vf_event_v3 x) (vf_event_v3 y).

Lemma flags_eqb_eq x y : flags_eqb x y = true -> x = y.
Proof.
  destruct x as [a1 [[|]|] [] a4 [] a6 a7 a8], y as [b1 [[|]|] [] b4 [] b6 b7 b8];
    unfold flags_eqb; simpl; intro H; try discriminate;
    repeat (apply andb_true_iff in H; destruct H as [H ?]);
    repeat match goal with E : Bool.eqb _ _ = true |- _ => apply Bool.eqb_prop in E end;
    try discriminate; subst; reflexivity.
Qed.

Lemma generated_flags_eq_spec :
  forallb (fun ver => match flags_of_version ver, spec_flags_of ver with
                      | Some f, Some sf => flags_eqb f sf
                      | _, _ => false
                      end) all_versions = true
  /\ forallb (fun vs => known_room_version (fst vs)) spec_table = true
  /\ length all_versions = length spec_table.
Proof. vm_compute. repeat split; reflexivity. Qed.

Lemma version_flags_eq_spec ver :
  In ver all_versions -> flags_of_version ver = spec_flags_of ver.
Proof.
  intro Hin. destruct generated_flags_eq_spec as [H _]. rewrite forallb_forall in H.
  specialize (H ver Hin).
  destruct (flags_of_version ver), (spec_flags_of ver); try discriminate.
  f_equal. apply flags_eqb_eq. exact H.
Qed.

(* abs guarantees the consistency part of auth_wf *)
Lemma abs_self_consistent sig_ok f e auths :
  let a := abs sig_ok f e auths in
  ai_state_key a = Some (ai_sender a) -> ai_target_member a = ai_sender_member a.
Proof.
  unfold abs. cbn [ai_state_key ai_sender ai_target_member ai_sender_member].
  intro H. rewrite H. reflexivity.
Qed.

Lemma abs_no_broken_iff sig_ok f e auths :
  no_broken_power_levels (abs sig_ok f e auths) <->
  (forall c, create_of f auths = Some c ->
             fst (pl_of_auths f (c_sender c) auths) = false ->
             snd (pl_of_auths f (c_sender c) auths) = pl_absent (c_sender c)).
Proof.
  unfold no_broken_power_levels, abs. cbn [ai_create ai_pl_present ai_pl].
  split; intros H c Hc; specialize (H c Hc); rewrite Hc in *; exact H.
Qed.
