(* How the SPECIFICATION side reads the events where the library's reading is a recorded finding
   (model only). abs (Auth/Abs.v) is the library's reading and stays the input of decide_model;
   abs_spec is what the oracles hand to decide_spec:
   - F56: a create content member that no rule reads and that has an unexpected JSON type does not
     make the room unusable (the library's NewCreateContentFromAuthEvents decodes everything
     strictly and then treats the room as having no create event);
   - F57: a third-party invite is verified over the signed object as it stands in the event (the
     library verifies a re-marshalled struct holding only mxid, token, signatures), against every
     public key that decodes (the library refuses the whole m.room.third_party_invite content when
     one public_keys entry does not decode). *)
From Verif Require Import Lib.Bytes Json.Ast Auth.GoJson Auth.Ids Auth.Types Auth.Versions Auth.Abs.
Open Scope N_scope.

(* the members the rules read from a create content: m.federate, room_version, additional_creators *)
Definition create_of_tolerant (f : ver_flags) (auths : list json) : option create_info :=
  match find_auth t_create [] auths with
  | None => None
  | Some e =>
      match (match content_of e with CoObj o => Some o | CoNull => Some [] | _ => None end) with
      | None => None
      | Some o =>
          match user_domain (ev_sender e) with
          | None => None
          | Some d =>
              Some {| c_room := ev_room f e; c_event_id := ev_id e; c_sender := ev_sender e;
                      c_sender_domain := d;
                      c_federate := match dec_bool (field k_federate o) with DVal b => b | _ => true end;
                      c_room_version := match dec_string (field k_room_version o) with
                                        | DVal v => Some v | _ => None end;
                      c_additional := match dec_string_list (field k_additional_creators o) with
                                      | DVal l => l | _ => [] end |}
          end
      end
  end.

(* every public key text of an m.room.third_party_invite content that can be read *)
Definition tolerant_keys (e : json) : list bytes :=
  match content_of e with
  | CoObj o =>
      (match field k_public_keys o with
       | Some (JArr l) =>
           flat_map (fun k => match k with
                              | JObj ko => match dec_string (field k_public_key ko) with
                                           | DVal pk => if b64_ok pk then [pk] else []
                                           | _ => []
                                           end
                              | _ => []
                              end) l
       | _ => []
       end)
      ++ tpi_event_single_key e
  | _ => []
  end.

Section SpecRead.
  (* sig_lib: VerifyJSON over the re-marshalled struct (what the library checks);
     sig_raw: VerifyJSON over the signed object of the event as it stands *)
  Variables sig_lib sig_raw : bytes -> bytes -> bytes -> bool.

  Definition abs_spec (f : ver_flags) (e : json) (auths : list json) : auth_input :=
    let a := abs sig_lib f e auths in
    let create := create_of_tolerant f auths in
    let creator := match create with Some c => c_sender c | None => [] end in
    let pls := pl_of_auths f creator auths in
    let tpi := match ai_new_member a with Some m => m_tpi m | None => None end in
    let tpi_raw := match tpi with
                   | Some t => match t_token t with [] => None | _ => find_auth tpi_type (t_token t) auths end
                   | None => None
                   end in
    {| ai_flags := ai_flags a; ai_provider_ok := ai_provider_ok a; ai_one_room := ai_one_room a;
       ai_kind := ai_kind a; ai_type := ai_type a; ai_room := ai_room a; ai_room_kind := ai_room_kind a;
       ai_sender := ai_sender a; ai_sender_domain := ai_sender_domain a; ai_state_key := ai_state_key a;
       ai_prev := ai_prev a;
       ai_create := create;
       ai_pl_present := fst pls;
       ai_pl := snd pls;
       ai_join_rule := ai_join_rule a; ai_sender_member := ai_sender_member a;
       ai_new_member := ai_new_member a; ai_target_member := ai_target_member a;
       ai_tpi_event := option_map (fun te => Some (tolerant_keys te)) tpi_raw;
       ai_sig_ok := ai_sig_ok a;
       ai_sig_ok_spec :=
         match tpi, tpi_raw with
         | Some t, Some te =>
             existsb (fun pk => existsb (fun dk => sig_raw pk (fst dk) (snd dk)) (t_sigs t)) (tolerant_keys te)
         | _, _ => false
         end;
       ai_tpi_sender_ok := ai_tpi_sender_ok a;
       ai_via_split_ok := ai_via_split_ok a; ai_via_member := ai_via_member a;
       ai_new_pl := ai_new_pl a; ai_new_pl_users_ok := ai_new_pl_users_ok a;
       ai_redacts_domain := ai_redacts_domain a; ai_cc := ai_cc a |}.
End SpecRead.
