(* Model of the needed-state computation of eventauth.go (property C09):
     StateNeeded, StateNeeded.Tuples, StateNeeded.AuthEventReferences, membershipContent,
     StateNeededForAuth, StateNeededForProtoEvent, accumulateStateNeeded, thirdPartyInviteToken,
     util.UniqueStrings, and EventBuilder.AddAuthEvents of event_builder.go.
   Executable Gallina only; proofs are in StateNeededProofs.v.

   Events are json objects. Members are read the way encoding/json reads them into the Go
   structs: the LAST member whose key matches the field name, ASCII case ignored, decides; null
   leaves the zero value; a value of the wrong JSON type leaves the zero value and records a type
   error (which StateNeededForAuth ignores and StateNeededForProtoEvent reports).
   Outside the model: keys that match a field name only through the two non-ASCII case folds of
   encoding/json (U+017F, U+212A), and duplicate third_party_invite members (which Go merges). *)
From Verif Require Import Lib.Bytes Json.Ast Json.Parse Gen.GenConsts Gen.GenVersions.
Open Scope N_scope.

(* ---------- constants, read from the generated table of spec/eventtypes.go ---------- *)
Definition spec_const (name : bytes) (dflt : bytes) : bytes :=
  match assoc_first name gen_spec_eventtypes with Some v => v | None => dflt end.

Definition m_room_create : bytes := spec_const (bs "MRoomCreate") [].
Definition m_room_aliases : bytes := spec_const (bs "MRoomAliases") [].
Definition m_room_member : bytes := spec_const (bs "MRoomMember") [].
Definition m_room_join_rules : bytes := spec_const (bs "MRoomJoinRules") [].
Definition m_room_power_levels : bytes := spec_const (bs "MRoomPowerLevels") [].
Definition m_room_third_party_invite : bytes := spec_const (bs "MRoomThirdPartyInvite") [].
Definition k_join : bytes := spec_const (bs "Join") [].
Definition k_knock : bytes := spec_const (bs "Knock") [].
Definition k_invite : bytes := spec_const (bs "Invite") [].

(* ---------- encoding/json field lookup ---------- *)
Definition lower (c : N) : N := if (65 <=? c) && (c <=? 90) then c + 32 else c.
Fixpoint fold_eqb (a b : bytes) : bool :=
  match a, b with
  | [], [] => true
  | x :: a', y :: b' => (lower x =? lower y) && fold_eqb a' b'
  | _, _ => false
  end.

Fixpoint field_acc (k : bytes) (m : list (bytes * json)) (acc : option json) : option json :=
  match m with
  | [] => acc
  | (k', v) :: m' => field_acc k m' (if fold_eqb k k' then Some v else acc)
  end.
(* the member encoding/json stores into the struct field tagged k *)
Definition field (k : bytes) (j : json) : option json :=
  match j with JObj m => field_acc k m None | _ => None end.

(* a Go string field: absent / null / wrong type leave the empty string *)
Definition str_field (k : bytes) (j : json) : bytes :=
  match field k j with Some (JStr s) => s | _ => [] end.
(* a Go *string field *)
Definition optstr_field (k : bytes) (j : json) : option bytes :=
  match field k j with Some (JStr s) => Some s | _ => None end.

(* ---------- the parts of an event the computation reads ---------- *)
Definition ev_type (e : json) : bytes := str_field (bs "type") e.
Definition ev_sender (e : json) : bytes := str_field (bs "sender") e.
Definition ev_state_key (e : json) : option bytes := optstr_field (bs "state_key") e.
Definition ev_content (e : json) : json :=
  match field (bs "content") e with Some c => c | None => JNull end.
Definition ev_id (e : json) : bytes := str_field (bs "event_id") e.
Definition ev_room_id (e : json) : bytes := str_field (bs "room_id") e.

(* ---------- membershipContent ---------- *)
Record mcontent := {
  mc_membership : bytes;
  mc_tpi : option bytes;   (* Some token when ThirdPartyInvite is a non-nil pointer *)
  mc_via : bytes           (* join_authorised_via_users_server *)
}.

(* ThirdPartyInvite *MemberThirdPartyInvite: absent or null keep the nil pointer; every other
   value allocates the struct (an object fills it, any other type is a recorded type error) *)
Definition tpi_of (c : json) : option bytes :=
  match field (bs "third_party_invite") c with
  | None | Some JNull => None
  | Some (JObj m) => Some (match field (bs "signed") (JObj m) with
                           | Some (JObj s) => str_field (bs "token") (JObj s)
                           | _ => []
                           end)
  | Some _ => Some []
  end.

(* json.Unmarshal(content, &p) with p a nil *membershipContent: null keeps p nil; anything else
   allocates (only an object fills fields) *)
Definition member_content (c : json) : option mcontent :=
  match c with
  | JNull => None
  | _ => Some {| mc_membership := str_field (bs "membership") c;
                 mc_tpi := tpi_of c;
                 mc_via := str_field (bs "join_authorised_via_users_server") c |}
  end.

(* ---------- StateNeeded ---------- *)
Record needed := {
  n_create : bool;
  n_join_rules : bool;
  n_power_levels : bool;
  n_member : list bytes;
  n_tpi : list bytes
}.

Definition needed0 : needed :=
  {| n_create := false; n_join_rules := false; n_power_levels := false; n_member := []; n_tpi := [] |}.

Definition opt_list {A} (o : option A) : list A := match o with Some x => [x] | None => [] end.

(* accumulateStateNeeded. The bool is true when the Go function returns an error. *)
Definition accumulate (r : needed) (typ sender : bytes) (sk : option bytes) (c : option mcontent)
  : needed * bool :=
  if bytes_eqb typ m_room_create then (r, false)
  else if bytes_eqb typ m_room_aliases then
    ({| n_create := true; n_join_rules := n_join_rules r; n_power_levels := n_power_levels r;
        n_member := n_member r; n_tpi := n_tpi r |}, false)
  else if bytes_eqb typ m_room_member then
    match c with
    | None => (r, true)
    | Some mc =>
        let ms := n_member r ++ [sender] ++ opt_list sk in
        let jr := n_join_rules r ||
                  bytes_eqb (mc_membership mc) k_join || bytes_eqb (mc_membership mc) k_knock
                  || bytes_eqb (mc_membership mc) k_invite in
        match mc_tpi mc with
        | Some [] =>
            (* thirdPartyInviteToken fails: return before the authoriser is added *)
            ({| n_create := true; n_join_rules := jr; n_power_levels := true;
                n_member := ms; n_tpi := n_tpi r |}, true)
        | tp =>
            ({| n_create := true; n_join_rules := jr; n_power_levels := true;
                n_member := ms ++ (match mc_via mc with [] => [] | v => [v] end);
                n_tpi := n_tpi r ++ opt_list tp |}, false)
        end
    end
  else
    ({| n_create := true; n_join_rules := n_join_rules r; n_power_levels := true;
        n_member := n_member r ++ [sender]; n_tpi := n_tpi r |}, false).

(* util.UniqueStrings: sorted (byte order), duplicates removed *)
Fixpoint insert_uniq (x : bytes) (l : list bytes) : list bytes :=
  match l with
  | [] => [x]
  | y :: l' => match bytes_cmp x y with
               | Lt => x :: l
               | Eq => l
               | Gt => y :: insert_uniq x l'
               end
  end.
Definition unique_strings (l : list bytes) : list bytes := fold_right insert_uniq [] l.

Definition finish (r : needed) : needed :=
  {| n_create := n_create r; n_join_rules := n_join_rules r; n_power_levels := n_power_levels r;
     n_member := unique_strings (n_member r); n_tpi := unique_strings (n_tpi r) |}.

Definition accumulate_event (r : needed) (e : json) : needed :=
  let c := if bytes_eqb (ev_type e) m_room_member then member_content (ev_content e) else None in
  fst (accumulate r (ev_type e) (ev_sender e) (ev_state_key e) c).

(* StateNeededForAuth(events) *)
Definition state_needed_list (es : list json) : needed := finish (fold_left accumulate_event es needed0).
Definition state_needed (e : json) : needed := state_needed_list [e].

(* StateNeeded.Tuples *)
Definition tuples (n : needed) : list (bytes * bytes) :=
  (if n_create n then [(m_room_create, [])] else []) ++
  (if n_join_rules n then [(m_room_join_rules, [])] else []) ++
  (if n_power_levels n then [(m_room_power_levels, [])] else []) ++
  map (fun u => (m_room_member, u)) (n_member n) ++
  map (fun t => (m_room_third_party_invite, t)) (n_tpi n).

(* ---------- StateNeededForProtoEvent: type errors are reported ---------- *)
Definition is_str_or_null (j : json) : bool := match j with JStr _ | JNull => true | _ => false end.
Definition field_ok (k : bytes) (j : json) (ok : json -> bool) : bool :=
  match field k j with None => true | Some v => ok v end.

(* map[string]map[string]string *)
Definition sigs_ok (j : json) : bool :=
  match j with
  | JNull => true
  | JObj m => forallb (fun kv => match snd kv with
                                 | JNull => true
                                 | JObj m2 => forallb (fun kv2 => is_str_or_null (snd kv2)) m2
                                 | _ => false
                                 end) m
  | _ => false
  end.
Definition signed_ok (j : json) : bool :=
  match j with
  | JNull => true
  | JObj _ => field_ok (bs "mxid") j is_str_or_null && field_ok (bs "token") j is_str_or_null
              && field_ok (bs "signatures") j sigs_ok
  | _ => false
  end.
Definition tpi_ok (j : json) : bool :=
  match j with
  | JNull => true
  | JObj _ => field_ok (bs "display_name") j is_str_or_null && field_ok (bs "signed") j signed_ok
  | _ => false
  end.
(* MXIDMapping: strings; the signature map (base64 values) is approximated by strings *)
Definition mapping_ok (j : json) : bool :=
  match j with
  | JNull => true
  | JObj _ => field_ok (bs "user_room_key") j is_str_or_null && field_ok (bs "user_id") j is_str_or_null
              && field_ok (bs "signatures") j sigs_ok
  | _ => false
  end.
(* json.Unmarshal(content, &p) returns no error *)
Definition member_content_clean (c : json) : bool :=
  match c with
  | JNull => true
  | JObj _ => field_ok (bs "membership") c is_str_or_null
              && field_ok (bs "third_party_invite") c tpi_ok
              && field_ok (bs "join_authorised_via_users_server") c is_str_or_null
              && field_ok (bs "mxid_mapping") c mapping_ok
  | _ => false
  end.

(* None = an error is returned *)
Definition state_needed_proto (typ sender : bytes) (sk : option bytes) (content : option json)
  : option needed :=
  if bytes_eqb typ m_room_member then
    match content with
    | None => None                                   (* content is not JSON *)
    | Some c =>
        if member_content_clean c then
          match accumulate needed0 typ sender sk (member_content c) with
          | (r, false) => Some (finish r)
          | (_, true) => None
          end
        else None
    end
  else Some (finish (fst (accumulate needed0 typ sender sk None))).

(* ---------- providers and StateNeeded.AuthEventReferences ---------- *)
(* an auth state: events keyed by (type, state_key); NewAuthEvents/AddEvent: a later event with
   the same key replaces the earlier one *)
Definition tuple_eqb (a b : bytes * bytes) : bool := bytes_eqb (fst a) (fst b) && bytes_eqb (snd a) (snd b).
Definition ev_key (e : json) : bytes * bytes :=
  (ev_type e, match ev_state_key e with Some k => k | None => [] end).

Fixpoint lookup_last (k : bytes * bytes) (st : list json) (acc : option json) : option json :=
  match st with
  | [] => acc
  | e :: st' => lookup_last k st' (if tuple_eqb k (ev_key e) then Some e else acc)
  end.
(* the event the AuthEvents provider built from the list st returns for key k *)
Definition lookup (st : list json) (k : bytes * bytes) : option json := lookup_last k st None.

Definition auth_event_refs (n : needed) (st : list json) : list bytes :=
  flat_map (fun k => match lookup st k with Some e => [ev_id e] | None => [] end) (tuples n).

(* ---------- room-version switch and EventBuilder.AddAuthEvents ---------- *)
Definition version_field (ver field_name : bytes) : option bytes :=
  match assoc_first ver gen_versions with
  | Some fs => assoc_first field_name fs
  | None => None
  end.
Definition domainless_room_ids (ver : bytes) : bool :=
  match version_field ver (bs "domainlessRoomID") with
  | Some v => bytes_eqb v (bs "true")
  | None => false
  end.

(* None = error. Otherwise the value stored in eb.AuthEvents. *)
Definition add_auth_events (ver room_id typ sender : bytes) (sk : option bytes) (content : option json)
  (st : list json) : option (list bytes) :=
  match state_needed_proto typ sender sk content with
  | None => None
  | Some n =>
      let refs := auth_event_refs n st in
      if domainless_room_ids ver && negb (bytes_eqb room_id []) then
        let create_id := 36 :: tl room_id in
        Some (filter (fun id => negb (bytes_eqb id create_id)) refs)
      else Some refs
  end.
