(* Facts about the needed-state model (property C09). *)
From Verif Require Import Lib.Bytes Json.Ast Json.Parse Auth.StateNeeded.
From Coq Require Import Sorted Permutation.
Open Scope N_scope.

(* ---------- the constants are the ones the specification names ---------- *)
Lemma consts_are_spec :
  m_room_create = bs "m.room.create" /\ m_room_aliases = bs "m.room.aliases" /\
  m_room_member = bs "m.room.member" /\ m_room_join_rules = bs "m.room.join_rules" /\
  m_room_power_levels = bs "m.room.power_levels" /\
  m_room_third_party_invite = bs "m.room.third_party_invite" /\
  k_join = bs "join" /\ k_knock = bs "knock" /\ k_invite = bs "invite".
Proof. repeat split; reflexivity. Qed.

(* ---------- util.UniqueStrings ---------- *)
Lemma insert_uniq_In x y l : In y (insert_uniq x l) <-> y = x \/ In y l.
Proof.
  induction l as [|z l IH]; simpl.
  - split; intros [H|H]; auto; contradiction.
  - destruct (bytes_cmp x z) eqn:E; simpl.
    + apply bytes_cmp_eq in E; subst z. split; [intro H; right; exact H|].
      intros [H|H]; [left; auto|exact H].
    + split; intros [H|H]; auto.
    + rewrite IH. split.
      * intros [H|[H|H]]; auto.
      * intros [H|[H|H]]; auto.
Qed.

Lemma unique_strings_In y l : In y (unique_strings l) <-> In y l.
Proof.
  induction l as [|x l IH]; simpl; [tauto|].
  unfold unique_strings in *. simpl. rewrite insert_uniq_In, IH. split; intros [H|H]; auto.
Qed.

Definition blt (a b : bytes) : Prop := bytes_cmp a b = Lt.

Lemma insert_uniq_hdrel x y l :
  blt y x -> HdRel blt y l -> HdRel blt y (insert_uniq x l).
Proof.
  intros Hyx H. destruct l as [|z l]; simpl; [constructor; exact Hyx|].
  inversion H; subst. destruct (bytes_cmp x z); constructor; auto.
Qed.

Lemma insert_uniq_sorted x l : Sorted blt l -> Sorted blt (insert_uniq x l).
Proof.
  induction l as [|z l IH]; simpl; intro S.
  - repeat constructor.
  - inversion S as [|? ? S' Hd]; subst.
    destruct (bytes_cmp x z) eqn:E.
    + exact S.
    + constructor; [exact S|]. constructor. exact E.
    + constructor; [apply IH; exact S'|].
      apply insert_uniq_hdrel; [|exact Hd].
      unfold blt. rewrite bytes_cmp_antisym, E. reflexivity.
Qed.

(* the result is strictly increasing in byte order: sorted and free of duplicates *)
Lemma unique_strings_sorted l : Sorted blt (unique_strings l).
Proof.
  induction l as [|x l IH]; unfold unique_strings in *; simpl; [constructor|].
  apply insert_uniq_sorted. exact IH.
Qed.

Lemma blt_irrefl a : ~ blt a a.
Proof. unfold blt. intro H. assert (E : bytes_cmp a a = Eq) by (apply bytes_cmp_eq; reflexivity). congruence. Qed.

Lemma blt_trans a b c : blt a b -> blt b c -> blt a c.
Proof. apply bytes_cmp_trans_lt. Qed.

Lemma unique_strings_nodup l : NoDup (unique_strings l).
Proof.
  pose proof (unique_strings_sorted l) as S.
  apply Sorted_StronglySorted in S; [|intros a b c; apply blt_trans].
  induction S as [|a l' S' IH Hall]; constructor; auto.
  intro Hin. rewrite Forall_forall in Hall. apply Hall in Hin. exact (blt_irrefl _ Hin).
Qed.

(* ---------- Tuples ---------- *)
Lemma tuples_In n k :
  In k (tuples n) <->
    (n_create n = true /\ k = (m_room_create, [])) \/
    (n_join_rules n = true /\ k = (m_room_join_rules, [])) \/
    (n_power_levels n = true /\ k = (m_room_power_levels, [])) \/
    (exists u, In u (n_member n) /\ k = (m_room_member, u)) \/
    (exists t, In t (n_tpi n) /\ k = (m_room_third_party_invite, t)).
Proof.
  unfold tuples. rewrite !in_app_iff, !in_map_iff.
  destruct (n_create n), (n_join_rules n), (n_power_levels n); simpl;
    (split;
     [ intros H; repeat destruct H as [H|H]; try contradiction; subst; eauto 8;
       try (destruct H as [u [E Hu]]; subst; eauto 8)
     | intros H; repeat destruct H as [H|H];
       try (destruct H as [H1 H2]; try discriminate; subst; tauto);
       try (destruct H as [u [Hu E]]; subst; eauto 8) ]).
Qed.

(* ---------- AuthEventReferences ---------- *)
Lemma auth_event_refs_In n st id :
  In id (auth_event_refs n st) <-> exists k e, In k (tuples n) /\ lookup st k = Some e /\ ev_id e = id.
Proof.
  unfold auth_event_refs. rewrite in_flat_map. split.
  - intros [k [Hk Hin]]. destruct (lookup st k) as [e|] eqn:L; simpl in Hin; [|contradiction].
    destruct Hin as [E|[]]. exists k, e. auto.
  - intros [k [e [Hk [L E]]]]. exists k. split; [exact Hk|]. rewrite L. simpl. left. exact E.
Qed.

(* the references selected for a needed-state value cover every needed tuple the provider has an
   event for *)
Lemma auth_event_refs_cover n st k e :
  In k (tuples n) -> lookup st k = Some e -> In (ev_id e) (auth_event_refs n st).
Proof. intros Hk L. apply auth_event_refs_In. exists k, e. auto. Qed.

(* ---------- AddAuthEvents ---------- *)
Lemma add_auth_events_covers ver room typ sender sk content st n ids :
  state_needed_proto typ sender sk content = Some n ->
  add_auth_events ver room typ sender sk content st = Some ids ->
  forall k e, In k (tuples n) -> lookup st k = Some e ->
    In (ev_id e) ids \/
    (domainless_room_ids ver = true /\ room <> [] /\ ev_id e = 36 :: tl room).
Proof.
  intros Hn Ha k e Hk L. unfold add_auth_events in Ha. rewrite Hn in Ha.
  pose proof (auth_event_refs_cover n st k e Hk L) as Hin.
  destruct (domainless_room_ids ver && negb (bytes_eqb room [])) eqn:D.
  - inversion Ha; subst ids; clear Ha.
    apply andb_true_iff in D as [D1 D2].
    destruct (bytes_eqb (ev_id e) (36 :: tl room)) eqn:E.
    + right. apply bytes_eqb_eq in E. repeat split; auto.
      intro R; subst room. discriminate.
    + left. apply filter_In. split; [exact Hin|]. rewrite E. reflexivity.
  - inversion Ha; subst ids. left. exact Hin.
Qed.

(* nothing but events for needed tuples is referenced *)
Lemma add_auth_events_only_needed ver room typ sender sk content st n ids :
  state_needed_proto typ sender sk content = Some n ->
  add_auth_events ver room typ sender sk content st = Some ids ->
  forall id, In id ids -> exists k e, In k (tuples n) /\ lookup st k = Some e /\ ev_id e = id.
Proof.
  intros Hn Ha id Hid. unfold add_auth_events in Ha. rewrite Hn in Ha.
  destruct (domainless_room_ids ver && negb (bytes_eqb room [])).
  - inversion Ha; subst ids. apply filter_In in Hid as [Hid _]. apply auth_event_refs_In. exact Hid.
  - inversion Ha; subst ids. apply auth_event_refs_In. exact Hid.
Qed.

(* ---------- the needed state of a proto event is the needed state of the event built from it ---------- *)
Lemma state_needed_single e :
  state_needed e =
  finish (fst (accumulate needed0 (ev_type e) (ev_sender e) (ev_state_key e)
                 (if bytes_eqb (ev_type e) m_room_member then member_content (ev_content e) else None))).
Proof. reflexivity. Qed.

Lemma accumulate_non_member_ignores_content r typ sender sk c :
  bytes_eqb typ m_room_member = false ->
  accumulate r typ sender sk c = accumulate r typ sender sk None.
Proof.
  intro H. unfold accumulate. rewrite H.
  destruct (bytes_eqb typ m_room_create); [reflexivity|].
  destruct (bytes_eqb typ m_room_aliases); reflexivity.
Qed.

Lemma proto_needed_is_event_needed typ sender sk c n e :
  state_needed_proto typ sender sk (Some c) = Some n ->
  ev_type e = typ -> ev_sender e = sender -> ev_state_key e = sk -> ev_content e = c ->
  state_needed e = n.
Proof.
  intros Hp Ht Hs Hk Hc. rewrite state_needed_single, Ht, Hs, Hk, Hc.
  unfold state_needed_proto in Hp.
  destruct (bytes_eqb typ m_room_member) eqn:M.
  - destruct (member_content_clean c); [|discriminate].
    destruct (accumulate needed0 typ sender sk (member_content c)) as [r [|]] eqn:A; [discriminate|].
    inversion Hp. reflexivity.
  - inversion Hp. reflexivity.
Qed.

(* ---------- lookups see only the last event of a key; order among different keys is irrelevant ---------- *)
Lemma lookup_last_app k a b acc :
  lookup_last k (a ++ b) acc = lookup_last k b (lookup_last k a acc).
Proof. revert acc; induction a as [|x a IH]; intro acc; simpl; [reflexivity|]. apply IH. Qed.

Lemma lookup_last_none_acc k st acc :
  (forall e, In e st -> tuple_eqb k (ev_key e) = false) -> lookup_last k st acc = acc.
Proof.
  revert acc; induction st as [|x st IH]; intros acc H; simpl; [reflexivity|].
  rewrite (H x (or_introl eq_refl)). apply IH. intros e He. apply H. right. exact He.
Qed.

Lemma tuple_eqb_eq a b : tuple_eqb a b = true <-> a = b.
Proof.
  destruct a as [a1 a2], b as [b1 b2]. unfold tuple_eqb; simpl.
  rewrite andb_true_iff, !bytes_eqb_eq. split; [intros [? ?]; subst; reflexivity|intro H; inversion H; auto].
Qed.

Lemma tuple_eqb_refl a : tuple_eqb a a = true.
Proof. apply tuple_eqb_eq. reflexivity. Qed.

(* with one event per key, lookup finds exactly the member with that key *)
Lemma lookup_distinct st k e :
  NoDup (map ev_key st) -> In e st -> ev_key e = k -> lookup st k = Some e.
Proof.
  unfold lookup. intros ND Hin Hk. apply in_split in Hin as [a [b E]]. subst st.
  rewrite map_app in ND. simpl in ND.
  rewrite lookup_last_app. simpl. rewrite <- Hk, tuple_eqb_refl.
  apply lookup_last_none_acc. intros x Hx.
  destruct (tuple_eqb (ev_key e) (ev_key x)) eqn:T; [|reflexivity].
  apply tuple_eqb_eq in T. apply NoDup_remove_2 in ND. exfalso. apply ND.
  apply in_or_app. right. rewrite T. apply in_map. exact Hx.
Qed.

Lemma lookup_some_in st k e : lookup st k = Some e -> In e st /\ ev_key e = k.
Proof.
  unfold lookup. assert (G : forall acc, lookup_last k st acc = Some e ->
                             (In e st /\ ev_key e = k) \/ acc = Some e).
  { induction st as [|x st IH]; intros acc H; simpl in H; [right; exact H|].
    apply IH in H as [[H1 H2]|H]; [left; split; [right; exact H1|exact H2]|].
    destruct (tuple_eqb k (ev_key x)) eqn:T.
    - inversion H; subst. left. split; [left; reflexivity|]. apply tuple_eqb_eq in T. auto.
    - right. exact H. }
  intro H. apply G in H as [H|H]; [exact H|discriminate].
Qed.

(* supply order: any permutation of a list with one event per key is the same auth state *)
Lemma lookup_permutation st st' k :
  NoDup (map ev_key st) -> Permutation st st' -> lookup st k = lookup st' k.
Proof.
  intros ND P.
  assert (ND' : NoDup (map ev_key st')).
  { eapply Permutation_NoDup; [apply Permutation_map; exact P|exact ND]. }
  destruct (lookup st k) as [e|] eqn:L.
  - apply lookup_some_in in L as [Hin Hk]. symmetry. apply lookup_distinct; auto.
    eapply Permutation_in; eauto.
  - destruct (lookup st' k) as [e'|] eqn:L'; [|reflexivity].
    apply lookup_some_in in L' as [Hin Hk].
    assert (In e' st) by (eapply Permutation_in; [apply Permutation_sym; exact P|exact Hin]).
    rewrite (lookup_distinct st k e' ND H Hk) in L. discriminate.
Qed.

(* un-needed state: adding or removing events whose key is not k does not change the lookup of k *)
Lemma lookup_add_unrelated st extra k :
  (forall x, In x extra -> ev_key x <> k) ->
  lookup (st ++ extra) k = lookup st k /\ lookup (extra ++ st) k = lookup st k.
Proof.
  intro H. unfold lookup. rewrite !lookup_last_app. split.
  - apply lookup_last_none_acc. intros x Hx. destruct (tuple_eqb k (ev_key x)) eqn:T; [|reflexivity].
    apply tuple_eqb_eq in T. exfalso. apply (H x Hx). auto.
  - f_equal. apply lookup_last_none_acc. intros x Hx.
    destruct (tuple_eqb k (ev_key x)) eqn:T; [|reflexivity].
    apply tuple_eqb_eq in T. exfalso. apply (H x Hx). auto.
Qed.

Lemma lookup_filter st (keep : json -> bool) k :
  (forall x, In x st -> ev_key x = k -> keep x = true) ->
  lookup (filter keep st) k = lookup st k.
Proof.
  unfold lookup. generalize (@None json).
  induction st as [|x st IH]; intros acc H; simpl; [reflexivity|].
  destruct (keep x) eqn:K; simpl.
  - apply IH. intros y Hy. apply H. right. exact Hy.
  - destruct (tuple_eqb k (ev_key x)) eqn:T.
    + apply tuple_eqb_eq in T. rewrite (H x (or_introl eq_refl) (eq_sym T)) in K. discriminate.
    + apply IH. intros y Hy. apply H. right. exact Hy.
Qed.
