(* The third-party-invite rule belongs to membership invite only: on a join / leave / ban / knock
   event a third_party_invite block in the content is just content. strip_tpi removes everything
   the record keeps about the block; the rules (with any choice of departures, hence also the
   literal text) give the same verdict with and without it. *)
From Verif Require Import Lib.Bytes Json.Ast Auth.GoJson Auth.Ids Auth.Types Auth.Versions Auth.Abs
     Auth.AllowedSpec Auth.Departures Auth.DepartureProofs.
Open Scope Z_scope.

Definition strip_member (m : member_info) : member_info :=
  {| m_membership := m_membership m; m_tpi := None; m_via := m_via m; m_mapping := m_mapping m |}.

Definition strip_tpi (a : auth_input) : auth_input :=
  {| ai_flags := ai_flags a; ai_provider_ok := ai_provider_ok a; ai_one_room := ai_one_room a;
     ai_kind := ai_kind a; ai_type := ai_type a; ai_room := ai_room a; ai_room_kind := ai_room_kind a;
     ai_sender := ai_sender a; ai_sender_domain := ai_sender_domain a; ai_state_key := ai_state_key a;
     ai_prev := ai_prev a; ai_create := ai_create a; ai_pl_present := ai_pl_present a; ai_pl := ai_pl a;
     ai_join_rule := ai_join_rule a; ai_sender_member := ai_sender_member a;
     ai_new_member := option_map strip_member (ai_new_member a);
     ai_target_member := ai_target_member a;
     ai_tpi_event := None; ai_sig_ok := false; ai_sig_ok_spec := false; ai_tpi_sender_ok := false;
     ai_via_split_ok := ai_via_split_ok a; ai_via_member := ai_via_member a; ai_new_pl := ai_new_pl a;
     ai_new_pl_users_ok := ai_new_pl_users_ok a; ai_redacts_domain := ai_redacts_domain a;
     ai_cc := ai_cc a |}.

Definition not_invite (a : auth_input) : Prop :=
  forall m, ai_new_member a = Some m -> m_membership m <> MsInvite.

Theorem block_ignored_with d sv a x :
  not_invite a -> decide_spec_with d sv (strip_tpi a) x = decide_spec_with d sv a x.
Proof.
  intro Hni. unfold not_invite in Hni.
  unfold decide_spec_with, generic_ok_with, spec_member_with, spec_power_levels_with, spec_redaction_with,
    spec_generic_with, spec_create, spec_aliases, rule3_create, mem_is, spec_join_with,
    spec_pl_with, spec_level_with, spec_creator, creator_differs.
  cbn [strip_tpi ai_flags ai_provider_ok ai_one_room ai_kind ai_type ai_room ai_room_kind ai_sender
       ai_sender_domain ai_state_key ai_prev ai_create ai_pl_present ai_pl ai_join_rule ai_sender_member
       ai_new_member ai_target_member ai_tpi_event ai_sig_ok ai_sig_ok_spec ai_tpi_sender_ok
       ai_via_split_ok ai_via_member ai_new_pl ai_new_pl_users_ok ai_redacts_domain ai_cc].
  destruct (ai_kind a); try reflexivity.
  destruct (ai_new_member a) as [m|] eqn:Em; cbn [option_map];
    [|destruct (ai_state_key a); reflexivity].
  specialize (Hni m eq_refl).
  cbn [strip_member m_membership m_tpi m_via m_mapping].
  destruct (m_membership m); try reflexivity. congruence.
Qed.

Corollary block_ignored sv a :
  not_invite a -> decide_spec sv (strip_tpi a) = decide_spec sv a.
Proof.
  intro H. rewrite <- !(with_all_on sv _ {| sx_creator := None; sx_old_named := []; sx_new_named := [];
    sx_levels_literal := true; sx_selection_ok := true; sx_event_id_domain := None; sx_v1v2 := false |}).
  apply block_ignored_with. exact H.
Qed.
