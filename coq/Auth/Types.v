(* Abstract input of event authorisation: what Allowed looks at, after the JSON has been read.
   Theorems (Props/C07.v, Props/C08.v) are stated over these records; Auth/Abs.v computes the
   record from parsed JSON events; Auth/Decide.v is the library's decision procedure on it;
   Auth/AllowedSpec.v is the specification's. (Model only, no proofs.) *)
From Verif Require Import Lib.Bytes Auth.Ids.
Open Scope N_scope.

Inductive verdict := VOk | VNotAllowed | VErr | VPanic.

Definition verdict_eqb (a b : verdict) : bool :=
  match a, b with
  | VOk, VOk | VNotAllowed, VNotAllowed | VErr, VErr | VPanic, VPanic => true
  | _, _ => false
  end.

Inductive mship := MsJoin | MsInvite | MsLeave | MsBan | MsKnock | MsOther.
Inductive jrule := JrPublic | JrInvite | JrKnock | JrRestricted | JrKnockRestricted | JrOther.
Inductive ekind := KCreate | KAliases | KMember | KPowerLevels | KRedaction | KOther.

Definition mship_eqb (a b : mship) : bool :=
  match a, b with
  | MsJoin, MsJoin | MsInvite, MsInvite | MsLeave, MsLeave | MsBan, MsBan
  | MsKnock, MsKnock | MsOther, MsOther => true
  | _, _ => false
  end.

Inductive pl_checker := PlV1 | PlV2 | PlV3.
Inductive create_checker := CrV1 | CrV2 | CrV3.

(* the per-version switches of roomVersionMeta that authorisation reads *)
Record ver_flags := {
  vf_knocking : bool;              (* checkKnockingAllowedFunc = checkKnocking *)
  vf_restricted : option bool;     (* checkRestrictedJoinAllowedFunc; None: field not set (nil func) *)
  vf_pl_check : pl_checker;
  vf_int_levels : bool;            (* parsePowerLevelsFunc = parseIntegerPowerLevels *)
  vf_create_check : create_checker;
  vf_priv_creators : bool;
  vf_pseudo_ids : bool;            (* version = RoomVersionPseudoIDs *)
  vf_event_v3 : bool               (* events parsed by newEventFromTrustedJSONV3 (room ID of create derived) *)
}.

Record pl_content := {
  pl_ban : Z; pl_invite : Z; pl_kick : Z; pl_redact : Z;
  pl_users_default : Z; pl_events_default : Z; pl_state_default : Z;
  pl_users : list (bytes * Z);
  pl_events : list (bytes * Z);
  pl_notifs : list (bytes * Z)
}.

Record create_info := {
  c_room : bytes;
  c_event_id : bytes;
  c_sender : bytes;
  c_sender_domain : bytes;
  c_federate : bool;                (* m.federate absent or true *)
  c_room_version : option bytes;
  c_additional : list bytes
}.

Record tpi_info := {
  t_mxid : bytes;
  t_token : bytes;
  t_sigs : list (bytes * bytes)     (* (server, key id) of every signature whose key id starts with ed25519 *)
}.

Record member_info := {
  m_membership : mship;
  m_tpi : option tpi_info;          (* content.third_party_invite present *)
  m_via : bytes;                    (* join_authorised_via_users_server, empty when absent *)
  m_mapping : option (option bytes) (* mxid_mapping present: domain of its user_id, None if not a user ID *)
}.

(* what the version's create checker sees in the create event under test *)
Record create_check := {
  cc_content_ok : bool;             (* the content is an object (or null) *)
  cc_has_creator : bool;            (* content.creator is a string *)
  cc_room_version_known : bool;     (* content.room_version absent, or a string naming a known version *)
  cc_additional_ok : bool;          (* additional_creators absent, or a list of valid user IDs *)
  cc_room_id_present : bool
}.

Record auth_input := {
  ai_flags : ver_flags;
  ai_provider_ok : bool;            (* NewAuthEvents succeeded: every auth event is a state event *)
  ai_one_room : bool;               (* AuthEvents.Valid *)
  ai_kind : ekind;
  ai_type : bytes;
  ai_room : bytes;
  ai_room_kind : room_id_kind;
  ai_sender : bytes;
  ai_sender_domain : option bytes;  (* UserIDForSender result *)
  ai_state_key : option bytes;
  ai_prev : list bytes;
  ai_create : option create_info;   (* None: no create auth event, or unusable *)
  ai_pl_present : bool;             (* a usable power-levels auth event *)
  ai_pl : pl_content;               (* effective current levels (defaults when absent) *)
  ai_join_rule : jrule;
  ai_sender_member : option mship;  (* None: unparseable member content *)
  (* m.room.member *)
  ai_new_member : option member_info;
  ai_target_member : option mship;
  ai_tpi_event : option (option (list bytes)); (* m.room.third_party_invite for the token: public keys *)
  ai_sig_ok : bool;                 (* some listed signature verifies under some key of public_keys *)
  ai_sig_ok_spec : bool;            (* ... under some key of public_keys or the single public_key *)
  ai_tpi_sender_ok : bool;          (* the m.room.third_party_invite event was sent by this sender *)
  ai_via_split_ok : bool;
  ai_via_member : option (option mship);
  (* m.room.power_levels *)
  ai_new_pl : option pl_content;
  ai_new_pl_users_ok : bool;
  (* m.room.redaction *)
  ai_redacts_domain : option bytes;
  (* m.room.create *)
  ai_cc : create_check
}.

(* ---- level lookups ---- *)
Fixpoint lookup_z (k : bytes) (m : list (bytes * Z)) : option Z :=
  match m with
  | [] => None
  | (k', v) :: m' =>
      match lookup_z k m' with
      | Some z => Some z
      | None => if bytes_eqb k k' then Some v else None
      end
  end.

Definition pl_user_level (p : pl_content) (u : bytes) : Z :=
  match lookup_z u (pl_users p) with Some z => z | None => pl_users_default p end.

Definition tpi_type : bytes := Eval vm_compute in bs "m.room.third_party_invite".

Definition pl_event_level (p : pl_content) (ty : bytes) (is_state : bool) : Z :=
  if bytes_eqb ty tpi_type then pl_invite p else
  match lookup_z ty (pl_events p) with
  | Some z => z
  | None => if is_state then pl_state_default p else pl_events_default p
  end.

(* an entry of the events map as it stands (absent: events_default), without the special case of
   m.room.third_party_invite that pl_event_level has for SENDING such an event *)
Definition pl_event_entry (p : pl_content) (ty : bytes) : Z :=
  match lookup_z ty (pl_events p) with
  | Some z => z
  | None => pl_events_default p
  end.

Definition pl_notif_level (p : pl_content) (n : bytes) : Z :=
  match lookup_z n (pl_notifs p) with Some z => z | None => 50%Z end.
