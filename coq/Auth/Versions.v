(* The per-version switches, read from the table generated from eventversion.go on every run
   (Gen/GenVersions.v). An identifier this file does not know makes the lookup fail, so a new
   checker function in the source breaks the correspondence loudly instead of silently. *)
From Verif Require Import Lib.Bytes Json.Ast Auth.Types.
From Verif Require Gen.GenVersions Gen.GenConsts.
Open Scope N_scope.

Definition version_fields (ver : bytes) : option (list (bytes * bytes)) :=
  assoc_first ver GenVersions.gen_versions.

Definition known_room_version (ver : bytes) : bool :=
  match version_fields ver with Some _ => true | None => false end.

Definition all_versions : list bytes := map fst GenVersions.gen_versions.

Definition s_checkKnockingAllowedFunc := Eval vm_compute in bs "checkKnockingAllowedFunc".
Definition s_checkKnocking := Eval vm_compute in bs "checkKnocking".
Definition s_disallowKnocking := Eval vm_compute in bs "disallowKnocking".
Definition s_checkRestrictedJoinAllowedFunc := Eval vm_compute in bs "checkRestrictedJoinAllowedFunc".
Definition s_allowRestrictedJoins := Eval vm_compute in bs "allowRestrictedJoins".
Definition s_disallowRestrictedJoins := Eval vm_compute in bs "disallowRestrictedJoins".
Definition s_checkPowerLevelEvent := Eval vm_compute in bs "checkPowerLevelEvent".
Definition s_checkPowerLevelEventV1 := Eval vm_compute in bs "checkPowerLevelEventV1".
Definition s_checkPowerLevelEventV2 := Eval vm_compute in bs "checkPowerLevelEventV2".
Definition s_checkPowerLevelEventV3 := Eval vm_compute in bs "checkPowerLevelEventV3".
Definition s_parsePowerLevelsFunc := Eval vm_compute in bs "parsePowerLevelsFunc".
Definition s_parsePowerLevels := Eval vm_compute in bs "parsePowerLevels".
Definition s_parseIntegerPowerLevels := Eval vm_compute in bs "parseIntegerPowerLevels".
Definition s_checkCreateEvent := Eval vm_compute in bs "checkCreateEvent".
Definition s_checkCreateEventV1 := Eval vm_compute in bs "checkCreateEventV1".
Definition s_checkCreateEventV2 := Eval vm_compute in bs "checkCreateEventV2".
Definition s_checkCreateEventV3 := Eval vm_compute in bs "checkCreateEventV3".
Definition s_privilegedCreators := Eval vm_compute in bs "privilegedCreators".
Definition s_true := Eval vm_compute in bs "true".
Definition s_false := Eval vm_compute in bs "false".
Definition s_newEventFromTrustedJSONFunc := Eval vm_compute in bs "newEventFromTrustedJSONFunc".
Definition s_newEventFromTrustedJSONV1 := Eval vm_compute in bs "newEventFromTrustedJSONV1".
Definition s_newEventFromTrustedJSONV2 := Eval vm_compute in bs "newEventFromTrustedJSONV2".
Definition s_newEventFromTrustedJSONV3 := Eval vm_compute in bs "newEventFromTrustedJSONV3".
(* RoomVersionPseudoIDs (eventversion.go) *)
Definition s_pseudo_ids_version := Eval vm_compute in bs "org.matrix.msc4014".

(* choose among named alternatives; None if the identifier is not one of them *)
Fixpoint pick {A} (v : bytes) (alts : list (bytes * A)) : option A :=
  match alts with
  | [] => None
  | (n, a) :: r => if bytes_eqb v n then Some a else pick v r
  end.

Definition flags_of_version (ver : bytes) : option ver_flags :=
  match version_fields ver with
  | None => None
  | Some fs =>
      let get k := assoc_first k fs in
      match
        (match get s_checkKnockingAllowedFunc with
         | Some v => pick v [(s_checkKnocking, true); (s_disallowKnocking, false)]
         | None => None end),
        (match get s_checkRestrictedJoinAllowedFunc with
         | Some v => option_map Some (pick v [(s_allowRestrictedJoins, true); (s_disallowRestrictedJoins, false)])
         | None => Some None end),
        (match get s_checkPowerLevelEvent with
         | Some v => pick v [(s_checkPowerLevelEventV1, PlV1); (s_checkPowerLevelEventV2, PlV2);
                              (s_checkPowerLevelEventV3, PlV3)]
         | None => None end),
        (match get s_parsePowerLevelsFunc with
         | Some v => pick v [(s_parsePowerLevels, false); (s_parseIntegerPowerLevels, true)]
         | None => None end),
        (match get s_checkCreateEvent with
         | Some v => pick v [(s_checkCreateEventV1, CrV1); (s_checkCreateEventV2, CrV2);
                              (s_checkCreateEventV3, CrV3)]
         | None => None end),
        (match get s_privilegedCreators with
         | Some v => pick v [(s_true, true); (s_false, false)]
         | None => Some false end),
        (match get s_newEventFromTrustedJSONFunc with
         | Some v => pick v [(s_newEventFromTrustedJSONV1, false); (s_newEventFromTrustedJSONV2, false);
                              (s_newEventFromTrustedJSONV3, true)]
         | None => None end)
      with
      | Some kn, Some rj, Some plc, Some il, Some cc, Some pc, Some v3 =>
          Some {| vf_knocking := kn; vf_restricted := rj; vf_pl_check := plc; vf_int_levels := il;
                  vf_create_check := cc; vf_priv_creators := pc;
                  vf_pseudo_ids := bytes_eqb ver s_pseudo_ids_version; vf_event_v3 := v3 |}
      | _, _, _, _, _, _, _ => None
      end
  end.

(* defaults of PowerLevelContent.Defaults(), from the generated constants *)
Definition pl_default (go_field : bytes) : Z :=
  match assoc_first go_field GenConsts.gen_pl_defaults with Some z => z | None => 0%Z end.

Definition d_Ban := Eval vm_compute in bs "Ban".
Definition d_Invite := Eval vm_compute in bs "Invite".
Definition d_Kick := Eval vm_compute in bs "Kick".
Definition d_Redact := Eval vm_compute in bs "Redact".
Definition d_UsersDefault := Eval vm_compute in bs "UsersDefault".
Definition d_EventsDefault := Eval vm_compute in bs "EventsDefault".
Definition d_StateDefault := Eval vm_compute in bs "StateDefault".

Definition pl_defaults : pl_content :=
  {| pl_ban := pl_default d_Ban; pl_invite := pl_default d_Invite; pl_kick := pl_default d_Kick;
     pl_redact := pl_default d_Redact; pl_users_default := pl_default d_UsersDefault;
     pl_events_default := pl_default d_EventsDefault; pl_state_default := pl_default d_StateDefault;
     pl_users := []; pl_events := []; pl_notifs := [] |}.

(* the zero PowerLevelContent the context keeps when the power-levels auth event does not parse *)
Definition pl_zero : pl_content :=
  {| pl_ban := 0; pl_invite := 0; pl_kick := 0; pl_redact := 0; pl_users_default := 0;
     pl_events_default := 0; pl_state_default := 0; pl_users := []; pl_events := []; pl_notifs := [] |}.

Definition creator_level : Z := GenConsts.gen_creator_power_level.

(* NewPowerLevelContentFromAuthEvents without a power-levels event *)
Definition pl_absent (creator : bytes) : pl_content :=
  {| pl_ban := pl_ban pl_defaults; pl_invite := pl_invite pl_defaults; pl_kick := pl_kick pl_defaults;
     pl_redact := pl_redact pl_defaults; pl_users_default := pl_users_default pl_defaults;
     pl_events_default := pl_events_default pl_defaults; pl_state_default := 50%Z;
     pl_users := [(creator, 9007199254740991%Z)]; pl_events := []; pl_notifs := [] |}.
