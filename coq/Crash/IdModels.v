(* Index-level models (explicit Crash outcome) of the small string-splitting functions that
   handle identifiers and headers received from the network. Only the index arithmetic and the
   guards around it are modelled; everything else the Go code does with the pieces (regular
   expressions, net.ParseIP, strconv) is a function parameter, so the no-crash theorems hold
   for every behaviour of those parts. No proofs in this file. *)
From Verif Require Import Lib.Bytes Crash.Outcome.
From Coq Require Import Arith.
Open Scope nat_scope.

Definition colon : N := 58%N.

(* event.go: SplitID(sigil, id) *)
Definition split_id (sigil : N) (id : bytes) : outcome (option (bytes * bytes)) :=
  if length id =? 0 then Ret None else
  do c <- idx id 0;
  if negb (N.eqb c sigil) then Ret None else
  let parts := splitn2 colon id in
  if negb (length parts =? 2) then Ret None else
  do p0 <- idx parts 0;
  do p1 <- idx parts 1;
  do loc <- slice_from p0 1;
  Ret (Some (loc, p1)).

(* eventcontent.go: domainFromID *)
Definition domain_from_id (id : bytes) : outcome (option bytes) :=
  let parts := splitn2 colon id in
  if negb (length parts =? 2) then Ret None else
  do p1 <- idx parts 1; Ret (Some p1).

(* event.go: checkID(id, kind, sigil); result: None = error, Some b = ok (b: within byte limit) *)
Definition check_id (count_runes : bytes -> nat) (max : nat) (id : bytes) (sigil : N) : outcome (option bool) :=
  do d <- domain_from_id id;
  match d with
  | None => Ret None
  | Some _ =>
      do c <- idx id 0;
      if negb (N.eqb c sigil) then Ret None
      else if max <? count_runes id then Ret None
      else Ret (Some (length id <=? max))
  end.

(* spec/servername.go: splitServerName *)
Definition split_server_name (parse_port : bytes -> option nat) (name : bytes) : outcome (bytes * option nat) :=
  match last_index colon name with
  | None => Ret (name, None)
  | Some lc =>
      do port_str <- slice_from name (lc + 1);
      match parse_port port_str with
      | None => Ret (name, None)
      | Some p => do h <- slice_to name lc; Ret (h, Some p)
      end
  end.

(* spec/servername.go: ParseAndValidateServerName (host validation part) *)
Definition validate_host (is_ip : bytes -> bool) (is_ip4 : bytes -> bool) (dns_ok : bytes -> bool)
           (host : bytes) : outcome bool :=
  if length host =? 0 then Ret false else
  do c <- idx host 0;
  if N.eqb c 91%N then
    do l <- last_elem host;
    if negb (N.eqb l 93%N) then Ret false
    else do ip <- slice host 1 (length host - 1); Ret (is_ip ip)
  else if is_ip4 host then Ret true
  else Ret (dns_ok host).

Definition parse_server_name (parse_port : bytes -> option nat) (is_ip is_ip4 dns_ok : bytes -> bool)
           (name : bytes) : outcome (bytes * option nat * bool) :=
  do hp <- split_server_name parse_port name;
  do v <- validate_host is_ip is_ip4 dns_ok (fst hp);
  Ret (fst hp, snd hp, v).

(* spec/userid.go: parseAndValidateUserID — the index skeleton *)
Definition parse_user_id (rest_ok : bytes -> bool) (id : bytes) : outcome bool :=
  if (length id <? 4) || (255 <? length id) then Ret false else
  do c <- idx id 0;
  if negb (N.eqb c 64%N) then Ret false else
  do r <- slice_from id 1; Ret (rest_ok r).

(* spec/roomid.go: parseAndValidateRoomID — the index skeleton *)
Definition parse_room_id (domainless_ok rest_ok : bytes -> bool) (id : bytes) : outcome bool :=
  if length id <? 4 then Ret false else
  do c <- idx id 0;
  if negb (N.eqb c 33%N) then Ret false else
  if negb (existsb (N.eqb colon) id) then (do r <- slice_from id 1; Ret (domainless_ok r))
  else do r <- slice_from id 1; Ret (rest_ok r).

(* spec/senderid.go: SenderID.IsUserID (as repaired) *)
Definition sender_is_user_id (s : bytes) : outcome bool :=
  if 0 <? length s then (do c <- idx s 0; Ret (N.eqb c 64%N)) else Ret false.

(* fclient/request.go: ParseAuthorization — which parts are indexed *)
Definition split_all (sep : N) (s : bytes) : list bytes :=
  (fix go (s cur : bytes) : list bytes :=
     match s with
     | [] => [rev cur]
     | x :: r => if N.eqb x sep then rev cur :: go r [] else go r (x :: cur)
     end) s [].

Definition parse_authorization_pairs (header : bytes) : outcome (bytes * list (bytes * bytes)) :=
  let parts := splitn2 32%N header in
  do scheme <- idx parts 0;
  if negb (bytes_eqb scheme (bs "X-Matrix")) then Ret (scheme, [])
  else if negb (length parts =? 2) then Ret (scheme, [])
  else
    do rest <- idx parts 1;
    (fix go (l : list bytes) : outcome (bytes * list (bytes * bytes)) :=
       match l with
       | [] => Ret (scheme, [])
       | data :: l' =>
           let pair := splitn2 61%N data in
           if negb (length pair =? 2) then go l'
           else do n <- idx pair 0; do v <- idx pair 1;
                do r <- go l'; Ret (fst r, (n, v) :: snd r)
       end) (split_all 44%N rest).

(* tokens/tokens_handlers.go: caveat[len(prefix):] after strings.HasPrefix *)
Definition after_prefix (prefix caveat : bytes) : outcome (option bytes) :=
  if is_prefix prefix caveat then (do r <- slice_from caveat (length prefix); Ret (Some r)) else Ret None.

(* keyring.go: PublicKeyLookupRequest.UnmarshalText; pdu.go: eventReference.UnmarshalJSON:
   "if len(parts) < 2 -> error" then parts[0], parts[1] *)
Definition two_parts {A} (parts : list A) : outcome (option (A * A)) :=
  if length parts <? 2 then Ret None else
  do a <- idx parts 0; do b <- idx parts 1; Ret (Some (a, b)).

(* fclient/resolve.go handleNoWellKnown: trailing dot of an SRV target *)
Definition trim_srv_target (target : bytes) : outcome bytes :=
  do l <- last_elem target;
  if N.eqb l 46%N then drop_last target else Ret target.
