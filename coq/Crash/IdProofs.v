(* No-crash theorems for the index-level models of Crash/IdModels.v: for ALL byte strings and
   for every behaviour of the abstracted helper functions. *)
From Verif Require Import Lib.Bytes Crash.Outcome Crash.IdModels.
From Coq Require Import Arith.
Open Scope nat_scope.

Lemma idx0_cons {A} (x : A) l : idx (x :: l) 0 = Ret x.
Proof. reflexivity. Qed.

Lemma idx1_cons {A} (x y : A) l : idx (x :: y :: l) 1 = Ret y.
Proof. reflexivity. Qed.

Lemma idx0_nonempty {A} (l : list A) : l <> [] -> exists a, idx l 0 = Ret a.
Proof. destruct l; [congruence|]. intros _. eexists. reflexivity. Qed.

(* split_at facts *)
Lemma split_at_spec c s a b : split_at c s = Some (a, b) -> s = a ++ c :: b.
Proof.
  revert a b; induction s as [|x s IH]; intros a b H; simpl in H; [discriminate|].
  destruct (N.eqb x c) eqn:E.
  - inversion H; subst. apply N.eqb_eq in E. subst. reflexivity.
  - destruct (split_at c s) as [[a' b']|]; [|discriminate].
    inversion H; subst. simpl. f_equal. apply IH. reflexivity.
Qed.

Lemma split_at_head c s a b x r : s = x :: r -> x <> c -> split_at c s = Some (a, b) -> a <> [].
Proof.
  intros -> Hx H. simpl in H. destruct (N.eqb x c) eqn:E.
  - apply N.eqb_eq in E. contradiction.
  - destruct (split_at c r) as [[a' b']|]; [|discriminate]. inversion H. discriminate.
Qed.

(* ---- SplitID ---- *)
Theorem split_id_no_crash sigil id : sigil <> colon -> split_id sigil id <> Crash.
Proof.
  intro Hs. unfold split_id.
  destruct id as [|x r]; [simpl; discriminate|].
  cbn [length Nat.eqb]. rewrite idx0_cons. cbn [bind].
  destruct (N.eqb x sigil) eqn:Ex; cbn [negb]; [|discriminate].
  apply N.eqb_eq in Ex. subst x.
  unfold splitn2. destruct (split_at colon (sigil :: r)) as [[a b]|] eqn:E; cbn [length Nat.eqb negb].
  - rewrite idx0_cons, idx1_cons. cbn [bind].
    assert (Ha : a <> []) by (eapply split_at_head; eauto).
    destruct a as [|y a']; [congruence|].
    unfold slice_from. simpl. discriminate.
  - discriminate.
Qed.

(* with ':' as sigil the code would slice parts[0][1:] of an empty string: the hypothesis is needed *)
Example split_id_colon_sigil_crashes : split_id colon [colon; 120%N] = Crash.
Proof. reflexivity. Qed.

(* ---- domainFromID / checkID ---- *)
Theorem domain_from_id_no_crash id : domain_from_id id <> Crash.
Proof.
  unfold domain_from_id, splitn2. destruct (split_at colon id) as [[a b]|]; cbn; discriminate.
Qed.

Theorem check_id_no_crash count_runes max id sigil : check_id count_runes max id sigil <> Crash.
Proof.
  unfold check_id, domain_from_id, splitn2.
  destruct (split_at colon id) as [[a b]|] eqn:E; cbn [length Nat.eqb negb bind idx nth_error].
  - apply split_at_nonempty in E. destruct id as [|x r]; [congruence|].
    cbn. nocrash.
  - discriminate.
Qed.

(* ---- server names ---- *)
Theorem split_server_name_no_crash parse_port name : split_server_name parse_port name <> Crash.
Proof.
  unfold split_server_name. destruct (last_index colon name) as [lc|] eqn:E; [|discriminate].
  apply last_index_bound in E.
  rewrite slice_from_le by lia. cbn [bind].
  destruct (parse_port _); [|discriminate].
  rewrite slice_to_le by lia. discriminate.
Qed.

Lemma last_elem_nonempty {A} (l : list A) : l <> [] -> exists a, last_elem l = Ret a.
Proof.
  intro H. unfold last_elem. destruct l as [|x r]; [congruence|].
  apply idx_lt. simpl. lia.
Qed.

Lemma last_elem_single {A} (x : A) : last_elem [x] = Ret x.
Proof. reflexivity. Qed.

Theorem validate_host_no_crash is_ip is_ip4 dns_ok host : validate_host is_ip is_ip4 dns_ok host <> Crash.
Proof.
  unfold validate_host. destruct host as [|x r]; [simpl; discriminate|].
  cbn [length Nat.eqb]. rewrite idx0_cons. cbn [bind].
  destruct (N.eqb x 91%N) eqn:Ex.
  - destruct (last_elem_nonempty (x :: r)) as [l Hl]; [discriminate|]. rewrite Hl. cbn [bind].
    destruct (N.eqb l 93%N) eqn:El; cbn [negb]; [|discriminate].
    (* reaching the slice needs length >= 2: a one-byte host cannot start with '[' and end with ']' *)
    destruct r as [|y r'].
    + rewrite last_elem_single in Hl. inversion Hl; subst.
      apply N.eqb_eq in Ex. apply N.eqb_eq in El. congruence.
    + rewrite slice_ok; [discriminate| |]; simpl; lia.
  - destruct (is_ip4 _); discriminate.
Qed.

Theorem parse_server_name_no_crash parse_port is_ip is_ip4 dns_ok name :
  parse_server_name parse_port is_ip is_ip4 dns_ok name <> Crash.
Proof.
  unfold parse_server_name.
  destruct (split_server_name parse_port name) as [hp|] eqn:E;
    [|exfalso; eapply split_server_name_no_crash; eauto].
  cbn [bind].
  destruct (validate_host is_ip is_ip4 dns_ok (fst hp)) eqn:E2;
    [|exfalso; eapply validate_host_no_crash; eauto].
  discriminate.
Qed.

(* ---- user and room IDs ---- *)
Theorem parse_user_id_no_crash rest_ok id : parse_user_id rest_ok id <> Crash.
Proof.
  unfold parse_user_id.
  destruct (length id <? 4) eqn:E1; [discriminate|]. cbn [orb].
  destruct (255 <? length id); [discriminate|].
  apply Nat.ltb_ge in E1.
  destruct id as [|x r]; [simpl in E1; lia|].
  rewrite idx0_cons. cbn [bind]. destruct (N.eqb x 64%N); cbn [negb]; [|discriminate].
  rewrite slice_from_le by (simpl; lia). discriminate.
Qed.

Theorem parse_room_id_no_crash domainless_ok rest_ok id : parse_room_id domainless_ok rest_ok id <> Crash.
Proof.
  unfold parse_room_id.
  destruct (length id <? 4) eqn:E1; [discriminate|].
  apply Nat.ltb_ge in E1.
  destruct id as [|x r]; [simpl in E1; lia|].
  rewrite idx0_cons. cbn [bind]. destruct (N.eqb x 33%N); cbn [negb]; [|discriminate].
  rewrite slice_from_le by (simpl; lia).
  destruct (existsb _ _); discriminate.
Qed.

Theorem sender_is_user_id_no_crash s : sender_is_user_id s <> Crash.
Proof.
  unfold sender_is_user_id. destruct s as [|x r]; [discriminate|].
  cbn. discriminate.
Qed.

(* ---- X-Matrix header ---- *)
Theorem parse_authorization_no_crash header : parse_authorization_pairs header <> Crash.
Proof.
  unfold parse_authorization_pairs, splitn2.
  assert (Hloop : forall scheme l,
    (fix go (l : list bytes) : outcome (bytes * list (bytes * bytes)) :=
       match l with
       | [] => Ret (scheme, [])
       | data :: l' =>
           let pair := match split_at 61%N data with Some (a, b) => [a; b] | None => [data] end in
           if negb (length pair =? 2) then go l'
           else do n <- idx pair 0; do v <- idx pair 1;
                do r <- go l'; Ret (fst r, (n, v) :: snd r)
       end) l <> Crash).
  { intros scheme l. induction l as [|data l IH]; [discriminate|].
    destruct (split_at 61%N data) as [[a b]|]; cbn [length Nat.eqb negb].
    - rewrite idx0_cons, idx1_cons. cbn [bind].
      match goal with |- context [bind ?o _] => destruct o eqn:E end; [discriminate|contradiction].
    - exact IH. }
  destruct (split_at 32%N header) as [[a b]|]; cbn [length Nat.eqb negb idx nth_error bind].
  - destruct (bytes_eqb a (bs "X-Matrix")); cbn [negb]; [|discriminate]. apply Hloop.
  - destruct (bytes_eqb header (bs "X-Matrix")); discriminate.
Qed.

(* ---- prefix slicing, two-part splits ---- *)
Lemma is_prefix_length p s : is_prefix p s = true -> length p <= length s.
Proof.
  revert s; induction p as [|x p IH]; intros s H; simpl in *; [lia|].
  destruct s as [|y s]; [discriminate|]. apply andb_true_iff in H as [_ H]. apply IH in H. simpl. lia.
Qed.

Theorem after_prefix_no_crash prefix caveat : after_prefix prefix caveat <> Crash.
Proof.
  unfold after_prefix. destruct (is_prefix prefix caveat) eqn:E; [|discriminate].
  apply is_prefix_length in E. rewrite slice_from_le by exact E. discriminate.
Qed.

Theorem two_parts_no_crash {A} (parts : list A) : two_parts parts <> Crash.
Proof.
  unfold two_parts. destruct (length parts <? 2) eqn:E; [discriminate|].
  apply Nat.ltb_ge in E. destruct parts as [|a [|b r]]; simpl in E; try lia.
  cbn. discriminate.
Qed.

(* ---- SRV target: safe exactly when the resolver returns a non-empty name ---- *)
Theorem trim_srv_target_no_crash target : target <> [] -> trim_srv_target target <> Crash.
Proof.
  intro H. unfold trim_srv_target.
  destruct (last_elem_nonempty target H) as [l Hl]. rewrite Hl. cbn [bind].
  destruct (N.eqb l 46%N); [|discriminate].
  unfold drop_last. destruct target as [|x r]; [congruence|].
  rewrite slice_to_le by (simpl; lia). discriminate.
Qed.

Example trim_srv_target_empty_crashes : trim_srv_target [] = Crash.
Proof. reflexivity. Qed.
