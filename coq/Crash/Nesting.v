(* C18: index-level model of json.go jsonNestingExceeds (the guard that keeps the recursion of
   validation, the integer check and sorting within the stack: repair of F48). The loop reads
   input[i] once per round, at the top, under the loop condition i < len(input); inside a string a
   backslash skips the next byte (i++ before the loop's own i++), which may move i past the end -
   the loop condition is tested again before the next read. *)
From Verif Require Import Lib.Bytes Crash.Outcome.
From Coq Require Import Arith ZArith Lia.
Open Scope nat_scope.

Fixpoint nest_loop (fuel : nat) (input : bytes) (i : nat) (depth limit : Z) (in_string : bool)
  : outcome bool :=
  match fuel with
  | O => Ret false
  | S f =>
      if length input <=? i then Ret false else
      do c <- idx input i;
      if in_string then
        if N.eqb c 92 then nest_loop f input (i + 2) depth limit true
        else if N.eqb c 34 then nest_loop f input (i + 1) depth limit false
        else nest_loop f input (i + 1) depth limit true
      else if N.eqb c 34 then nest_loop f input (i + 1) depth limit true
      else if N.eqb c 123 || N.eqb c 91 then
        if (limit <? depth + 1)%Z then Ret true
        else nest_loop f input (i + 1) (depth + 1)%Z limit false
      else if N.eqb c 125 || N.eqb c 93 then nest_loop f input (i + 1) (depth - 1)%Z limit false
      else nest_loop f input (i + 1) depth limit false
  end.

(* every round advances i by at least one, so len(input) rounds suffice *)
Definition json_nesting_exceeds (input : bytes) (limit : Z) : outcome bool :=
  nest_loop (S (length input)) input 0 0%Z limit false.

Lemma nest_loop_total fuel : forall input i depth limit s,
  nest_loop fuel input i depth limit s <> Crash.
Proof.
  induction fuel as [|f IH]; intros input i depth limit s; cbn [nest_loop]; [discriminate|].
  destruct (length input <=? i) eqn:E; [discriminate|].
  apply Nat.leb_gt in E. destruct (idx_lt input i E) as [c Hc]. rewrite Hc. cbn [bind].
  repeat match goal with
  | |- (if ?b then _ else _) <> _ => destruct b
  end; try discriminate; apply IH.
Qed.

Theorem json_nesting_exceeds_total input limit : json_nesting_exceeds input limit <> Crash.
Proof. apply nest_loop_total. Qed.

(* the fuel is enough: the answer does not change with more of it *)
Lemma nest_loop_fuel_enough fuel : forall input i depth limit s extra,
  length input - i < fuel ->
  nest_loop (fuel + extra) input i depth limit s = nest_loop fuel input i depth limit s.
Proof.
  induction fuel as [|f IH]; intros input i depth limit s extra H; [lia|].
  cbn [nest_loop Nat.add].
  destruct (length input <=? i) eqn:E; [reflexivity|].
  apply Nat.leb_gt in E. destruct (idx input i); cbn [bind]; [|reflexivity].
  repeat match goal with
  | |- (if ?b then _ else _) = _ => destruct b
  end; try reflexivity; apply IH; lia.
Qed.

Example nesting_examples :
  json_nesting_exceeds (bs "[[1]]") 2 = Ret false
  /\ json_nesting_exceeds (bs "[[[1]]]") 2 = Ret true
  /\ json_nesting_exceeds [34; 91; 91; 91; 34]%N 1 = Ret false        (* brackets inside a string *)
  /\ json_nesting_exceeds [34; 92; 34; 91; 91; 34]%N 1 = Ret false    (* an escaped quote does not end it *)
  /\ json_nesting_exceeds [34; 92]%N 1 = Ret false                    (* backslash as last byte *)
  /\ json_nesting_exceeds (bs "]]][[[") 1 = Ret false.              (* closers first: shallow for the counter *)
Proof. repeat split; vm_compute; reflexivity. Qed.
