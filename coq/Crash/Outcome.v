(* Index-safe modelling: Go's x[i], x[a:b] on strings/slices as partial operations whose failure
   is the explicit outcome Crash (what Go turns into a run-time panic). *)
From Verif Require Import Lib.Bytes.
From Coq Require Import Arith.
Open Scope nat_scope.

Inductive outcome (A : Type) : Type := Ret (a : A) | Crash.
Arguments Ret {A} a.
Arguments Crash {A}.

Definition bind {A B} (o : outcome A) (f : A -> outcome B) : outcome B :=
  match o with Ret a => f a | Crash => Crash end.
Notation "'do' x <- o ; f" := (bind o (fun x => f)) (at level 200, x name, o at level 100, f at level 200).

(* x[i] *)
Definition idx {A} (l : list A) (i : nat) : outcome A :=
  match nth_error l i with Some a => Ret a | None => Crash end.
(* x[a:] *)
Definition slice_from {A} (l : list A) (a : nat) : outcome (list A) :=
  if a <=? length l then Ret (skipn a l) else Crash.
(* x[:b] *)
Definition slice_to {A} (l : list A) (b : nat) : outcome (list A) :=
  if b <=? length l then Ret (firstn b l) else Crash.
(* x[a:b] *)
Definition slice {A} (l : list A) (a b : nat) : outcome (list A) :=
  if (a <=? b) && (b <=? length l) then Ret (firstn (b - a) (skipn a l)) else Crash.
(* x[len(x)-1] : Go computes len(x)-1 on ints, so for an empty x the index is -1 *)
Definition last_elem {A} (l : list A) : outcome A :=
  match l with [] => Crash | _ => idx l (length l - 1) end.
(* x[:len(x)-1] *)
Definition drop_last {A} (l : list A) : outcome (list A) :=
  match l with [] => Crash | _ => slice_to l (length l - 1) end.

Lemma idx_lt {A} (l : list A) i : i < length l -> exists a, idx l i = Ret a.
Proof.
  intro H. unfold idx. destruct (nth_error l i) eqn:E; [eauto|].
  apply nth_error_None in E. lia.
Qed.

Lemma slice_from_le {A} (l : list A) a : a <= length l -> slice_from l a = Ret (skipn a l).
Proof. intro H. unfold slice_from. apply Nat.leb_le in H. rewrite H. reflexivity. Qed.

Lemma slice_to_le {A} (l : list A) b : b <= length l -> slice_to l b = Ret (firstn b l).
Proof. intro H. unfold slice_to. apply Nat.leb_le in H. rewrite H. reflexivity. Qed.

Lemma slice_ok {A} (l : list A) a b : a <= b -> b <= length l ->
  slice l a b = Ret (firstn (b - a) (skipn a l)).
Proof.
  intros H1 H2. unfold slice. apply Nat.leb_le in H1. apply Nat.leb_le in H2.
  rewrite H1, H2. reflexivity.
Qed.

(* strings.SplitN(s, sep, 2) for a one-byte separator: one or two parts *)
Definition splitn2 (sep : N) (s : bytes) : list bytes :=
  match split_at sep s with
  | Some (a, b) => [a; b]
  | None => [s]
  end.

Lemma splitn2_length sep s : length (splitn2 sep s) = 1 \/ length (splitn2 sep s) = 2.
Proof. unfold splitn2. destruct (split_at sep s) as [[a b]|]; simpl; auto. Qed.

Lemma split_at_nonempty sep s a b : split_at sep s = Some (a, b) -> s <> [].
Proof. destruct s; simpl; [discriminate|]. intros _ H. discriminate. Qed.

(* strings.LastIndex for a one-byte needle: Some i with i < len *)
Fixpoint last_index_from (c : N) (s : bytes) (i : nat) (acc : option nat) : option nat :=
  match s with
  | [] => acc
  | x :: r => last_index_from c r (S i) (if N.eqb x c then Some i else acc)
  end.
Definition last_index (c : N) (s : bytes) : option nat := last_index_from c s 0 None.

Lemma last_index_from_bound c s : forall i acc k,
  (forall j, acc = Some j -> j < i) ->
  last_index_from c s i acc = Some k -> k < i + length s.
Proof.
  induction s as [|x r IH]; intros i acc k Hacc H; simpl in *.
  - apply Hacc in H. lia.
  - apply IH in H.
    + lia.
    + intros j Hj. destruct (N.eqb x c).
      * inversion Hj; subst. lia.
      * apply Hacc in Hj. lia.
Qed.

Lemma last_index_bound c s k : last_index c s = Some k -> k < length s.
Proof.
  intro H. unfold last_index in H.
  apply last_index_from_bound in H; [lia|]. intros j Hj. discriminate.
Qed.

(* finish a no-crash goal by case analysis on whatever the result still branches on *)
Ltac nocrash :=
  repeat first
    [ discriminate
    | match goal with |- context [match ?b with _ => _ end] => destruct b end ].
