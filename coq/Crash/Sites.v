(* Comparison of the generated panic-site list (coq/Gen/GenSites.v, from the current source)
   with the audited classification (coq/Crash/SitesSpec.v). *)
From Verif Require Import Lib.Bytes Gen.GenSites Gen.GenVersions Crash.SitesSpec.
Open Scope N_scope.

Definition site_key := (list N * list N * list N * list N * N)%type.

Definition site_key_eqb (a b : site_key) : bool :=
  let '(f1, g1, k1, e1, n1) := a in
  let '(f2, g2, k2, e2, n2) := b in
  bytes_eqb f1 f2 && bytes_eqb g1 g2 && bytes_eqb k1 k2 && bytes_eqb e1 e2 && (n1 =? n2).

Definition key_of (r : list N * list N * list N * list N * N * site_class) : site_key :=
  let '(f, g, k, e, n, _) := r in (f, g, k, e, n).

Definition classified_keys : list site_key := map key_of classified_sites.

Definition all_sites_classified_b : bool :=
  forallb (fun s => existsb (site_key_eqb s) classified_keys) gen_sites.

Definition no_stale_rows_b : bool :=
  forallb (fun s => existsb (site_key_eqb s) gen_sites) classified_keys.

Definition unclassified : list site_key :=
  filter (fun s => negb (existsb (site_key_eqb s) classified_keys)) gen_sites.

Definition findings : list site_key :=
  map key_of (filter (fun r => match r with (_, Finding) => true | _ => false end) classified_sites).

(* every function-typed field of every registered room version is set *)
Definition version_complete (v : list N * list (list N * list N)) : bool :=
  forallb (fun f => existsb (fun kv => bytes_eqb f (fst kv)) (snd v)) gen_version_func_fields.
Definition version_table_complete_b : bool := forallb version_complete gen_versions.
Definition incomplete_versions : list (list N) :=
  map fst (filter (fun v => negb (version_complete v)) gen_versions).
