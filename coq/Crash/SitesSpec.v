(* GENERATED from crash/classification.tsv by tools/classify_sites.py gen; committed.
   The audited classification of every panic-capable expression of the library:
   (file, function, kind, expression, multiplicity, class). Reasons are in the TSV. *)
From Coq Require Import List NArith.
Import ListNotations.

Inductive site_class := Guarded | Loop | Total | Local | Table | Proved | Finding.

Definition classified_sites : list (list N * list N * list N * list N * N * site_class) :=
  [

  ].
