(* Facts about the base64 functions of the C03 model: the decoder undoes the encoder (hence the
   encoder is injective), alphabets, lengths.  Proofs only. *)
From Verif Require Import Lib.Bytes Event.ModelC03.
Open Scope N_scope.

(* division and remainder by a constant: name quotient and remainder, keep their equations *)
Ltac dm x d :=
  let q := fresh "q" in let r := fresh "r" in let Hq := fresh "Hq" in let Hr := fresh "Hr" in
  pose proof (N.div_mod x d ltac:(lia)); pose proof (N.mod_lt x d ltac:(lia));
  remember (x / d) as q eqn:Hq; remember (x mod d) as r eqn:Hr; clear Hq Hr.
Ltac dm_all :=
  repeat match goal with
         | |- context [?x / ?d] => is_var x; dm x d
         | |- context [?x mod ?d] => is_var x; dm x d
         end;
  repeat match goal with
         | |- context [?x / ?d] => dm x d
         | |- context [?x mod ?d] => dm x d
         end.
Ltac darith := dm_all; lia.

Definition vals64 : list N := map N.of_nat (seq 0 64).

Lemma lt64_in n : n < 64 -> In n vals64.
Proof.
  intro H. unfold vals64. apply in_map_iff. exists (N.to_nat n). split; [apply N2Nat.id|].
  apply in_seq. lia.
Qed.

Lemma check64 (P : N -> bool) : forallb P vals64 = true -> forall n, n < 64 -> P n = true.
Proof. intros H n Hn. rewrite forallb_forall in H. apply H. apply lt64_in. exact Hn. Qed.

Definition opt_is (o : option N) (n : N) : bool := match o with Some m => m =? n | None => false end.

Lemma b64_val_char url n : n < 64 -> b64_val url (b64_char url n) = Some n.
Proof.
  intro Hn.
  assert (E : opt_is (b64_val url (b64_char url n)) n = true).
  { apply (check64 (fun n => opt_is (b64_val url (b64_char url n)) n)); [|exact Hn].
    destruct url; vm_compute; reflexivity. }
  unfold opt_is in E. destruct (b64_val url (b64_char url n)); [|discriminate].
  apply N.eqb_eq in E. subst. reflexivity.
Qed.

Lemma b64_char_not_crlf url n : n < 64 -> ((b64_char url n =? 10) || (b64_char url n =? 13)) = false.
Proof.
  intro Hn.
  apply negb_true_iff.
  apply (check64 (fun n => negb ((b64_char url n =? 10) || (b64_char url n =? 13)))); [|exact Hn].
  destruct url; vm_compute; reflexivity.
Qed.

Definition is_b64std_char (c : N) : bool :=
  ((65 <=? c) && (c <=? 90)) || ((97 <=? c) && (c <=? 122)) || is_digit c || (c =? 43) || (c =? 47).

(* every character the encoder can emit is in its alphabet (also for out-of-range arguments) *)
Lemma b64_char_std n : is_b64std_char (b64_char false n) = true.
Proof.
  destruct (N.ltb_spec n 64) as [Hn|Hn].
  - apply (check64 (fun n => is_b64std_char (b64_char false n))); [vm_compute; reflexivity|exact Hn].
  - unfold b64_char.
    destruct (N.ltb_spec n 26); [lia|]. destruct (N.ltb_spec n 52); [lia|].
    destruct (N.ltb_spec n 62); [lia|]. destruct (N.eqb_spec n 62); [lia|]. reflexivity.
Qed.

Lemma b64_char_url n : is_b64url_char (b64_char true n) = true.
Proof.
  destruct (N.ltb_spec n 64) as [Hn|Hn].
  - apply (check64 (fun n => is_b64url_char (b64_char true n))); [vm_compute; reflexivity|exact Hn].
  - unfold b64_char.
    destruct (N.ltb_spec n 26); [lia|]. destruct (N.ltb_spec n 52); [lia|].
    destruct (N.ltb_spec n 62); [lia|]. destruct (N.eqb_spec n 62); [lia|]. reflexivity.
Qed.

Lemma list_ind3 {A} (P : list A -> Prop) :
  P [] -> (forall a, P [a]) -> (forall a b, P [a; b]) ->
  (forall a b c r, P r -> P (a :: b :: c :: r)) -> forall l, P l.
Proof.
  intros H0 H1 H2 H3.
  fix IH 1. intros [|a [|b [|c r]]]; [apply H0|apply H1|apply H2|apply H3; apply IH].
Qed.

Lemma b64_encode_alphabet (url : bool) (s : bytes) :
  Forall (fun c => (if url then is_b64url_char else is_b64std_char) c = true) (b64_encode url s).
Proof.
  assert (Hc : forall n, (if url then is_b64url_char else is_b64std_char) (b64_char url n) = true).
  { intro n. destruct url; [apply b64_char_url|apply b64_char_std]. }
  induction s as [|a|a b|a b c r IH] using list_ind3; simpl; repeat constructor; auto.
Qed.

Lemma b64_encode_length32 url s : length s = 32%nat -> length (b64_encode url s) = 43%nat.
Proof.
  intro H.
  do 32 (destruct s as [|? s]; [discriminate|]). destruct s; [|discriminate]. reflexivity.
Qed.

(* one character into the decoder *)
Lemma dec_char url v r q : v < 64 ->
  b64_dec url (b64_char url v :: r) q =
  match q with
  | [a; b; c2] =>
      let (rest, ok) := b64_dec url r [] in
      (a * 4 + b / 16 :: (b mod 16) * 16 + c2 / 4 :: (c2 mod 4) * 64 + v :: rest, ok)
  | _ => b64_dec url r (q ++ [v])
  end.
Proof.
  intro Hv. cbn [b64_dec]. rewrite (b64_char_not_crlf url v Hv), (b64_val_char url v Hv). reflexivity.
Qed.

Definition is_byte (b : N) : Prop := b < 256.

Theorem b64_dec_encode url : forall s, Forall is_byte s ->
  b64_dec url (b64_encode url s) [] = (s, true).
Proof.
  induction s as [|a|a b|a b c r IH] using list_ind3; intro Hs.
  - reflexivity.
  - inversion Hs as [|? ? Ha _]; subst. unfold is_byte in Ha. cbn [b64_encode].
    rewrite dec_char by darith. cbn [app]. rewrite dec_char by darith. cbn [app b64_dec].
    f_equal. f_equal. darith.
  - inversion Hs as [|? ? Ha Hs']; subst. inversion Hs' as [|? ? Hb _]; subst.
    unfold is_byte in *. cbn [b64_encode].
    rewrite dec_char by darith. cbn [app]. rewrite dec_char by darith. cbn [app].
    rewrite dec_char by darith. cbn [app b64_dec].
    f_equal. f_equal; [darith|]. f_equal. darith.
  - inversion Hs as [|? ? Ha Hs']; subst. inversion Hs' as [|? ? Hb Hs'']; subst.
    inversion Hs'' as [|? ? Hc Hr]; subst. unfold is_byte in *. cbn [b64_encode].
    rewrite dec_char by darith. cbn [app]. rewrite dec_char by darith. cbn [app].
    rewrite dec_char by darith. cbn [app]. rewrite dec_char by darith.
    rewrite (IH Hr). f_equal. f_equal; [darith|]. f_equal; [darith|]. f_equal. darith.
Qed.

Corollary b64_encode_injective url s s' :
  Forall is_byte s -> Forall is_byte s' -> b64_encode url s = b64_encode url s' -> s = s'.
Proof.
  intros Hs Hs' E. pose proof (b64_dec_encode url s Hs) as D. rewrite E, (b64_dec_encode url s' Hs') in D.
  inversion D. reflexivity.
Qed.

(* the standard alphabet has neither - nor _, so Base64Bytes.Decode picks the standard decoder *)
Lemma std_char_not_url_marker c : is_b64std_char c = true -> ((c =? 45) || (c =? 95)) = false.
Proof.
  unfold is_b64std_char, is_digit. intro H.
  destruct (N.eqb_spec c 45) as [->|]; [vm_compute in H; discriminate|].
  destruct (N.eqb_spec c 95) as [->|]; [vm_compute in H; discriminate|]. reflexivity.
Qed.

Lemma b64_std_not_url s : b64_is_url (b64_encode false s) = false.
Proof.
  unfold b64_is_url. pose proof (b64_encode_alphabet false s) as H. simpl in H.
  induction H as [|c l Hc _ IH]; [reflexivity|]. simpl. rewrite (std_char_not_url_marker c Hc). exact IH.
Qed.

Theorem b64_decode_any_encode s : Forall is_byte s -> b64_decode_any (b64_encode false s) = (s, true).
Proof. intro H. unfold b64_decode_any. rewrite b64_std_not_url. apply b64_dec_encode. exact H. Qed.
