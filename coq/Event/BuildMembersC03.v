(* Proofs for C03: lists of members, and the members of the struct Build marshals. *)
From Verif Require Import Lib.Bytes Json.Ast Json.Print Gen.GenVersions.
From Verif Require Import Event.Redact Event.RedactTables Event.RedactProofs.
From Verif Require Import Event.ModelC03 Event.B64FactsC03 Event.RedactFactsC03 Event.ProofsC03.
Open Scope N_scope.

(* ---------------------------------------------------------------- lists of members ---- *)
Definition keyis (k : bytes) (kv : bytes * json) : bool := negb (bytes_eqb k (fst kv)).

Lemma jdel_obj k m : jdel k (JObj m) = JObj (filter (keyis k) m).
Proof. reflexivity. Qed.
Lemma jset_obj k v m : jset k v (JObj m) = JObj (assoc_set k v m).
Proof. reflexivity. Qed.

Lemma filter_id_notin k (m : list (bytes * json)) : ~ In k (keys_of m) -> filter (keyis k) m = m.
Proof.
  induction m as [|[k' v'] m IH]; simpl; intro Hn; [reflexivity|].
  unfold keyis at 1. simpl. destruct (bytes_eqb k k') eqn:E.
  - apply bytes_eqb_eq in E. subst. tauto.
  - simpl. f_equal. apply IH. tauto.
Qed.

Lemma jdel_absent k m : assoc_first k m = None -> jdel k (JObj m) = JObj m.
Proof.
  intro Hn. rewrite jdel_obj. f_equal. apply filter_id_notin. intro Hin.
  apply in_keys_assoc in Hin. congruence.
Qed.

Lemma filter_assoc_set_rejected (p : bytes * json -> bool) k v : (forall x, p (k, x) = false) ->
  forall m, filter p (assoc_set k v m) = filter p m.
Proof.
  intros Hp. induction m as [|[k' v'] m IH]; simpl.
  - rewrite Hp. reflexivity.
  - destruct (bytes_eqb k k') eqn:E; simpl.
    + apply bytes_eqb_eq in E. subst k'. rewrite !Hp. reflexivity.
    + rewrite IH. reflexivity.
Qed.

Lemma filter_filter' {A} (p q : A -> bool) l : filter p (filter q l) = filter (fun x => q x && p x) l.
Proof.
  induction l as [|x l IH]; simpl; [reflexivity|].
  destruct (q x); simpl; [destruct (p x); simpl; rewrite IH; reflexivity|exact IH].
Qed.

Lemma jdel_jset_absent k v m : assoc_first k m = None -> jdel k (jset k v (JObj m)) = JObj m.
Proof.
  intro Hn. rewrite jset_obj, jdel_obj. f_equal.
  rewrite filter_assoc_set_rejected; [|intro x; unfold keyis; simpl; rewrite bytes_eqb_refl; reflexivity].
  apply filter_id_notin. intro Hin. apply in_keys_assoc in Hin. congruence.
Qed.

Lemma keys_assoc_set k (v : json) m : incl (keys_of (assoc_set k v m)) (k :: keys_of m).
Proof.
  induction m as [|[k' v'] m IH]; simpl.
  - intros x [E|[]]. left. exact E.
  - destruct (bytes_eqb k k') eqn:E; simpl.
    + apply bytes_eqb_eq in E. subst. intros x [Ex|Hx]; [left; exact Ex|right; right; exact Hx].
    + intros x [Ex|Hx]; [right; left; exact Ex|]. destruct (IH x Hx) as [E'|Hx']; [left; exact E'|right; right; exact Hx'].
Qed.

(* ---------------------------------------------------------------- what Build marshals ---- *)
Definition build_keys : list bytes :=
  [bs "sender"; bs "room_id"; bs "type"; bs "state_key"; bs "prev_events"; bs "auth_events"; bs "redacts";
   bs "depth"; bs "signatures"; bs "content"; bs "unsigned"; bs "event_id"; bs "origin_server_ts";
   bs "origin"; bs "prev_state"].

Lemma bm_lookup ver p eid ts origin :
  let m := build_members ver p eid ts origin in
  assoc_first (bs "sender") m = Some (JStr (p_sender p)) /\
  assoc_first (bs "type") m = Some (JStr (p_type p)) /\
  assoc_first (bs "room_id") m = match p_room p with [] => None | s => Some (JStr s) end /\
  assoc_first (bs "state_key") m = option_map JStr (p_skey p) /\
  assoc_first (bs "redacts") m = match p_redacts p with [] => None | s => Some (JStr s) end /\
  assoc_first (bs "depth") m = Some (jnum_of_Z (p_depth p)) /\
  assoc_first (bs "origin_server_ts") m = Some (jnum_of_Z ts) /\
  assoc_first (bs "content") m = Some (p_content p) /\
  assoc_first (bs "prev_events") m = Some (refs_json (event_format ver) (p_prev p)) /\
  assoc_first (bs "auth_events") m = Some (refs_json (event_format ver) (p_auth p)) /\
  assoc_first (bs "event_id") m =
    (if event_format ver =? 2 then None else Some (JStr (if id_format ver =? 1 then eid else []))) /\
  assoc_first (bs "unsigned") m = p_unsigned p /\
  assoc_first (bs "signatures") m = p_sigs p /\
  assoc_first (bs "hashes") m = None /\
  assoc_first (bs "origin") m = Some (JStr origin).
Proof.
  unfold build_members, k_signatures, k_unsigned.
  destruct (p_room p), (p_skey p), (p_redacts p), (p_sigs p), (p_unsigned p), (event_format ver =? 2);
    cbn; repeat split; reflexivity.
Qed.

Lemma bm_keys ver p eid ts origin : incl (keys_of (build_members ver p eid ts origin)) build_keys.
Proof.
  assert (Hb : forallb (fun k => mem_bytes k build_keys) (keys_of (build_members ver p eid ts origin)) = true).
  { unfold build_members, k_signatures, k_unsigned, keys_of.
    destruct (p_room p), (p_skey p), (p_redacts p), (p_sigs p), (p_unsigned p), (event_format ver =? 2);
      vm_compute; reflexivity. }
  intros x Hx. rewrite forallb_forall in Hb. apply mem_bytes_In. apply Hb. exact Hx.
Qed.

Definition all_keys : list bytes := k_signatures :: k_hashes :: build_keys.

Lemma absent_of_not_key (K : list bytes) k (m : list (bytes * json)) : incl (keys_of m) K ->
  forallb (fun s => negb (bytes_eqb k s)) K = true -> assoc_first k m = None.
Proof.
  intros Hi Hk. apply assoc_first_none. intro Hin. apply Hi in Hin.
  rewrite forallb_forall in Hk. specialize (Hk k Hin). rewrite bytes_eqb_refl in Hk. discriminate.
Qed.

