(* C03 -- model of EventBuilder.Build, of the three parse paths (untrusted / trusted / trusted with
   event ID = headered), of the PDU accessors and of the edits SetUnsigned, SetUnsignedField,
   Sign and Redact (event_builder.go, eventV1.go, eventV2.go, eventV3.go, eventcrypto.go,
   eventversion.go).  Model only, no proofs.

   Cryptography is a parameter: [H] is the hash (SHA-256 in the library) and [sgn] the signing
   function (ed25519 of the signing key named by server name and key ID).  The correspondence
   instantiates them with finite tables of (preimage, digest) / (message, signature) pairs that
   the harness took from the real library, so that a model preimage that is not byte-identical
   to what the library hashed shows up as a missing table entry.

   An event value is the parsed JSON of the bytes the library keeps in eventJSON.  Every
   operation of the library that is modelled here leaves eventJSON canonical, so the bytes
   are [canon_print] of the value.  Struct decoding (encoding/json into eventV1 / eventV2 /
   eventV3) is modelled for objects whose top-level keys are spelled exactly and occur once
   (what Build emits); the library's case-insensitive key matching, duplicate members and the
   two sticky keys are not represented.

   Redaction is builder C05's model Event.Redact.redact (driven by the generated tables). *)
From Verif Require Import Lib.Bytes Json.Ast Json.Parse Json.Print.
From Verif Require Import Gen.GenVersions Event.Redact.
Open Scope N_scope.

(* ---------------------------------------------------------------- base64 (unpadded) ---- *)
Definition b64_char (url : bool) (n : N) : N :=
  if n <? 26 then 65 + n
  else if n <? 52 then 71 + n
  else if n <? 62 then n - 4
  else if n =? 62 then (if url then 45 else 43)
  else (if url then 95 else 47).

Fixpoint b64_encode (url : bool) (s : bytes) : bytes :=
  match s with
  | a :: b :: c :: r =>
      b64_char url (a / 4) :: b64_char url ((a mod 4) * 16 + b / 16)
        :: b64_char url ((b mod 16) * 4 + c / 64) :: b64_char url (c mod 64) :: b64_encode url r
  | [a; b] => [b64_char url (a / 4); b64_char url ((a mod 4) * 16 + b / 16); b64_char url ((b mod 16) * 4)]
  | [a] => [b64_char url (a / 4); b64_char url ((a mod 4) * 16)]
  | [] => []
  end.

Definition b64_val (url : bool) (c : N) : option N :=
  if (65 <=? c) && (c <=? 90) then Some (c - 65)
  else if (97 <=? c) && (c <=? 122) then Some (c - 71)
  else if (48 <=? c) && (c <=? 57) then Some (c + 4)
  else if c =? (if url then 45 else 43) then Some 62
  else if c =? (if url then 95 else 47) then Some 63
  else None.

(* encoding/base64 Decode of a Raw (unpadded, non-strict) encoding: CR and LF are skipped, the
   first other byte outside the alphabet ends decoding with an error and nothing is kept of
   the quantum it is in; a final quantum of 2 / 3 characters gives 1 / 2 bytes, of 1 is an
   error.  Returns the bytes decoded so far (DecodeString returns them also with an error) and
   whether decoding succeeded.  q = values of the current quantum. *)
Fixpoint b64_dec (url : bool) (s : bytes) (q : list N) : bytes * bool :=
  match s with
  | [] =>
      match q with
      | [] => ([], true)
      | [a; b] => ([a * 4 + b / 16], true)
      | [a; b; c] => ([a * 4 + b / 16; (b mod 16) * 16 + c / 4], true)
      | _ => ([], false)
      end
  | c :: r =>
      if (c =? 10) || (c =? 13) then b64_dec url r q
      else match b64_val url c with
           | None => ([], false)
           | Some v =>
               match q with
               | [a; b; c2] =>
                   let (rest, ok) := b64_dec url r [] in
                   (a * 4 + b / 16 :: (b mod 16) * 16 + c2 / 4 :: (c2 mod 4) * 64 + v :: rest, ok)
               | _ => b64_dec url r (q ++ [v])
               end
           end
  end.

(* spec.Base64Bytes.Decode: URL-safe alphabet iff the text contains - or _ *)
Definition b64_is_url (s : bytes) : bool := existsb (fun c => (c =? 45) || (c =? 95)) s.
Definition b64_decode_any (s : bytes) : bytes * bool := b64_dec (b64_is_url s) s [].

(* ---------------------------------------------------------------- room versions ---- *)
Definition vfield (ver f : bytes) : option bytes :=
  match assoc_first ver gen_versions with
  | Some fs => assoc_first f fs
  | None => None
  end.

Definition known_version (ver : bytes) : bool :=
  match assoc_first ver gen_versions with Some _ => true | None => false end.

Definition vfield_is (ver f v : bytes) : bool :=
  match vfield ver f with Some x => bytes_eqb x v | None => false end.

(* 1 = references as [id, {sha256}] pairs, 2 = plain event IDs; 0 = unset *)
Definition event_format (ver : bytes) : N :=
  if vfield_is ver (bs "eventFormat") (bs "EventFormatV1") then 1
  else if vfield_is ver (bs "eventFormat") (bs "EventFormatV2") then 2 else 0.
(* 1 = random, 2 = standard base64 of the reference hash, 3 = URL-safe base64 *)
Definition id_format (ver : bytes) : N :=
  if vfield_is ver (bs "eventIDFormat") (bs "EventIDFormatV1") then 1
  else if vfield_is ver (bs "eventIDFormat") (bs "EventIDFormatV2") then 2
  else if vfield_is ver (bs "eventIDFormat") (bs "EventIDFormatV3") then 3 else 0.
Definition domainless (ver : bytes) : bool := vfield_is ver (bs "domainlessRoomID") (bs "true").
Definition enforces_canonical (ver : bytes) : bool :=
  vfield_is ver (bs "canonicalJSONCheck") (bs "verifyEnforcedCanonicalJSON").
Definition pseudo_ids_version : bytes := bs "org.matrix.msc4014".

(* struct class the wired parse function builds: 1 = eventV1, 2 = eventV2, 3 = eventV3 *)
Definition class_of_fn (prefix fn : bytes) : N :=
  if bytes_eqb fn (prefix ++ bs "V1") then 1
  else if bytes_eqb fn (prefix ++ bs "V2") then 2
  else if bytes_eqb fn (prefix ++ bs "V3") then 3 else 0.
Definition class_of (ver field prefix : bytes) : N :=
  match vfield ver field with Some fn => class_of_fn prefix fn | None => 0 end.
Definition class_untrusted (ver : bytes) : N :=
  class_of ver (bs "newEventFromUntrustedJSONFunc") (bs "newEventFromUntrustedJSON").
Definition class_trusted (ver : bytes) : N :=
  class_of ver (bs "newEventFromTrustedJSONFunc") (bs "newEventFromTrustedJSON").
Definition class_with_id (ver : bytes) : N :=
  class_of ver (bs "newEventFromTrustedJSONWithEventIDFunc") (bs "newEventFromTrustedJSONWithEventID").

(* ---------------------------------------------------------------- identifiers ---- *)
Definition has_colon (s : bytes) : bool := existsb (N.eqb 58) s.
Definition len (s : bytes) : N := N.of_nat (length s).
Definition max_id_length : N := 255.
Definition max_event_length : N := 65536.

(* checkID: a colon somewhere, the sigil first, at most 255 bytes (the rune-count limit is
   implied by the byte limit; only the verdict is modelled, not the Persistable flag) *)
Definition check_id (sigil : N) (id : bytes) : bool :=
  has_colon id && (match id with c :: _ => c =? sigil | [] => false end) && (len id <=? max_id_length).

(* utf8.RuneCountInString of a decoded (hence valid UTF-8) string: the non-continuation bytes *)
Definition rune_count (s : bytes) : N :=
  len (filter (fun c => negb ((128 <=? c) && (c <=? 191))) s).
(* the room-ID form of checkID in the parsers (notOnlyTooManyBytes): more than 255 bytes is not
   refused there as long as the code points stay within 255 - CheckFields reports it *)
Definition check_id_parse (sigil : N) (id : bytes) : bool :=
  has_colon id && (match id with c :: _ => c =? sigil | [] => false end) && (rune_count id <=? max_id_length).

Definition is_dns_char (c : N) : bool :=
  ((65 <=? c) && (c <=? 90)) || ((97 <=? c) && (c <=? 122)) || is_digit c || (c =? 45) || (c =? 46).

(* strings.LastIndex: split at the last colon *)
Fixpoint split_last_colon (s : bytes) : option (bytes * bytes) :=
  match s with
  | [] => None
  | c :: r =>
      match split_last_colon r with
      | Some (a, b) => Some (c :: a, b)
      | None => if c =? 58 then Some ([], r) else None
      end
  end.

(* strconv.ParseUint(s, 10, 16) succeeds *)
Definition is_port (s : bytes) : bool :=
  match s with
  | [] => false
  | _ => all_digits s && match parse_dec s with Some n => n <=? 65535 | None => false end
  end.

(* spec.ParseAndValidateServerName for DNS names and IPv4 addresses with an optional port.
   Bracketed IPv6 literals are NOT modelled (answered false; the generators avoid them). *)
Definition valid_server_name (s : bytes) : bool :=
  let host := match split_last_colon s with
              | Some (h, p) => if is_port p then h else s
              | None => s
              end in
  match host with
  | [] => false
  | c :: _ => if c =? 91 then false else forallb is_dns_char host
  end.

Definition is_b64url_char (c : N) : bool :=
  ((65 <=? c) && (c <=? 90)) || ((97 <=? c) && (c <=? 122)) || is_digit c || (c =? 45) || (c =? 95).

(* spec.NewRoomID *)
Definition room_id_valid (id : bytes) : bool :=
  (4 <=? len id) &&
  match id with
  | c :: r =>
      (c =? 33) &&
      match split_at 58 r with
      | Some (opaque, domain) => valid_server_name domain && negb (len opaque =? 0)
      | None => (len r =? 43) && forallb is_b64url_char r
      end
  | [] => false
  end.

(* ---------------------------------------------------------------- numbers ---- *)
Definition safe_int : Z := 9007199254740991%Z.
(* verifyEnforcedCanonicalJSON on one number literal (integer literals; any other literal is
   answered as refused, the generators do not produce them) *)
Definition number_refused (raw : bytes) : bool :=
  match num_int raw with
  | Some z => (Z.ltb z (Z.opp safe_int)) || (Z.ltb safe_int z) || bytes_eqb raw [45; 48]
  | None => true
  end.

Fixpoint has_refused_number (j : json) : bool :=
  match j with
  | JNum raw => number_refused raw
  | JArr l => existsb has_refused_number l
  | JObj m => (fix go (m : list (bytes * json)) : bool :=
                 match m with [] => false | (_, v) :: m' => has_refused_number v || go m' end) m
  | _ => false
  end.

Definition canonical_check_ok (ver : bytes) (j : json) : bool :=
  if enforces_canonical ver then negb (has_refused_number j) else true.

(* ---------------------------------------------------------------- field decoding ---- *)
(* encoding/json into a Go string: absent or null leaves the zero value, another type fails *)
Definition dec_str (k : bytes) (j : json) : option bytes :=
  match jget k j with
  | None | Some JNull => Some []
  | Some (JStr s) => Some s
  | Some _ => None
  end.
Definition dec_optstr (k : bytes) (j : json) : option (option bytes) :=
  match jget k j with
  | None | Some JNull => Some None
  | Some (JStr s) => Some (Some s)
  | Some _ => None
  end.
Definition int64_ok (z : Z) : bool := (Z.leb (-9223372036854775808) z) && (Z.leb z 9223372036854775807).
Definition uint64_ok (z : Z) : bool := (Z.leb 0 z) && (Z.leb z 18446744073709551615).
Definition dec_int (signed : bool) (k : bytes) (j : json) : option Z :=
  match jget k j with
  | None | Some JNull => Some 0%Z
  | Some (JNum raw) =>
      match num_int raw with
      | Some z => if signed then (if int64_ok z then Some z else None)
                  else (if uint64_ok z && negb (is_prefix [45] raw) then Some z else None)
      | None => None
      end
  | Some _ => None
  end.

(* one element of a []string *)
Definition dec_id_plain (j : json) : option bytes :=
  match j with JStr s => Some s | JNull => Some [] | _ => None end.
(* eventReference.UnmarshalJSON: [id, {sha256: base64}] *)
Definition dec_id_ref (j : json) : option bytes :=
  match j with
  | JArr [i; h] =>
      match h with
      | JObj _ | JNull =>
          match jget (bs "sha256") h with
          | Some (JStr s) => if snd (b64_decode_any s) then dec_id_plain i else None
          | Some JNull | None => dec_id_plain i
          | Some _ => None
          end
      | _ => None
      end
  | _ => None
  end.

Fixpoint dec_all {A} (f : json -> option A) (l : list json) : option (list A) :=
  match l with
  | [] => Some []
  | x :: l' => match f x, dec_all f l' with Some a, Some r => Some (a :: r) | _, _ => None end
  end.

(* a reference list: outer None = decode error, inner None = nil slice *)
Definition dec_ids (class : N) (k : bytes) (j : json) : option (option (list bytes)) :=
  match jget k j with
  | None | Some JNull => Some None
  | Some (JArr l) =>
      match dec_all (if class =? 1 then dec_id_ref else dec_id_plain) l with
      | Some ids => Some (Some ids)
      | None => None
      end
  | Some _ => None
  end.

Definition is_some {A} (o : option A) : bool := match o with Some _ => true | None => false end.

(* json.Unmarshal into the struct succeeds *)
Definition decodes (class : N) (j : json) : bool :=
  match j with
  | JObj _ =>
      is_some (dec_str (bs "room_id") j) && is_some (dec_str (bs "sender") j)
      && is_some (dec_str (bs "type") j) && is_some (dec_optstr (bs "state_key") j)
      && is_some (dec_str (bs "redacts") j) && is_some (dec_int true (bs "depth") j)
      && is_some (dec_int false (bs "origin_server_ts") j) && is_some (dec_str (bs "event_id") j)
      && is_some (dec_ids class (bs "prev_events") j) && is_some (dec_ids class (bs "auth_events") j)
  | _ => false
  end.

Definition or_empty (o : option bytes) : bytes := match o with Some s => s | None => [] end.

(* ---------------------------------------------------------------- events ---- *)
Record ev := mkEv {
  e_ver : bytes;
  e_class : N;          (* 1 eventV1, 2 eventV2, 3 eventV3 *)
  e_json : json;        (* eventJSON, parsed *)
  e_redacted : bool;
  e_idraw : bytes }.    (* EventIDRaw: the event_id of the JSON, a supplied ID, or the cache *)

Definition f_room (e : ev) : bytes := or_empty (dec_str (bs "room_id") (e_json e)).
Definition f_sender (e : ev) : bytes := or_empty (dec_str (bs "sender") (e_json e)).
Definition f_type (e : ev) : bytes := or_empty (dec_str (bs "type") (e_json e)).
Definition f_skey (e : ev) : option bytes :=
  match dec_optstr (bs "state_key") (e_json e) with Some o => o | None => None end.
Definition f_redacts (e : ev) : bytes := or_empty (dec_str (bs "redacts") (e_json e)).
Definition f_depth (e : ev) : Z := match dec_int true (bs "depth") (e_json e) with Some z => z | None => 0%Z end.
Definition f_ts (e : ev) : Z := match dec_int false (bs "origin_server_ts") (e_json e) with Some z => z | None => 0%Z end.
Definition f_content (e : ev) : option json := jget (bs "content") (e_json e).
Definition f_unsigned (e : ev) : option json := jget (bs "unsigned") (e_json e).
Definition f_prev_raw (e : ev) : option (list bytes) :=
  match dec_ids (e_class e) (bs "prev_events") (e_json e) with Some o => o | None => None end.
Definition f_auth_raw (e : ev) : option (list bytes) :=
  match dec_ids (e_class e) (bs "auth_events") (e_json e) with Some o => o | None => None end.

Definition create_type : bytes := bs "m.room.create".
Definition is_create (e : ev) : bool :=
  bytes_eqb (f_type e) create_type && match f_skey e with Some [] => true | _ => false end.

(* ---------------------------------------------------------------- redaction as used here ---- *)
(* redactEventJSON decodes the content into map[string]interface{}: a number literal that does
   not fit a float64 makes it fail (C05's model keeps literals and does not represent that).
   encoding/json refuses a literal whose value rounds to infinity: |v| >= 2^1024 - 2^970. *)
Definition f64_limit : Z := (2 ^ 1024 - 2 ^ 970)%Z.

Definition lit_overflows (raw : bytes) : bool :=
  let s := match raw with c :: r => if c =? 45 then r else raw | [] => [] end in
  let (ip, r1) := take_digits s in
  let (fp, r2) := match r1 with
                  | c :: r => if c =? 46 then take_digits r else ([], r1)
                  | [] => ([], [])
                  end in
  let ex : Z := match r2 with
                | c :: r => if (c =? 101) || (c =? 69) then match parse_int r with Some z => z | None => 0%Z end else 0%Z
                | [] => 0%Z
                end in
  let m : Z := match parse_dec (ip ++ fp) with Some n => Z.of_N n | None => 0%Z end in
  let sc : Z := (ex - Z.of_nat (length fp))%Z in
  if Z.eqb m 0 then false
  else if Z.ltb 400 sc then true
  else if Z.leb 0 sc then Z.leb f64_limit (m * 10 ^ sc)
  else if Z.ltb (Z.of_nat (length (ip ++ fp))) (- sc) then false
  else Z.leb (f64_limit * 10 ^ (- sc)) m.

Fixpoint has_overflowing_number (j : json) : bool :=
  match j with
  | JNum raw => lit_overflows raw
  | JArr l => existsb has_overflowing_number l
  | JObj m => (fix go (m : list (bytes * json)) : bool :=
                 match m with [] => false | (_, v) :: m' => has_overflowing_number v || go m' end) m
  | _ => false
  end.

Definition content_overflows (j : json) : bool :=
  match jget (bs "content") j with Some c => has_overflowing_number c | None => false end.

(* RedactEventJSON succeeds (used where the library checks that: the untrusted parse functions
   after their repair, and Build through signEvent) *)
Definition redactable (ver : bytes) (j : json) : bool :=
  negb (content_overflows j) && is_some (redact ver j).

Section Crypto.
  Variable H : bytes -> bytes.
  Variable sgn : bytes -> bytes -> bytes -> bytes.   (* server name, key ID, message *)

  (* ---------- hashes and references (eventcrypto.go) ---------- *)
  Definition k_signatures := bs "signatures".
  Definition k_unsigned := bs "unsigned".
  Definition k_hashes := bs "hashes".

  (* what addContentHashesToEvent / checkEventContentHash hash *)
  Definition content_hash_json (j : json) : json := jdel k_hashes (jdel k_unsigned (jdel k_signatures j)).
  Definition content_hash_pre (j : json) : bytes := canon_print (content_hash_json j).
  Definition hashes_value (j : json) : json :=
    JObj [(bs "sha256", JStr (b64_encode false (H (content_hash_pre j))))].
  Definition add_hashes (j : json) : json := jset k_hashes (hashes_value j) j.

  Definition content_hash_ok (j : json) : bool :=
    let str := match jpath [k_hashes; bs "sha256"] j with Some (JStr s) => s | _ => [] end in
    let (d, ok) := b64_decode_any str in
    ok && bytes_eqb d (H (content_hash_pre j)).

  (* what referenceOfEvent hashes (and what signEvent signs) *)
  Definition reference_pre (ver : bytes) (j : json) : option bytes :=
    option_map canon_print (reference_json ver j).

  Definition sigil_dollar : N := 36.
  (* referenceOfEvent(...).EventID *)
  Definition reference_id (ver : bytes) (j : json) : option bytes :=
    match reference_pre ver j with
    | None => None
    | Some pre =>
        if event_format ver =? 1 then
          match jget (bs "event_id") (jdel k_unsigned (jdel k_signatures
                   match redact ver j with Some r => r | None => JNull end)) with
          | Some (JStr s) => Some s
          | _ => None
          end
        else if event_format ver =? 2 then
          if id_format ver =? 2 then Some (sigil_dollar :: b64_encode false (H pre))
          else if id_format ver =? 3 then Some (sigil_dollar :: b64_encode true (H pre))
          else None
        else None
    end.

  (* signEvent: sign the redacted event, merge the new signature into the existing ones *)
  Definition sign_json (ver name keyid : bytes) (j : json) : option json :=
    match reference_pre ver j with
    | None => None
    | Some msg =>
        let old := match jget k_signatures j with Some (JObj m) => m | _ => [] end in
        let inner := match assoc_first name old with Some (JObj i) => i | _ => [] end in
        let s := JStr (b64_encode false (sgn name keyid msg)) in
        Some (jset k_signatures (JObj (assoc_set name (JObj (assoc_set keyid s inner)) old)) j)
    end.

  (* ---------- accessors ---------- *)
  Definition PANIC : bytes := bs "PANIC".

  (* EventID(): eventV1 returns EventIDRaw; eventV2/V3 the cached value or the reference ID *)
  Definition event_id (e : ev) : bytes :=
    if e_class e =? 1 then e_idraw e
    else match e_idraw e with
         | [] => match reference_id (e_ver e) (e_json e) with Some i => i | None => PANIC end
         | i => i
         end.

  (* RoomID().String(), or PANIC *)
  Definition room_id (e : ev) : bytes :=
    let s := if (e_class e =? 3) && is_create e then 33 :: tl (event_id e) else f_room e in
    if room_id_valid s then s else PANIC.

  Definition prev_ids (e : ev) : option (list bytes) :=
    if e_class e =? 1 then Some (match f_prev_raw e with Some l => l | None => [] end)
    else f_prev_raw e.

  Definition auth_ids (e : ev) : option (list bytes) :=
    if e_class e =? 1 then Some (match f_auth_raw e with Some l => l | None => [] end)
    else if e_class e =? 3 then
      if is_create e then Some []
      else Some ((sigil_dollar :: tl (f_room e)) :: match f_auth_raw e with Some l => l | None => [] end)
    else f_auth_raw e.

  (* CheckFields (verdict only) *)
  Definition check_fields (e : ev) : bool :=
    is_some (auth_ids e) && is_some (prev_ids e)
    && (len (canon_print (e_json e)) <=? max_event_length)
    && (len (f_type e) <=? max_id_length)
    && match f_skey e with Some k => len k <=? max_id_length | None => true end
    && (if bytes_eqb (e_ver e) pseudo_ids_version then len (f_sender e) <=? max_id_length
        else check_id 64 (f_sender e))
    (* the byte size of RoomID(), which for the create event of an eventV3 is derived (44 bytes) *)
    && (((e_class e =? 3) && is_create e) || (len (f_room e) <=? max_id_length)).

  (* ---------- parse paths ---------- *)
  Inductive presult := PErr | POk (e : ev) (fields_ok : bool).

  (* the room-ID test of the parse functions (after the F9 repair they also call spec.NewRoomID
     on a non-empty room ID) *)
  Definition room_check (class : N) (j : json) : bool :=
    let room := or_empty (dec_str (bs "room_id") j) in
    let create := bytes_eqb (or_empty (dec_str (bs "type") j)) create_type
                  && match dec_optstr (bs "state_key") j with Some (Some []) => true | _ => false end in
    if class =? 3 then
      if create then true
      else is_prefix [33] room && room_id_valid room && (rune_count room <=? max_id_length)
    else check_id_parse 33 room && room_id_valid room.

  (* EventIDRaw after decoding: the event_id member in event format 1; in the hash-derived
     formats the parsers and Redact() clear it (repair of F65), the JSON is never believed *)
  Definition json_event_id (class : N) (j : json) : bytes :=
    if class =? 1 then or_empty (dec_str (bs "event_id") j) else [].

  Definition mk_parsed (ver : bytes) (class : N) (j : json) (redacted : bool) (id : option bytes) : ev :=
    mkEv ver class j redacted
         (match id with Some i => i | None => json_event_id class j end).

  (* newEventFromTrustedJSONV*, newEventFromTrustedJSONWithEventIDV* *)
  Definition parse_trusted_as (class : N) (ver : bytes) (j : json) (redacted : bool) (id : option bytes)
    : option ev :=
    if (class =? 0) || negb (decodes class j) || negb (room_check class j) then None
    else Some (mk_parsed ver class j redacted id).

  Definition parse_trusted (ver : bytes) (j : json) (redacted : bool) : option ev :=
    parse_trusted_as (class_trusted ver) ver j redacted None.
  Definition parse_trusted_with_id (ver id : bytes) (j : json) (redacted : bool) : option ev :=
    parse_trusted_as (class_with_id ver) ver j redacted (Some id).

  Definition strip_keys (class : N) : list bytes :=
    [bs "outlier"; bs "destinations"; bs "age_ts"; bs "unsigned"]
      ++ (if class =? 1 then [] else [bs "event_id"]).

  Definition has_underscore_key (j : json) : bool :=
    existsb (fun k => is_prefix [95] k) (jkeys j).

  (* newEventFromUntrustedJSONV* *)
  Definition parse_untrusted (ver : bytes) (j : json) : presult :=
    let class := class_untrusted ver in
    if (class =? 0) || has_underscore_key j || negb (canonical_check_ok ver j) then PErr
    else
      let j1 := fold_left (fun acc k => jdel k acc) (strip_keys class) j in
      if negb (decodes class j1) || negb (room_check class j1) || negb (redactable ver j1) then PErr
      else if content_hash_ok j1 then
        let e := mk_parsed ver class j1 false None in POk e (check_fields e)
      else
        match redact ver j1 with
        | None => PErr
        | Some r =>
            if bytes_eqb (canon_print r) (canon_print j1) then
              let e := mk_parsed ver class j1 true None in POk e (check_fields e)
            else match parse_trusted ver r true with
                 | Some e => POk e (check_fields e)
                 | None => PErr
                 end
        end.

  (* ToHeaderedJSON / NewEventFromHeaderedJSON *)
  Definition to_headered (e : ev) : json :=
    jset (bs "_event_id") (JStr (event_id e)) (jset (bs "_room_version") (JStr (e_ver e)) (e_json e)).

  Definition parse_headered (j : json) (redacted : bool) : option ev :=
    let id := match jget (bs "_event_id") j with Some (JStr s) => s | _ => [] end in
    let ver := match jget (bs "_room_version") j with Some (JStr s) => s | _ => [] end in
    if known_version ver then
      parse_trusted_with_id ver id (jdel (bs "_room_version") (jdel (bs "_event_id") j)) redacted
    else None.

  (* ---------- Build ---------- *)
  Inductive idlist := IdsNil | IdsTypedNil | Ids (l : list bytes).

  Record proto := mkProto {
    p_sender : bytes; p_room : bytes; p_type : bytes; p_skey : option bytes;
    p_prev : idlist; p_auth : idlist; p_redacts : bytes; p_depth : Z;
    p_sigs : option json; p_content : json; p_unsigned : option json }.

  (* eventHashFromEventID: whatever decodes of the ID without its sigil *)
  Definition ref_v1 (id : bytes) : json :=
    JArr [JStr id; JObj [(bs "sha256", JStr (b64_encode false (fst (b64_decode_any (tl id)))))]].

  Definition refs_json (fmt : N) (l : idlist) : json :=
    if fmt =? 1 then match l with Ids l => JArr (map ref_v1 l) | _ => JArr [] end
    else match l with Ids l => JArr (map JStr l) | IdsNil => JArr [] | IdsTypedNil => JNull end.

  Definition opt_member (k : bytes) (v : option json) : list (bytes * json) :=
    match v with Some j => [(k, j)] | None => [] end.
  Definition str_member_omitempty (k s : bytes) : list (bytes * json) :=
    match s with [] => [] | _ => [(k, JStr s)] end.

  (* the struct Build marshals; eid = the freshly drawn "$random:origin" *)
  Definition build_members (ver : bytes) (p : proto) (eid : bytes) (ts : Z) (origin : bytes)
    : list (bytes * json) :=
    let fmt := event_format ver in
    [(bs "sender", JStr (p_sender p))]
      ++ str_member_omitempty (bs "room_id") (p_room p)
      ++ [(bs "type", JStr (p_type p))]
      ++ opt_member (bs "state_key") (option_map JStr (p_skey p))
      ++ [(bs "prev_events", refs_json fmt (p_prev p)); (bs "auth_events", refs_json fmt (p_auth p))]
      ++ str_member_omitempty (bs "redacts") (p_redacts p)
      ++ [(bs "depth", jnum_of_Z (p_depth p))]
      ++ opt_member k_signatures (p_sigs p)
      ++ [(bs "content", p_content p)]
      ++ opt_member k_unsigned (p_unsigned p)
      ++ (if fmt =? 2 then [] else [(bs "event_id", JStr (if id_format ver =? 1 then eid else []))])
      ++ [(bs "origin_server_ts", jnum_of_Z ts); (bs "origin", JStr origin)]
      ++ (match p_skey p with Some _ => [(bs "prev_state", JArr [])] | None => [] end).

  Inductive bresult := BErr | BOk (e : ev) (fields_ok : bool).

  Definition build_json (ver : bytes) (p : proto) (eid : bytes) (ts : Z) (origin keyid : bytes)
    : option json :=
    sign_json ver origin keyid (add_hashes (JObj (build_members ver p eid ts origin))).

  Definition build (ver : bytes) (p : proto) (eid : bytes) (ts : Z) (origin keyid : bytes) : bresult :=
    if negb (known_version ver) then BErr
    else if domainless ver && bytes_eqb (p_type p) create_type && is_some (p_skey p)
            && negb (len (p_room p) =? 0) then BErr
    else match build_json ver p eid ts origin keyid with
         | None => BErr
         | Some j =>
             if has_overflowing_number (p_content p) || negb (canonical_check_ok ver j) then BErr
             else match parse_trusted ver j false with
                  | Some e => BOk e (check_fields e)
                  | None => BErr
                  end
         end.

  (* ---------- edits ---------- *)
  (* SetUnsigned(u): a copy with the unsigned key replaced (refused when the version's
     canonical-JSON check refuses the result) *)
  Definition set_unsigned_raw (u : json) (e : ev) : ev :=
    mkEv (e_ver e) (e_class e) (jset k_unsigned u (e_json e)) (e_redacted e) (e_idraw e).
  Definition set_unsigned (u : json) (e : ev) : option ev :=
    if canonical_check_ok (e_ver e) (jset k_unsigned u (e_json e)) then Some (set_unsigned_raw u e) else None.

  (* SetUnsignedField(key, v) for a plain key *)
  Definition set_unsigned_field (k : bytes) (v : json) (e : ev) : ev :=
    let u := match jget k_unsigned (e_json e) with
             | Some (JObj m) => JObj (assoc_set k v m)
             | _ => JObj [(k, v)]
             end in
    mkEv (e_ver e) (e_class e) (jset k_unsigned u (e_json e)) (e_redacted e) (e_idraw e).

  (* Sign(name, keyID, key) *)
  Definition sign (name keyid : bytes) (e : ev) : option ev :=
    match sign_json (e_ver e) name keyid (e_json e) with
    | Some j => Some (mkEv (e_ver e) (e_class e) j (e_redacted e) (e_idraw e))
    | None => None
    end.

  (* Redact(): decodes the redacted JSON afresh, so the cached ID is dropped *)
  Definition redact_ev (e : ev) : option ev :=
    if e_redacted e then Some e
    else match redact (e_ver e) (e_json e) with
         | Some r => Some (mkEv (e_ver e) (e_class e) r true (json_event_id (e_class e) r))
         | None => None
         end.

  (* EventID() stores what it computed *)
  Definition cache_id (e : ev) : ev :=
    mkEv (e_ver e) (e_class e) (e_json e) (e_redacted e) (event_id e).
End Crypto.
