(* Proofs for C03, part 2: what Build produces, and that it re-parses (trusted, through the
   headered form, untrusted) to the same event.  Value level: the event JSON as a parsed value;
   the step through the printed bytes is parse_canon_print of C01 (see Props/C03.v). *)
From Coq Require Import Permutation.
From Verif Require Import Lib.Bytes Json.Ast Json.Print Json.Render Json.CanonFacts Gen.GenVersions.
From Verif Require Import Event.Redact Event.RedactTables Event.RedactProofs.
From Verif Require Import Event.ModelC03 Event.B64FactsC03 Event.RedactFactsC03 Event.ProofsC03 Event.BuildMembersC03.
Open Scope N_scope.

Section Build.
  Variable H : bytes -> bytes.
  Variable sgn : bytes -> bytes -> bytes -> bytes.

  Definition hash_bytes : Prop := forall x, Forall is_byte (H x).

  (* ---------- taking a successful Build apart ---------- *)
  Definition bm_of ver p eid ts origin := build_members ver p eid ts origin.
  Definition j0_of ver p eid ts origin : json := add_hashes H (JObj (bm_of ver p eid ts origin)).

  Lemma build_inv ver p eid ts origin keyid e :
    build H sgn ver p eid ts origin keyid = BOk e true ->
    known_version ver = true /\
    (domainless ver && bytes_eqb (p_type p) create_type && is_some (p_skey p) && negb (len (p_room p) =? 0)) = false /\
    has_overflowing_number (p_content p) = false /\
    exists j, sign_json sgn ver origin keyid (j0_of ver p eid ts origin) = Some j /\
              canonical_check_ok ver j = true /\ parse_trusted ver j false = Some e /\ check_fields e = true.
  Proof.
    unfold build, build_json, j0_of, bm_of.
    destruct (known_version ver); [|discriminate]. simpl negb. cbv iota.
    destruct (domainless ver && bytes_eqb (p_type p) create_type && is_some (p_skey p) && negb (len (p_room p) =? 0)); [discriminate|].
    destruct (sign_json sgn ver origin keyid _) as [j|] eqn:Es; [|discriminate].
    destruct (has_overflowing_number (p_content p)); [discriminate|].
    destruct (canonical_check_ok ver j) eqn:Ec; [|discriminate]. simpl.
    destruct (parse_trusted ver j false) as [e0|] eqn:Ep; [|discriminate].
    intro E. injection E as He Hf. subst e0.
    split; [reflexivity|]. split; [reflexivity|]. split; [reflexivity|].
    exists j. split; [reflexivity|]. split; [exact Ec|]. split; [exact Ep|exact Hf].
  Qed.

  Lemma parse_trusted_as_inv class ver j red id e :
    parse_trusted_as class ver j red id = Some e ->
    class <> 0 /\ decodes class j = true /\ room_check class j = true /\ e = mk_parsed ver class j red id.
  Proof.
    unfold parse_trusted_as.
    destruct (class =? 0) eqn:E0; [discriminate|]. destruct (decodes class j); [|discriminate].
    destruct (room_check class j); [|discriminate]. simpl. intro E. inversion E.
    apply N.eqb_neq in E0. repeat split; auto.
  Qed.

  Lemma parse_trusted_as_intro class ver j red id :
    class <> 0 -> decodes class j = true -> room_check class j = true ->
    parse_trusted_as class ver j red id = Some (mk_parsed ver class j red id).
  Proof.
    intros H0 Hd Hr. unfold parse_trusted_as. apply N.eqb_neq in H0. rewrite H0, Hd, Hr. reflexivity.
  Qed.

  (* the JSON of a built event *)
  Record built (ver : bytes) (p : proto) (eid : bytes) (ts : Z) (origin : bytes) (e : ev) : Prop := {
    b_known : known_version ver = true;
    b_ver : e_ver e = ver;
    b_class : e_class e = class_trusted ver;
    b_red : e_redacted e = false;
    b_members : exists s, e_json e = jset k_signatures s (j0_of ver p eid ts origin);
    b_idraw : e_idraw e = json_event_id (class_trusted ver) (e_json e);
    b_decodes : decodes (class_trusted ver) (e_json e) = true;
    b_room : room_check (class_trusted ver) (e_json e) = true;
    b_canon : canonical_check_ok ver (e_json e) = true;
    b_noover : has_overflowing_number (p_content p) = false;
    b_pre : exists pre, reference_pre ver (j0_of ver p eid ts origin) = Some pre;
    b_check : check_fields e = true }.

  Lemma build_built ver p eid ts origin keyid e :
    build H sgn ver p eid ts origin keyid = BOk e true -> built ver p eid ts origin e.
  Proof.
    intro Hb. destruct (build_inv _ _ _ _ _ _ _ Hb) as (Hk & _ & Hno & j & Hs & Hc & Hp & Hf).
    destruct (parse_trusted_as_inv _ _ _ _ _ _ Hp) as (Hc0 & Hd & Hr & ->).
    destruct (sign_json_shape sgn _ _ _ _ _ Hs) as [s Ej].
    constructor; simpl; auto.
    - exists s. exact Ej.
    - unfold sign_json in Hs. destruct (reference_pre ver (j0_of ver p eid ts origin)) as [pre|]; [|discriminate].
      exists pre. reflexivity.
  Qed.

  (* members of the built JSON *)
  Lemma built_obj ver p eid ts origin s :
    jset k_signatures s (j0_of ver p eid ts origin) =
    JObj (assoc_set k_signatures s (assoc_set k_hashes (hashes_value H (JObj (bm_of ver p eid ts origin))) (bm_of ver p eid ts origin))).
  Proof. reflexivity. Qed.

  Lemma built_get ver p eid ts origin s k :
    k <> k_signatures -> k <> k_hashes ->
    jget k (jset k_signatures s (j0_of ver p eid ts origin)) = assoc_first k (bm_of ver p eid ts origin).
  Proof.
    intros H1 H2. rewrite jget_jset_other by exact H1. unfold j0_of, add_hashes.
    rewrite jget_jset_other by exact H2. reflexivity.
  Qed.

  Lemma built_keys' ver p eid ts origin s hv :
    incl (keys_of (assoc_set k_signatures s (assoc_set k_hashes hv (bm_of ver p eid ts origin)))) all_keys.
  Proof.
    intros x Hx. apply keys_assoc_set in Hx. destruct Hx as [Hx|Hx]; [left; exact Hx|].
    apply keys_assoc_set in Hx. destruct Hx as [Hx|Hx]; [right; left; exact Hx|].
    right; right. apply (bm_keys ver p eid ts origin). exact Hx.
  Qed.

  Lemma built_absent ver p eid ts origin s k :
    forallb (fun x => negb (bytes_eqb k x)) all_keys = true ->
    exists m, jset k_signatures s (j0_of ver p eid ts origin) = JObj m /\ assoc_first k m = None.
  Proof.
    intro Hk. rewrite built_obj. eexists. split; [reflexivity|].
    eapply absent_of_not_key; [|exact Hk]. apply built_keys'.
  Qed.

  (* ---------- objects that agree on the members the struct reads ---------- *)
  Lemma decodes_same_struct c j j' :
    (exists m, j = JObj m) -> (exists m', j' = JObj m') -> same_struct j j' -> decodes c j = decodes c j'.
  Proof.
    intros [m ->] [m' ->] S. unfold decodes.
    rewrite (dec_str_ext (bs "room_id") _ _ (S (bs "room_id") ltac:(sk))).
    rewrite (dec_str_ext (bs "sender") _ _ (S (bs "sender") ltac:(sk))).
    rewrite (dec_str_ext (bs "type") _ _ (S (bs "type") ltac:(sk))).
    rewrite (dec_optstr_ext (bs "state_key") _ _ (S (bs "state_key") ltac:(sk))).
    rewrite (dec_str_ext (bs "redacts") _ _ (S (bs "redacts") ltac:(sk))).
    rewrite (dec_int_ext true (bs "depth") _ _ (S (bs "depth") ltac:(sk))).
    rewrite (dec_int_ext false (bs "origin_server_ts") _ _ (S (bs "origin_server_ts") ltac:(sk))).
    rewrite (dec_str_ext (bs "event_id") _ _ (S (bs "event_id") ltac:(sk))).
    rewrite (dec_ids_ext c (bs "prev_events") _ _ (S (bs "prev_events") ltac:(sk))).
    rewrite (dec_ids_ext c (bs "auth_events") _ _ (S (bs "auth_events") ltac:(sk))).
    reflexivity.
  Qed.

  Lemma room_check_same_struct c j j' : same_struct j j' -> room_check c j = room_check c j'.
  Proof.
    intro S. unfold room_check.
    rewrite (dec_str_ext (bs "room_id") _ _ (S (bs "room_id") ltac:(sk))).
    rewrite (dec_str_ext (bs "type") _ _ (S (bs "type") ltac:(sk))).
    rewrite (dec_optstr_ext (bs "state_key") _ _ (S (bs "state_key") ltac:(sk))).
    reflexivity.
  Qed.

  (* two events over the same version and class whose JSONs agree on the struct members and on
     the reference ID have the same accessors *)
  Definition same_fields (e e' : ev) : Prop :=
    event_id H e' = event_id H e /\ f_type e' = f_type e /\ f_sender e' = f_sender e /\
    room_id H e' = room_id H e /\ f_skey e' = f_skey e /\ f_content e' = f_content e /\
    f_depth e' = f_depth e /\ f_ts e' = f_ts e /\ prev_ids e' = prev_ids e /\ auth_ids e' = auth_ids e /\
    f_redacts e' = f_redacts e.

  Lemma same_fields_with_json e j :
    same_struct j (e_json e) -> reference_id H (e_ver e) j = reference_id H (e_ver e) (e_json e) ->
    same_fields e (with_json e j).
  Proof.
    intros S R.
    destruct (accessors_same_struct e j S) as (A1 & A2 & A3 & A4 & A5 & A6 & A7 & A8 & A9 & A10).
    destruct (derived_same_struct H e j S R) as (_ & D2 & D3 & D4).
    unfold same_fields. rewrite (event_id_with_json H e j R). repeat split; auto.
  Qed.

  (* ---------- trusted re-parse ---------- *)
  Theorem reparse_trusted ver p eid ts origin keyid e :
    build H sgn ver p eid ts origin keyid = BOk e true ->
    parse_trusted ver (e_json e) false = Some e.
  Proof.
    intro Hb. destruct (build_inv _ _ _ _ _ _ _ Hb) as (_ & _ & _ & j & _ & _ & Hp & _).
    destruct (parse_trusted_as_inv _ _ _ _ _ _ Hp) as (_ & _ & _ & E). subst e. exact Hp.
  Qed.


  (* ---------- the version table ---------- *)
  Lemma shape_facts ver : known_version ver = true ->
    class_untrusted ver = class_trusted ver /\ class_with_id ver = class_trusted ver /\
    class_trusted ver <> 0 /\
    (class_trusted ver = 1 -> event_format ver = 1 /\ id_format ver = 1) /\
    (class_trusted ver <> 1 -> event_format ver = 2 /\ (id_format ver = 2 \/ id_format ver = 3)) /\
    (domainless ver = true -> class_trusted ver = 3 /\ id_format ver = 3) /\
    (domainless ver = false -> class_trusted ver <> 3).
  Proof.
    intro Hk. pose proof (version_shape ver Hk) as S. unfold version_shape_ok in S.
    apply andb_true_iff in S as [S E5]. apply andb_true_iff in S as [S E4].
    apply andb_true_iff in S as [S E3]. apply andb_true_iff in S as [E1 E2].
    apply N.eqb_eq in E1. apply N.eqb_eq in E2. apply negb_true_iff, N.eqb_neq in E3.
    split; [exact E1|]. split; [exact E2|]. split; [exact E3|].
    split; [|split; [|split]].
    - intro E. rewrite E in E4. simpl in E4. apply andb_true_iff in E4 as [A B].
      apply N.eqb_eq in A. apply N.eqb_eq in B. auto.
    - intro E. apply N.eqb_neq in E. rewrite E in E4. apply andb_true_iff in E4 as [A B].
      apply N.eqb_eq in A. split; [exact A|]. apply orb_true_iff in B as [B|B]; apply N.eqb_eq in B; auto.
    - intro E. rewrite E in E5. apply andb_true_iff in E5 as [A B]. apply N.eqb_eq in A. apply N.eqb_eq in B. auto.
    - intro E. rewrite E in E5. apply negb_true_iff, N.eqb_neq in E5. exact E5.
  Qed.

  Lemma ev_eta e : e = mkEv (e_ver e) (e_class e) (e_json e) (e_redacted e) (e_idraw e).
  Proof. destruct e; reflexivity. Qed.

  (* ---------- headered form ---------- *)
  Definition k_hev : bytes := bs "_event_id".
  Definition k_hrv : bytes := bs "_room_version".

  Theorem reparse_headered ver p eid ts origin keyid e :
    build H sgn ver p eid ts origin keyid = BOk e true ->
    parse_headered (to_headered H e) false = Some (cache_id H e).
  Proof.
    intro Hb. pose proof (build_built _ _ _ _ _ _ _ Hb) as B.
    destruct (b_members _ _ _ _ _ _ B) as [s Ej]. rewrite built_obj in Ej.
    set (M := assoc_set k_signatures s _) in Ej.
    assert (Hev : assoc_first k_hev M = None).
    { eapply absent_of_not_key; [apply built_keys'|]. vm_compute. reflexivity. }
    assert (Hrv : assoc_first k_hrv M = None).
    { eapply absent_of_not_key; [apply built_keys'|]. vm_compute. reflexivity. }
    destruct (shape_facts ver (b_known _ _ _ _ _ _ B)) as (_ & Hwi & Hc0 & _).
    unfold parse_headered, to_headered. fold k_hev k_hrv. rewrite Ej, (b_ver _ _ _ _ _ _ B).
    rewrite (jset_obj k_hrv). rewrite jget_jset_same.
    rewrite jget_jset_other by (intro E; discriminate E).
    rewrite <- (jset_obj k_hrv). rewrite jget_jset_same.
    rewrite (b_known _ _ _ _ _ _ B).
    rewrite (jset_obj k_hrv). rewrite jdel_jset_absent.
    2:{ rewrite assoc_first_set. change (bytes_eqb k_hev k_hrv) with false. exact Hev. }
    rewrite <- (jset_obj k_hrv). rewrite (jdel_jset_absent k_hrv _ M Hrv).
    unfold parse_trusted_with_id. rewrite Hwi.
    rewrite parse_trusted_as_intro; [|exact Hc0| |].
    - f_equal. unfold mk_parsed, cache_id. rewrite <- Ej, (b_class _ _ _ _ _ _ B), (b_ver _ _ _ _ _ _ B), (b_red _ _ _ _ _ _ B). reflexivity.
    - rewrite <- Ej. exact (b_decodes _ _ _ _ _ _ B).
    - rewrite <- Ej. exact (b_room _ _ _ _ _ _ B).
  Qed.

  (* the event with its ID cached has the same accessors *)
  Lemma same_fields_cache e : same_fields e (cache_id H e) /\ check_fields (cache_id H e) = check_fields e
                              /\ e_json (cache_id H e) = e_json e /\ e_redacted (cache_id H e) = e_redacted e.
  Proof.
    pose proof (cache_transparent H e) as T.
    unfold same_fields. rewrite T. unfold room_id. rewrite T. repeat split; reflexivity.
  Qed.

  (* ---------- untrusted re-parse ---------- *)
  Lemma content_hash_json_filter m :
    content_hash_json (JObj m) =
    JObj (filter (fun kv => keyis k_signatures kv && keyis k_unsigned kv && keyis k_hashes kv) m).
  Proof.
    unfold content_hash_json. rewrite !jdel_obj, !filter_filter'. f_equal. apply filter_ext.
    intro x. rewrite andb_assoc. reflexivity.
  Qed.

  Definition p3 (kv : bytes * json) : bool := keyis k_signatures kv && keyis k_unsigned kv && keyis k_hashes kv.

  Lemma content_hash_json_built s hv bm :
    content_hash_json (jdel k_unsigned (JObj (assoc_set k_signatures s (assoc_set k_hashes hv bm)))) =
    content_hash_json (JObj bm).
  Proof.
    rewrite jdel_obj, !content_hash_json_filter. f_equal. fold p3.
    rewrite filter_filter'.
    rewrite (filter_ext (fun x => keyis k_unsigned x && p3 x) p3).
    2:{ intro x. unfold p3. destruct (keyis k_unsigned x), (keyis k_signatures x); reflexivity. }
    rewrite filter_assoc_set_rejected.
    2:{ intro x. unfold p3, keyis. simpl fst. rewrite bytes_eqb_refl. reflexivity. }
    apply filter_assoc_set_rejected.
    intro x. unfold p3, keyis. simpl fst. rewrite bytes_eqb_refl. apply andb_false_r.
  Qed.

  Lemma redact_none_sigs ver s j : redact ver (jset k_signatures s j) = None <-> redact ver j = None.
  Proof.
    pose proof (reference_ignores_signatures ver s j) as E. unfold reference_json in E.
    change k_sigs with k_signatures in E.
    destruct (redact ver (jset k_signatures s j)), (redact ver j); simpl in E; split; intro X; try discriminate; reflexivity.
  Qed.

  (* length of the printed object after removing members *)
  Fixpoint weight (l : list bytes) : nat :=
    match l with [] => O | x :: l' => (length x + weight l')%nat end.

  Lemma join_comma_length l : length (join_comma l) = (weight l + (length l - 1))%nat.
  Proof.
    induction l as [|x l IH]; [reflexivity|]. destruct l as [|y l].
    - simpl. lia.
    - change (join_comma (x :: y :: l)) with (x ++ 44 :: join_comma (y :: l)).
      rewrite app_length.
      change (length (44 :: join_comma (y :: l))) with (S (length (join_comma (y :: l)))).
      rewrite IH. cbn [weight length]. lia.
  Qed.

  Lemma weight_perm l l' : Permutation l l' -> weight l = weight l'.
  Proof. induction 1; simpl; lia. Qed.

  Lemma insert_member_perm {A} (kv : bytes * A) l : Permutation (insert_member kv l) (kv :: l).
  Proof.
    induction l as [|x l IH]; simpl; [apply Permutation_refl|].
    destruct (bytes_leb (fst kv) (fst x)); [apply Permutation_refl|].
    eapply Permutation_trans; [apply perm_skip; exact IH|apply perm_swap].
  Qed.

  Lemma sort_members_perm {A} (l : list (bytes * A)) : Permutation (sort_members l) l.
  Proof.
    induction l as [|x l IH]; simpl; [constructor|].
    eapply Permutation_trans; [apply insert_member_perm|]. apply perm_skip. exact IH.
  Qed.

  Lemma obj_length m :
    length (canon_print (JObj m)) =
    (2 + weight (map print_member (map (on_snd canon_print) m)) + (length m - 1))%nat.
  Proof.
    rewrite canon_print_obj. simpl length. rewrite app_length, join_comma_length. simpl length.
    pose proof (sort_members_perm (map (on_snd canon_print) m)) as P.
    rewrite (weight_perm _ _ (Permutation_map print_member P)).
    rewrite map_length, (Permutation_length P), map_length. lia.
  Qed.

  Lemma weight_filter (p : bytes * json -> bool) m :
    (weight (map print_member (map (on_snd canon_print) (filter p m))) <=
     weight (map print_member (map (on_snd canon_print) m)))%nat /\ (length (filter p m) <= length m)%nat.
  Proof.
    induction m as [|x m [IH1 IH2]]; simpl; [lia|]. destruct (p x); simpl; lia.
  Qed.

  Lemma jdel_shorter k m : (length (canon_print (jdel k (JObj m))) <= length (canon_print (JObj m)))%nat.
  Proof.
    rewrite jdel_obj, !obj_length. destruct (weight_filter (keyis k) m) as [W L]. lia.
  Qed.

  Lemma check_fields_jdel_unsigned ver c m red red' id id' :
    check_fields (mkEv ver c (JObj m) red id) = true ->
    check_fields (mkEv ver c (jdel k_unsigned (JObj m)) red' id') = true.
  Proof.
    intro Hcf.
    pose proof (same_struct_jdel k_unsigned (JObj m) uns_not_struct) as S.
    destruct (accessors_same_struct (mkEv ver c (JObj m) red' id') _ S)
      as (A1 & A2 & A3 & A4 & A5 & A6 & A7 & A8 & A9 & A10).
    change (with_json (mkEv ver c (JObj m) red' id') (jdel k_unsigned (JObj m)))
      with (mkEv ver c (jdel k_unsigned (JObj m)) red' id') in *.
    set (e2 := mkEv ver c (jdel k_unsigned (JObj m)) red' id') in *.
    set (e1 := mkEv ver c (JObj m) red id) in *.
    assert (Ea : auth_ids e2 = auth_ids e1).
    { unfold auth_ids, is_create. rewrite A1, A3, A4, A10. reflexivity. }
    assert (Ep : prev_ids e2 = prev_ids e1) by (unfold prev_ids; rewrite A9; reflexivity).
    assert (Ec : is_create e2 = is_create e1) by (unfold is_create; rewrite A3, A4; reflexivity).
    unfold check_fields in *. rewrite Ea, Ep, A1, A2, A3, A4, Ec.
    change (e_ver e2) with (e_ver e1). change (e_class e2) with (e_class e1).
    change (f_room (mkEv ver c (JObj m) red' id')) with (f_room e1).
    change (f_sender (mkEv ver c (JObj m) red' id')) with (f_sender e1).
    change (f_type (mkEv ver c (JObj m) red' id')) with (f_type e1).
    change (f_skey (mkEv ver c (JObj m) red' id')) with (f_skey e1).
    apply andb_true_iff in Hcf as [Hcf C7].
    apply andb_true_iff in Hcf as [Hcf C6]. apply andb_true_iff in Hcf as [Hcf C5].
    apply andb_true_iff in Hcf as [Hcf C4]. apply andb_true_iff in Hcf as [Hcf C3].
    apply andb_true_iff in Hcf as [C1 C2].
    assert (L : (len (canon_print (e_json e2)) <=? max_event_length) = true).
    { apply N.leb_le. apply N.leb_le in C3. unfold len in *.
      change (e_json e2) with (jdel k_unsigned (JObj m)). change (e_json e1) with (JObj m) in C3.
      pose proof (jdel_shorter k_unsigned m) as Hs.
      eapply N.le_trans; [|exact C3]. lia. }
    apply andb_true_iff; split; [|exact C7].
    apply andb_true_iff; split; [|exact C6]. apply andb_true_iff; split; [|exact C5].
    apply andb_true_iff; split; [|exact C4]. apply andb_true_iff; split; [|exact L].
    apply andb_true_iff; split; [exact C1|exact C2].
  Qed.

  Theorem reparse_untrusted ver p eid ts origin keyid e :
    hash_bytes ->
    build H sgn ver p eid ts origin keyid = BOk e true ->
    exists e', parse_untrusted H ver (e_json e) = POk e' true /\
               e_json e' = jdel k_unsigned (e_json e) /\ e_redacted e' = false /\ same_fields e e'.
  Proof.
    intros HB Hb. pose proof (build_built _ _ _ _ _ _ _ Hb) as B.
    destruct (b_members _ _ _ _ _ _ B) as [s Ej].
    pose proof Ej as Ej'. rewrite built_obj in Ej'.
    set (hv := hashes_value H (JObj (bm_of ver p eid ts origin))) in Ej'.
    set (bm := bm_of ver p eid ts origin) in *.
    set (M := assoc_set k_signatures s (assoc_set k_hashes hv bm)) in Ej'.
    destruct (shape_facts ver (b_known _ _ _ _ _ _ B)) as (Hun & _ & Hc0 & Hc1 & Hc2 & _).
    set (c := class_trusted ver) in *.
    (* the keys stripped on receipt *)
    assert (Habs : forall k, forallb (fun x => negb (bytes_eqb k x)) all_keys = true -> assoc_first k M = None).
    { intros k Hk. eapply absent_of_not_key; [apply built_keys'|exact Hk]. }
    assert (Hstrip : fold_left (fun acc k => jdel k acc) (strip_keys c) (JObj M) = jdel k_unsigned (JObj M)).
    { unfold strip_keys. rewrite fold_left_app.
      change (fold_left (fun acc k => jdel k acc) [bs "outlier"; bs "destinations"; bs "age_ts"; bs "unsigned"] (JObj M))
        with (jdel (bs "unsigned") (jdel (bs "age_ts") (jdel (bs "destinations") (jdel (bs "outlier") (JObj M))))).
      rewrite (jdel_absent (bs "outlier")) by (apply Habs; vm_compute; reflexivity).
      rewrite (jdel_absent (bs "destinations")) by (apply Habs; vm_compute; reflexivity).
      rewrite (jdel_absent (bs "age_ts")) by (apply Habs; vm_compute; reflexivity).
      fold k_unsigned.
      destruct (c =? 1) eqn:Ec; [reflexivity|]. cbn [fold_left].
      apply N.eqb_neq in Ec. destruct (Hc2 Ec) as [Hf _].
      rewrite jdel_obj. apply jdel_absent. unfold keyis.
      rewrite assoc_first_filter_other by (intro E; discriminate E).
      assert (G : jget (bs "event_id") (JObj M) = None).
      { rewrite <- Ej', Ej. rewrite built_get by (intro E; discriminate E).
        destruct (bm_lookup ver p eid ts origin) as (_ & _ & _ & _ & _ & _ & _ & _ & _ & _ & L & _).
        unfold bm_of. rewrite L, Hf. reflexivity. }
      exact G. }
    assert (Sj1 : same_struct (jdel k_unsigned (JObj M)) (JObj M)).
    { apply same_struct_jdel. exact uns_not_struct. }
    assert (Hdec : decodes c (jdel k_unsigned (JObj M)) = true).
    { rewrite (decodes_same_struct c _ (JObj M)); [|rewrite jdel_obj; eexists; reflexivity|eexists; reflexivity|exact Sj1].
      rewrite <- Ej'. exact (b_decodes _ _ _ _ _ _ B). }
    assert (Hroom : room_check c (jdel k_unsigned (JObj M)) = true).
    { rewrite (room_check_same_struct c _ (JObj M) Sj1). rewrite <- Ej'. exact (b_room _ _ _ _ _ _ B). }
    assert (Hcontent : jget (bs "content") (JObj M) = Some (p_content p)).
    { rewrite <- Ej', Ej. rewrite built_get by (intro E; discriminate E).
      destruct (bm_lookup ver p eid ts origin) as (_ & _ & _ & _ & _ & _ & _ & L & _). exact L. }
    assert (Hredactable : redactable ver (jdel k_unsigned (JObj M)) = true).
    { unfold redactable. apply andb_true_iff. split.
      - unfold content_overflows. rewrite (Sj1 (bs "content")) by sk.
        rewrite Hcontent, (b_noover _ _ _ _ _ _ B). reflexivity.
      - change k_unsigned with k_uns. rewrite redact_ignores_del by (simpl; auto).
        destruct (b_pre _ _ _ _ _ _ B) as [pre Hpre]. unfold reference_pre, reference_json in Hpre.
        rewrite <- Ej', Ej.
        destruct (redact ver (jset k_signatures s (j0_of ver p eid ts origin))) eqn:Er; [reflexivity|].
        apply redact_none_sigs in Er. rewrite Er in Hpre. discriminate. }
    assert (Hhash : content_hash_ok H (jdel k_unsigned (JObj M)) = true).
    { unfold content_hash_ok, content_hash_pre. unfold M at 2. rewrite content_hash_json_built.
      assert (G : jpath [k_hashes; bs "sha256"] (jdel k_unsigned (JObj M)) =
                  Some (JStr (b64_encode false (H (content_hash_pre (JObj bm)))))).
      { assert (G1 : jget k_hashes (jdel k_unsigned (JObj M)) = Some hv).
        { rewrite jget_jdel_other by (intro E; discriminate E).
          change (JObj M) with (jset k_signatures s (jset k_hashes hv (JObj bm))).
          rewrite jget_jset_other by (intro E; discriminate E). apply jget_jset_same. }
        cbn [jpath]. rewrite G1. unfold hv, hashes_value. reflexivity. }
      rewrite G. unfold content_hash_pre. rewrite (b64_decode_any_encode _ (HB _)).
      rewrite bytes_eqb_refl. reflexivity. }
    (* the parse *)
    exists (mk_parsed ver c (jdel k_unsigned (JObj M)) false None).
    assert (Hcheck : check_fields (mk_parsed ver c (jdel k_unsigned (JObj M)) false None) = true).
    { pose proof (b_check _ _ _ _ _ _ B) as Hcf. rewrite (ev_eta e) in Hcf.
      rewrite (b_ver _ _ _ _ _ _ B), (b_class _ _ _ _ _ _ B), Ej' in Hcf. fold c in Hcf.
      unfold mk_parsed. eapply check_fields_jdel_unsigned. exact Hcf. }
    split; [|split; [rewrite Ej'; reflexivity|split; [reflexivity|]]].
    - unfold parse_untrusted. rewrite Hun. fold c. rewrite Ej'.
      assert (Hus : has_underscore_key (JObj M) = false).
      { unfold has_underscore_key. simpl jkeys. apply not_true_is_false. intro X.
        apply existsb_exists in X as (k & Hin & Hk). apply (built_keys' ver p eid ts origin s hv) in Hin.
        assert (F : forallb (fun k => negb (is_prefix [95] k)) all_keys = true) by (vm_compute; reflexivity).
        rewrite forallb_forall in F. specialize (F k Hin). rewrite Hk in F. discriminate. }
      rewrite Hus. pose proof (b_canon _ _ _ _ _ _ B) as Hcan. rewrite Ej' in Hcan. rewrite Hcan.
      apply N.eqb_neq in Hc0. rewrite Hc0. rewrite Hstrip, Hdec, Hroom, Hredactable, Hhash, Hcheck. reflexivity.
    - (* same accessors *)
      rewrite (ev_eta e), (b_ver _ _ _ _ _ _ B), (b_class _ _ _ _ _ _ B), (b_red _ _ _ _ _ _ B), (b_idraw _ _ _ _ _ _ B), Ej'.
      fold c.
      assert (Eid : json_event_id c (jdel k_unsigned (JObj M)) = json_event_id c (JObj M)).
      { unfold json_event_id. rewrite (dec_str_ext (bs "event_id") _ _ (Sj1 (bs "event_id") ltac:(sk))). reflexivity. }
      unfold mk_parsed. rewrite Eid.
      apply (same_fields_with_json (mkEv ver c (JObj M) false (json_event_id c (JObj M))) (jdel k_unsigned (JObj M)) Sj1).
      simpl e_ver. apply reference_id_ignores_unsigned_del.
  Qed.
End Build.
