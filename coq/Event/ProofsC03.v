(* Proofs for C03, part 1: the event ID is a function of the reference object; it ignores
   unsigned, signatures, added signatures and redaction; alphabet; room version 12. *)
From Verif Require Import Lib.Bytes Json.Ast Json.Print Gen.GenVersions.
From Verif Require Import Event.Redact Event.RedactTables Event.RedactProofs.
From Verif Require Import Event.ModelC03 Event.B64FactsC03 Event.RedactFactsC03.
Open Scope N_scope.

(* ---------------------------------------------------------------- JSON members ---- *)
Lemma jget_jset_other k k' v j : k <> k' -> jget k (jset k' v j) = jget k j.
Proof.
  intro Hne. destruct j; try reflexivity. simpl. rewrite assoc_first_set, (neq_eqb k k' Hne). reflexivity.
Qed.

Lemma jget_jset_same k v m : jget k (jset k v (JObj m)) = Some v.
Proof. simpl. rewrite assoc_first_set, bytes_eqb_refl. reflexivity. Qed.

Lemma assoc_first_filter_other {A} k k' (m : list (bytes * A)) : k <> k' ->
  assoc_first k (filter (fun kv => negb (bytes_eqb k' (fst kv))) m) = assoc_first k m.
Proof.
  intro Hne. induction m as [|[k2 v2] m IH]; [reflexivity|]. simpl.
  destruct (bytes_eqb k' k2) eqn:E; simpl.
  - apply bytes_eqb_eq in E. subst k2. rewrite (neq_eqb k k' Hne). exact IH.
  - destruct (bytes_eqb k k2); [reflexivity|exact IH].
Qed.

Lemma jget_jdel_other k k' j : k <> k' -> jget k (jdel k' j) = jget k j.
Proof. intro Hne. destruct j; try reflexivity. simpl. apply assoc_first_filter_other. exact Hne. Qed.

Lemma assoc_first_filter_same {A} k (m : list (bytes * A)) :
  assoc_first k (filter (fun kv => negb (bytes_eqb k (fst kv))) m) = None.
Proof.
  induction m as [|[k2 v2] m IH]; [reflexivity|]. simpl.
  destruct (bytes_eqb k k2) eqn:E; simpl; [exact IH|]. rewrite E. exact IH.
Qed.

Lemma jget_jdel_same k j : jget k (jdel k j) = None.
Proof. destruct j; try reflexivity. simpl. apply assoc_first_filter_same. Qed.

(* the field decoders look at one member *)
Lemma dec_str_ext k j j' : jget k j = jget k j' -> dec_str k j = dec_str k j'.
Proof. unfold dec_str. intros ->. reflexivity. Qed.
Lemma dec_optstr_ext k j j' : jget k j = jget k j' -> dec_optstr k j = dec_optstr k j'.
Proof. unfold dec_optstr. intros ->. reflexivity. Qed.
Lemma dec_int_ext s k j j' : jget k j = jget k j' -> dec_int s k j = dec_int s k j'.
Proof. unfold dec_int. intros ->. reflexivity. Qed.
Lemma dec_ids_ext c k j j' : jget k j = jget k j' -> dec_ids c k j = dec_ids c k j'.
Proof. unfold dec_ids. intros ->. reflexivity. Qed.

(* two event values that agree on every member the struct reads *)
Definition struct_keys : list bytes :=
  [bs "room_id"; bs "sender"; bs "type"; bs "state_key"; bs "redacts"; bs "depth";
   bs "origin_server_ts"; bs "event_id"; bs "prev_events"; bs "auth_events"; bs "content"].

Definition same_struct (j j' : json) : Prop := forall k, In k struct_keys -> jget k j = jget k j'.

Lemma same_struct_jset k v j : ~ In k struct_keys -> same_struct (jset k v j) j.
Proof. intros Hk k' Hk'. apply jget_jset_other. intro E. subst. tauto. Qed.

Lemma same_struct_jdel k j : ~ In k struct_keys -> same_struct (jdel k j) j.
Proof. intros Hk k' Hk'. apply jget_jdel_other. intro E. subst. tauto. Qed.

Lemma not_struct_key k : forallb (fun s => negb (bytes_eqb k s)) struct_keys = true -> ~ In k struct_keys.
Proof.
  intros H Hin. rewrite forallb_forall in H. specialize (H k Hin). rewrite bytes_eqb_refl in H. discriminate.
Qed.

Lemma sigs_not_struct : ~ In k_signatures struct_keys.
Proof. apply not_struct_key. vm_compute. reflexivity. Qed.
Lemma uns_not_struct : ~ In k_unsigned struct_keys.
Proof. apply not_struct_key. vm_compute. reflexivity. Qed.

Ltac sk := unfold struct_keys; simpl; tauto.

Section Facts.
  Variable H : bytes -> bytes.
  Variable sgn : bytes -> bytes -> bytes -> bytes.

  (* ---------- the event ID as a function of the reference object ---------- *)
  Definition id_of_ref (ver : bytes) (o : option json) : option bytes :=
    match o with
    | None => None
    | Some x =>
        if event_format ver =? 1 then
          match jget (bs "event_id") x with Some (JStr s) => Some s | _ => None end
        else if event_format ver =? 2 then
          if id_format ver =? 2 then Some (sigil_dollar :: b64_encode false (H (canon_print x)))
          else if id_format ver =? 3 then Some (sigil_dollar :: b64_encode true (H (canon_print x)))
          else None
        else None
    end.

  Lemma reference_id_of_ref ver j : reference_id H ver j = id_of_ref ver (reference_json ver j).
  Proof.
    unfold reference_id, reference_pre, id_of_ref, reference_json.
    destruct (redact ver j) as [r|]; reflexivity.
  Qed.

  (* ---------- what the ID ignores, for every event value ---------- *)
  Theorem reference_id_ignores_unsigned ver u j :
    reference_id H ver (jset k_unsigned u j) = reference_id H ver j.
  Proof. rewrite !reference_id_of_ref. f_equal. apply reference_ignores_unsigned. Qed.

  Theorem reference_id_ignores_unsigned_del ver j :
    reference_id H ver (jdel k_unsigned j) = reference_id H ver j.
  Proof. rewrite !reference_id_of_ref. f_equal. apply reference_ignores_unsigned_del. Qed.

  Theorem reference_id_ignores_signatures ver s j :
    reference_id H ver (jset k_signatures s j) = reference_id H ver j.
  Proof. rewrite !reference_id_of_ref. f_equal. apply reference_ignores_signatures. Qed.

  Theorem reference_id_ignores_redaction ver j r :
    redact ver j = Some r -> reference_id H ver r = reference_id H ver j.
  Proof. intro Hr. rewrite !reference_id_of_ref. f_equal. apply reference_of_redacted. exact Hr. Qed.

  Lemma sign_json_shape ver name keyid j j' :
    sign_json sgn ver name keyid j = Some j' -> exists s, j' = jset k_signatures s j.
  Proof.
    unfold sign_json. destruct (reference_pre ver j); [|discriminate]. intro E. inversion E. eexists. reflexivity.
  Qed.

  Theorem reference_id_ignores_added_signature ver name keyid j j' :
    sign_json sgn ver name keyid j = Some j' -> reference_id H ver j' = reference_id H ver j.
  Proof. intro E. destruct (sign_json_shape _ _ _ _ _ E) as [s ->]. apply reference_id_ignores_signatures. Qed.

  (* ---------- the same for events (with their cached ID) ---------- *)
  Definition with_json (e : ev) (j : json) : ev := mkEv (e_ver e) (e_class e) j (e_redacted e) (e_idraw e).

  Lemma event_id_with_json e j :
    reference_id H (e_ver e) j = reference_id H (e_ver e) (e_json e) ->
    event_id H (with_json e j) = event_id H e.
  Proof. intro E. unfold event_id, with_json. simpl. rewrite E. reflexivity. Qed.

  Theorem event_id_set_unsigned e u : event_id H (set_unsigned_raw u e) = event_id H e.
  Proof. apply (event_id_with_json e). apply reference_id_ignores_unsigned. Qed.

  Theorem event_id_set_unsigned_opt e u e' : set_unsigned u e = Some e' -> event_id H e' = event_id H e.
  Proof.
    unfold set_unsigned. destruct (canonical_check_ok _ _); [|discriminate]. intro E. inversion E.
    apply event_id_set_unsigned.
  Qed.

  Theorem event_id_set_unsigned_field e k v : event_id H (set_unsigned_field k v e) = event_id H e.
  Proof. apply (event_id_with_json e). apply reference_id_ignores_unsigned. Qed.

  Theorem event_id_set_signatures e s : event_id H (with_json e (jset k_signatures s (e_json e))) = event_id H e.
  Proof. apply event_id_with_json. apply reference_id_ignores_signatures. Qed.

  Theorem event_id_sign e name keyid e' : sign sgn name keyid e = Some e' -> event_id H e' = event_id H e.
  Proof.
    unfold sign. destruct (sign_json sgn (e_ver e) name keyid (e_json e)) as [j|] eqn:E; [|discriminate].
    intro E'. inversion E'. apply (event_id_with_json e). eapply reference_id_ignores_added_signature. exact E.
  Qed.

  (* Redact() decodes the redacted JSON afresh: the ID is recomputed from it.  For an event whose
     ID is not a member of its JSON (formats 2 and 3) and whose cache, if filled, holds the
     computed ID, the ID stays. *)
  Definition cache_sound (e : ev) : Prop :=
    e_idraw e = [] \/ Some (e_idraw e) = reference_id H (e_ver e) (e_json e).

  Theorem event_id_redact e e' :
    e_class e <> 1 -> cache_sound e -> redact_ev e = Some e' ->
    event_id H e' = event_id H e.
  Proof.
    intros Hc Hs Hr. unfold redact_ev in Hr.
    destruct (e_redacted e) eqn:Er; [inversion Hr; reflexivity|].
    destruct (redact (e_ver e) (e_json e)) as [r|] eqn:Ered; [|discriminate].
    inversion Hr; subst e'. unfold event_id, json_event_id. simpl.
    apply N.eqb_neq in Hc. rewrite Hc.
    rewrite (reference_id_ignores_redaction _ _ _ Ered).
    destruct Hs as [Hs|Hs]; [rewrite Hs; reflexivity|].
    rewrite <- Hs. destruct (e_idraw e); reflexivity.
  Qed.

  (* an event of a hash-derived format that a parser built without being handed an ID, or that
     Redact() rebuilt, carries no ID of its own: EventID() is the reference ID of its JSON *)
  Theorem parsed_event_has_no_json_id class ver j red e :
    class <> 1 -> parse_trusted_as class ver j red None = Some e -> e_idraw e = [].
  Proof.
    intros Hc Hp. unfold parse_trusted_as in Hp.
    destruct ((class =? 0) || negb (decodes class j) || negb (room_check class j)); [discriminate|].
    inversion Hp. unfold mk_parsed, json_event_id. simpl. apply N.eqb_neq in Hc. rewrite Hc. reflexivity.
  Qed.

  Theorem redacted_event_has_no_json_id e e' :
    e_class e <> 1 -> e_redacted e = false -> redact_ev e = Some e' -> e_idraw e' = [].
  Proof.
    intros Hc Hn Hr. unfold redact_ev in Hr. rewrite Hn in Hr.
    destruct (redact (e_ver e) (e_json e)); [|discriminate]. inversion Hr.
    unfold json_event_id. simpl. apply N.eqb_neq in Hc. rewrite Hc. reflexivity.
  Qed.

  (* filling the cache is invisible *)
  Theorem cache_transparent e : event_id H (cache_id H e) = event_id H e.
  Proof.
    unfold cache_id, event_id. simpl. destruct (e_class e =? 1); [reflexivity|].
    destruct (e_idraw e) as [|c r] eqn:E; [|reflexivity].
    destruct (reference_id H (e_ver e) (e_json e)) as [[|c r]|]; reflexivity.
  Qed.

  (* ---------- the other accessors do not look at unsigned or signatures ---------- *)
  Lemma accessors_same_struct e j :
    same_struct j (e_json e) ->
    f_room (with_json e j) = f_room e /\ f_sender (with_json e j) = f_sender e /\
    f_type (with_json e j) = f_type e /\ f_skey (with_json e j) = f_skey e /\
    f_redacts (with_json e j) = f_redacts e /\ f_depth (with_json e j) = f_depth e /\
    f_ts (with_json e j) = f_ts e /\ f_content (with_json e j) = f_content e /\
    f_prev_raw (with_json e j) = f_prev_raw e /\ f_auth_raw (with_json e j) = f_auth_raw e.
  Proof.
    intro S. unfold f_room, f_sender, f_type, f_skey, f_redacts, f_depth, f_ts, f_content, f_prev_raw, f_auth_raw, with_json. simpl.
    rewrite (dec_str_ext (bs "room_id") j (e_json e)) by (apply S; sk).
    rewrite (dec_str_ext (bs "sender") j (e_json e)) by (apply S; sk).
    rewrite (dec_str_ext (bs "type") j (e_json e)) by (apply S; sk).
    rewrite (dec_optstr_ext (bs "state_key") j (e_json e)) by (apply S; sk).
    rewrite (dec_str_ext (bs "redacts") j (e_json e)) by (apply S; sk).
    rewrite (dec_int_ext true (bs "depth") j (e_json e)) by (apply S; sk).
    rewrite (dec_int_ext false (bs "origin_server_ts") j (e_json e)) by (apply S; sk).
    rewrite (dec_ids_ext (e_class e) (bs "prev_events") j (e_json e)) by (apply S; sk).
    rewrite (dec_ids_ext (e_class e) (bs "auth_events") j (e_json e)) by (apply S; sk).
    rewrite (S (bs "content")) by sk.
    repeat split; reflexivity.
  Qed.

  Lemma derived_same_struct e j :
    same_struct j (e_json e) -> reference_id H (e_ver e) j = reference_id H (e_ver e) (e_json e) ->
    is_create (with_json e j) = is_create e /\ room_id H (with_json e j) = room_id H e /\
    auth_ids (with_json e j) = auth_ids e /\ prev_ids (with_json e j) = prev_ids e.
  Proof.
    intros S R. destruct (accessors_same_struct e j S) as (A1 & A2 & A3 & A4 & A5 & A6 & A7 & A8 & A9 & A10).
    assert (C : is_create (with_json e j) = is_create e) by (unfold is_create; rewrite A3, A4; reflexivity).
    split; [exact C|]. split; [|split].
    - unfold room_id. rewrite C, A1, (event_id_with_json e j R). reflexivity.
    - unfold auth_ids. rewrite C, A1, A10. reflexivity.
    - unfold prev_ids. rewrite A9. reflexivity.
  Qed.

  (* ---------- room version 12 ---------- *)
  Definition digest_shape : Prop := forall x, length (H x) = 32%nat.

  Lemma b64url_no_colon : forall l, forallb is_b64url_char l = true -> split_at 58 l = None.
  Proof.
    induction l as [|c l IH]; [reflexivity|]. simpl. intro Hl. apply andb_true_iff in Hl as [Hc Hl].
    destruct (N.eqb_spec c 58) as [->|_]; [vm_compute in Hc; discriminate|]. rewrite (IH Hl). reflexivity.
  Qed.

  Lemma forallb_Forall {A} (p : A -> bool) l : Forall (fun x => p x = true) l -> forallb p l = true.
  Proof. induction 1; simpl; [reflexivity|]. rewrite H0, IHForall. reflexivity. Qed.

  Lemma room_of_url_id x : length x = 32%nat -> room_id_valid (33 :: b64_encode true x) = true.
  Proof.
    intro Hx. pose proof (b64_encode_length32 true x Hx) as Hl.
    pose proof (forallb_Forall _ _ (b64_encode_alphabet true x)) as Ha. simpl in Ha.
    unfold room_id_valid. rewrite (b64url_no_colon _ Ha), Ha.
    unfold len. simpl length. rewrite Hl. reflexivity.
  Qed.

  (* a v12 create event: the room ID is the event ID with the sigil swapped *)
  Theorem v12_create_room_id_gen e pre :
    digest_shape -> e_class e = 3 -> event_format (e_ver e) = 2 -> id_format (e_ver e) = 3 ->
    is_create e = true -> e_idraw e = [] -> reference_pre (e_ver e) (e_json e) = Some pre ->
    event_id H e = 36 :: b64_encode true (H pre) /\ room_id H e = 33 :: b64_encode true (H pre).
  Proof.
    intros Hd Hc Hf Hi Hcr Hraw Hpre.
    assert (E : event_id H e = 36 :: b64_encode true (H pre)).
    { unfold event_id. rewrite Hc, Hraw. simpl. unfold reference_id. rewrite Hpre, Hf, Hi. reflexivity. }
    split; [exact E|]. unfold room_id. rewrite Hc, Hcr, E. simpl.
    rewrite (room_of_url_id (H pre) (Hd pre)). reflexivity.
  Qed.

  (* every other v12 event: the create event (the room ID with the sigil swapped back) is the
     first auth event *)
  Theorem v12_first_auth_is_create_gen e :
    e_class e = 3 -> is_create e = false ->
    exists l, auth_ids e = Some ((36 :: tl (f_room e)) :: l).
  Proof. intros Hc Hcr. unfold auth_ids. rewrite Hc, Hcr. simpl. eexists. reflexivity. Qed.

  (* both survive SetUnsigned, SetUnsignedField, Sign: class, room ID and auth events stay *)
  Theorem edits_keep_room_and_auth e :
    (forall u, e_class (set_unsigned_raw u e) = e_class e /\ room_id H (set_unsigned_raw u e) = room_id H e
               /\ auth_ids (set_unsigned_raw u e) = auth_ids e) /\
    (forall k v, e_class (set_unsigned_field k v e) = e_class e /\ room_id H (set_unsigned_field k v e) = room_id H e
                 /\ auth_ids (set_unsigned_field k v e) = auth_ids e) /\
    (forall name keyid e', sign sgn name keyid e = Some e' ->
       e_class e' = e_class e /\ room_id H e' = room_id H e /\ auth_ids e' = auth_ids e).
  Proof.
    split; [|split].
    - intro u. split; [reflexivity|].
      destruct (derived_same_struct e (jset k_unsigned u (e_json e))
                  (same_struct_jset _ _ _ uns_not_struct) (reference_id_ignores_unsigned _ _ _)) as (_ & R & A & _).
      split; [exact R|exact A].
    - intros k v. split; [reflexivity|].
      destruct (derived_same_struct e (jset k_unsigned
                    (match jget k_unsigned (e_json e) with Some (JObj m) => JObj (assoc_set k v m) | _ => JObj [(k, v)] end)
                    (e_json e))
                  (same_struct_jset _ _ _ uns_not_struct) (reference_id_ignores_unsigned _ _ _)) as (_ & R & A & _).
      split; [exact R|exact A].
    - intros name keyid e' Hs. unfold sign in Hs.
      destruct (sign_json sgn (e_ver e) name keyid (e_json e)) as [j|] eqn:E; [|discriminate].
      inversion Hs; subst e'. split; [reflexivity|].
      destruct (sign_json_shape _ _ _ _ _ E) as [s ->].
      destruct (derived_same_struct e (jset k_signatures s (e_json e))
                  (same_struct_jset _ _ _ sigs_not_struct) (reference_id_ignores_signatures _ _ _)) as (_ & R & A & _).
      split; [exact R|exact A].
  Qed.

  (* ---------- alphabet ---------- *)
  Definition id_chars_ok (fmt : N) (id : bytes) : Prop :=
    exists r, id = 36 :: r /\ length r = 43%nat /\
              Forall (fun c => (if fmt =? 3 then is_b64url_char else is_b64std_char) c = true) r.

  Theorem event_id_alphabet_gen e pre :
    digest_shape -> e_class e <> 1 -> event_format (e_ver e) = 2 ->
    (id_format (e_ver e) = 2 \/ id_format (e_ver e) = 3) ->
    e_idraw e = [] -> reference_pre (e_ver e) (e_json e) = Some pre ->
    id_chars_ok (id_format (e_ver e)) (event_id H e).
  Proof.
    intros Hd Hc Hf Hi Hraw Hpre. apply N.eqb_neq in Hc.
    unfold event_id. rewrite Hc, Hraw. unfold reference_id. rewrite Hpre, Hf. simpl.
    destruct Hi as [Hi|Hi]; rewrite Hi; simpl.
    - exists (b64_encode false (H pre)). split; [reflexivity|]. split; [apply b64_encode_length32; apply Hd|].
      apply (b64_encode_alphabet false).
    - exists (b64_encode true (H pre)). split; [reflexivity|]. split; [apply b64_encode_length32; apply Hd|].
      apply (b64_encode_alphabet true).
  Qed.
End Facts.

(* ---------------------------------------------------------------- version table ---- *)
Definition version_shape_ok (ver : bytes) : bool :=
  let c := class_trusted ver in
  (class_untrusted ver =? c) && (class_with_id ver =? c) && negb (c =? 0)
  && (if c =? 1 then (event_format ver =? 1) && (id_format ver =? 1)
      else (event_format ver =? 2) && ((id_format ver =? 2) || (id_format ver =? 3)))
  && (if domainless ver then (c =? 3) && (id_format ver =? 3) else negb (c =? 3)).

Lemma all_versions_shape : forallb version_shape_ok (map fst gen_versions) = true.
Proof. vm_compute. reflexivity. Qed.

Lemma known_version_in ver : known_version ver = true -> In ver (map fst gen_versions).
Proof.
  unfold known_version. destruct (assoc_first ver gen_versions) eqn:E; [|discriminate]. intros _.
  apply assoc_first_some_in in E. apply in_map_iff. exists (ver, l). split; [reflexivity|exact E].
Qed.

Lemma version_shape ver : known_version ver = true -> version_shape_ok ver = true.
Proof.
  intro Hk. pose proof all_versions_shape as Hall. rewrite forallb_forall in Hall.
  apply Hall. apply known_version_in. exact Hk.
Qed.
