(* Proofs for C03, part 3: the accessors of a built event are the proto-event's fields; room
   version 12 and the ID alphabet for built events; different events get different IDs. *)
From Verif Require Import Lib.Bytes Lib.BytesFacts Json.Ast Json.Print Json.Render Json.NumFacts Json.CanonFacts Gen.GenVersions.
From Verif Require Import Event.Redact Event.RedactTables Event.RedactProofs.
From Verif Require Import Event.ModelC03 Event.B64FactsC03 Event.RedactFactsC03 Event.ProofsC03
  Event.BuildMembersC03 Event.ProofsBuildC03.
Open Scope N_scope.

Definition ids_of (l : idlist) : option (list bytes) :=
  match l with Ids x => Some x | IdsNil => Some [] | IdsTypedNil => None end.

Lemma refs_json_v2 l : refs_json 2 l = match ids_of l with Some x => JArr (map JStr x) | None => JNull end.
Proof. destruct l; reflexivity. Qed.

Lemma dec_all_plain l : dec_all dec_id_plain (map JStr l) = Some l.
Proof. induction l as [|x l IH]; [reflexivity|]. simpl. rewrite IH. reflexivity. Qed.

Lemma nonneg_no_minus z : (0 <= z)%Z -> is_prefix [45] (print_int z) = false.
Proof.
  intro Hz. destruct z as [|q|q]; try lia; unfold print_int.
  - destruct (print_dec_head (Z.to_N 0)) as (c & r & E & Hc). rewrite E. cbn [is_prefix].
    destruct (N.eqb_spec 45 c) as [<-|]; [vm_compute in Hc; discriminate|reflexivity].
  - destruct (print_dec_head (Z.to_N (Z.pos q))) as (c & r & E & Hc). rewrite E. cbn [is_prefix].
    destruct (N.eqb_spec 45 c) as [<-|]; [vm_compute in Hc; discriminate|reflexivity].
Qed.

Lemma wf_filter (q : bytes * json -> bool) m : json_wf (JObj m) -> json_wf (JObj (filter q m)).
Proof.
  rewrite !json_wf_obj. intro F. induction F as [|x l Hx _ IH]; simpl; [constructor|].
  destruct (q x); [constructor; assumption|exact IH].
Qed.

Lemma wf_content_hash_json m : json_wf (JObj m) -> json_wf (content_hash_json (JObj m)).
Proof. intro W. rewrite content_hash_json_filter. apply wf_filter. exact W. Qed.

Section Id.
  Variable H : bytes -> bytes.
  Variable sgn : bytes -> bytes -> bytes -> bytes.

  (* ---------- accessors of a built event ---------- *)
  Theorem built_fields ver p eid ts origin e :
    built H ver p eid ts origin e ->
    f_type e = p_type p /\ f_sender e = p_sender p /\ f_room e = p_room p /\ f_skey e = p_skey p /\
    f_redacts e = p_redacts p /\ f_content e = Some (p_content p) /\
    (int64_ok (p_depth p) = true -> f_depth e = p_depth p) /\
    (uint64_ok ts = true -> f_ts e = ts) /\
    (class_trusted ver <> 1 -> f_prev_raw e = ids_of (p_prev p) /\ f_auth_raw e = ids_of (p_auth p)) /\
    (class_trusted ver <> 1 -> e_idraw e = []).
  Proof.
    intro B. destruct (b_members _ _ _ _ _ _ _ B) as [s Ej].
    destruct (bm_lookup ver p eid ts origin) as (L1 & L2 & L3 & L4 & L5 & L6 & L7 & L8 & L9 & L10 & L11 & _).
    assert (G : forall k, k <> k_signatures -> k <> k_hashes ->
                          jget k (e_json e) = assoc_first k (build_members ver p eid ts origin)).
    { intros k H1 H2. rewrite Ej. apply built_get; assumption. }
    unfold f_type, f_sender, f_room, f_skey, f_redacts, f_content, f_depth, f_ts, f_prev_raw, f_auth_raw.
    unfold dec_str, dec_optstr, dec_int, dec_ids.
    rewrite !G by (intro E; discriminate E).
    rewrite L1, L2, L3, L4, L5, L6, L7, L8, L9, L10.
    split; [reflexivity|]. split; [reflexivity|]. split; [destruct (p_room p); reflexivity|].
    split; [destruct (p_skey p); reflexivity|]. split; [destruct (p_redacts p); reflexivity|].
    split; [reflexivity|]. split; [|split; [|split]].
    - intro Hd. unfold jnum_of_Z. rewrite num_int_print_int, Hd. reflexivity.
    - intro Ht. unfold jnum_of_Z. rewrite num_int_print_int, Ht.
      rewrite nonneg_no_minus; [reflexivity|]. unfold uint64_ok in Ht. apply andb_true_iff in Ht as [Ht _].
      apply Z.leb_le in Ht. exact Ht.
    - intro Hc. destruct (shape_facts ver (b_known _ _ _ _ _ _ _ B)) as (_ & _ & _ & _ & Hc2 & _).
      destruct (Hc2 Hc) as [Hf _]. rewrite (b_class _ _ _ _ _ _ _ B), Hf, !refs_json_v2.
      apply N.eqb_neq in Hc. rewrite Hc.
      split.
      + destruct (ids_of (p_prev p)) as [l|]; [rewrite dec_all_plain|]; reflexivity.
      + destruct (ids_of (p_auth p)) as [l|]; [rewrite dec_all_plain|]; reflexivity.
    - intro Hc. destruct (shape_facts ver (b_known _ _ _ _ _ _ _ B)) as (_ & _ & _ & _ & Hc2 & _).
      rewrite (b_idraw _ _ _ _ _ _ _ B). unfold json_event_id. apply N.eqb_neq in Hc. rewrite Hc. reflexivity.
  Qed.

  Lemma built_reference_pre ver p eid ts origin e :
    built H ver p eid ts origin e -> exists pre, reference_pre ver (e_json e) = Some pre.
  Proof.
    intro B. destruct (b_members _ _ _ _ _ _ _ B) as [s Ej]. destruct (b_pre _ _ _ _ _ _ _ B) as [pre Hp].
    exists pre. rewrite Ej. unfold reference_pre in *.
    change k_signatures with k_sigs. rewrite reference_ignores_signatures. exact Hp.
  Qed.

  (* ---------- alphabet, for built events of the hash-derived formats ---------- *)
  Theorem built_event_id_alphabet ver p eid ts origin e :
    digest_shape H -> built H ver p eid ts origin e -> class_trusted ver <> 1 ->
    id_chars_ok (id_format ver) (event_id H e).
  Proof.
    intros Hd B Hc. destruct (shape_facts ver (b_known _ _ _ _ _ _ _ B)) as (_ & _ & _ & _ & Hc2 & _).
    destruct (Hc2 Hc) as [Hf Hi]. destruct (built_reference_pre _ _ _ _ _ _ B) as [pre Hp].
    destruct (built_fields _ _ _ _ _ _ B) as (_ & _ & _ & _ & _ & _ & _ & _ & _ & Hraw).
    pose proof (b_ver _ _ _ _ _ _ _ B) as Hver. rewrite <- Hver at 1.
    apply (event_id_alphabet_gen H e pre Hd); rewrite ?Hver; auto.
    rewrite (b_class _ _ _ _ _ _ _ B). exact Hc.
  Qed.

  (* ---------- room version 12 ---------- *)
  Theorem built_v12_create ver p eid ts origin e :
    digest_shape H -> built H ver p eid ts origin e -> domainless ver = true ->
    p_type p = create_type -> p_skey p = Some [] ->
    exists d, event_id H e = 36 :: d /\ room_id H e = 33 :: d.
  Proof.
    intros Hd B Hdl Hty Hsk.
    destruct (shape_facts ver (b_known _ _ _ _ _ _ _ B)) as (_ & _ & _ & _ & Hc2 & Hdom & _).
    destruct (Hdom Hdl) as [Hc3 Hi3].
    assert (Hc : class_trusted ver <> 1) by (rewrite Hc3; discriminate).
    destruct (Hc2 Hc) as [Hf _]. destruct (built_reference_pre _ _ _ _ _ _ B) as [pre Hp].
    destruct (built_fields _ _ _ _ _ _ B) as (F1 & _ & _ & F4 & _ & _ & _ & _ & _ & Hraw).
    pose proof (b_ver _ _ _ _ _ _ _ B) as Hver.
    destruct (v12_create_room_id_gen H e pre Hd) as [E1 E2]; rewrite ?Hver; auto.
    - rewrite (b_class _ _ _ _ _ _ _ B). exact Hc3.
    - unfold is_create. rewrite F1, F4, Hty, Hsk, bytes_eqb_refl. reflexivity.
    - exists (b64_encode true (H pre)). split; assumption.
  Qed.

  Theorem built_v12_first_auth ver p eid ts origin e :
    built H ver p eid ts origin e -> domainless ver = true ->
    (p_type p <> create_type \/ p_skey p <> Some []) ->
    exists l, auth_ids e = Some ((36 :: tl (p_room p)) :: l).
  Proof.
    intros B Hdl Hnc.
    destruct (shape_facts ver (b_known _ _ _ _ _ _ _ B)) as (_ & _ & _ & _ & _ & Hdom & _).
    destruct (Hdom Hdl) as [Hc3 _].
    destruct (built_fields _ _ _ _ _ _ B) as (F1 & _ & F3 & F4 & _).
    rewrite <- F3. apply v12_first_auth_is_create_gen.
    - rewrite (b_class _ _ _ _ _ _ _ B). exact Hc3.
    - unfold is_create. rewrite F1, F4. destruct Hnc as [Hn|Hn].
      + apply bytes_eqb_neq in Hn. rewrite Hn. reflexivity.
      + destruct (p_skey p) as [[|c r]|]; cbv iota; try (apply andb_false_r). exfalso. apply Hn. reflexivity.
  Qed.

  (* ... followed by exactly the explicit list, whether or not that list names the create event
     itself (it is never merged or moved) *)
  Theorem built_v12_auth_exact ver p eid ts origin e l :
    built H ver p eid ts origin e -> domainless ver = true ->
    (p_type p <> create_type \/ p_skey p <> Some []) -> ids_of (p_auth p) = Some l ->
    auth_ids e = Some ((36 :: tl (p_room p)) :: l).
  Proof.
    intros B Hdl Hnc Hl.
    destruct (shape_facts ver (b_known _ _ _ _ _ _ _ B)) as (_ & _ & _ & _ & _ & Hdom & _).
    destruct (Hdom Hdl) as [Hc3 _].
    assert (Hc : class_trusted ver <> 1) by (rewrite Hc3; discriminate).
    destruct (built_fields _ _ _ _ _ _ B) as (F1 & _ & F3 & F4 & _ & _ & _ & _ & F9 & _).
    destruct (F9 Hc) as [_ Fa].
    assert (Hcr : is_create e = false).
    { unfold is_create. rewrite F1, F4. destruct Hnc as [Hn|Hn].
      - apply bytes_eqb_neq in Hn. rewrite Hn. reflexivity.
      - destruct (p_skey p) as [[|c r]|]; cbv iota; try (apply andb_false_r). exfalso. apply Hn. reflexivity. }
    unfold auth_ids. rewrite (b_class _ _ _ _ _ _ _ B), Hc3, Hcr, F3, Fa, Hl. reflexivity.
  Qed.

  (* ---------- different events, different IDs ---------- *)
  Lemma bytes_leb_refl a : bytes_leb a a = true.
  Proof. unfold bytes_leb. assert (E : bytes_cmp a a = Eq) by (apply bytes_cmp_eq; reflexivity). rewrite E. reflexivity. Qed.

  Lemma assoc_first_insert {A} k k1 (v1 : A) l :
    assoc_first k (insert_member (k1, v1) l) = if bytes_eqb k k1 then Some v1 else assoc_first k l.
  Proof.
    induction l as [|[k2 v2] l IH]; [reflexivity|]. cbn [insert_member fst].
    destruct (bytes_leb k1 k2) eqn:El; [reflexivity|].
    cbn [assoc_first]. rewrite IH.
    destruct (bytes_eqb k k2) eqn:E2; [|reflexivity].
    destruct (bytes_eqb k k1) eqn:E1; [|reflexivity].
    apply bytes_eqb_eq in E1. apply bytes_eqb_eq in E2. subst k1 k2. rewrite bytes_leb_refl in El. discriminate.
  Qed.

  Lemma assoc_first_sort {A} k (l : list (bytes * A)) : assoc_first k (sort_members l) = assoc_first k l.
  Proof.
    induction l as [|[k1 v1] l IH]; [reflexivity|].
    change (sort_members ((k1, v1) :: l)) with (insert_member (k1, v1) (sort_members l)).
    rewrite assoc_first_insert, IH. reflexivity.
  Qed.

  Lemma assoc_first_on_snd {A B} (f : A -> B) k (m : list (bytes * A)) :
    assoc_first k (map (on_snd f) m) = option_map f (assoc_first k m).
  Proof.
    induction m as [|[k1 v1] m IH]; [reflexivity|]. cbn [map on_snd fst snd assoc_first].
    destruct (bytes_eqb k k1); [reflexivity|exact IH].
  Qed.

  Lemma jget_normalise k m : jget k (normalise (JObj m)) = option_map normalise (assoc_first k m).
  Proof. cbn [normalise jget]. rewrite assoc_first_sort. apply assoc_first_on_snd. Qed.

  Lemma assoc_first_filter_keep k (q : bytes * json -> bool) m :
    (forall v, q (k, v) = true) -> assoc_first k (filter q m) = assoc_first k m.
  Proof.
    intro Hq. induction m as [|[k1 v1] m IH]; [reflexivity|]. cbn [filter].
    destruct (q (k1, v1)) eqn:E; cbn [assoc_first].
    - destruct (bytes_eqb k k1); [reflexivity|exact IH].
    - destruct (bytes_eqb k k1) eqn:Ek; [|exact IH]. apply bytes_eqb_eq in Ek. subst k1. rewrite Hq in E. discriminate.
  Qed.

  (* members of the hashed object *)
  Lemma hashed_member k m :
    k <> k_signatures -> k <> k_unsigned -> k <> k_hashes ->
    jget k (normalise (content_hash_json (JObj m))) = option_map normalise (assoc_first k m).
  Proof.
    intros H1 H2 H3. rewrite content_hash_json_filter, jget_normalise. f_equal.
    apply assoc_first_filter_keep. intro v. unfold keyis. cbn [fst].
    rewrite (neq_eqb _ _ (not_eq_sym H1)), (neq_eqb _ _ (not_eq_sym H2)), (neq_eqb _ _ (not_eq_sym H3)). reflexivity.
  Qed.

  Lemma normalise_strs l : map normalise (map JStr l) = map JStr l.
  Proof. induction l as [|x l IH]; [reflexivity|]. simpl. rewrite IH. reflexivity. Qed.

  Lemma map_JStr_inj l l' : map JStr l = map JStr l' -> l = l'.
  Proof.
    revert l'. induction l as [|x l IH]; intros [|y l'] E; try discriminate; [reflexivity|].
    simpl in E. inversion E. f_equal. apply IH. assumption.
  Qed.

  Lemma print_int_inj z z' : print_int z = print_int z' -> z = z'.
  Proof.
    intro E. pose proof (num_int_print_int z) as A. rewrite E, num_int_print_int in A. inversion A. reflexivity.
  Qed.

  Lemma normalise_int z : normalise (jnum_of_Z z) = jnum_of_Z z.
  Proof. unfold jnum_of_Z. cbn [normalise]. unfold print_number. rewrite num_int_print_int. reflexivity. Qed.

  (* two marshalled structs whose hashed objects are the same value describe the same event *)
  Theorem hashed_object_determines_fields ver p1 eid1 ts1 o1 p2 eid2 ts2 o2 :
    event_format ver = 2 ->
    jequiv (content_hash_json (JObj (build_members ver p1 eid1 ts1 o1)))
           (content_hash_json (JObj (build_members ver p2 eid2 ts2 o2))) ->
    p_sender p1 = p_sender p2 /\ p_type p1 = p_type p2 /\ p_room p1 = p_room p2 /\
    p_skey p1 = p_skey p2 /\ p_redacts p1 = p_redacts p2 /\ p_depth p1 = p_depth p2 /\
    ts1 = ts2 /\ o1 = o2 /\ jequiv (p_content p1) (p_content p2) /\
    ids_of (p_prev p1) = ids_of (p_prev p2) /\ ids_of (p_auth p1) = ids_of (p_auth p2).
  Proof.
    intros Hf E. unfold jequiv in E.
    assert (G : forall k, k <> k_signatures -> k <> k_unsigned -> k <> k_hashes ->
               option_map normalise (assoc_first k (build_members ver p1 eid1 ts1 o1)) =
               option_map normalise (assoc_first k (build_members ver p2 eid2 ts2 o2))).
    { intros k H1 H2 H3. rewrite <- !hashed_member by assumption. rewrite E. reflexivity. }
    destruct (bm_lookup ver p1 eid1 ts1 o1) as (A1 & A2 & A3 & A4 & A5 & A6 & A7 & A8 & A9 & A10 & _ & _ & _ & _ & A15).
    destruct (bm_lookup ver p2 eid2 ts2 o2) as (B1 & B2 & B3 & B4 & B5 & B6 & B7 & B8 & B9 & B10 & _ & _ & _ & _ & B15).
    pose proof (G (bs "sender") ltac:(intro X; discriminate X) ltac:(intro X; discriminate X) ltac:(intro X; discriminate X)) as G1.
    pose proof (G (bs "type") ltac:(intro X; discriminate X) ltac:(intro X; discriminate X) ltac:(intro X; discriminate X)) as G2.
    pose proof (G (bs "room_id") ltac:(intro X; discriminate X) ltac:(intro X; discriminate X) ltac:(intro X; discriminate X)) as G3.
    pose proof (G (bs "state_key") ltac:(intro X; discriminate X) ltac:(intro X; discriminate X) ltac:(intro X; discriminate X)) as G4.
    pose proof (G (bs "redacts") ltac:(intro X; discriminate X) ltac:(intro X; discriminate X) ltac:(intro X; discriminate X)) as G5.
    pose proof (G (bs "depth") ltac:(intro X; discriminate X) ltac:(intro X; discriminate X) ltac:(intro X; discriminate X)) as G6.
    pose proof (G (bs "origin_server_ts") ltac:(intro X; discriminate X) ltac:(intro X; discriminate X) ltac:(intro X; discriminate X)) as G7.
    pose proof (G (bs "content") ltac:(intro X; discriminate X) ltac:(intro X; discriminate X) ltac:(intro X; discriminate X)) as G8.
    pose proof (G (bs "prev_events") ltac:(intro X; discriminate X) ltac:(intro X; discriminate X) ltac:(intro X; discriminate X)) as G9.
    pose proof (G (bs "auth_events") ltac:(intro X; discriminate X) ltac:(intro X; discriminate X) ltac:(intro X; discriminate X)) as G10.
    pose proof (G (bs "origin") ltac:(intro X; discriminate X) ltac:(intro X; discriminate X) ltac:(intro X; discriminate X)) as G15.
    rewrite A1, B1 in G1. rewrite A2, B2 in G2. rewrite A3, B3 in G3. rewrite A4, B4 in G4. rewrite A5, B5 in G5.
    rewrite A6, B6 in G6. rewrite A7, B7 in G7. rewrite A8, B8 in G8. rewrite A9, B9 in G9. rewrite A10, B10 in G10.
    rewrite A15, B15 in G15. rewrite Hf, !refs_json_v2 in G9, G10.
    cbn [option_map normalise] in G1, G2, G15. cbn [option_map] in G6, G7, G8. rewrite !normalise_int in G6, G7.
    split; [inversion G1; reflexivity|]. split; [inversion G2; reflexivity|].
    split; [destruct (p_room p1), (p_room p2); cbn in G3; try discriminate; inversion G3; reflexivity|].
    split; [destruct (p_skey p1), (p_skey p2); cbn in G4; try discriminate; inversion G4; reflexivity|].
    split; [destruct (p_redacts p1), (p_redacts p2); cbn in G5; try discriminate; inversion G5; reflexivity|].
    split; [inversion G6 as [X]; apply print_int_inj; exact X|].
    split; [inversion G7 as [X]; apply print_int_inj; exact X|].
    split; [inversion G15; reflexivity|].
    split; [unfold jequiv; injection G8 as X; exact X|].
    split.
    - destruct (ids_of (p_prev p1)), (ids_of (p_prev p2)); cbn [option_map normalise] in G9; try discriminate; [|reflexivity].
      rewrite !normalise_strs in G9. inversion G9 as [X]. f_equal. apply map_JStr_inj. exact X.
    - destruct (ids_of (p_auth p1)), (ids_of (p_auth p2)); cbn [option_map normalise] in G10; try discriminate; [|reflexivity].
      rewrite !normalise_strs in G10. inversion G10 as [X]. f_equal. apply map_JStr_inj. exact X.
  Qed.

  (* equal IDs force equal content hashes, hence (collision-free H) the same hashed object.
     Premises named here and not yet discharged from C05's model: the two reference objects are
     well-formed JSON values and still carry the events' hashes member. *)
  Theorem equal_ids_equal_hashed_objects ver p1 eid1 ts1 o1 e1 p2 eid2 ts2 o2 e2 r1 r2 :
    (forall x y, H x = H y -> x = y) -> hash_bytes H ->
    built H ver p1 eid1 ts1 o1 e1 -> built H ver p2 eid2 ts2 o2 e2 -> class_trusted ver <> 1 ->
    reference_json ver (e_json e1) = Some r1 -> reference_json ver (e_json e2) = Some r2 ->
    json_wf r1 -> json_wf r2 ->
    jget k_hashes r1 = jget k_hashes (e_json e1) -> jget k_hashes r2 = jget k_hashes (e_json e2) ->
    json_wf (JObj (build_members ver p1 eid1 ts1 o1)) -> json_wf (JObj (build_members ver p2 eid2 ts2 o2)) ->
    event_id H e1 = event_id H e2 ->
    jequiv (content_hash_json (JObj (build_members ver p1 eid1 ts1 o1)))
           (content_hash_json (JObj (build_members ver p2 eid2 ts2 o2))).
  Proof.
    intros Hinj HB B1 B2 Hc R1 R2 W1 W2 K1 K2 Wm1 Wm2 Eid.
    destruct (shape_facts ver (b_known _ _ _ _ _ _ _ B1)) as (_ & _ & _ & _ & Hc2 & _).
    destruct (Hc2 Hc) as [Hf Hi].
    destruct (built_fields _ _ _ _ _ _ B1) as (_ & _ & _ & _ & _ & _ & _ & _ & _ & Hraw1).
    destruct (built_fields _ _ _ _ _ _ B2) as (_ & _ & _ & _ & _ & _ & _ & _ & _ & Hraw2).
    (* the IDs are the encoded hashes of the printed reference objects *)
    assert (Ei : forall e r, e_ver e = ver -> e_class e = class_trusted ver -> e_idraw e = [] ->
                  reference_json ver (e_json e) = Some r ->
                  event_id H e = 36 :: b64_encode (id_format ver =? 3) (H (canon_print r))).
    { intros e r Hv Hcl Hr HR. unfold event_id. rewrite Hcl. apply N.eqb_neq in Hc. rewrite Hc, Hr, Hv.
      unfold reference_id, reference_pre. rewrite HR. cbn [option_map]. rewrite Hf. cbn [N.eqb Pos.eqb].
      destruct Hi as [Hi|Hi]; rewrite Hi; reflexivity. }
    rewrite (Ei e1 r1 (b_ver _ _ _ _ _ _ _ B1) (b_class _ _ _ _ _ _ _ B1) (Hraw1 Hc) R1) in Eid.
    rewrite (Ei e2 r2 (b_ver _ _ _ _ _ _ _ B2) (b_class _ _ _ _ _ _ _ B2) (Hraw2 Hc) R2) in Eid.
    inversion Eid as [Eb]. apply b64_encode_injective in Eb; [|apply HB|apply HB].
    apply Hinj in Eb. apply canon_print_injective in Eb; [|exact W1|exact W2].
    (* hence the same hashes member *)
    assert (Eh : jget k_hashes (normalise r1) = jget k_hashes (normalise r2)) by (rewrite Eb; reflexivity).
    assert (Hh : forall ver p eid ts o e r, built H ver p eid ts o e -> jget k_hashes r = jget k_hashes (e_json e) ->
                   (exists m, r = JObj m) ->
                   jget k_hashes (normalise r) = Some (hashes_value H (JObj (build_members ver p eid ts o)))).
    { intros ver0 p eid ts o e r B K [m ->]. rewrite jget_normalise. change (assoc_first k_hashes m) with (jget k_hashes (JObj m)).
      rewrite K. destruct (b_members _ _ _ _ _ _ _ B) as [s Ej]. rewrite Ej.
      rewrite jget_jset_other by (intro X; discriminate X). unfold j0_of, add_hashes. rewrite jget_jset_same.
      reflexivity. }
    assert (O1 : exists m, r1 = JObj m).
    { destruct r1 as [| | | | |m]; [| | | | |eexists; reflexivity]; exfalso; cbn in K1;
        destruct (b_members _ _ _ _ _ _ _ B1) as [sg Ej]; rewrite Ej in K1;
        rewrite jget_jset_other in K1 by (intro X; discriminate X); unfold j0_of, add_hashes in K1;
        rewrite jget_jset_same in K1; discriminate. }
    assert (O2 : exists m, r2 = JObj m).
    { destruct r2 as [| | | | |m]; [| | | | |eexists; reflexivity]; exfalso; cbn in K2;
        destruct (b_members _ _ _ _ _ _ _ B2) as [sg Ej]; rewrite Ej in K2;
        rewrite jget_jset_other in K2 by (intro X; discriminate X); unfold j0_of, add_hashes in K2;
        rewrite jget_jset_same in K2; discriminate. }
    rewrite (Hh _ _ _ _ _ _ _ B1 K1 O1), (Hh _ _ _ _ _ _ _ B2 K2 O2) in Eh.
    unfold hashes_value in Eh. inversion Eh as [Es].
    apply b64_encode_injective in Es; [|apply HB|apply HB]. apply Hinj in Es.
    unfold content_hash_pre in Es. apply canon_print_injective in Es; [exact Es| |].
    - apply wf_content_hash_json. exact Wm1.
    - apply wf_content_hash_json. exact Wm2.
  Qed.
End Id.
