(* Proofs for C03, part 4: the reference object of a built event is a well-formed JSON value that
   still carries the event's hashes member (from C05's redact_members_exact); hence, with a
   collision-free hash, different events get different IDs. *)
From Verif Require Import Lib.Bytes Json.Ast Json.Print Json.Render Json.NumFacts Json.CanonFacts Gen.GenVersions.
From Verif Require Import Event.Redact Event.RedactSpec Event.RedactTables Event.RedactProofs.
From Verif Require Import Event.ModelC03 Event.B64FactsC03 Event.RedactFactsC03 Event.ProofsC03
  Event.BuildMembersC03 Event.ProofsBuildC03 Event.ProofsIdC03.
Open Scope N_scope.

Definition wfm (kv : bytes * json) : Prop := json_wf (snd kv).

(* ---------- well-formedness through the interface{} round trip ---------- *)
Lemma assoc_set_wf k v l : json_wf v -> Forall wfm l -> Forall wfm (assoc_set k v l).
Proof.
  intros Hv. induction l as [|[k' v'] l IH]; intro Hl; simpl.
  - repeat constructor. exact Hv.
  - inversion Hl as [|? ? Hx Hl']; subst. destruct (bytes_eqb k k'); constructor; auto.
Qed.

Lemma fold_set_wf l : forall acc, Forall wfm acc -> Forall wfm l -> Forall wfm (fold_left set_member l acc).
Proof.
  induction l as [|x l IH]; intros acc Ha Hl; [exact Ha|]. simpl. inversion Hl; subst.
  apply IH; [|assumption]. unfold set_member. apply assoc_set_wf; assumption.
Qed.

Lemma norm_value_wf j : json_wf j -> json_wf (norm_value j).
Proof.
  induction j as [| b | r | s | l IH | m IH] using json_ind'; intro W; try exact W; try exact I.
  - change (norm_value (JArr l)) with (JArr (map norm_value l)).
    apply json_wf_arr. apply json_wf_arr in W. induction IH as [|x l Hx _ IHl]; [constructor|].
    inversion W; subst. constructor; auto.
  - rewrite norm_obj_eq. apply json_wf_obj. apply json_wf_obj in W.
    unfold dedupe. apply fold_set_wf; [constructor|]. unfold norm_members.
    induction IH as [|x m Hx _ IHm]; [constructor|]. inversion W; subst. constructor; auto.
    unfold wfm. simpl. apply Hx. assumption.
Qed.

Lemma decoded_content_wf m c : (forall v, assoc_first content_key m = Some v -> json_wf v) ->
  decoded_content m = Some c -> Forall wfm c.
Proof.
  unfold decoded_content. intros Hm E.
  destruct (assoc_first content_key m) as [[| | | | |cm]|] eqn:Ec; try discriminate. inversion E; subst c.
  specialize (Hm _ eq_refl). apply json_wf_obj in Hm. unfold dedupe. apply fold_set_wf; [constructor|].
  unfold norm_members. clear - Hm. induction Hm as [|x l Hx _ IH]; [constructor|]. constructor; [|exact IH].
  unfold wfm. simpl. apply norm_value_wf. exact Hx.
Qed.

Lemma kept_content_wf a ty c0 : (forall c, c0 = Some c -> Forall wfm c) ->
  json_wf (content_json (kept_content a ty c0)).
Proof.
  intro Hc. unfold kept_content.
  destruct (assoc_first ty (a_content a)) as [[|k ks]|].
  - destruct c0 as [c|]; [|exact I]. cbn [content_json]. apply json_wf_obj. apply Hc. reflexivity.
  - cbn [content_json]. apply json_wf_obj. destruct c0 as [c|]; [|constructor].
    specialize (Hc c eq_refl). induction Hc as [|x l Hx _ IH]; simpl; [constructor|].
    destruct (keeps (k :: ks) x); [constructor; assumption|exact IH].
  - exact I.
Qed.

(* ---------- the marshalled struct is well-formed ---------- *)
Lemma refs_json_wf fmt l : json_wf (refs_json fmt l).
Proof.
  unfold refs_json. destruct (fmt =? 1).
  - destruct l as [| |l]; try (apply json_wf_arr; constructor).
    apply json_wf_arr. induction l as [|x l IH]; [constructor|]. constructor; [|exact IH].
    unfold ref_v1. apply json_wf_arr. repeat constructor.
  - destruct l as [| |l]; try exact I; try (apply json_wf_arr; constructor).
    apply json_wf_arr. induction l as [|x l IH]; constructor; [exact I|exact IH].
Qed.

Definition proto_wf (p : proto) : Prop :=
  json_wf (p_content p) /\
  match p_sigs p with Some s => json_wf s | None => True end /\
  match p_unsigned p with Some u => json_wf u | None => True end.

Lemma bm_wf ver p eid ts origin : proto_wf p -> Forall wfm (build_members ver p eid ts origin).
Proof.
  intros (Wc & Ws & Wu). unfold build_members.
  repeat (apply Forall_app; split); unfold wfm;
    try (destruct (p_room p); repeat constructor; fail);
    try (destruct (p_redacts p); repeat constructor; fail);
    try (destruct (p_skey p); repeat constructor; fail);
    try (destruct (p_sigs p); repeat constructor; assumption);
    try (destruct (p_unsigned p); repeat constructor; assumption);
    try (destruct (event_format ver =? 2); repeat constructor; fail);
    repeat constructor; simpl; try apply refs_json_wf; try apply print_int_wf; try assumption.
Qed.

Lemma bm_nodup ver p eid ts origin : NoDup (keys_of (build_members ver p eid ts origin)).
Proof.
  apply nodup_b_NoDup. unfold build_members, k_signatures, k_unsigned, keys_of.
  destruct (p_room p), (p_skey p), (p_redacts p), (p_sigs p), (p_unsigned p), (event_format ver =? 2);
    vm_compute; reflexivity.
Qed.

(* ---------- the struct of kept fields, for every version (computed) ---------- *)
Definition key_exact_b (fs : list field) (k : bytes) : bool :=
  match find_field fs (utf8_sanitize k) with None => true | Some f => bytes_eqb (fname f) k end.
Definition has_raw (fs : list field) (k : bytes) : bool :=
  existsb (fun f => bytes_eqb (fname f) k && match fkind_of f with FRaw => true | _ => false end) fs.
Definition struct_facts (ver : bytes) : bool :=
  match algo_of_version ver with
  | Some a => forallb (key_exact_b (a_fields a)) all_keys && has_raw (a_fields a) k_hashes
  | None => true
  end.
Lemma all_struct_facts : forallb struct_facts versions = true.
Proof. vm_compute. reflexivity. Qed.

Lemma struct_facts_of ver a : algo_of_version ver = Some a ->
  (forall k, In k all_keys -> key_exact (a_fields a) k) /\
  exists f, In f (a_fields a) /\ fname f = k_hashes /\ fkind_of f = FRaw.
Proof.
  intro Ha. pose proof all_struct_facts as Hall. rewrite forallb_forall in Hall.
  specialize (Hall ver (algo_of_version_in ver a Ha)). unfold struct_facts in Hall. rewrite Ha in Hall.
  apply andb_true_iff in Hall as [H1 H2]. split.
  - intros k Hk. rewrite forallb_forall in H1. specialize (H1 k Hk). unfold key_exact_b in H1. unfold key_exact.
    destruct (find_field (a_fields a) (utf8_sanitize k)); [apply bytes_eqb_eq; exact H1|exact I].
  - unfold has_raw in H2. apply existsb_exists in H2 as (f & Hf & Hb). apply andb_true_iff in Hb as [Hn Hk].
    exists f. split; [exact Hf|]. split; [apply bytes_eqb_eq; exact Hn|]. destruct (fkind_of f); try discriminate. reflexivity.
Qed.

Section Inj.
  Variable H : bytes -> bytes.
  Variable sgn : bytes -> bytes -> bytes -> bytes.

  (* the reference object of a built event *)
  Theorem built_reference ver p eid ts origin e c :
    built H ver p eid ts origin e -> p_content p = JObj c -> proto_wf p ->
    exists r, reference_json ver (e_json e) = Some r /\ json_wf r /\
              jget k_hashes r = jget k_hashes (e_json e).
  Proof.
    intros B Hco Wp. destruct (b_members _ _ _ _ _ _ _ B) as [s Ej]. rewrite Ej, built_obj.
    set (bm := bm_of ver p eid ts origin). set (hv := hashes_value H (JObj bm)).
    set (M := assoc_set k_signatures s (assoc_set k_hashes hv bm)).
    destruct (b_pre _ _ _ _ _ _ _ B) as [pre Hpre]. unfold reference_pre, reference_json, redact in Hpre.
    destruct (algo_of_version ver) as [a|] eqn:Ha; [|discriminate]. clear Hpre pre.
    pose proof (algo_of_version_ok ver a Ha) as Hok.
    destruct (struct_facts_of ver a Ha) as [Hex (fh & Hfh & Nfh & Kfh)].
    destruct (bm_lookup ver p eid ts origin) as (_ & L2 & _ & _ & _ & _ & _ & L8 & _).
    assert (Gm : forall k, k <> k_signatures -> k <> k_hashes -> assoc_first k M = assoc_first k bm).
    { intros k H1 H2. unfold M. rewrite !assoc_first_set, (neq_eqb _ _ H1), (neq_eqb _ _ H2). reflexivity. }
    assert (Hexact : exact_keys a M).
    { split.
      - unfold M. apply assoc_set_nodup. apply assoc_set_nodup. apply bm_nodup.
      - apply Forall_forall. intros [k v] Hin. simpl. apply Hex.
        apply (built_keys' ver p eid ts origin s hv). apply in_map_iff. exists (k, v). split; [reflexivity|exact Hin]. }
    assert (Hty : type_ok M).
    { unfold type_ok, type_key. rewrite Gm by (intro X; discriminate X). unfold bm, bm_of. rewrite L2. exact I. }
    assert (Hct : content_ok M).
    { unfold content_ok, content_key. rewrite Gm by (intro X; discriminate X). unfold bm, bm_of. rewrite L8, Hco. exact I. }
    destruct (redact_members_exact a M Hok Hexact Hty Hct) as (out & Hr & Hnd & Hkeys & Hraw & Hot & Hoc).
    destruct (algo_ok_facts a Hok) as (Hfnd & Hfok & _ & _).
    exists (jdel k_unsigned (jdel k_signatures (JObj out))).
    assert (Wbm : Forall wfm bm) by (apply bm_wf; exact Wp).
    assert (WM : forall k' v', assoc_first k' M = Some v' -> k' <> k_signatures -> json_wf v').
    { intros k' v' E Hns. destruct (bytes_eqb k' k_hashes) eqn:Eh.
      - apply bytes_eqb_eq in Eh. subst k'. unfold M in E. rewrite assoc_first_set in E.
        change (bytes_eqb k_hashes k_signatures) with false in E. rewrite assoc_first_set, bytes_eqb_refl in E.
        inversion E. unfold hv, hashes_value. apply json_wf_obj. repeat constructor.
      - apply bytes_eqb_neq in Eh. rewrite Gm in E by assumption. apply assoc_first_some_in in E.
        rewrite Forall_forall in Wbm. exact (Wbm _ E). }
    split; [|split].
    - unfold reference_json, redact. rewrite Ha. unfold redact_alg, redact_alg_outcome. rewrite Hr. reflexivity.
    - (* well-formed *)
      rewrite !jdel_obj, filter_filter'. apply json_wf_obj. apply Forall_forall.
      intros [k v] Hin. apply filter_In in Hin as [Hin Hq]. simpl.
      apply andb_true_iff in Hq as [Hq _]. unfold keyis in Hq. cbn [fst] in Hq.
      apply negb_true_iff, bytes_eqb_neq in Hq.
      assert (Hk : In k (keys_of out)) by (apply in_map_iff; exists (k, v); split; [reflexivity|exact Hin]).
      pose proof (in_assoc_first k v out Hnd Hin) as Hlook.
      apply Hkeys in Hk. apply in_map_iff in Hk as (f & Ef & Hf). subst k.
      pose proof (Hfok f Hf) as Hfo. unfold field_ok in Hfo. apply andb_true_iff in Hfo as [_ Hfo].
      destruct (fkind_of f) eqn:Ek.
      + rewrite (Hraw f Hf Ek) in Hlook. apply (WM _ _ Hlook). intro X. apply Hq. symmetry. exact X.
      + apply andb_true_iff in Hfo as [_ Hn]. apply bytes_eqb_eq in Hn. rewrite Hn, Hot in Hlook. inversion Hlook. exact I.
      + apply andb_true_iff in Hfo as [_ Hn]. apply bytes_eqb_eq in Hn. rewrite Hn, Hoc in Hlook. inversion Hlook.
        apply kept_content_wf. intros c0 Ec. eapply decoded_content_wf; [|exact Ec].
        intros v0 Ev. apply (WM _ _ Ev). intro X. discriminate X.
      + discriminate.
    - rewrite jget_jdel_other by (intro X; discriminate X). rewrite jget_jdel_other by (intro X; discriminate X).
      cbn [jget]. rewrite <- Nfh. apply Hraw; assumption.
  Qed.

  (* different events, different IDs: with a collision-free hash, two built events (hash-derived
     ID formats) with the same ID come from proto-events that agree in every field other than
     unsigned and signatures, and from the same timestamp and origin *)
  Theorem built_event_id_injective ver p1 eid1 ts1 o1 e1 c1 p2 eid2 ts2 o2 e2 c2 :
    (forall x y, H x = H y -> x = y) -> hash_bytes H ->
    built H ver p1 eid1 ts1 o1 e1 -> built H ver p2 eid2 ts2 o2 e2 -> class_trusted ver <> 1 ->
    p_content p1 = JObj c1 -> p_content p2 = JObj c2 -> proto_wf p1 -> proto_wf p2 ->
    event_id H e1 = event_id H e2 ->
    p_sender p1 = p_sender p2 /\ p_type p1 = p_type p2 /\ p_room p1 = p_room p2 /\
    p_skey p1 = p_skey p2 /\ p_redacts p1 = p_redacts p2 /\ p_depth p1 = p_depth p2 /\
    ts1 = ts2 /\ o1 = o2 /\ jequiv (p_content p1) (p_content p2) /\
    ids_of (p_prev p1) = ids_of (p_prev p2) /\ ids_of (p_auth p1) = ids_of (p_auth p2).
  Proof.
    intros Hinj HB B1 B2 Hc C1 C2 W1 W2 E.
    destruct (built_reference _ _ _ _ _ _ _ B1 C1 W1) as (r1 & R1 & Wr1 & K1).
    destruct (built_reference _ _ _ _ _ _ _ B2 C2 W2) as (r2 & R2 & Wr2 & K2).
    destruct (shape_facts ver (b_known _ _ _ _ _ _ _ B1)) as (_ & _ & _ & _ & Hc2 & _). destruct (Hc2 Hc) as [Hf _].
    apply (hashed_object_determines_fields ver p1 eid1 ts1 o1 p2 eid2 ts2 o2 Hf).
    apply (equal_ids_equal_hashed_objects H ver p1 eid1 ts1 o1 e1 p2 eid2 ts2 o2 e2 r1 r2 Hinj HB B1 B2 Hc R1 R2 Wr1 Wr2 K1 K2); auto.
    - apply json_wf_obj. apply bm_wf. exact W1.
    - apply json_wf_obj. apply bm_wf. exact W2.
  Qed.
End Inj.
