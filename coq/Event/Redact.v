(* Model of redactevent.go: redactEventJSON and the per-version wiring (model only, no proofs).

   redactEventJSON is json.Unmarshal into a struct of kept fields, a filter on the content map,
   json.Marshal of the struct.  What the model reproduces of encoding/json:
   - the whole input must be valid JSON (the caller parses with Json.Parse first);
     a non-object input is an error;  the literal null is a crash in the library (the pointer is
     set to nil and GetType dereferences it) -- modelled as its own outcome;
   - member -> struct field matching: exact name first, otherwise case-insensitive
     (ASCII case, plus U+017F for s and U+212A for k, as bytes.EqualFold does); unknown keys are
     dropped; with duplicate keys the members are decoded one after the other;
   - spec.RawJSON fields keep the value as it is (also a null); omitempty drops an absent one;
   - the string field: a JSON string sets it, null leaves it, anything else is an error;
   - the content map: an object is merged into the map (duplicates: last wins), null makes the
     map nil, anything else is an error; values go through interface{}: nested objects lose
     duplicate keys (last wins, first position), strings and keys get invalid UTF-8 replaced by
     U+FFFD per byte;  NUMBERS go through float64 -- the model keeps the literal, which is what
     Go prints exactly when the literal is an integer within +-(2^53-1) ([content_numbers_safe]
     is the premise; the run operations refuse other inputs as unmodelled);
   - keep-list lookup by the decoded type; an entry with an empty list keeps the whole map (also
     a nil one, which is then printed as null); otherwise a fresh map with the listed keys;
   - output: fields in struct order with omitempty applied.
   Output key order: struct order at top level, first-occurrence order in maps (Go prints maps
   sorted; every consumer here canonicalises, so the order of distinct keys is immaterial).
   HTML-escaping of json.Marshal disappears on re-parsing and is not represented. *)
From Verif Require Import Lib.Bytes Json.Ast.
From Verif Require Import Gen.GenRedact Gen.GenVersions.
Open Scope N_scope.

(* ---------- UTF-8 replacement as done by encoding/json when it unquotes a string ---------- *)
Definition cont (c : N) : bool := (128 <=? c) && (c <=? 191).
Definition in_rng (lo hi c : N) : bool := (lo <=? c) && (c <=? hi).
Definition repl : bytes := [239; 191; 189].

(* utf8.DecodeRune: one valid sequence is copied, any other first byte becomes U+FFFD and
   decoding resumes at the next byte *)
Fixpoint utf8_sanitize (s : bytes) : bytes :=
  match s with
  | [] => []
  | c0 :: r0 =>
      if c0 <? 128 then c0 :: utf8_sanitize r0
      else
        match r0 with
        | [] => repl
        | c1 :: r1 =>
            if in_rng 194 223 c0 then
              if cont c1 then c0 :: c1 :: utf8_sanitize r1 else repl ++ utf8_sanitize r0
            else if in_rng 224 239 c0 then
              let ok1 := if c0 =? 224 then in_rng 160 191 c1
                         else if c0 =? 237 then in_rng 128 159 c1 else cont c1 in
              match r1 with
              | [] => repl ++ utf8_sanitize r0
              | c2 :: r2 =>
                  if ok1 && cont c2 then c0 :: c1 :: c2 :: utf8_sanitize r2
                  else repl ++ utf8_sanitize r0
              end
            else if in_rng 240 244 c0 then
              let ok1 := if c0 =? 240 then in_rng 144 191 c1
                         else if c0 =? 244 then in_rng 128 143 c1 else cont c1 in
              match r1 with
              | [] => repl ++ utf8_sanitize r0
              | c2 :: r2 =>
                  match r2 with
                  | [] => repl ++ utf8_sanitize r0
                  | c3 :: r3 =>
                      if ok1 && cont c2 && cont c3 then c0 :: c1 :: c2 :: c3 :: utf8_sanitize r3
                      else repl ++ utf8_sanitize r0
                  end
              end
            else repl ++ utf8_sanitize r0
        end
  end.

(* ---------- a value as it comes back from interface{} ---------- *)
Definition set_member (acc : list (bytes * json)) (kv : bytes * json) : list (bytes * json) :=
  assoc_set (fst kv) (snd kv) acc.

(* Go map built by decoding the members in order: last value wins *)
Definition dedupe (m : list (bytes * json)) : list (bytes * json) := fold_left set_member m [].

Fixpoint norm_value (j : json) : json :=
  match j with
  | JNull => JNull
  | JBool b => JBool b
  | JNum raw => JNum raw
  | JStr s => JStr (utf8_sanitize s)
  | JArr l => JArr (map norm_value l)
  | JObj m =>
      JObj (dedupe ((fix go (m : list (bytes * json)) : list (bytes * json) :=
                       match m with
                       | [] => []
                       | (k, v) :: m' => (utf8_sanitize k, norm_value v) :: go m'
                       end) m))
  end.

Definition norm_members (m : list (bytes * json)) : list (bytes * json) :=
  map (fun kv => (utf8_sanitize (fst kv), norm_value (snd kv))) m.

(* premise of faithfulness: number literals that survive float64 unchanged *)
Definition two53 : Z := 9007199254740992%Z.
Definition num_safe (raw : bytes) : bool :=
  match num_int raw with
  | Some z => (Z.ltb (Z.opp two53) z) && (Z.ltb z two53)
  | None => false
  end.

Fixpoint numbers_safe (j : json) : bool :=
  match j with
  | JNum raw => num_safe raw
  | JArr l => forallb numbers_safe l
  | JObj m => (fix go (m : list (bytes * json)) : bool :=
                 match m with [] => true | (_, v) :: m' => numbers_safe v && go m' end) m
  | _ => true
  end.

(* ---------- plain values: what the round trip leaves alone ---------- *)
Fixpoint nodup_keys (seen : list bytes) (m : list (bytes * json)) : bool :=
  match m with
  | [] => true
  | (k, _) :: m' => negb (mem_bytes k seen) && nodup_keys (k :: seen) m'
  end.

(* values the specification can speak about without saying how a parser treats them: unique
   keys, valid UTF-8, integers that every implementation reads alike *)
Fixpoint plain_value (j : json) : bool :=
  match j with
  | JNum raw => num_safe raw
  | JStr s => bytes_eqb (utf8_sanitize s) s
  | JArr l => forallb plain_value l
  | JObj m =>
      nodup_keys [] m &&
      (fix go (m : list (bytes * json)) : bool :=
         match m with
         | [] => true
         | (k, v) :: m' => bytes_eqb (utf8_sanitize k) k && plain_value v && go m'
         end) m
  | _ => true
  end.

(* ---------- the struct of kept fields ---------- *)
Inductive fkind := FRaw | FStr | FMap | FUnknown.
Record field := mkField { fname : bytes; fomit : bool; fkind_of : fkind }.
Record algo := mkAlgo { a_fields : list field; a_content : list (bytes * list bytes) }.

Definition kind_of_gotype (t : bytes) : fkind :=
  if bytes_eqb t (bs "spec.RawJSON") then FRaw
  else if bytes_eqb t (bs "string") then FStr
  else if bytes_eqb t (bs "map[string]interface{}") then FMap
  else FUnknown.

Definition field_of_gen (g : bytes * bool * bytes) : field :=
  let '(n, o, t) := g in mkField n o (kind_of_gotype t).

(* ---------- field-name matching of encoding/json ---------- *)
Fixpoint fold_name (s : bytes) : bytes :=
  match s with
  | [] => []
  | c :: r =>
      if in_rng 97 122 c then (c - 32) :: fold_name r
      else if c <? 128 then c :: fold_name r
      else
        match r with
        | c1 :: r1 =>
            if (c =? 197) && (c1 =? 191) then 83 :: fold_name r1          (* U+017F -> S *)
            else
              match r1 with
              | c2 :: r2 =>
                  if (c =? 226) && (c1 =? 132) && (c2 =? 170) then 75 :: fold_name r2  (* U+212A -> K *)
                  else c :: fold_name r
              | [] => c :: fold_name r
              end
        | [] => [c]
        end
  end.

Definition find_field (fs : list field) (k : bytes) : option field :=
  match find (fun f => bytes_eqb (fname f) k) fs with
  | Some f => Some f
  | None => find (fun f => bytes_eqb (fold_name (fname f)) (fold_name k)) fs
  end.

(* ---------- decoding ---------- *)
Record dstate := mkD {
  d_raw : list (bytes * json);                 (* RawJSON fields that were set, by field name *)
  d_type : bytes;                              (* the string field *)
  d_content : option (list (bytes * json)) }.  (* the map field; None = nil map *)

Definition d_init : dstate := mkD [] [] None.

Definition decode_member (fs : list field) (st : option dstate) (kv : bytes * json) : option dstate :=
  match st with
  | None => None
  | Some d =>
      match find_field fs (utf8_sanitize (fst kv)) with
      | None => Some d
      | Some f =>
          match fkind_of f with
          | FRaw => Some (mkD (assoc_set (fname f) (snd kv) (d_raw d)) (d_type d) (d_content d))
          | FStr =>
              match snd kv with
              | JStr s => Some (mkD (d_raw d) (utf8_sanitize s) (d_content d))
              | JNull => Some d
              | _ => None
              end
          | FMap =>
              match snd kv with
              | JObj m =>
                  let old := match d_content d with Some c => c | None => [] end in
                  Some (mkD (d_raw d) (d_type d) (Some (fold_left set_member (norm_members m) old)))
              | JNull => Some (mkD (d_raw d) (d_type d) None)
              | _ => None
              end
          | FUnknown => None
          end
      end
  end.

Definition decode (fs : list field) (m : list (bytes * json)) : option dstate :=
  fold_left (decode_member fs) m (Some d_init).

(* ---------- the content filter ---------- *)
Definition keeps (ks : list bytes) (kv : bytes * json) : bool := mem_bytes (fst kv) ks.

Definition filter_content (keep : list (bytes * list bytes)) (d : dstate) : option (list (bytes * json)) :=
  match assoc_first (d_type d) keep with
  | Some [] => d_content d                                   (* keep all fields *)
  | Some ks => Some (filter (keeps ks) (match d_content d with Some c => c | None => [] end))
  | None => Some []
  end.

(* ---------- encoding ---------- *)
Definition is_nil {A} (l : list A) : bool := match l with [] => true | _ => false end.

Definition emit_field (d : dstate) (content : option (list (bytes * json))) (f : field)
  : option (list (bytes * json)) :=
  match fkind_of f with
  | FRaw =>
      match assoc_first (fname f) (d_raw d) with
      | Some v => Some [(fname f, v)]
      | None => if fomit f then Some [] else None     (* an empty RawJSON does not marshal *)
      end
  | FStr => if fomit f && is_nil (d_type d) then Some [] else Some [(fname f, JStr (d_type d))]
  | FMap =>
      match content with
      | None => if fomit f then Some [] else Some [(fname f, JNull)]
      | Some c => if fomit f && is_nil c then Some [] else Some [(fname f, JObj c)]
      end
  | FUnknown => None
  end.

Fixpoint emit_fields (d : dstate) (content : option (list (bytes * json))) (fs : list field)
  : option (list (bytes * json)) :=
  match fs with
  | [] => Some []
  | f :: fs' =>
      match emit_field d content f, emit_fields d content fs' with
      | Some a, Some b => Some (a ++ b)
      | _, _ => None
      end
  end.

(* redactEventJSON on a parsed object *)
Definition redact_members (a : algo) (m : list (bytes * json)) : option json :=
  match decode (a_fields a) m with
  | None => None
  | Some d =>
      match emit_fields d (filter_content (a_content a) d) (a_fields a) with
      | Some out => Some (JObj out)
      | None => None
      end
  end.

Inductive outcome := ROk (j : json) | RErr | RCrash.

Definition redact_alg_outcome (a : algo) (j : json) : outcome :=
  match j with
  | JObj m => match redact_members a m with Some r => ROk r | None => RErr end
  | JNull => RCrash
  | _ => RErr
  end.

Definition redact_alg (a : algo) (j : json) : option json :=
  match redact_alg_outcome a j with ROk r => Some r | _ => None end.

(* ---------- wiring: version -> function -> (struct, map), all from the generated tables ---------- *)
Definition redaction_field : bytes := bs "redactionAlgorithm".

Definition redact_fn_of_version (ver : bytes) : option bytes :=
  match assoc_first ver gen_versions with
  | Some fields => assoc_first redaction_field fields
  | None => None
  end.

Definition algo_of_fn (fn : bytes) : option algo :=
  match assoc_first fn gen_redact_wiring with
  | Some (sname, mname) =>
      match assoc_first sname gen_redact_structs, assoc_first mname gen_redact_content_maps with
      | Some fs, Some cm => Some (mkAlgo (map field_of_gen fs) cm)
      | _, _ => None
      end
  | None => None
  end.

Definition algo_of_version (ver : bytes) : option algo :=
  match redact_fn_of_version ver with Some fn => algo_of_fn fn | None => None end.

Definition versions : list bytes := map fst gen_versions.

(* IRoomVersion.RedactEventJSON on a parsed event; None = error (or unknown version) *)
Definition redact (ver : bytes) (j : json) : option json :=
  match algo_of_version ver with Some a => redact_alg a j | None => None end.

Definition redact_outcome (ver : bytes) (j : json) : outcome :=
  match algo_of_version ver with Some a => redact_alg_outcome a j | None => RErr end.

(* the premise under which the model is the code: the numbers of the content *)
Definition content_numbers_safe (j : json) : bool :=
  match j with
  | JObj m => forallb (fun kv => if bytes_eqb (fold_name (fst kv)) (fold_name (bs "content"))
                                  then numbers_safe (snd kv) else true) m
  | _ => true
  end.

(* ---------- what is hashed and what is signed (eventcrypto.go) ---------- *)
(* referenceOfEvent: redact, drop signatures and unsigned, canonical JSON, SHA-256.  The
   canonical printer is applied by the users of this definition (Json.Print.canon_print). *)
Definition reference_json (ver : bytes) (j : json) : option json :=
  match redact ver j with
  | Some r => Some (jdel (bs "unsigned") (jdel (bs "signatures") r))
  | None => None
  end.

(* VerifyEventSignatures hands the redacted event to the verifier, which drops signatures and
   unsigned before checking: the signed object is the same as the reference object *)
Definition signed_json (ver : bytes) (j : json) : option json := reference_json ver j.
