(* What C03 needs of builder C05's redaction model (Event/Redact.v), proved over that model for
   EVERY input: the reference object (redact, drop signatures and unsigned) does not depend on the
   unsigned member, on the signatures member, or on members that no struct field reads.
   Proofs only. *)
From Verif Require Import Lib.Bytes Json.Ast Gen.GenVersions.
From Verif Require Import Event.Redact Event.RedactTables Event.RedactProofs.
Open Scope N_scope.

Definition k_sigs : bytes := bs "signatures".
Definition k_uns : bytes := bs "unsigned".

(* ---------- what the two structs make of the keys in question (computed over all 16 versions) *)
Lemma san_sigs : utf8_sanitize k_sigs = k_sigs.
Proof. vm_compute. reflexivity. Qed.

Definition sig_field_ok (fs : list field) : bool :=
  match find_field fs k_sigs with
  | Some f => bytes_eqb (fname f) k_sigs && match fkind_of f with FRaw => true | _ => false end
  | None => true
  end.
Definition unread (fs : list field) (k : bytes) : bool :=
  match find_field fs (utf8_sanitize k) with Some _ => false | None => true end.

Definition unread_keys : list bytes :=
  [k_uns; bs "outlier"; bs "destinations"; bs "age_ts"; bs "_event_id"; bs "_room_version"].

Definition version_facts (ver : bytes) : bool :=
  match algo_of_version ver with
  | Some a => sig_field_ok (a_fields a) && forallb (unread (a_fields a)) unread_keys
  | None => true
  end.

Lemma all_version_facts : forallb version_facts versions = true.
Proof. vm_compute. reflexivity. Qed.

Lemma version_facts_of ver a : algo_of_version ver = Some a ->
  sig_field_ok (a_fields a) = true /\ forall k, In k unread_keys -> unread (a_fields a) k = true.
Proof.
  intro Ha. pose proof all_version_facts as H. rewrite forallb_forall in H.
  specialize (H ver (algo_of_version_in ver a Ha)). unfold version_facts in H. rewrite Ha in H.
  apply andb_true_iff in H as [H1 H2]. split; [exact H1|]. rewrite forallb_forall in H2. exact H2.
Qed.

(* ---------- members nobody reads ---------- *)
Lemma decode_member_unread fs o k v : unread fs k = true -> decode_member fs o (k, v) = o.
Proof.
  unfold unread, decode_member. simpl. intro H. destruct o as [d|]; [|reflexivity].
  destruct (find_field fs (utf8_sanitize k)); [discriminate|reflexivity].
Qed.

Lemma fold_filter_unread fs (p : bytes * json -> bool) : forall m o,
  (forall kv, In kv m -> p kv = false -> unread fs (fst kv) = true) ->
  fold_left (decode_member fs) (filter p m) o = fold_left (decode_member fs) m o.
Proof.
  induction m as [|[k v] m IH]; intros o Hm; [reflexivity|]. simpl.
  destruct (p (k, v)) eqn:E; simpl.
  - apply IH. intros kv Hin. apply Hm. right. exact Hin.
  - rewrite (decode_member_unread fs o k v (Hm (k, v) (or_introl eq_refl) E)).
    apply IH. intros kv Hin. apply Hm. right. exact Hin.
Qed.

Lemma assoc_set_split {A} k (v : A) : forall l,
  (exists l1 v0 l2, l = l1 ++ (k, v0) :: l2 /\ assoc_set k v l = l1 ++ (k, v) :: l2) \/
  assoc_set k v l = l ++ [(k, v)].
Proof.
  induction l as [|[k' v'] l IH]; simpl; [right; reflexivity|].
  destruct (bytes_eqb k k') eqn:E.
  - apply bytes_eqb_eq in E. subst k'. left. exists [], v', l. split; reflexivity.
  - destruct IH as [(l1 & v0 & l2 & E1 & E2)|E2].
    + left. exists ((k', v') :: l1), v0, l2. rewrite E1 at 1. rewrite E2. split; reflexivity.
    + right. rewrite E2. reflexivity.
Qed.

Lemma decode_set_unread fs k v m : unread fs k = true -> decode fs (assoc_set k v m) = decode fs m.
Proof.
  intro Hk. unfold decode.
  destruct (assoc_set_split k v m) as [(l1 & v0 & l2 & E1 & E2)|E2]; rewrite E2.
  - rewrite E1. rewrite !fold_left_app. simpl. rewrite !decode_member_unread by exact Hk. reflexivity.
  - rewrite fold_left_app. simpl. apply decode_member_unread. exact Hk.
Qed.

(* ---------- states that differ in the signatures field only ---------- *)
Definition Rd (d d' : dstate) : Prop :=
  d_type d = d_type d' /\ d_content d = d_content d' /\
  forall n, n <> k_sigs -> assoc_first n (d_raw d) = assoc_first n (d_raw d').
Definition Ro (o o' : option dstate) : Prop :=
  match o, o' with
  | Some d, Some d' => Rd d d'
  | None, None => True
  | _, _ => False
  end.

Lemma Ro_refl o : Ro o o.
Proof. destruct o as [d|]; simpl; [|exact I]. repeat split; auto. Qed.

Lemma neq_eqb (a b : bytes) : a <> b -> bytes_eqb a b = false.
Proof. intro H. apply bytes_eqb_neq. exact H. Qed.

(* the same member on both sides *)
Lemma step_same fs kv o o' : Ro o o' -> Ro (decode_member fs o kv) (decode_member fs o' kv).
Proof.
  destruct o as [d|], o' as [d'|]; simpl; try tauto.
  intros HR. pose proof HR as (Ht & Hc & Hr).
  destruct (find_field fs (utf8_sanitize (fst kv))) as [f|]; [|exact HR].
  destruct (fkind_of f).
  - simpl. repeat split; auto. intros n Hn. simpl. rewrite !assoc_first_set.
    destruct (bytes_eqb n (fname f)); [reflexivity|apply Hr; exact Hn].
  - destruct (snd kv); simpl; try exact I; [exact HR|]. repeat split; simpl; auto.
  - destruct (snd kv); simpl; try exact I.
    + repeat split; simpl; auto.
    + rewrite Hc. repeat split; simpl; auto.
  - exact I.
Qed.

(* a member that lands in the signatures field, with any two values *)
Lemma decode_member_sigs fs d v : sig_field_ok fs = true ->
  decode_member fs (Some d) (k_sigs, v) = Some d \/
  decode_member fs (Some d) (k_sigs, v) = Some (mkD (assoc_set k_sigs v (d_raw d)) (d_type d) (d_content d)).
Proof.
  unfold sig_field_ok, decode_member. cbn [fst snd]. rewrite san_sigs.
  destruct (find_field fs k_sigs) as [f|]; [|left; reflexivity].
  intro Hs. apply andb_true_iff in Hs as [Hn Hk]. apply bytes_eqb_eq in Hn.
  destruct (fkind_of f); try discriminate. rewrite Hn. right. reflexivity.
Qed.

Lemma Rd_set_left d d' v : Rd d d' -> Rd (mkD (assoc_set k_sigs v (d_raw d)) (d_type d) (d_content d)) d'.
Proof.
  intros (Ht & Hc & Hr). repeat split; auto. intros n Hne. cbn [d_raw].
  rewrite assoc_first_set, (neq_eqb n k_sigs Hne). apply Hr. exact Hne.
Qed.

Lemma Rd_sym d d' : Rd d d' -> Rd d' d.
Proof. intros (Ht & Hc & Hr). repeat split; auto. intros n Hn. symmetry. apply Hr. exact Hn. Qed.

Lemma Rd_trans d1 d2 d3 : Rd d1 d2 -> Rd d2 d3 -> Rd d1 d3.
Proof.
  intros (Ht & Hc & Hr) (Ht' & Hc' & Hr'). repeat split; try congruence.
  intros n Hn. rewrite (Hr n Hn). apply Hr'. exact Hn.
Qed.

Lemma step_sig_left fs k v o o' : sig_field_ok fs = true -> k = k_sigs ->
  Ro o o' -> Ro (decode_member fs o (k, v)) o'.
Proof.
  intros Hs -> HR.
  destruct o as [d|], o' as [d'|]; try (simpl in HR; tauto).
  destruct (decode_member_sigs fs d v Hs) as [E|E]; rewrite E; [exact HR|].
  apply Rd_set_left. exact HR.
Qed.

Lemma Ro_sym o o' : Ro o o' -> Ro o' o.
Proof. destruct o, o'; simpl; auto. apply Rd_sym. Qed.

Lemma Ro_trans o1 o2 o3 : Ro o1 o2 -> Ro o2 o3 -> Ro o1 o3.
Proof. destruct o1, o2, o3; simpl; try tauto. apply Rd_trans. Qed.

Lemma step_sig fs k v v' o o' : sig_field_ok fs = true -> k = k_sigs ->
  Ro o o' -> Ro (decode_member fs o (k, v)) (decode_member fs o' (k, v')).
Proof.
  intros Hs Hk HR.
  apply (Ro_trans _ o'); [apply step_sig_left; auto|].
  apply Ro_sym. apply step_sig_left; auto. apply Ro_refl.
Qed.

Lemma fold_same fs : forall m o o', Ro o o' ->
  Ro (fold_left (decode_member fs) m o) (fold_left (decode_member fs) m o').
Proof.
  induction m as [|kv m IH]; intros o o' HR; [exact HR|]. simpl. apply IH. apply step_same. exact HR.
Qed.

Lemma decode_set_sigs fs v m : sig_field_ok fs = true ->
  Ro (decode fs (assoc_set k_sigs v m)) (decode fs m).
Proof.
  intro Hs. unfold decode.
  destruct (assoc_set_split k_sigs v m) as [(l1 & v0 & l2 & E1 & E2)|E2]; rewrite E2.
  - rewrite E1. rewrite !fold_left_app. simpl. apply fold_same. apply step_sig; auto. apply Ro_refl.
  - rewrite fold_left_app. simpl. apply step_sig_left; auto. apply Ro_refl.
Qed.

(* ---------- the encoder on such states ---------- *)
Definition nosig (l : list (bytes * json)) : list (bytes * json) :=
  filter (fun kv => negb (bytes_eqb k_sigs (fst kv))) l.

Lemma nosig_app a b : nosig (a ++ b) = nosig a ++ nosig b.
Proof. unfold nosig. apply filter_app. Qed.

Lemma emit_field_R d d' c f : Rd d d' -> field_ok f = true ->
  option_map nosig (emit_field d c f) = option_map nosig (emit_field d' c f).
Proof.
  intros (Ht & Hc & Hr) Hf. unfold field_ok in Hf. apply andb_true_iff in Hf as [_ Hf].
  unfold emit_field. destruct (fkind_of f) eqn:Ek.
  - rewrite Hf.
    destruct (bytes_eqb (fname f) k_sigs) eqn:E.
    + apply bytes_eqb_eq in E. rewrite E.
      destruct (assoc_first k_sigs (d_raw d)), (assoc_first k_sigs (d_raw d')); simpl;
        rewrite ?bytes_eqb_refl; reflexivity.
    + apply bytes_eqb_neq in E. rewrite (Hr (fname f) E). reflexivity.
  - rewrite Ht. reflexivity.
  - reflexivity.
  - reflexivity.
Qed.

Lemma emit_fields_R d d' c : forall fs, Rd d d' -> (forall f, In f fs -> field_ok f = true) ->
  option_map nosig (emit_fields d c fs) = option_map nosig (emit_fields d' c fs).
Proof.
  induction fs as [|f fs IH]; intros HR Hok; [reflexivity|]. simpl.
  pose proof (emit_field_R d d' c f HR (Hok f (or_introl eq_refl))) as E1.
  pose proof (IH HR (fun g Hg => Hok g (or_intror Hg))) as E2.
  destruct (emit_field d c f) as [a|], (emit_field d' c f) as [a'|]; simpl in E1; try discriminate;
    destruct (emit_fields d c fs) as [b|], (emit_fields d' c fs) as [b'|]; simpl in E2; try discriminate;
    simpl; try reflexivity.
  inversion E1. inversion E2. rewrite !nosig_app. congruence.
Qed.

Lemma filter_content_R keep d d' : Rd d d' -> filter_content keep d = filter_content keep d'.
Proof. intros (Ht & Hc & _). unfold filter_content. rewrite Ht, Hc. reflexivity. Qed.

(* ---------- redaction ---------- *)
Definition del_sigs (o : option json) : option json := option_map (jdel k_sigs) o.

Lemma redact_members_set_sigs a v m : algo_ok a = true -> sig_field_ok (a_fields a) = true ->
  del_sigs (redact_members a (assoc_set k_sigs v m)) = del_sigs (redact_members a m).
Proof.
  intros Hok Hs. destruct (algo_ok_facts a Hok) as (_ & Hf & _).
  pose proof (decode_set_sigs (a_fields a) v m Hs) as HR.
  unfold redact_members.
  destruct (decode (a_fields a) (assoc_set k_sigs v m)) as [d|], (decode (a_fields a) m) as [d'|];
    simpl in HR; try tauto; try reflexivity.
  rewrite (filter_content_R (a_content a) d d' HR).
  pose proof (emit_fields_R d d' (filter_content (a_content a) d') (a_fields a) HR Hf) as E.
  destruct (emit_fields d _ (a_fields a)) as [o|], (emit_fields d' _ (a_fields a)) as [o'|];
    simpl in E; try discriminate; try reflexivity.
  inversion E as [E']. unfold del_sigs, option_map, jdel. unfold nosig in E'. rewrite E'. reflexivity.
Qed.

Lemma redact_alg_set_sigs a v m : algo_ok a = true -> sig_field_ok (a_fields a) = true ->
  del_sigs (redact_alg a (JObj (assoc_set k_sigs v m))) = del_sigs (redact_alg a (JObj m)).
Proof.
  intros Hok Hs. pose proof (redact_members_set_sigs a v m Hok Hs) as E.
  unfold redact_alg, redact_alg_outcome.
  destruct (redact_members a (assoc_set k_sigs v m)), (redact_members a m); exact E.
Qed.

Theorem reference_ignores_signatures ver v j :
  reference_json ver (jset k_sigs v j) = reference_json ver j.
Proof.
  destruct j as [| | | | |m]; try reflexivity.
  unfold reference_json, redact. destruct (algo_of_version ver) as [a|] eqn:Ha; [|reflexivity].
  destruct (version_facts_of ver a Ha) as [Hs _]. pose proof (algo_of_version_ok ver a Ha) as Hok.
  pose proof (redact_alg_set_sigs a v m Hok Hs) as E.
  change (jset k_sigs v (JObj m)) with (JObj (assoc_set k_sigs v m)).
  destruct (redact_alg a (JObj (assoc_set k_sigs v m))) as [r|], (redact_alg a (JObj m)) as [r'|];
    simpl in E; try discriminate; try reflexivity.
  inversion E as [E']. change (bs "signatures") with k_sigs. rewrite E'. reflexivity.
Qed.

Lemma redact_members_set_unread a k v m : unread (a_fields a) k = true ->
  redact_members a (assoc_set k v m) = redact_members a m.
Proof. intro Hk. unfold redact_members. rewrite (decode_set_unread _ k v m Hk). reflexivity. Qed.

Lemma redact_members_del_unread a k m : unread (a_fields a) k = true ->
  redact_members a (filter (fun kv => negb (bytes_eqb k (fst kv))) m) = redact_members a m.
Proof.
  intro Hk. unfold redact_members, decode. rewrite fold_filter_unread; [reflexivity|].
  intros kv _ E. apply negb_false_iff, bytes_eqb_eq in E. subst k. exact Hk.
Qed.

(* redaction does not read the keys of unread_keys at all *)
Theorem redact_ignores_set ver k v j : In k unread_keys -> redact ver (jset k v j) = redact ver j.
Proof.
  intro Hk. destruct j as [| | | | |m]; try reflexivity.
  unfold redact. destruct (algo_of_version ver) as [a|] eqn:Ha; [|reflexivity].
  destruct (version_facts_of ver a Ha) as [_ Hu].
  change (jset k v (JObj m)) with (JObj (assoc_set k v m)).
  unfold redact_alg, redact_alg_outcome. rewrite (redact_members_set_unread a k v m (Hu k Hk)). reflexivity.
Qed.

Theorem redact_ignores_del ver k j : In k unread_keys -> redact ver (jdel k j) = redact ver j.
Proof.
  intro Hk. destruct j as [| | | | |m]; try reflexivity.
  unfold redact. destruct (algo_of_version ver) as [a|] eqn:Ha; [|reflexivity].
  destruct (version_facts_of ver a Ha) as [_ Hu].
  change (jdel k (JObj m)) with (JObj (filter (fun kv => negb (bytes_eqb k (fst kv))) m)).
  unfold redact_alg, redact_alg_outcome. rewrite (redact_members_del_unread a k m (Hu k Hk)). reflexivity.
Qed.

Theorem reference_ignores_unsigned ver v j :
  reference_json ver (jset k_uns v j) = reference_json ver j.
Proof. unfold reference_json. rewrite redact_ignores_set; [reflexivity|simpl; auto]. Qed.

Theorem reference_ignores_unsigned_del ver j :
  reference_json ver (jdel k_uns j) = reference_json ver j.
Proof. unfold reference_json. rewrite redact_ignores_del; [reflexivity|simpl; auto]. Qed.

(* whether redaction succeeds does not depend on the signatures member either *)
Theorem redact_success_ignores_signatures ver v j :
  is_nil (match redact ver (jset k_sigs v j) with Some _ => [tt] | None => [] end) =
  is_nil (match redact ver j with Some _ => [tt] | None => [] end).
Proof.
  pose proof (reference_ignores_signatures ver v j) as E. unfold reference_json in E.
  destruct (redact ver (jset k_sigs v j)), (redact ver j); simpl in *; try reflexivity; discriminate.
Qed.
