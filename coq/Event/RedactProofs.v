(* Proofs about the redaction model (Event/Redact.v). *)
From Verif Require Import Lib.Bytes Json.Ast Event.Redact Event.RedactSpec Event.RedactTables Gen.GenVersions.
Open Scope N_scope.

(* ================= association lists ================= *)
Definition keys_of {A} (m : list (bytes * A)) : list bytes := map fst m.

Lemma bytes_eqb_sym a b : bytes_eqb a b = bytes_eqb b a.
Proof.
  destruct (bytes_eqb a b) eqn:E.
  - apply bytes_eqb_eq in E. subst. symmetry. apply bytes_eqb_refl.
  - symmetry. apply bytes_eqb_neq. apply bytes_eqb_neq in E. congruence.
Qed.

Lemma assoc_first_set {A} k k' (v : A) l :
  assoc_first k (assoc_set k' v l) = if bytes_eqb k k' then Some v else assoc_first k l.
Proof.
  induction l as [|[k2 v2] l IH]; simpl.
  - destruct (bytes_eqb k k'); reflexivity.
  - destruct (bytes_eqb k' k2) eqn:E2; simpl.
    + apply bytes_eqb_eq in E2. subst k2. destruct (bytes_eqb k k'); reflexivity.
    + destruct (bytes_eqb k k2) eqn:E3.
      * apply bytes_eqb_eq in E3. subst k2. rewrite bytes_eqb_sym, E2. reflexivity.
      * exact IH.
Qed.

Lemma assoc_first_cons {A} x k (v : A) m :
  assoc_first x ((k, v) :: m) = if bytes_eqb x k then Some v else assoc_first x m.
Proof. reflexivity. Qed.

Lemma assoc_first_app {A} k (a b : list (bytes * A)) :
  assoc_first k (a ++ b) = match assoc_first k a with Some v => Some v | None => assoc_first k b end.
Proof.
  induction a as [|[k' v'] a IH]; simpl; [reflexivity|].
  destruct (bytes_eqb k k'); [reflexivity|exact IH].
Qed.

Lemma assoc_first_none {A} k (l : list (bytes * A)) : ~ In k (keys_of l) -> assoc_first k l = None.
Proof.
  induction l as [|[k' v'] l IH]; simpl; intro H; [reflexivity|].
  destruct (bytes_eqb k k') eqn:E.
  - apply bytes_eqb_eq in E. subst. tauto.
  - apply IH. tauto.
Qed.

Lemma assoc_first_some_in {A} k (l : list (bytes * A)) v : assoc_first k l = Some v -> In (k, v) l.
Proof.
  induction l as [|[k' v'] l IH]; simpl; [discriminate|].
  destruct (bytes_eqb k k') eqn:E.
  - intro H. inversion H; subst. apply bytes_eqb_eq in E. subst. auto.
  - auto.
Qed.

Lemma in_assoc_first {A} k (v : A) l : NoDup (keys_of l) -> In (k, v) l -> assoc_first k l = Some v.
Proof.
  induction l as [|[k' v'] l IH]; simpl; intros Hnd Hin; [tauto|].
  inversion Hnd as [|? ? Hnot Hnd']; subst.
  destruct Hin as [E|Hin].
  - inversion E; subst. rewrite bytes_eqb_refl. reflexivity.
  - destruct (bytes_eqb k k') eqn:E.
    + apply bytes_eqb_eq in E. subst. exfalso. apply Hnot. change k' with (fst (k', v)). apply in_map. exact Hin.
    + auto.
Qed.

Lemma assoc_set_keys_notin {A} k (v : A) l : ~ In k (keys_of l) -> assoc_set k v l = l ++ [(k, v)].
Proof.
  induction l as [|[k' v'] l IH]; simpl; intro H; [reflexivity|].
  destruct (bytes_eqb k k') eqn:E.
  - apply bytes_eqb_eq in E. subst. tauto.
  - f_equal. apply IH. tauto.
Qed.

Lemma assoc_set_keys_in {A} k (v : A) l : In k (keys_of l) -> keys_of (assoc_set k v l) = keys_of l.
Proof.
  induction l as [|[k' v'] l IH]; simpl; intro H; [tauto|].
  destruct (bytes_eqb k k') eqn:E; simpl.
  - apply bytes_eqb_eq in E. subst. reflexivity.
  - f_equal. apply IH. destruct H as [H|H]; [|exact H]. subst. rewrite bytes_eqb_refl in E. discriminate.
Qed.

Lemma in_dec_bytes (k : bytes) l : {In k l} + {~ In k l}.
Proof.
  destruct (mem_bytes k l) eqn:E.
  - left. apply mem_bytes_In. exact E.
  - right. intro H. apply mem_bytes_In in H. congruence.
Qed.

Lemma NoDup_snoc {A} (l : list A) x : NoDup l -> ~ In x l -> NoDup (l ++ [x]).
Proof.
  induction l as [|y l IH]; simpl; intros Hnd Hnot.
  - constructor; [tauto|constructor].
  - inversion Hnd; subst. constructor.
    + rewrite in_app_iff. simpl. intros [H|[H|[]]]; [tauto|]. subst. tauto.
    + apply IH; tauto.
Qed.

Lemma assoc_set_nodup {A} k (v : A) l : NoDup (keys_of l) -> NoDup (keys_of (assoc_set k v l)).
Proof.
  intro H. destruct (in_dec_bytes k (keys_of l)) as [Hin|Hnot].
  - rewrite assoc_set_keys_in; auto.
  - rewrite assoc_set_keys_notin; auto. unfold keys_of. rewrite map_app. simpl.
    apply NoDup_snoc; auto.
Qed.

(* ================= UTF-8 replacement is idempotent ================= *)
Definition ok1_3 (c0 c1 : N) : bool :=
  if c0 =? 224 then in_rng 160 191 c1 else if c0 =? 237 then in_rng 128 159 c1 else cont c1.
Definition ok1_4 (c0 c1 : N) : bool :=
  if c0 =? 240 then in_rng 144 191 c1 else if c0 =? 244 then in_rng 128 143 c1 else cont c1.

Inductive valid8 : bytes -> Prop :=
| V0 : valid8 []
| V1 c r : (c <? 128) = true -> valid8 r -> valid8 (c :: r)
| V2 c0 c1 r : (c0 <? 128) = false -> in_rng 194 223 c0 = true -> cont c1 = true ->
    valid8 r -> valid8 (c0 :: c1 :: r)
| V3 c0 c1 c2 r : (c0 <? 128) = false -> in_rng 194 223 c0 = false -> in_rng 224 239 c0 = true ->
    (ok1_3 c0 c1 && cont c2) = true -> valid8 r -> valid8 (c0 :: c1 :: c2 :: r)
| V4 c0 c1 c2 c3 r : (c0 <? 128) = false -> in_rng 194 223 c0 = false -> in_rng 224 239 c0 = false ->
    in_rng 240 244 c0 = true -> (ok1_4 c0 c1 && cont c2 && cont c3) = true -> valid8 r ->
    valid8 (c0 :: c1 :: c2 :: c3 :: r).

Lemma valid8_repl r : valid8 r -> valid8 (repl ++ r).
Proof. intro H. unfold repl. simpl. apply V3; auto. Qed.

Lemma sanitize_fixes_valid s : valid8 s -> utf8_sanitize s = s.
Proof.
  induction 1 as [|c r Hc Hr IH|c0 c1 r H0 H1 H2 Hr IH|c0 c1 c2 r H0 H1 H2 H3 Hr IH
                 |c0 c1 c2 c3 r H0 H1 H2 H3 H4 Hr IH].
  - reflexivity.
  - simpl. rewrite Hc, IH. reflexivity.
  - simpl. rewrite H0, H1, H2, IH. reflexivity.
  - simpl. rewrite H0, H1, H2. fold (ok1_3 c0 c1). rewrite H3, IH. reflexivity.
  - simpl. rewrite H0, H1, H2, H3. fold (ok1_4 c0 c1). rewrite H4, IH. reflexivity.
Qed.

Lemma sanitize_valid_n : forall n s, (length s <= n)%nat -> valid8 (utf8_sanitize s).
Proof.
  induction n as [|n IH]; intros s Hl.
  - destruct s; [constructor|simpl in Hl; lia].
  - destruct s as [|c0 r0]; [constructor|].
    assert (Hr0 : valid8 (utf8_sanitize r0)) by (apply IH; simpl in Hl; lia).
    simpl. destruct (c0 <? 128) eqn:E0; [apply V1; auto|].
    destruct r0 as [|c1 r1]; [apply (valid8_repl []); constructor|].
    assert (Hr1 : valid8 (utf8_sanitize r1)) by (apply IH; simpl in Hl; lia).
    destruct (in_rng 194 223 c0) eqn:E1.
    { destruct (cont c1) eqn:E2; [apply V2; auto|apply valid8_repl; exact Hr0]. }
    destruct (in_rng 224 239 c0) eqn:E2.
    { destruct r1 as [|c2 r2]; [apply valid8_repl; exact Hr0|].
      fold (ok1_3 c0 c1).
      destruct (ok1_3 c0 c1 && cont c2) eqn:E3; [|apply valid8_repl; exact Hr0].
      apply V3; auto. apply IH. simpl in Hl. lia. }
    destruct (in_rng 240 244 c0) eqn:E3; [|apply valid8_repl; exact Hr0].
    destruct r1 as [|c2 r2]; [apply valid8_repl; exact Hr0|].
    destruct r2 as [|c3 r3]; [apply valid8_repl; exact Hr0|].
    fold (ok1_4 c0 c1).
    destruct (ok1_4 c0 c1 && cont c2 && cont c3) eqn:E4; [|apply valid8_repl; exact Hr0].
    apply V4; auto. apply IH. simpl in Hl. lia.
Qed.

Lemma sanitize_idem s : utf8_sanitize (utf8_sanitize s) = utf8_sanitize s.
Proof. apply sanitize_fixes_valid. apply (sanitize_valid_n (length s)). lia. Qed.

Lemma sanitize_ascii s : forallb (fun c => c <? 128) s = true -> utf8_sanitize s = s.
Proof.
  induction s as [|c r IH]; simpl; intro H; [reflexivity|].
  apply andb_true_iff in H as [H1 H2]. rewrite H1, IH; auto.
Qed.

(* ================= values: the interface{} round trip is idempotent ================= *)
Section JsonInd.
  Variable P : json -> Prop.
  Hypothesis HNull : P JNull.
  Hypothesis HBool : forall b, P (JBool b).
  Hypothesis HNum : forall r, P (JNum r).
  Hypothesis HStr : forall s, P (JStr s).
  Hypothesis HArr : forall l, Forall P l -> P (JArr l).
  Hypothesis HObj : forall m, Forall (fun kv => P (snd kv)) m -> P (JObj m).
  Fixpoint json_ind2 (j : json) : P j :=
    match j with
    | JNull => HNull
    | JBool b => HBool b
    | JNum r => HNum r
    | JStr s => HStr s
    | JArr l => HArr l ((fix go (l : list json) : Forall P l :=
                           match l with
                           | [] => Forall_nil _
                           | x :: l' => Forall_cons x (json_ind2 x) (go l')
                           end) l)
    | JObj m => HObj m ((fix go (m : list (bytes * json)) : Forall (fun kv => P (snd kv)) m :=
                           match m with
                           | [] => Forall_nil _
                           | kv :: m' => Forall_cons kv (json_ind2 (snd kv)) (go m')
                           end) m)
    end.
End JsonInd.

Lemma norm_obj_eq m : norm_value (JObj m) = JObj (dedupe (norm_members m)).
Proof.
  simpl. f_equal. f_equal. unfold norm_members.
  induction m as [|[k v] m IH]; simpl; [reflexivity|]. f_equal. exact IH.
Qed.

Definition member_fixed (kv : bytes * json) : Prop :=
  utf8_sanitize (fst kv) = fst kv /\ norm_value (snd kv) = snd kv.
Definition normal (c : list (bytes * json)) : Prop := NoDup (keys_of c) /\ Forall member_fixed c.

Lemma norm_members_fixed c : Forall member_fixed c -> norm_members c = c.
Proof.
  induction 1 as [|[k v] c [H1 H2] Hc IH]; simpl; [reflexivity|].
  simpl in H1, H2. rewrite H1, H2. f_equal. exact IH.
Qed.

Lemma set_member_fixed acc kv : Forall member_fixed acc -> member_fixed kv -> Forall member_fixed (set_member acc kv).
Proof.
  unfold set_member. destruct kv as [k v]. simpl. intros Hacc Hkv.
  induction acc as [|[k' v'] acc IH]; simpl.
  - constructor; auto.
  - inversion Hacc; subst. destruct (bytes_eqb k k'); constructor; auto.
Qed.

Lemma fold_set_normal l : forall acc, normal acc -> Forall member_fixed l -> normal (fold_left set_member l acc).
Proof.
  induction l as [|kv l IH]; simpl; intros acc Hacc Hl; [exact Hacc|].
  inversion Hl; subst. apply IH; auto. destruct Hacc as [Hnd Hfx]. split.
  - unfold set_member. apply assoc_set_nodup. exact Hnd.
  - apply set_member_fixed; auto.
Qed.

Lemma fold_set_nodup_id l : forall acc, NoDup (keys_of (acc ++ l)) -> fold_left set_member l acc = acc ++ l.
Proof.
  induction l as [|[k v] l IH]; simpl; intros acc Hnd; [rewrite app_nil_r; reflexivity|].
  unfold set_member at 2. simpl.
  assert (Hnot : ~ In k (keys_of acc)).
  { unfold keys_of in Hnd. rewrite map_app in Hnd. simpl in Hnd.
    apply NoDup_remove_2 in Hnd. rewrite in_app_iff in Hnd. tauto. }
  rewrite assoc_set_keys_notin by exact Hnot.
  rewrite IH; rewrite <- app_assoc; simpl; auto.
Qed.

Lemma dedupe_normal_id c : normal c -> dedupe (norm_members c) = c.
Proof.
  intros [Hnd Hfx]. rewrite norm_members_fixed by exact Hfx.
  unfold dedupe. rewrite fold_set_nodup_id; auto.
Qed.

Lemma norm_value_idem j : norm_value (norm_value j) = norm_value j.
Proof.
  induction j as [| | | |l IH|m IH] using json_ind2; try reflexivity.
  - simpl. rewrite sanitize_idem. reflexivity.
  - simpl. f_equal. rewrite map_map. apply map_ext_in. intros x Hx.
    rewrite Forall_forall in IH. apply IH. exact Hx.
  - rewrite norm_obj_eq. rewrite norm_obj_eq. f_equal. apply dedupe_normal_id.
    unfold dedupe. apply fold_set_normal; [split; [constructor|constructor]|].
    unfold norm_members. rewrite Forall_forall. intros kv Hin.
    apply in_map_iff in Hin as (kv0 & E & Hin0). subst kv. split; simpl.
    + apply sanitize_idem.
    + rewrite Forall_forall in IH. apply IH. exact Hin0.
Qed.

Lemma norm_members_all_fixed m : Forall member_fixed (norm_members m).
Proof.
  unfold norm_members. rewrite Forall_forall. intros kv Hin.
  apply in_map_iff in Hin as (kv0 & E & _). subst kv. split; simpl;
    [apply sanitize_idem|apply norm_value_idem].
Qed.

Lemma filter_normal f c : normal c -> normal (filter f c).
Proof.
  intros [Hnd Hfx]. split.
  - clear Hfx. induction c as [|[k v] c IH]; simpl; [constructor|].
    inversion Hnd; subst. destruct (f (k, v)); simpl; [constructor|]; auto.
    intro Hin. apply H1. unfold keys_of in *. apply in_map_iff in Hin as (kv & E & Hin).
    apply filter_In in Hin as [Hin _]. apply in_map_iff. exists kv. auto.
  - rewrite Forall_forall in *. intros kv Hin. apply filter_In in Hin as [Hin _]. auto.
Qed.

(* ================= decoding a member list whose keys are exact field names ================= *)
Lemma nodup_b_NoDup l : nodup_b l = true -> NoDup l.
Proof.
  induction l as [|x l IH]; simpl; intro H; [constructor|].
  apply andb_true_iff in H as [H1 H2]. constructor; auto.
  intro Hin. apply mem_bytes_In in Hin. rewrite Hin in H1. discriminate.
Qed.

Lemma NoDup_map_inj {A B} (f : A -> B) l x y : NoDup (map f l) -> In x l -> In y l -> f x = f y -> x = y.
Proof.
  induction l as [|z l IH]; simpl; intros Hnd Hx Hy E; [tauto|].
  inversion Hnd as [|? ? Hnot Hnd']; subst.
  destruct Hx as [Hx|Hx], Hy as [Hy|Hy]; subst; auto.
  - exfalso. apply Hnot. rewrite E. apply in_map. exact Hy.
  - exfalso. apply Hnot. rewrite <- E. apply in_map. exact Hx.
Qed.

Definition raw_of (d : dstate) (name : bytes) : option json := assoc_first name (d_raw d).
Definition key_exact (fs : list field) (k : bytes) : Prop :=
  match find_field fs (utf8_sanitize k) with None => True | Some f => fname f = k end.
Definition is_raw (fs : list field) (k : bytes) : bool :=
  match find_field fs (utf8_sanitize k) with Some f => is_kind FRaw f | None => false end.
Definition decode_from (fs : list field) (d0 : dstate) (m : list (bytes * json)) : option dstate :=
  fold_left (decode_member fs) m (Some d0).
Definition type_ok (m : list (bytes * json)) : Prop :=
  match assoc_first type_key m with Some (JStr _) | Some JNull | None => True | _ => False end.
Definition content_ok (m : list (bytes * json)) : Prop :=
  match assoc_first content_key m with Some (JObj _) | Some JNull | None => True | _ => False end.
Definition old_content (d : dstate) : list (bytes * json) :=
  match d_content d with Some c => c | None => [] end.

Lemma decode_none fs m : fold_left (decode_member fs) m None = None.
Proof. induction m; simpl; auto. Qed.

Lemma decode_from_cons fs d0 kv m :
  decode_from fs d0 (kv :: m) =
  match decode_member fs (Some d0) kv with Some d1 => decode_from fs d1 m | None => None end.
Proof.
  unfold decode_from. change (fold_left (decode_member fs) (kv :: m) (Some d0))
    with (fold_left (decode_member fs) m (decode_member fs (Some d0) kv)).
  destruct (decode_member fs (Some d0) kv); [reflexivity|apply decode_none].
Qed.

Section Decode.
  Variable fs : list field.
  Hypothesis Hnd : NoDup (map fname fs).
  Hypothesis Hok : forall f, In f fs -> field_ok f = true.

  Lemma find_field_in k f : find_field fs k = Some f -> In f fs.
  Proof.
    unfold find_field. destruct (find _ fs) eqn:E.
    - intro H; inversion H; subst. apply find_some in E. tauto.
    - intro H. apply find_some in H. tauto.
  Qed.

  Lemma field_ascii f : In f fs -> utf8_sanitize (fname f) = fname f.
  Proof.
    intro Hin. apply sanitize_ascii. specialize (Hok f Hin). unfold field_ok in Hok.
    apply andb_true_iff in Hok. tauto.
  Qed.

  Lemma find_field_name f : In f fs -> find_field fs (utf8_sanitize (fname f)) = Some f.
  Proof.
    intro Hin. rewrite field_ascii by exact Hin. unfold find_field.
    destruct (find (fun f0 => bytes_eqb (fname f0) (fname f)) fs) as [g|] eqn:E.
    - apply find_some in E as [Hg Eg]. apply bytes_eqb_eq in Eg. f_equal.
      eapply NoDup_map_inj; eauto.
    - exfalso. eapply find_none in E; [|exact Hin]. rewrite bytes_eqb_refl in E. discriminate.
  Qed.

  Variables ft fc : field.
  Hypothesis Hft : In ft fs /\ fname ft = type_key /\ fkind_of ft = FStr.
  Hypothesis Hfc : In fc fs /\ fname fc = content_key /\ fkind_of fc = FMap.

  Lemma field_kind_name f : In f fs ->
    match fkind_of f with
    | FRaw => fomit f = true
    | FStr => f = ft
    | FMap => f = fc
    | FUnknown => False
    end.
  Proof.
    intro Hin. pose proof (Hok f Hin) as H. unfold field_ok in H. apply andb_true_iff in H as [_ H].
    destruct Hft as (Ht1 & Ht2 & Ht3). destruct Hfc as (Hc1 & Hc2 & Hc3).
    destruct (fkind_of f) eqn:K; auto; try discriminate.
    - apply andb_true_iff in H as [_ H]. apply bytes_eqb_eq in H.
      eapply NoDup_map_inj; eauto. congruence.
    - apply andb_true_iff in H as [_ H]. apply bytes_eqb_eq in H.
      eapply NoDup_map_inj; eauto. congruence.
  Qed.

  Lemma type_content_distinct : type_key <> content_key.
  Proof. intro H. vm_compute in H. discriminate. Qed.

  Lemma decode_exact : forall m d0,
    NoDup (keys_of m) -> Forall (fun kv => key_exact fs (fst kv)) m -> type_ok m -> content_ok m ->
    exists d, decode_from fs d0 m = Some d /\
      (forall name, raw_of d name =
                    match assoc_first name m with
                    | Some v => if is_raw fs name then Some v else raw_of d0 name
                    | None => raw_of d0 name
                    end) /\
      d_type d = match assoc_first type_key m with Some (JStr s) => utf8_sanitize s | _ => d_type d0 end /\
      d_content d = match assoc_first content_key m with
                    | Some (JObj c) => Some (fold_left set_member (norm_members c) (old_content d0))
                    | Some JNull => None
                    | _ => d_content d0
                    end.
  Proof.
    destruct Hft as (Ht1 & Ht2 & Ht3). destruct Hfc as (Hc1 & Hc2 & Hc3).
    induction m as [|[k v] m IH]; intros d0 Hnodup Hex Hty Hco.
    - exists d0. simpl. auto.
    - inversion Hnodup as [|? ? Hnotin Hnodup']; subst.
      inversion Hex as [|? ? Hk Hex']; subst. simpl in Hk.
      assert (Hm_k : assoc_first k m = None) by (apply assoc_first_none; exact Hnotin).
      unfold key_exact in Hk.
      (* what the head member does *)
      assert (Hstep : exists d1, decode_member fs (Some d0) (k, v) = Some d1 /\
        (forall name, raw_of d1 name = if bytes_eqb name k then (if is_raw fs k then Some v else raw_of d0 name) else raw_of d0 name) /\
        d_type d1 = (if bytes_eqb type_key k then match v with JStr s => utf8_sanitize s | _ => d_type d0 end else d_type d0) /\
        d_content d1 = (if bytes_eqb content_key k then
                          match v with
                          | JObj c => Some (fold_left set_member (norm_members c) (old_content d0))
                          | JNull => None
                          | _ => d_content d0
                          end else d_content d0)).
      { unfold decode_member, is_raw. simpl fst. simpl snd.
        destruct (find_field fs (utf8_sanitize k)) as [f|] eqn:Ef.
        - pose proof (find_field_in _ _ Ef) as Hin. pose proof (field_kind_name f Hin) as Hkind.
          destruct (fkind_of f) eqn:K.
          + (* raw *)
            assert (Hkt : bytes_eqb type_key k = false).
            { apply bytes_eqb_neq. intro E. subst k. assert (f = ft) by (eapply NoDup_map_inj; eauto; congruence). congruence. }
            assert (Hkc : bytes_eqb content_key k = false).
            { apply bytes_eqb_neq. intro E. subst k. assert (f = fc) by (eapply NoDup_map_inj; eauto; congruence). congruence. }
            eexists. split; [reflexivity|]. rewrite Hkt, Hkc. simpl. repeat split; auto.
            intro name. unfold raw_of. simpl. rewrite assoc_first_set. rewrite Hk.
            unfold is_kind. rewrite K. reflexivity.
          + (* the string field *)
            subst f. rewrite Ht2 in Hk. subst k.
            assert (Hkc : bytes_eqb content_key type_key = false) by (vm_compute; reflexivity).
            rewrite bytes_eqb_refl, Hkc.
            unfold type_ok in Hty. rewrite assoc_first_cons, bytes_eqb_refl in Hty.
            assert (Hraw : is_kind FRaw ft = false) by (unfold is_kind; rewrite Ht3; reflexivity).
            rewrite Hraw.
            destruct v; try contradiction; (eexists; split; [reflexivity|]); simpl; repeat split; auto;
              intro name; unfold raw_of; simpl; destruct (bytes_eqb name type_key); reflexivity.
          + (* the map field *)
            subst f. rewrite Hc2 in Hk. subst k.
            assert (Hkt : bytes_eqb type_key content_key = false) by (vm_compute; reflexivity).
            rewrite bytes_eqb_refl, Hkt.
            unfold content_ok in Hco. rewrite assoc_first_cons, bytes_eqb_refl in Hco.
            assert (Hraw : is_kind FRaw fc = false) by (unfold is_kind; rewrite Hc3; reflexivity).
            rewrite Hraw.
            destruct v; try contradiction; (eexists; split; [reflexivity|]); simpl; repeat split; auto;
              intro name; unfold raw_of; simpl; destruct (bytes_eqb name content_key); reflexivity.
          + contradiction.
        - (* unknown key: dropped *)
          assert (Hkt : bytes_eqb type_key k = false).
          { apply bytes_eqb_neq. intro E. subst k. rewrite <- Ht2 in Ef. rewrite find_field_name in Ef by exact Ht1. discriminate. }
          assert (Hkc : bytes_eqb content_key k = false).
          { apply bytes_eqb_neq. intro E. subst k. rewrite <- Hc2 in Ef. rewrite find_field_name in Ef by exact Hc1. discriminate. }
          exists d0. rewrite Hkt, Hkc. repeat split; auto.
          intro name. destruct (bytes_eqb name k); reflexivity. }
      destruct Hstep as (d1 & Hd1 & Hraw1 & Hty1 & Hco1).
      rewrite decode_from_cons, Hd1.
      assert (Hty' : type_ok m).
      { unfold type_ok in Hty |- *. rewrite assoc_first_cons in Hty. destruct (bytes_eqb type_key k) eqn:E; [|exact Hty].
        apply bytes_eqb_eq in E. subst k. rewrite Hm_k. exact I. }
      assert (Hco' : content_ok m).
      { unfold content_ok in Hco |- *. rewrite assoc_first_cons in Hco. destruct (bytes_eqb content_key k) eqn:E; [|exact Hco].
        apply bytes_eqb_eq in E. subst k. rewrite Hm_k. exact I. }
      destruct (IH d1 Hnodup' Hex' Hty' Hco') as (d & Hd & Hraw & Htyd & Hcod).
      exists d. split; [exact Hd|]. split; [|split].
      + intro name. rewrite Hraw, Hraw1, assoc_first_cons.
        destruct (bytes_eqb name k) eqn:E.
        * apply bytes_eqb_eq in E. subst name. rewrite Hm_k. reflexivity.
        * destruct (assoc_first name m); reflexivity.
      + rewrite Htyd, Hty1, assoc_first_cons. destruct (bytes_eqb type_key k) eqn:E.
        * apply bytes_eqb_eq in E. subst k. rewrite Hm_k. unfold type_ok in Hty.
          rewrite assoc_first_cons, bytes_eqb_refl in Hty. destruct v; try contradiction; reflexivity.
        * reflexivity.
      + rewrite Hcod, Hco1, assoc_first_cons. destruct (bytes_eqb content_key k) eqn:E.
        * apply bytes_eqb_eq in E. subst k. rewrite Hm_k. unfold content_ok in Hco.
          rewrite assoc_first_cons, bytes_eqb_refl in Hco. destruct v; try contradiction; reflexivity.
        * unfold old_content. rewrite Hco1. reflexivity.
  Qed.
End Decode.

(* ================= what decoding always establishes ================= *)
Definition d_inv (d : dstate) : Prop :=
  utf8_sanitize (d_type d) = d_type d /\ (forall c, d_content d = Some c -> normal c).

Lemma normal_nil : normal [].
Proof. split; constructor. Qed.

Lemma d_inv_init : d_inv d_init.
Proof. split; [reflexivity|discriminate]. Qed.

Lemma decode_member_inv fs d kv d' : decode_member fs (Some d) kv = Some d' -> d_inv d -> d_inv d'.
Proof.
  unfold decode_member. intros H [H1 H2].
  destruct (find_field fs (utf8_sanitize (fst kv))) as [f|]; [|inversion H; subst; split; auto].
  destruct (fkind_of f).
  - inversion H; subst. split; auto.
  - destruct (snd kv); inversion H; subst; split; simpl; auto. apply sanitize_idem.
  - destruct (snd kv) eqn:Ev; inversion H; subst; split; simpl; auto; try discriminate.
    intros c Hc. inversion Hc; subst. apply fold_set_normal; [|apply norm_members_all_fixed].
    destruct (d_content d) eqn:Ed; [apply H2; reflexivity|apply normal_nil].
  - discriminate.
Qed.

Lemma decode_from_inv fs m : forall d0 d, decode_from fs d0 m = Some d -> d_inv d0 -> d_inv d.
Proof.
  induction m as [|kv m IH]; intros d0 d H Hinv.
  - unfold decode_from in H. simpl in H. inversion H; subst. exact Hinv.
  - rewrite decode_from_cons in H. destruct (decode_member fs (Some d0) kv) as [d1|] eqn:E; [|discriminate].
    eapply IH; eauto. eapply decode_member_inv; eauto.
Qed.

(* ================= encoding ================= *)
Definition emit_val (d : dstate) (c : option (list (bytes * json))) (f : field) : option json :=
  match fkind_of f with
  | FRaw => raw_of d (fname f)
  | FStr => Some (JStr (d_type d))
  | FMap => Some (match c with Some cc => JObj cc | None => JNull end)
  | FUnknown => None
  end.

Lemma emit_field_ok d c f : field_ok f = true ->
  emit_field d c f = Some (match emit_val d c f with Some v => [(fname f, v)] | None => [] end).
Proof.
  unfold field_ok, emit_field, emit_val, raw_of. intro H. apply andb_true_iff in H as [_ H].
  destruct (fkind_of f).
  - rewrite H. destruct (assoc_first (fname f) (d_raw d)); reflexivity.
  - apply andb_true_iff in H as [H _]. apply negb_true_iff in H. rewrite H. reflexivity.
  - apply andb_true_iff in H as [H _]. apply negb_true_iff in H. rewrite H. destruct c; reflexivity.
  - discriminate.
Qed.

Lemma emit_fields_spec d c : forall l,
  (forall f, In f l -> field_ok f = true) -> NoDup (map fname l) ->
  exists out, emit_fields d c l = Some out /\
    (forall k, In k (keys_of out) -> exists f, In f l /\ fname f = k /\ emit_val d c f <> None) /\
    NoDup (keys_of out) /\
    (forall f, In f l -> assoc_first (fname f) out = emit_val d c f).
Proof.
  induction l as [|f l IH]; intros Hok Hnd.
  - exists []. simpl. split; [reflexivity|]. split; [tauto|]. split; [constructor|tauto].
  - inversion Hnd as [|? ? Hnot Hnd']; subst.
    destruct IH as (out & Hout & Hkeys & Hnodup & Hlook); [intros; apply Hok; simpl; auto|exact Hnd'|].
    simpl. rewrite emit_field_ok by (apply Hok; simpl; auto). rewrite Hout.
    assert (Hf_notin : ~ In (fname f) (keys_of out)).
    { intro Hin. destruct (Hkeys _ Hin) as (g & Hg & Eg & _). apply Hnot. rewrite <- Eg. apply in_map. exact Hg. }
    eexists. split; [reflexivity|].
    destruct (emit_val d c f) as [v|] eqn:Ev; simpl.
    + split; [|split].
      * intros k [Hk|Hk]; [exists f; subst; simpl; split; auto; split; auto; congruence|].
        destruct (Hkeys _ Hk) as (g & Hg & Eg & Hv). exists g. simpl. auto.
      * constructor; auto.
      * intros g [Hg|Hg].
        -- subst g. rewrite bytes_eqb_refl. symmetry. exact Ev.
        -- destruct (bytes_eqb (fname g) (fname f)) eqn:E.
           ++ apply bytes_eqb_eq in E. exfalso. apply Hnot. rewrite <- E. apply in_map. exact Hg.
           ++ apply Hlook. exact Hg.
    + split; [|split]; auto.
      * intros k Hk. destruct (Hkeys _ Hk) as (g & Hg & Eg & Hv). exists g. simpl. auto.
      * intros g [Hg|Hg]; [subst g; rewrite Ev; apply assoc_first_none; exact Hf_notin|auto].
Qed.

Lemma emit_fields_ext d d' c : forall l,
  (forall f, In f l -> fkind_of f = FRaw -> raw_of d' (fname f) = raw_of d (fname f)) ->
  d_type d' = d_type d -> emit_fields d' c l = emit_fields d c l.
Proof.
  induction l as [|f l IH]; intros Hraw Hty; [reflexivity|].
  simpl. rewrite IH by (intros; auto; apply Hraw; simpl; auto).
  assert (E : emit_field d' c f = emit_field d c f).
  { unfold emit_field. destruct (fkind_of f) eqn:K; auto.
    - specialize (Hraw f (or_introl eq_refl) K). unfold raw_of in Hraw. rewrite Hraw. reflexivity.
    - rewrite Hty. reflexivity. }
  rewrite E. reflexivity.
Qed.

Lemma filter_idem {A} (f : A -> bool) l : filter f (filter f l) = filter f l.
Proof.
  induction l as [|x l IH]; simpl; [reflexivity|].
  destruct (f x) eqn:E; simpl; [rewrite E, IH|]; auto.
Qed.

(* ================= the shape facts of an algorithm that passes algo_ok ================= *)
Lemma filter_length_one {A} (p : A -> bool) l : length (filter p l) = 1%nat -> exists x, In x l /\ p x = true.
Proof.
  intro H. destruct (filter p l) as [|x r] eqn:E; [discriminate|].
  assert (Hin : In x (filter p l)) by (rewrite E; simpl; auto).
  apply filter_In in Hin. exists x. exact Hin.
Qed.

Lemma algo_ok_facts a : algo_ok a = true ->
  NoDup (map fname (a_fields a)) /\
  (forall f, In f (a_fields a) -> field_ok f = true) /\
  (exists ft, In ft (a_fields a) /\ fname ft = type_key /\ fkind_of ft = FStr) /\
  (exists fc, In fc (a_fields a) /\ fname fc = content_key /\ fkind_of fc = FMap).
Proof.
  unfold algo_ok. intro H.
  apply andb_true_iff in H as [H H4]. apply andb_true_iff in H as [H H3]. apply andb_true_iff in H as [H1 H2].
  rewrite forallb_forall in H2.
  split; [apply nodup_b_NoDup; exact H1|]. split; [exact H2|]. split.
  - apply Nat.eqb_eq in H3. apply filter_length_one in H3 as (f & Hin & Hk).
    exists f. split; auto. pose proof (H2 f Hin) as Hf. unfold field_ok in Hf.
    unfold is_kind in Hk. destruct (fkind_of f); try discriminate.
    apply andb_true_iff in Hf as [_ Hf]. apply andb_true_iff in Hf as [_ Hf]. apply bytes_eqb_eq in Hf. auto.
  - apply Nat.eqb_eq in H4. apply filter_length_one in H4 as (f & Hin & Hk).
    exists f. split; auto. pose proof (H2 f Hin) as Hf. unfold field_ok in Hf.
    unfold is_kind in Hk. destruct (fkind_of f); try discriminate.
    apply andb_true_iff in Hf as [_ Hf]. apply andb_true_iff in Hf as [_ Hf]. apply bytes_eqb_eq in Hf. auto.
Qed.

(* ================= redaction of events whose keys are exact ================= *)
Definition exact_keys (a : algo) (m : list (bytes * json)) : Prop :=
  NoDup (keys_of m) /\ Forall (fun kv => key_exact (a_fields a) (fst kv)) m.

Definition decoded_type (m : list (bytes * json)) : bytes :=
  match assoc_first type_key m with Some (JStr s) => utf8_sanitize s | _ => [] end.
Definition decoded_content (m : list (bytes * json)) : option (list (bytes * json)) :=
  match assoc_first content_key m with Some (JObj c) => Some (dedupe (norm_members c)) | _ => None end.
Definition kept_content (a : algo) (ty : bytes) (c0 : option (list (bytes * json))) : option (list (bytes * json)) :=
  match assoc_first ty (a_content a) with
  | Some [] => c0
  | Some ks => Some (filter (keeps ks) (match c0 with Some c => c | None => [] end))
  | None => Some []
  end.
Definition content_json (c : option (list (bytes * json))) : json :=
  match c with Some cc => JObj cc | None => JNull end.

Lemma is_raw_field fs f :
  NoDup (map fname fs) -> (forall g, In g fs -> field_ok g = true) -> In f fs ->
  is_raw fs (fname f) = is_kind FRaw f.
Proof. intros Hnd Hok Hin. unfold is_raw. rewrite (find_field_name fs Hnd Hok f Hin). reflexivity. Qed.

Theorem redact_members_exact a m :
  algo_ok a = true -> exact_keys a m -> type_ok m -> content_ok m ->
  exists out, redact_members a m = Some (JObj out) /\
    NoDup (keys_of out) /\
    (forall k, In k (keys_of out) -> In k (map fname (a_fields a))) /\
    (forall f, In f (a_fields a) -> fkind_of f = FRaw -> assoc_first (fname f) out = assoc_first (fname f) m) /\
    assoc_first type_key out = Some (JStr (decoded_type m)) /\
    assoc_first content_key out = Some (content_json (kept_content a (decoded_type m) (decoded_content m))).
Proof.
  intros Hok [Hnodup Hexact] Hty Hco.
  destruct (algo_ok_facts a Hok) as (Hnd & Hfields & (ft & Hft) & (fc & Hfc)).
  destruct (decode_exact (a_fields a) Hnd Hfields ft fc Hft Hfc m d_init Hnodup Hexact Hty Hco)
    as (d & Hd & Hraw & Htyd & Hcod).
  assert (Hc : filter_content (a_content a) d = kept_content a (decoded_type m) (decoded_content m)).
  { unfold filter_content, kept_content, decoded_type, decoded_content.
    rewrite Htyd, Hcod. simpl d_type. simpl d_content. unfold old_content. simpl d_content.
    fold (dedupe). 
    destruct (assoc_first content_key m) as [[]|]; reflexivity. }
  destruct (emit_fields_spec d (filter_content (a_content a) d) (a_fields a) Hfields Hnd)
    as (out & Hout & Hkeys & Hnodup_out & Hlook).
  exists out. unfold redact_members. unfold decode_from in Hd. unfold decode. rewrite Hd, Hout.
  split; [reflexivity|]. split; [exact Hnodup_out|]. split; [|split; [|split]].
  - intros k Hk. destruct (Hkeys k Hk) as (f & Hf & Ef & _). rewrite <- Ef. apply in_map. exact Hf.
  - intros f Hf Hk. rewrite (Hlook f Hf). unfold emit_val. rewrite Hk. rewrite Hraw.
    rewrite (is_raw_field _ f Hnd Hfields Hf). unfold is_kind. rewrite Hk.
    unfold raw_of. simpl. destruct (assoc_first (fname f) m); reflexivity.
  - destruct Hft as (Ht1 & Ht2 & Ht3). rewrite <- Ht2. rewrite (Hlook ft Ht1). unfold emit_val. rewrite Ht3.
    rewrite Htyd. unfold decoded_type. try rewrite Ht2. reflexivity.
  - destruct Hfc as (Hc1 & Hc2 & Hc3). rewrite <- Hc2. rewrite (Hlook fc Hc1). unfold emit_val. rewrite Hc3.
    rewrite Hc. try rewrite Hc2. reflexivity.
Qed.

(* ================= idempotence ================= *)
Theorem redact_alg_idempotent a j r :
  algo_ok a = true -> redact_alg a j = Some r -> redact_alg a r = Some r.
Proof.
  intros Hok H.
  destruct (algo_ok_facts a Hok) as (Hnd & Hfields & (ft & Hft) & (fc & Hfc)).
  unfold redact_alg, redact_alg_outcome in H.
  destruct j as [| | | | |m]; try discriminate.
  destruct (redact_members a m) as [r0|] eqn:Hr; [|discriminate]. inversion H; subst r0. clear H.
  unfold redact_members in Hr.
  destruct (decode (a_fields a) m) as [d|] eqn:Hd; [|discriminate].
  set (c := filter_content (a_content a) d) in *.
  destruct (emit_fields d c (a_fields a)) as [out|] eqn:Hout; [|discriminate].
  inversion Hr; subst r. clear Hr.
  assert (Hinv : d_inv d) by (eapply decode_from_inv; [exact Hd|apply d_inv_init]).
  destruct Hinv as [Hty_fixed Hcontent_normal].
  assert (Hc_normal : forall cc, c = Some cc -> normal cc).
  { unfold c, filter_content. intros cc Hcc.
    destruct (assoc_first (d_type d) (a_content a)) as [[|k ks]|].
    - apply Hcontent_normal. exact Hcc.
    - inversion Hcc; subst. apply filter_normal.
      destruct (d_content d) eqn:E; [apply Hcontent_normal; reflexivity|apply normal_nil].
    - inversion Hcc; subst. apply normal_nil. }
  destruct (emit_fields_spec d c (a_fields a) Hfields Hnd) as (out' & Hout' & Hkeys & Hnodup_out & Hlook).
  rewrite Hout in Hout'. inversion Hout'; subst out'. clear Hout'.
  (* decode the output again *)
  destruct Hft as (Ht1 & Ht2 & Ht3). destruct Hfc as (Hc1 & Hc2 & Hc3).
  assert (Hexact : Forall (fun kv => key_exact (a_fields a) (fst kv)) out).
  { rewrite Forall_forall. intros kv Hin. unfold key_exact.
    assert (Hk : In (fst kv) (keys_of out)) by (apply in_map; exact Hin).
    destruct (Hkeys _ Hk) as (f & Hf & Ef & _). rewrite <- Ef.
    rewrite (find_field_name _ Hnd Hfields f Hf). reflexivity. }
  assert (Htype_out : assoc_first type_key out = Some (JStr (d_type d))).
  { rewrite <- Ht2. rewrite (Hlook ft Ht1). unfold emit_val. rewrite Ht3. reflexivity. }
  assert (Hcontent_out : assoc_first content_key out = Some (content_json c)).
  { rewrite <- Hc2. rewrite (Hlook fc Hc1). unfold emit_val. rewrite Hc3. reflexivity. }
  assert (Hty_ok : type_ok out) by (unfold type_ok; rewrite Htype_out; exact I).
  assert (Hco_ok : content_ok out) by (unfold content_ok; rewrite Hcontent_out; destruct c; exact I).
  destruct (decode_exact (a_fields a) Hnd Hfields ft fc (conj Ht1 (conj Ht2 Ht3)) (conj Hc1 (conj Hc2 Hc3))
                         out d_init Hnodup_out Hexact Hty_ok Hco_ok) as (d2 & Hd2 & Hraw2 & Hty2 & Hco2).
  rewrite Htype_out in Hty2. rewrite Hty_fixed in Hty2.
  assert (Hco2' : d_content d2 = c).
  { rewrite Hco2, Hcontent_out. destruct c as [cc|]; simpl; [|reflexivity].
    f_equal. unfold old_content. simpl. apply (dedupe_normal_id cc). apply Hc_normal. reflexivity. }
  assert (Hfilter2 : filter_content (a_content a) d2 = c).
  { unfold filter_content at 1. rewrite Hty2, Hco2'.
    assert (Ec : c = filter_content (a_content a) d) by reflexivity.
    unfold filter_content in Ec.
    destruct (assoc_first (d_type d) (a_content a)) as [[|k ks]|] eqn:Ek.
    - reflexivity.
    - rewrite Ec. rewrite filter_idem. reflexivity.
    - symmetry. exact Ec. }
  unfold redact_alg, redact_alg_outcome, redact_members, decode.
  unfold decode_from in Hd2. rewrite Hd2, Hfilter2.
  rewrite (emit_fields_ext d d2 c (a_fields a)); [rewrite Hout; reflexivity| |exact Hty2].
  intros f Hf Hk. rewrite Hraw2. rewrite (Hlook f Hf). unfold emit_val. rewrite Hk.
  rewrite (is_raw_field _ f Hnd Hfields Hf). unfold is_kind. rewrite Hk.
  unfold raw_of at 2. simpl. destruct (raw_of d (fname f)); reflexivity.
Qed.

Theorem redact_idempotent ver j r : redact ver j = Some r -> redact ver r = Some r.
Proof.
  unfold redact. destruct (algo_of_version ver) as [a|] eqn:Ea; [|discriminate].
  apply redact_alg_idempotent. eapply algo_of_version_ok; eauto.
Qed.

(* ================= plain values are left alone ================= *)
Lemma nodup_keys_NoDup m : forall seen, nodup_keys seen m = true ->
  NoDup (keys_of m) /\ forall k, In k (keys_of m) -> ~ In k seen.
Proof.
  induction m as [|[k v] m IH]; simpl; intros seen H; [split; [constructor|tauto]|].
  apply andb_true_iff in H as [H1 H2]. apply negb_true_iff in H1.
  destruct (IH _ H2) as [Hnd Hdis]. split.
  - constructor; auto. intro Hin. apply (Hdis k Hin). simpl. auto.
  - intros k' [E|Hin]; [subst k'; intro Hs; apply mem_bytes_In in Hs; congruence|].
    intro Hs. apply (Hdis k' Hin). simpl. auto.
Qed.

Lemma plain_obj_unfold m :
  plain_value (JObj m) = nodup_keys [] m &&
    forallb (fun kv => bytes_eqb (utf8_sanitize (fst kv)) (fst kv) && plain_value (snd kv)) m.
Proof.
  simpl. f_equal. induction m as [|[k v] m IH]; simpl; [reflexivity|]. rewrite IH. reflexivity.
Qed.

Lemma plain_fixed j : plain_value j = true -> norm_value j = j.
Proof.
  induction j as [| | | |l IH|m IH] using json_ind2; intro H; try reflexivity.
  - simpl in H. apply bytes_eqb_eq in H. simpl. rewrite H. reflexivity.
  - simpl in *. f_equal. rewrite forallb_forall in H. rewrite Forall_forall in IH.
    rewrite <- (map_id l) at 2. apply map_ext_in. intros x Hx. apply IH; auto.
  - rewrite plain_obj_unfold in H. apply andb_true_iff in H as [H1 H2].
    rewrite norm_obj_eq. f_equal. apply dedupe_normal_id. split.
    + apply (nodup_keys_NoDup m [] H1).
    + rewrite forallb_forall in H2. rewrite Forall_forall in *. intros kv Hin.
      specialize (H2 kv Hin). apply andb_true_iff in H2 as [Hk Hv]. apply bytes_eqb_eq in Hk.
      split; auto.
Qed.

Lemma plain_obj_normal c : plain_value (JObj c) = true -> normal c.
Proof.
  intro H. rewrite plain_obj_unfold in H. apply andb_true_iff in H as [H1 H2]. split.
  - apply (nodup_keys_NoDup c [] H1).
  - rewrite forallb_forall in H2. rewrite Forall_forall. intros kv Hin.
    specialize (H2 kv Hin). apply andb_true_iff in H2 as [Hk Hv]. apply bytes_eqb_eq in Hk.
    split; auto. apply plain_fixed. exact Hv.
Qed.

Lemma in_keys_assoc {A} k (m : list (bytes * A)) : In k (keys_of m) <-> assoc_first k m <> None.
Proof.
  split.
  - induction m as [|[k' v'] m IH]; simpl; [tauto|]. intros [E|Hin].
    + subst. rewrite bytes_eqb_refl. discriminate.
    + destruct (bytes_eqb k k'); [discriminate|auto].
  - intro H. destruct (in_dec_bytes k (keys_of m)); auto. exfalso. apply H. apply assoc_first_none. auto.
Qed.

(* ================= keeps exactly ================= *)
Definition top_keep (a : algo) : list bytes := map fname (a_fields a).
Definition kept_plain (a : algo) (ty : bytes) (c : list (bytes * json)) : list (bytes * json) :=
  match assoc_first ty (a_content a) with
  | Some [] => c
  | Some ks => filter (keeps ks) c
  | None => []
  end.

Theorem redact_alg_keeps_exactly a m ty c :
  algo_ok a = true -> exact_keys a m ->
  assoc_first type_key m = Some (JStr ty) -> utf8_sanitize ty = ty ->
  assoc_first content_key m = Some (JObj c) -> plain_value (JObj c) = true ->
  exists out, redact_alg a (JObj m) = Some (JObj out) /\
    NoDup (keys_of out) /\
    (forall k, In k (keys_of out) <-> In k (keys_of m) /\ In k (top_keep a)) /\
    (forall k, In k (top_keep a) -> k <> content_key -> assoc_first k out = assoc_first k m) /\
    assoc_first content_key out = Some (JObj (kept_plain a ty c)).
Proof.
  intros Hok Hex Hty Hty_valid Hco Hplain.
  assert (Hty_ok : type_ok m) by (unfold type_ok; rewrite Hty; exact I).
  assert (Hco_ok : content_ok m) by (unfold content_ok; rewrite Hco; exact I).
  destruct (redact_members_exact a m Hok Hex Hty_ok Hco_ok) as (out & Hout & Hnd_out & Hkeys & Hraw & Htype & Hcontent).
  destruct (algo_ok_facts a Hok) as (Hnd & Hfields & (ft & Hft) & (fc & Hfc)).
  assert (Hdt : decoded_type m = ty) by (unfold decoded_type; rewrite Hty; exact Hty_valid).
  assert (Hdc : decoded_content m = Some c).
  { unfold decoded_content. rewrite Hco. f_equal. apply dedupe_normal_id. apply plain_obj_normal. exact Hplain. }
  rewrite Hdt in Htype. rewrite Hdt, Hdc in Hcontent.
  assert (Hcontent' : assoc_first content_key out = Some (JObj (kept_plain a ty c))).
  { rewrite Hcontent. unfold kept_content, kept_plain, content_json.
    destruct (assoc_first ty (a_content a)) as [[|k ks]|]; reflexivity. }
  (* lookup of any field name *)
  assert (Hlook : forall f, In f (a_fields a) -> fname f <> content_key -> assoc_first (fname f) out = assoc_first (fname f) m).
  { intros f Hf Hne. pose proof (field_kind_name (a_fields a) Hnd Hfields ft fc Hft Hfc f Hf) as Hk.
    destruct (fkind_of f) eqn:K.
    - apply Hraw; auto.
    - subst f. destruct Hft as (_ & Ht2 & _). rewrite Ht2, Htype, Hty. reflexivity.
    - subst f. destruct Hfc as (_ & Hc2 & _). contradiction.
    - contradiction. }
  exists out. unfold redact_alg, redact_alg_outcome. rewrite Hout.
  split; [reflexivity|]. split; [exact Hnd_out|]. split; [|split]; auto.
  - intro k. split.
    + intro Hin. pose proof (Hkeys k Hin) as Hk. split; [|exact Hk].
      unfold top_keep in Hk. apply in_map_iff in Hk as (f & Ef & Hf). subst k.
      destruct (bytes_eqb (fname f) content_key) eqn:E.
      * apply bytes_eqb_eq in E. rewrite E. apply in_keys_assoc. rewrite Hco. discriminate.
      * apply bytes_eqb_neq in E. apply in_keys_assoc. rewrite <- (Hlook f Hf E). apply in_keys_assoc. exact Hin.
    + intros [Hin Hk]. unfold top_keep in Hk. apply in_map_iff in Hk as (f & Ef & Hf). subst k.
      destruct (bytes_eqb (fname f) content_key) eqn:E.
      * apply bytes_eqb_eq in E. rewrite E. apply in_keys_assoc. rewrite Hcontent'. discriminate.
      * apply bytes_eqb_neq in E. apply in_keys_assoc. rewrite (Hlook f Hf E). apply in_keys_assoc. exact Hin.
  - intros k Hk Hne. unfold top_keep in Hk. apply in_map_iff in Hk as (f & Ef & Hf). subst k. apply Hlook; auto.
Qed.

(* content keys: exactly the input's keys that are listed (or all of them), values unchanged *)
Lemma kept_plain_members a ty c k v :
  In (k, v) (kept_plain a ty c) <->
  In (k, v) c /\ match assoc_first ty (a_content a) with
                 | Some [] => True
                 | Some ks => In k ks
                 | None => False
                 end.
Proof.
  unfold kept_plain. destruct (assoc_first ty (a_content a)) as [[|k0 ks]|].
  - tauto.
  - rewrite filter_In. unfold keeps. simpl fst. rewrite mem_bytes_In. tauto.
  - simpl. tauto.
Qed.

(* ================= per version ================= *)
Lemma algo_of_version_in ver a : algo_of_version ver = Some a -> In ver versions.
Proof.
  intro H. unfold algo_of_version, redact_fn_of_version in H.
  destruct (assoc_first ver gen_versions) as [fields|] eqn:E; [|discriminate].
  apply assoc_first_some_in in E. unfold versions. change ver with (fst (ver, fields)). apply in_map. exact E.
Qed.

Definition identity_keys : list bytes := [bs "type"; bs "sender"; bs "room_id"; bs "state_key"].
Definition signature_keys : list bytes := [bs "signatures"; bs "hashes"; bs "origin_server_ts"; bs "event_id"].

Definition keeps_keys (ks : list bytes) (ver : bytes) : bool :=
  match algo_of_version ver with
  | Some a => forallb (fun k => mem_bytes k (top_keep a) && negb (bytes_eqb k content_key)) ks
  | None => false
  end.

Lemma identity_keys_kept_b : forallb (keeps_keys (identity_keys ++ signature_keys)) versions = true.
Proof. vm_compute. reflexivity. Qed.

Lemma identity_keys_kept ver a k :
  algo_of_version ver = Some a -> In k (identity_keys ++ signature_keys) -> In k (top_keep a) /\ k <> content_key.
Proof.
  intros Ha Hk. pose proof identity_keys_kept_b as H. rewrite forallb_forall in H.
  specialize (H ver (algo_of_version_in ver a Ha)). unfold keeps_keys in H. rewrite Ha in H.
  rewrite forallb_forall in H. specialize (H k Hk). apply andb_true_iff in H as [H1 H2].
  split; [apply mem_bytes_In; exact H1|]. apply negb_true_iff in H2. apply bytes_eqb_neq. exact H2.
Qed.

Theorem redact_keeps_exactly_v ver a m ty c :
  algo_of_version ver = Some a -> exact_keys a m ->
  assoc_first type_key m = Some (JStr ty) -> utf8_sanitize ty = ty ->
  assoc_first content_key m = Some (JObj c) -> plain_value (JObj c) = true ->
  exists out, redact ver (JObj m) = Some (JObj out) /\
    NoDup (keys_of out) /\
    (forall k, In k (keys_of out) <-> In k (keys_of m) /\ In k (top_keep a)) /\
    (forall k, In k (top_keep a) -> k <> content_key -> assoc_first k out = assoc_first k m) /\
    assoc_first content_key out = Some (JObj (kept_plain a ty c)).
Proof.
  intros Ha. unfold redact. rewrite Ha. apply redact_alg_keeps_exactly. eapply algo_of_version_ok; eauto.
Qed.

Theorem redact_identity ver a m ty c out k :
  algo_of_version ver = Some a -> exact_keys a m ->
  assoc_first type_key m = Some (JStr ty) -> utf8_sanitize ty = ty ->
  assoc_first content_key m = Some (JObj c) -> plain_value (JObj c) = true ->
  redact ver (JObj m) = Some (JObj out) ->
  In k (identity_keys ++ signature_keys) ->
  assoc_first k out = assoc_first k m.
Proof.
  intros Ha Hex Hty Hv Hco Hpl Hr Hk.
  destruct (redact_keeps_exactly_v ver a m ty c Ha Hex Hty Hv Hco Hpl) as (out' & Hr' & _ & _ & Hlook & _).
  rewrite Hr in Hr'. inversion Hr'; subst out'.
  destruct (identity_keys_kept ver a k Ha Hk) as [H1 H2]. apply Hlook; auto.
Qed.

(* what is hashed for the reference / event ID, and what is handed to the signature check *)
Theorem reference_of_redacted ver j r : redact ver j = Some r -> reference_json ver r = reference_json ver j.
Proof.
  intro H. unfold reference_json. rewrite (redact_idempotent ver j r H), H. reflexivity.
Qed.

(* ================= shape of every redaction output (no premise on the input) ================= *)
Definition listed (a : algo) (ty k : bytes) : Prop :=
  match assoc_first ty (a_content a) with
  | Some [] => True
  | Some ks => In k ks
  | None => False
  end.

Theorem redact_alg_output a j r :
  algo_ok a = true -> redact_alg a j = Some r ->
  exists out ty cj, r = JObj out /\
    (forall k, In k (keys_of out) -> In k (top_keep a)) /\
    assoc_first type_key out = Some (JStr ty) /\
    assoc_first content_key out = Some cj /\
    (cj = JNull \/ exists c, cj = JObj c /\ forall k, In k (keys_of c) -> listed a ty k).
Proof.
  intros Hok H.
  destruct (algo_ok_facts a Hok) as (Hnd & Hfields & (ft & Ht1 & Ht2 & Ht3) & (fc & Hc1 & Hc2 & Hc3)).
  unfold redact_alg, redact_alg_outcome in H.
  destruct j as [| | | | |m]; try discriminate.
  destruct (redact_members a m) as [r0|] eqn:Hr; [|discriminate]. inversion H; subst r0. clear H.
  unfold redact_members in Hr.
  destruct (decode (a_fields a) m) as [d|] eqn:Hd; [|discriminate].
  destruct (emit_fields_spec d (filter_content (a_content a) d) (a_fields a) Hfields Hnd)
    as (out & Hout & Hkeys & _ & Hlook).
  rewrite Hout in Hr. inversion Hr; subst r. clear Hr.
  exists out, (d_type d), (content_json (filter_content (a_content a) d)).
  split; [reflexivity|]. split; [|split; [|split]].
  - intros k Hk. destruct (Hkeys k Hk) as (f & Hf & Ef & _). subst k. unfold top_keep. apply in_map. exact Hf.
  - rewrite <- Ht2, (Hlook ft Ht1). unfold emit_val. rewrite Ht3. reflexivity.
  - rewrite <- Hc2, (Hlook fc Hc1). unfold emit_val. rewrite Hc3. reflexivity.
  - unfold filter_content, listed.
    destruct (assoc_first (d_type d) (a_content a)) as [[|k0 ks]|].
    + destruct (d_content d) as [c|]; [right; exists c; split; [reflexivity|tauto]|left; reflexivity].
    + right. eexists. split; [reflexivity|]. intros k Hk.
      unfold keys_of in Hk. apply in_map_iff in Hk as (kv & Ek & Hin). apply filter_In in Hin as [_ Hkeep].
      unfold keeps in Hkeep. apply mem_bytes_In in Hkeep. subst k. exact Hkeep.
    + right. exists []. split; [reflexivity|]. simpl. tauto.
Qed.

(* ================= events that agree on the protected material redact alike ================= *)
Theorem redact_members_protected_only a m m' :
  algo_ok a = true ->
  exact_keys a m -> exact_keys a m' -> type_ok m -> type_ok m' -> content_ok m -> content_ok m' ->
  (forall f, In f (a_fields a) -> fkind_of f = FRaw -> assoc_first (fname f) m' = assoc_first (fname f) m) ->
  decoded_type m' = decoded_type m ->
  kept_content a (decoded_type m') (decoded_content m') = kept_content a (decoded_type m) (decoded_content m) ->
  redact_members a m' = redact_members a m.
Proof.
  intros Hok [Hn He] [Hn' He'] Hty Hty' Hco Hco' Hraw Htype Hkept.
  destruct (algo_ok_facts a Hok) as (Hnd & Hfields & (ft & Hft) & (fc & Hfc)).
  destruct (decode_exact (a_fields a) Hnd Hfields ft fc Hft Hfc m d_init Hn He Hty Hco) as (d & Hd & Hr & Ht & Hc).
  destruct (decode_exact (a_fields a) Hnd Hfields ft fc Hft Hfc m' d_init Hn' He' Hty' Hco') as (d' & Hd' & Hr' & Ht' & Hc').
  assert (Etype : d_type d' = d_type d).
  { rewrite Ht, Ht'. exact Htype. }
  assert (Econtent : filter_content (a_content a) d' = filter_content (a_content a) d).
  { assert (forall mm dd, d_type dd = match assoc_first type_key mm with Some (JStr s) => utf8_sanitize s | _ => d_type d_init end ->
              d_content dd = match assoc_first content_key mm with
                             | Some (JObj c) => Some (fold_left set_member (norm_members c) (old_content d_init))
                             | Some JNull => None
                             | _ => d_content d_init end ->
              filter_content (a_content a) dd = kept_content a (decoded_type mm) (decoded_content mm)) as Hgen.
    { intros mm dd Htt Hcc. unfold filter_content, kept_content, decoded_type, decoded_content.
      rewrite Htt, Hcc. simpl d_type. simpl d_content. unfold old_content. simpl d_content. fold dedupe.
      destruct (assoc_first content_key mm) as [[]|]; reflexivity. }
    rewrite (Hgen m' d' Ht' Hc'), (Hgen m d Ht Hc). exact Hkept. }
  unfold redact_members, decode. unfold decode_from in Hd, Hd'. rewrite Hd, Hd', Econtent.
  rewrite (emit_fields_ext d d' (filter_content (a_content a) d) (a_fields a)); [reflexivity| |exact Etype].
  intros f Hf Hk. rewrite Hr, Hr'. rewrite (Hraw f Hf Hk). reflexivity.
Qed.
