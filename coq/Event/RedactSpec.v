(* The redaction algorithms of the Matrix specification, transcribed by hand from the room
   version pages (v1-v5, v6-v7, v8, v9-v10, v11+; DESIGN Appendix C), independently of the
   library's tables, and the simplest function that satisfies them.  No reference to the model. *)
From Verif Require Import Lib.Bytes Json.Ast.
Open Scope N_scope.

(* a content rule: keep everything, or keep the listed paths; a path is a key, or a key and
   one key below it (v11: the signed key of third_party_invite) *)
Inductive content_rule := KeepAll | KeepPaths (ps : list (list bytes)).

Record rspec := mkSpec { sp_top : list bytes; sp_content : list (bytes * content_rule) }.

Definition keys (l : list string) : list bytes := map bs l.
Definition paths (l : list string) : content_rule := KeepPaths (map (fun s => [bs s]) l).

(* "event_id, type, room_id, sender, state_key, content, hashes, signatures, depth, prev_events,
   prev_state, auth_events, origin, origin_server_ts, membership" *)
Definition top_v1 : list bytes :=
  keys ["event_id"; "type"; "room_id"; "sender"; "state_key"; "content"; "hashes"; "signatures";
        "depth"; "prev_events"; "prev_state"; "auth_events"; "origin"; "origin_server_ts";
        "membership"]%string.
(* v11 removes origin, membership and prev_state from the list *)
Definition top_v11 : list bytes :=
  keys ["event_id"; "type"; "room_id"; "sender"; "state_key"; "content"; "hashes"; "signatures";
        "depth"; "prev_events"; "auth_events"; "origin_server_ts"]%string.

Definition power_levels_v1 : content_rule :=
  paths ["ban"; "events"; "events_default"; "kick"; "redact"; "state_default"; "users";
         "users_default"]%string.

Definition spec_v1 : rspec := mkSpec top_v1
  [ (bs "m.room.member", paths ["membership"]%string);
    (bs "m.room.create", paths ["creator"]%string);
    (bs "m.room.join_rules", paths ["join_rule"]%string);
    (bs "m.room.power_levels", power_levels_v1);
    (bs "m.room.aliases", paths ["aliases"]%string);
    (bs "m.room.history_visibility", paths ["history_visibility"]%string) ].

(* v6: m.room.aliases no longer special *)
Definition spec_v6 : rspec := mkSpec top_v1
  [ (bs "m.room.member", paths ["membership"]%string);
    (bs "m.room.create", paths ["creator"]%string);
    (bs "m.room.join_rules", paths ["join_rule"]%string);
    (bs "m.room.power_levels", power_levels_v1);
    (bs "m.room.history_visibility", paths ["history_visibility"]%string) ].

(* v8: m.room.join_rules also keeps allow *)
Definition spec_v8 : rspec := mkSpec top_v1
  [ (bs "m.room.member", paths ["membership"]%string);
    (bs "m.room.create", paths ["creator"]%string);
    (bs "m.room.join_rules", paths ["join_rule"; "allow"]%string);
    (bs "m.room.power_levels", power_levels_v1);
    (bs "m.room.history_visibility", paths ["history_visibility"]%string) ].

(* v9: m.room.member also keeps join_authorised_via_users_server *)
Definition spec_v9 : rspec := mkSpec top_v1
  [ (bs "m.room.member", paths ["membership"; "join_authorised_via_users_server"]%string);
    (bs "m.room.create", paths ["creator"]%string);
    (bs "m.room.join_rules", paths ["join_rule"; "allow"]%string);
    (bs "m.room.power_levels", power_levels_v1);
    (bs "m.room.history_visibility", paths ["history_visibility"]%string) ].

(* v11: top-level list shortened; m.room.create keeps all of its content; m.room.redaction keeps
   redacts; m.room.power_levels keeps invite; m.room.member keeps the signed key of
   third_party_invite *)
Definition tpi_signed : list bytes := [bs "third_party_invite"; bs "signed"].
Definition spec_v11 : rspec := mkSpec top_v11
  [ (bs "m.room.member",
     KeepPaths [[bs "membership"]; [bs "join_authorised_via_users_server"]; tpi_signed]);
    (bs "m.room.create", KeepAll);
    (bs "m.room.join_rules", paths ["join_rule"; "allow"]%string);
    (bs "m.room.power_levels",
     paths ["ban"; "events"; "events_default"; "kick"; "redact"; "state_default"; "users";
            "users_default"; "invite"]%string);
    (bs "m.room.history_visibility", paths ["history_visibility"]%string);
    (bs "m.room.redaction", paths ["redacts"]%string) ].

Fixpoint path_eqb (a b : list bytes) : bool :=
  match a, b with
  | [], [] => true
  | x :: a', y :: b' => bytes_eqb x y && path_eqb a' b'
  | _, _ => false
  end.
Definition mem_path (p : list bytes) (ps : list (list bytes)) : bool := existsb (path_eqb p) ps.

Inductive spec_name := SV1 | SV6 | SV8 | SV9 | SV11.
Definition spec_of (n : spec_name) : rspec :=
  match n with SV1 => spec_v1 | SV6 => spec_v6 | SV8 => spec_v8 | SV9 => spec_v9 | SV11 => spec_v11 end.

(* the redaction column of the room-version matrix (DESIGN Appendix C), 16 versions *)
Definition version_redaction : list (bytes * spec_name) :=
  [ (bs "1", SV1); (bs "2", SV1); (bs "3", SV1); (bs "4", SV1); (bs "5", SV1);
    (bs "6", SV6); (bs "7", SV6);
    (bs "8", SV8);
    (bs "9", SV9); (bs "10", SV9);
    (bs "11", SV11); (bs "12", SV11);
    (bs "org.matrix.msc4014", SV9);      (* as 10 *)
    (bs "org.matrix.msc3667", SV6);      (* as 7 *)
    (bs "org.matrix.msc3787", SV9);      (* as 9 *)
    (bs "org.matrix.hydra.11", SV11) ].  (* as 12 *)

Definition spec_of_version (ver : bytes) : option rspec :=
  option_map spec_of (assoc_first ver version_redaction).

(* the one difference already recorded (DESIGN F17): the specification without that path *)
Definition without_tpi_signed (sp : rspec) : rspec :=
  mkSpec (sp_top sp)
         (map (fun tr => match snd tr with
                         | KeepPaths ps => (fst tr, KeepPaths (filter (fun p => negb (path_eqb p tpi_signed)) ps))
                         | KeepAll => tr
                         end) (sp_content sp)).

(* ---------- the redaction the specification describes ---------- *)
Definition type_key : bytes := bs "type".
Definition content_key : bytes := bs "content".

Definition keep_member (ps : list (list bytes)) (kv : bytes * json) : list (bytes * json) :=
  let k := fst kv in
  if mem_path [k] ps then [kv]
  else
    (* sub-paths below k: keep k with only the listed sub-keys, when the value is an object
       that has at least one of them (other shapes: the specification is silent; dropped) *)
    let subs := flat_map (fun p => match p with [k'; s] => if bytes_eqb k k' then [s] else [] | _ => [] end) ps in
    match subs, snd kv with
    | _ :: _, JObj m =>
        match filter (fun sv => mem_bytes (fst sv) subs) m with
        | [] => []
        | kept => [(k, JObj kept)]
        end
    | _, _ => []
    end.

Definition spec_content (sp : rspec) (ty : bytes) (c : list (bytes * json)) : list (bytes * json) :=
  match assoc_first ty (sp_content sp) with
  | Some KeepAll => c
  | Some (KeepPaths ps) => flat_map (keep_member ps) c
  | None => []
  end.

(* "strip off any keys not in the following list", then the content rule of the event's type.
   type and content are part of every event; when the input lacks them the result carries the
   empty string / the empty object (the additions DESIGN C05 names). *)
Definition spec_redact (sp : rspec) (e : list (bytes * json)) : list (bytes * json) :=
  let ty := match assoc_first type_key e with Some (JStr s) => s | _ => [] end in
  let c := match assoc_first content_key e with Some (JObj c) => c | _ => [] end in
  let kept := filter (fun kv => mem_bytes (fst kv) (sp_top sp)
                                && negb (bytes_eqb (fst kv) type_key)
                                && negb (bytes_eqb (fst kv) content_key)) e in
  (type_key, JStr ty) :: (content_key, JObj (spec_content sp ty c)) :: kept.
