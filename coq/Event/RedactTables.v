(* Table theorems: the keep-lists and the version wiring generated from redactevent.go and
   eventversion.go against the hand-written specification tables (Event/RedactSpec.v).
   Everything here is decided by computation over the generated tables, so an edit of a list in
   the Go source breaks one of these proofs. *)
From Verif Require Import Lib.Bytes Json.Ast Event.Redact Event.RedactSpec.
From Verif Require Import Gen.GenRedact Gen.GenVersions.
Open Scope N_scope.

Definition incl_b (a b : list bytes) : bool := forallb (fun x => mem_bytes x b) a.
Definition same_set (a b : list bytes) : bool :=
  incl_b a b && incl_b b a && Nat.eqb (length a) (length b).

Definition incl_paths (a b : list (list bytes)) : bool := forallb (fun p => mem_path p b) a.
Definition same_paths (a b : list (list bytes)) : bool :=
  incl_paths a b && incl_paths b a && Nat.eqb (length a) (length b).

(* the library's convention: an entry with an empty list keeps everything *)
Definition code_rule (ks : list bytes) : content_rule :=
  match ks with [] => KeepAll | _ => KeepPaths (map (fun k => [k]) ks) end.

Definition rule_eqb (a b : content_rule) : bool :=
  match a, b with
  | KeepAll, KeepAll => true
  | KeepPaths x, KeepPaths y => same_paths x y
  | _, _ => false
  end.

Definition algo_matches_spec (a : algo) (sp : rspec) : bool :=
  same_set (map fname (a_fields a)) (sp_top sp) &&
  same_set (map fst (a_content a)) (map fst (sp_content sp)) &&
  forallb (fun tr => match assoc_first (fst tr) (a_content a) with
                     | Some ks => rule_eqb (code_rule ks) (snd tr)
                     | None => false
                     end) (sp_content sp).

(* which function of redactevent.go implements which algorithm of the specification *)
Definition code_fn (n : spec_name) : bytes :=
  match n with
  | SV1 => bs "redactEventJSONV1"
  | SV6 => bs "redactEventJSONV2"
  | SV8 => bs "redactEventJSONV3"
  | SV9 => bs "redactEventJSONV4"
  | SV11 => bs "redactEventJSONV5"
  end.

Definition all_specs : list spec_name := [SV1; SV6; SV8; SV9; SV11].

Definition check_algo (exception : bool) (n : spec_name) : bool :=
  match algo_of_fn (code_fn n) with
  | Some a => algo_matches_spec a (if exception then without_tpi_signed (spec_of n) else spec_of n)
  | None => false
  end.

(* the struct shape the model relies on: unique ASCII names, RawJSON fields with omitempty, one
   string field type and one map field content, both without omitempty *)
Fixpoint nodup_b (l : list bytes) : bool :=
  match l with [] => true | x :: l' => negb (mem_bytes x l') && nodup_b l' end.

Definition field_ok (f : field) : bool :=
  forallb (fun c => c <? 128) (fname f) &&
  match fkind_of f with
  | FRaw => fomit f
  | FStr => negb (fomit f) && bytes_eqb (fname f) type_key
  | FMap => negb (fomit f) && bytes_eqb (fname f) content_key
  | FUnknown => false
  end.

Definition is_kind (k : fkind) (f : field) : bool :=
  match k, fkind_of f with
  | FRaw, FRaw | FStr, FStr | FMap, FMap | FUnknown, FUnknown => true
  | _, _ => false
  end.

Definition algo_ok (a : algo) : bool :=
  nodup_b (map fname (a_fields a)) &&
  forallb field_ok (a_fields a) &&
  Nat.eqb (length (filter (is_kind FStr) (a_fields a))) 1 &&
  Nat.eqb (length (filter (is_kind FMap) (a_fields a))) 1.

Definition version_ok (ver : bytes) : bool :=
  match algo_of_version ver with Some a => algo_ok a | None => false end.

(* ---------- the theorems ---------- *)

(* every registered version has a redaction algorithm of the modelled shape *)
Lemma all_versions_ok : forallb version_ok versions = true.
Proof. vm_compute. reflexivity. Qed.

Lemma assoc_first_In {A} k (l : list (bytes * A)) v : assoc_first k l = Some v -> exists k', k' = k /\ In (k', v) l.
Proof.
  induction l as [|[k' v'] l IH]; simpl; [discriminate|].
  destruct (bytes_eqb k k') eqn:E.
  - intro H; inversion H; subst. apply bytes_eqb_eq in E. exists k'. split; auto.
  - intro H. destruct (IH H) as (k2 & E2 & Hin). exists k2. split; auto.
Qed.

Lemma algo_of_version_ok ver a : algo_of_version ver = Some a -> algo_ok a = true.
Proof.
  intro H.
  assert (Hv : In ver versions).
  { unfold algo_of_version, redact_fn_of_version in H.
    destruct (assoc_first ver gen_versions) as [fields|] eqn:E; [|discriminate].
    apply assoc_first_In in E as (k' & Ek & Hin). subst k'.
    unfold versions. change ver with (fst (ver, fields)). apply in_map. exact Hin. }
  pose proof all_versions_ok as Hall. rewrite forallb_forall in Hall.
  specialize (Hall ver Hv). unfold version_ok in Hall. rewrite H in Hall. exact Hall.
Qed.

(* the five keep-lists equal the specification's, except for the one recorded difference *)
Lemma keep_lists_match_spec_b : forallb (check_algo true) all_specs = true.
Proof. vm_compute. reflexivity. Qed.

(* without the exception the comparison fails, for v11 and only there *)
Lemma keep_lists_exact_b : map (check_algo false) all_specs = [true; true; true; true; false].
Proof. vm_compute. reflexivity. Qed.

(* every function of the wiring table is one of the five *)
Lemma wiring_functions_b : same_set (map fst gen_redact_wiring) (map code_fn all_specs) = true.
Proof. vm_compute. reflexivity. Qed.

(* the version column: exactly the 16 versions, each wired to its specification's function *)
Definition check_version (vn : bytes * spec_name) : bool :=
  match redact_fn_of_version (fst vn) with
  | Some fn => bytes_eqb fn (code_fn (snd vn))
  | None => false
  end.

Lemma version_column_b :
  forallb check_version version_redaction = true /\
  same_set versions (map fst version_redaction) = true /\
  length versions = 16%nat.
Proof. vm_compute. repeat split; reflexivity. Qed.
