(* C06 - specification side: which servers MUST have signed an event, transcribed from the
   property text (and the Matrix specification's "Checks performed on receipt of a PDU" /
   room-version pages), independently of the structure of eventcrypto.go.

     required servers of an event in a room version =
        the sender's server;
        in room versions 1 and 2 also the server named in the event ID;
        for invite memberships also the invited user's server (state_key);
        for joins carrying join_authorised_via_users_server, in the versions that support
        restricted joins, also that user's server.

   The event is read here with the plainest accessors (first member with exactly that name);
   well-formedness (wf_event) says that the event is unambiguous (no member whose name could be
   taken for one of the fields under letter-case folding, no duplicates of those) and that the
   identifiers it carries have the sigil:localpart:server shape. *)
From Verif Require Import Lib.Bytes Json.Ast.
Open Scope N_scope.

(* ---------- the room-version matrix (DESIGN Appendix C), the three columns C06 needs ---------- *)
Definition spec_versions : list bytes :=
  [bs "1"; bs "2"; bs "3"; bs "4"; bs "5"; bs "6"; bs "7"; bs "8"; bs "9"; bs "10"; bs "11"; bs "12";
   bs "org.matrix.msc4014"; bs "org.matrix.msc3667"; bs "org.matrix.msc3787"; bs "org.matrix.hydra.11"].

Definition spec_is_version (ver : bytes) : bool := mem_bytes ver spec_versions.

(* event IDs name a server only in versions 1 and 2 (later ones are hashes) *)
Definition spec_event_id_names_server (ver : bytes) : bool := mem_bytes ver [bs "1"; bs "2"].

(* restricted joins: v8 on; of the unstable ones msc3787 (as 9), hydra (as 12), msc4014 (as 10) *)
Definition spec_restricted_joins (ver : bytes) : bool :=
  mem_bytes ver [bs "8"; bs "9"; bs "10"; bs "11"; bs "12";
                 bs "org.matrix.msc4014"; bs "org.matrix.msc3787"; bs "org.matrix.hydra.11"].

(* signing-key validity is enforced strictly from room version 5 on *)
Definition spec_strict_validity (ver : bytes) : bool :=
  spec_is_version ver && negb (mem_bytes ver [bs "1"; bs "2"; bs "3"; bs "4"]).

Definition spec_pseudoid (ver : bytes) : bool := bytes_eqb ver (bs "org.matrix.msc4014").

(* ---------- identifiers ---------- *)
(* the server of  sigil localpart ":" server  = everything after the first colon *)
Fixpoint after_colon (s : bytes) : option bytes :=
  match s with
  | [] => None
  | c :: r => if c =? 58 then Some r else after_colon r
  end.

Definition has_sigil (sigil : N) (id : bytes) : bool :=
  match id with c :: _ => c =? sigil | [] => false end.

(* a proper identifier: the sigil, then a colon somewhere, then a non-empty server *)
Definition proper_id (sigil : N) (id : bytes) : bool :=
  has_sigil sigil id && match after_colon id with Some (_ :: _) => true | _ => false end.

Definition server_of (id : bytes) : list bytes :=
  match after_colon id with Some d => [d] | None => [] end.

(* ---------- plain reading of the event ---------- *)
Definition s_str (k : bytes) (j : json) : bytes :=
  match jget k j with Some (JStr s) => s | _ => [] end.

Definition s_is_member (j : json) : bool := bytes_eqb (s_str (bs "type") j) (bs "m.room.member").
Definition s_membership (j : json) : bytes :=
  match jget (bs "content") j with Some c => s_str (bs "membership") c | None => [] end.
Definition s_authorised_via (j : json) : option bytes :=
  match jget (bs "content") j with
  | Some c => match jget (bs "join_authorised_via_users_server") c with
              | Some (JStr u) => Some u
              | _ => None
              end
  | None => None
  end.

(* ---------- THE specification ---------- *)
Definition required_spec (ver : bytes) (j : json) : list bytes :=
  server_of (s_str (bs "sender") j)
  ++ (if spec_event_id_names_server ver then server_of (s_str (bs "event_id") j) else [])
  ++ (if s_is_member j && bytes_eqb (s_membership j) (bs "invite")
      then server_of (s_str (bs "state_key") j) else [])
  ++ (if s_is_member j && bytes_eqb (s_membership j) (bs "join") && spec_restricted_joins ver
      then match s_authorised_via j with Some u => server_of u | None => [] end
      else []).

(* the instant at which the signing keys must have been valid: origin_server_ts *)
Definition s_ts (j : json) : N :=
  match jget (bs "origin_server_ts") j with
  | Some (JNum raw) => match parse_dec raw with Some n => n | None => 0 end
  | _ => 0
  end.

(* the validity rule every verification must use *)
Definition required_rule_strict (ver : bytes) : bool := spec_strict_validity ver.

(* ---------- well-formedness ---------- *)
Definition lower (c : N) : N := if (65 <=? c) && (c <=? 90) then c + 32 else c.
Definition all_ascii (k : bytes) : bool := forallb (fun c => c <? 128) k.
(* could a decoder that ignores letter case take member name k for field f?  (any non-ASCII
   name is conservatively counted as a possible look-alike) *)
Definition alike (f k : bytes) : bool :=
  negb (all_ascii k) || bytes_eqb (map lower f) (map lower k).

(* field f is unambiguous in the object: at most one look-alike member, and it is spelled exactly *)
Fixpoint unambiguous (f : bytes) (m : list (bytes * json)) : bool :=
  match m with
  | [] => true
  | (k, _) :: m' =>
      if alike f k then bytes_eqb f k && forallb (fun kv => negb (alike f (fst kv))) m'
      else unambiguous f m'
  end.

Definition field_ok_str (f : bytes) (m : list (bytes * json)) : bool :=
  unambiguous f m && match assoc_first f m with Some (JStr _) => true | None => true | _ => false end.

Definition is_uint64_lit (raw : bytes) : bool :=
  match raw with
  | [] => false
  | _ => all_digits raw && match parse_dec raw with Some n => n <? 18446744073709551616 | None => false end
  end.

Definition wf_content (ver : bytes) (is_member : bool) (m : list (bytes * json)) (state_key : option json) : bool :=
  match assoc_first (bs "content") m with
  | Some (JObj c) =>
      if is_member then
        field_ok_str (bs "membership") c
        && match assoc_first (bs "membership") c with Some (JStr _) => true | _ => false end
        && match state_key with Some (JStr _) => true | _ => false end
        && (if bytes_eqb (s_str (bs "membership") (JObj c)) (bs "invite")
            then match state_key with Some (JStr sk) => proper_id 64 sk | _ => false end
            else true)
        && (if bytes_eqb (s_str (bs "membership") (JObj c)) (bs "join") && spec_restricted_joins ver
            then field_ok_str (bs "join_authorised_via_users_server") c
                 && match assoc_first (bs "join_authorised_via_users_server") c with
                    | None => true
                    | Some (JStr u) => proper_id 64 u
                    | Some _ => false
                    end
            else true)
      else true
  | _ => false
  end.

(* an event the property speaks about, in a version other than the pseudo-ID one *)
Definition wf_event (ver : bytes) (j : json) : bool :=
  spec_is_version ver && negb (spec_pseudoid ver) &&
  match j with
  | JObj m =>
      field_ok_str (bs "type") m && field_ok_str (bs "sender") m && field_ok_str (bs "state_key") m
      && field_ok_str (bs "event_id") m
      && unambiguous (bs "content") m && unambiguous (bs "origin_server_ts") m
      && match assoc_first (bs "origin_server_ts") m with
         | Some (JNum raw) => is_uint64_lit raw
         | None => true
         | _ => false
         end
      && proper_id 64 (s_str (bs "sender") j)
      && (if spec_event_id_names_server ver then proper_id 36 (s_str (bs "event_id") j) else true)
      && wf_content ver (s_is_member j) m (assoc_first (bs "state_key") m)
  | _ => false
  end.

(* what the caller's sender-resolution must have answered for a well-formed event: the user ID
   that IS the sender field, hence its server *)
Definition sender_server (j : json) : option bytes := after_colon (s_str (bs "sender") j).

(* ---------- the authorising user as the AUTH RULES read it ---------- *)
(* The auth rules decode the member content with encoding/json into MemberContent.  A member is
   taken for join_authorised_via_users_server when its name equals it up to letter case (ASCII
   letters; U+017F counts as s, U+212A as k); the occurrences are processed in source order: a
   string replaces what was read before, null changes nothing, any other value makes the content
   unparseable (the event can never be authorised).  The empty string names nobody.  The
   signature check must demand the signature of the server of THAT user: one reading of the
   event (repair F49). *)
Fixpoint norm_name (k : bytes) : bytes :=
  match k with
  | [] => []
  | c :: r =>
      match r with
      | d :: r2 =>
          if (c =? 197) && (d =? 191) then 115 :: norm_name r2
          else match r2 with
               | e :: r3 => if (c =? 226) && (d =? 132) && (e =? 170) then 107 :: norm_name r3
                            else lower c :: norm_name r
               | [] => lower c :: norm_name r
               end
      | [] => [lower c]
      end
  end.

Definition via_name : bytes := bs "join_authorised_via_users_server".
Definition via_like (k : bytes) : bool := bytes_eqb (norm_name k) via_name.

Inductive auth_reading := AUnparseable | ANobody | AUser (u : bytes).

Fixpoint auth_authoriser_from (c : list (bytes * json)) (sofar : bytes) : auth_reading :=
  match c with
  | [] => match sofar with [] => ANobody | _ => AUser sofar end
  | (k, v) :: c' =>
      if via_like k then
        match v with
        | JStr u => auth_authoriser_from c' u
        | JNull => auth_authoriser_from c' sofar
        | _ => AUnparseable
        end
      else auth_authoriser_from c' sofar
  end.
Definition auth_authoriser (c : list (bytes * json)) : auth_reading := auth_authoriser_from c [].
