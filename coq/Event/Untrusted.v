(* Model of the hash-check path of newEventFromUntrustedJSONV1/V2/V3 (eventV1.go, eventV2.go,
   eventV3.go) -- model only.

   Steps of the Go code and what the model does with them:
   1. a top-level key starting with an underscore: error                              (modelled)
   2. CheckCanonicalJSON                     (property C01; inputs here are canonical JSON)
   3. the keys other servers may have added are deleted -- lists generated from the source
      (GenStrip), selected per version through the generated version table            (modelled)
   4. json.Unmarshal into the event struct: type errors of the fields the accessors read
      (strings, integers, arrays), the room ID check (checkID / checkRoomID)          (modelled)
   5. canonicalisation of the stripped text: the result is an AST, printed canonically by users
   6. an event that RedactEventJSON refuses is refused whatever its hash               (modelled)
   7. checkEventContentHash: SHA-256 of the canonical text without signatures, unsigned,
      hashes against hashes.sha256.  The SHA-256 itself is computed outside the model; the
      decoding of hashes.sha256 (Base64Bytes.Decode, C17's model) and the comparison of ALL
      decoded bytes are modelled ([hash_matches]); parse_untrusted takes the verdict [hok]
   8. mismatch: flag the event as redacted, RedactEventJSON, canonicalise; when the bytes differ
      re-parse as a trusted event (same struct, same room ID check); CheckFields on the result
      (when the bytes are equal the first parse is kept: same bytes, same fields -- the model
      returns the redacted AST in both cases)
   9. match: CheckFields on the first parse.
   CheckFields refusals carry a class (too large / too large but persistable / other) and hand
   the event back; [parse_untrusted_full] keeps both, [parse_untrusted] forgets them. *)
From Verif Require Import Lib.Bytes Json.Ast Json.Print Event.Redact.
From Verif Require Import Gen.GenStrip Gen.GenVersions.
From Verif Require Ident.Ids Ident.Base64.
Open Scope N_scope.

Definition untrusted_field : bytes := bs "newEventFromUntrustedJSONFunc".
Definition format_field : bytes := bs "eventFormat".

Definition version_field (f ver : bytes) : option bytes :=
  match assoc_first ver gen_versions with
  | Some fields => assoc_first f fields
  | None => None
  end.

Inductive parser := PV1 | PV2 | PV3.
Definition parser_of_version (ver : bytes) : option (parser * bytes) :=
  match version_field untrusted_field ver with
  | Some fn =>
      if bytes_eqb fn (bs "newEventFromUntrustedJSONV1") then Some (PV1, fn)
      else if bytes_eqb fn (bs "newEventFromUntrustedJSONV2") then Some (PV2, fn)
      else if bytes_eqb fn (bs "newEventFromUntrustedJSONV3") then Some (PV3, fn)
      else None
  | None => None
  end.

(* the first delete-loop of the function *)
Definition strip_keys (fn : bytes) : list bytes :=
  match assoc_first fn gen_strip_lists with
  | Some (l :: _) => l
  | _ => []
  end.

Definition strip_with (ks : list bytes) (j : json) : json := fold_left (fun j k => jdel k j) ks j.

Definition strip (ver : bytes) (j : json) : json :=
  match parser_of_version ver with
  | Some (_, fn) => strip_with (strip_keys fn) j
  | None => j
  end.

(* the keys checkEventContentHash leaves out of the hash *)
Definition hash_strip_keys : list bytes := strip_keys (bs "checkEventContentHash").
Definition hashed_json (j : json) : json := strip_with hash_strip_keys j.

Definition has_underscore_key (j : json) : bool :=
  existsb (fun k => match k with c :: _ => c =? 95 | [] => false end) (jkeys j).

(* ---------- struct typing of the fields the accessors read ---------- *)
(* Go string field: absent or null -> "", a string, anything else is an unmarshal error *)
Definition str_field (k : bytes) (j : json) : option bytes :=
  match jget_last k j with
  | None | Some JNull => Some []
  | Some (JStr s) => Some (utf8_sanitize s)
  | Some _ => None
  end.

(* *string *)
Definition optstr_field (k : bytes) (j : json) : option (option bytes) :=
  match jget_last k j with
  | None | Some JNull => Some None
  | Some (JStr s) => Some (Some (utf8_sanitize s))
  | Some _ => None
  end.

Definition int64_ok (raw : bytes) : bool :=
  match num_int raw with
  | Some z => (Z.leb (-9223372036854775808) z) && (Z.leb z 9223372036854775807)
  | None => false
  end.

Definition int_field_ok (k : bytes) (j : json) : bool :=
  match jget_last k j with
  | None | Some JNull => true
  | Some (JNum raw) => int64_ok raw
  | Some _ => false
  end.

(* []string: Some None = nil slice *)
Definition strs_field (k : bytes) (j : json) : option (option (list bytes)) :=
  match jget_last k j with
  | None | Some JNull => Some None
  | Some (JArr l) =>
      (fix go (l : list json) : option (option (list bytes)) :=
         match l with
         | [] => Some (Some [])
         | JStr s :: l' => match go l' with Some (Some r) => Some (Some (s :: r)) | _ => None end
         | JNull :: l' => match go l' with Some (Some r) => Some (Some ([] :: r)) | _ => None end
         | _ => None
         end) l
  | Some _ => None
  end.

Definition arr_or_absent (k : bytes) (j : json) : bool :=
  match jget_last k j with
  | None | Some JNull | Some (JArr _) => true
  | Some _ => false
  end.

Definition blen (s : bytes) : N := N.of_nat (length s).

(* ---------- length classes (checkIDLength, CheckFields) ---------- *)
(* refused outright / refused but persistable (more than 255 bytes, not more than 255 code
   points) / some other error *)
Inductive fclass := FOk | FErr | FTooLarge | FPersist.

(* utf8.RuneCountInString of a decoded (hence valid UTF-8) string: the non-continuation bytes *)
Definition rune_count (s : bytes) : N := N.of_nat (length (filter (fun c => negb (cont c)) s)).

Definition len_class (s : bytes) : fclass :=
  if 255 <? rune_count s then FTooLarge else if 255 <? blen s then FPersist else FOk.

(* checkID: a colon, the sigil, then the length limits *)
Definition id_class (sigil : N) (id : bytes) : fclass :=
  if negb (existsb (fun c => c =? 58) id) then FErr
  else if negb (match id with c :: _ => c =? sigil | [] => false end) then FErr
  else len_class id.

(* checkIDFormat: the colon and the sigil, without the lengths *)
Definition id_format (sigil : N) (id : bytes) : bool :=
  existsb (fun c => c =? 58) id && match id with c :: _ => c =? sigil | [] => false end.

Definition id_ok (sigil : N) (id : bytes) : bool :=
  match id_class sigil id with FOk => true | _ => false end.

Definition pseudo_id_version : bytes := bs "org.matrix.msc4014".
(* a room ID that spec.NewRoomID accepts (the parsers refuse any other since the repair of F9);
   the grammar model is C17's *)
Definition room_valid (room : bytes) : bool :=
  match Ident.Ids.room_id_parse room with Some _ => true | None => false end.
Definition create_type : bytes := bs "m.room.create".

(* unmarshal into eventV1 / eventV2 / eventV3 plus the room ID checks of the parser *)
(* a room ID over the byte limit only does not stop parsing (notOnlyTooManyBytes): CheckFields
   reports it, with the event *)
Definition not_only_bytes (c : fclass) : fclass := match c with FPersist => FOk | c => c end.
Definition room_class (room : bytes) : fclass :=
  match not_only_bytes (id_class 33 room) with
  | FOk => if room_valid room then FOk else FErr
  | c => c
  end.

Definition parse_class (p : parser) (j : json) : fclass :=
  match j with
  | JObj _ =>
      match str_field (bs "room_id") j, str_field (bs "sender") j, str_field (bs "type") j,
            optstr_field (bs "state_key") j, str_field (bs "redacts") j with
      | Some room, Some _, Some ty, Some sk, Some _ =>
          if negb (int_field_ok (bs "depth") j && int_field_ok (bs "origin_server_ts") j) then FErr else
          match p with
          | PV1 =>
              if match str_field (bs "event_id") j with Some _ => true | None => false end &&
                 arr_or_absent (bs "prev_events") j && arr_or_absent (bs "auth_events") j
              then room_class room else FErr
          | PV2 =>
              if match strs_field (bs "prev_events") j, strs_field (bs "auth_events") j with
                 | Some _, Some _ => true | _, _ => false end
              then room_class room else FErr
          | PV3 =>
              if match strs_field (bs "prev_events") j, strs_field (bs "auth_events") j with
                 | Some _, Some _ => true | _, _ => false end
              then
                let is_create := bytes_eqb ty create_type &&
                                 match sk with Some [] => true | _ => false end in
                if is_create then FOk
                else if match room with c :: _ => c =? 33 | [] => false end && room_valid room
                then not_only_bytes (len_class room) else FErr
              else FErr
          end
      | _, _, _, _, _ => FErr
      end
  | _ => FErr
  end.

Definition parse_checks (p : parser) (j : json) : bool :=
  match parse_class p j with FOk => true | _ => false end.

(* CheckFields, in the order of the code *)
Definition check_fields_class (ver : bytes) (p : parser) (j : json) : fclass :=
  let nonnil k := match strs_field k j with Some (Some _) => true | _ => false end in
  let ty := match str_field (bs "type") j with Some ty => ty | None => [] end in
  let sk := match optstr_field (bs "state_key") j with Some (Some sk) => sk | _ => [] end in
  let sender := match str_field (bs "sender") j with Some s => s | None => [] end in
  (* what RoomID() returns: derived from the event ID (44 bytes) for the create event of an eventV3 *)
  let room := match p, str_field (bs "room_id") j with
              | PV3, Some r => if bytes_eqb ty create_type && match optstr_field (bs "state_key") j with Some (Some []) => true | _ => false end
                               then [] else r
              | _, Some r => r
              | _, None => []
              end in
  if negb (match p with
           | PV1 => true                                   (* eventV1 builds fresh slices: never nil *)
           | PV2 => nonnil (bs "auth_events") && nonnil (bs "prev_events")
           | PV3 => nonnil (bs "prev_events")              (* eventV3.AuthEventIDs is never nil *)
           end) then FErr
  else if 65536 <? blen (canon_print j) then FTooLarge
  else if 255 <? rune_count ty then FTooLarge
  else if 255 <? rune_count sk then FTooLarge
  (* the sender's code-point limit is not lenient: checked before the byte sizes (repair of F43) *)
  else if 255 <? rune_count sender then FTooLarge
  (* nor is the sender's format: a malformed sender is refused before any lenient byte size is
     looked at (repair of F100) *)
  else if negb (bytes_eqb ver pseudo_id_version) && negb (id_format 64 sender) then FErr
  else if 255 <? blen ty then FPersist
  else if 255 <? blen sk then FPersist
  (* pseudo IDs have no sigil or domain, but the length limits apply to them too *)
  else match (if bytes_eqb ver pseudo_id_version then len_class sender else id_class 64 sender) with
       | FOk => len_class room            (* the byte size of the room ID, last (repair of F42) *)
       | c => c
       end.

Definition check_fields (ver : bytes) (p : parser) (j : json) : bool :=
  match check_fields_class ver p j with FOk => true | _ => false end.

(* the outcome with the class of a refusal; a CheckFields refusal still hands the event back
   (`return res, err`), which is what makes the persistable class usable *)
Inductive ufull :=
| FullErr (c : fclass) (e : option (bool * json))
| FullOk (redacted : bool) (j : json).

Definition finish (ver : bytes) (p : parser) (fl : bool) (e : json) : ufull :=
  match check_fields_class ver p e with
  | FOk => FullOk fl e
  | c => FullErr c (Some (fl, e))
  end.

Definition parse_untrusted_full (ver : bytes) (j : json) (hok : bool) : ufull :=
  match parser_of_version ver with
  | None => FullErr FErr None
  | Some (p, fn) =>
      if has_underscore_key j then FullErr FErr None else
      let s := strip_with (strip_keys fn) j in
      match parse_class p s with
      | FOk =>
          (* an event that cannot be redacted is refused whatever its hash *)
          match redact ver s with
          | None => FullErr FErr None
          | Some r =>
              if hok then finish ver p false s
              else
                match parse_class p r with
                | FOk => finish ver p true r
                | c => FullErr c None
                end
          end
      | c => FullErr c None
      end
  end.

Inductive uresult := UErr | UOk (redacted : bool) (j : json).

Definition parse_untrusted (ver : bytes) (j : json) (hok : bool) : uresult :=
  match parse_untrusted_full ver j hok with
  | FullOk fl e => UOk fl e
  | FullErr _ _ => UErr
  end.

(* ---------- the hash comparison of checkEventContentHash ---------- *)
(* [real] is the SHA-256 of the hashed form (computed outside the model); hashes.sha256 is
   decoded by Base64Bytes.Decode (C17's model: alphabet chosen by the presence of - or _, CR and
   LF skipped, no padding, a final lone character is an error, unused low bits ignored) and ALL
   decoded bytes are compared; anything that is not a string decodes to nothing *)
Definition hash_matches (real : bytes) (s : json) : bool :=
  match jpath [bs "hashes"; bs "sha256"] s with
  | Some (JStr h) =>
      match Ident.Base64.base64bytes_decode h with
      | Some d => bytes_eqb d real
      | None => false
      end
  | _ => bytes_eqb [] real
  end.
