(* Model of the hash-check path of newEventFromUntrustedJSONV1/V2/V3 (eventV1.go, eventV2.go,
   eventV3.go) -- model only.

   Steps of the Go code and what the model does with them:
   1. a top-level key starting with an underscore: error                              (modelled)
   2. CheckCanonicalJSON                     (property C01; inputs here are canonical JSON)
   3. the keys other servers may have added are deleted -- lists generated from the source
      (GenStrip), selected per version through the generated version table            (modelled)
   4. json.Unmarshal into the event struct: type errors of the fields the accessors read
      (strings, integers, arrays), the room ID check (checkID / checkRoomID)          (modelled)
   5. canonicalisation of the stripped text: the result is an AST, printed canonically by users
   6. checkEventContentHash: SHA-256 of the canonical text without signatures, unsigned,
      hashes against hashes.sha256 -- the verdict is an INPUT of the model ([hok]); a missing or
      undecodable hash counts as a mismatch, as in the code
   7. mismatch: flag the event as redacted, RedactEventJSON, canonicalise; when the bytes differ
      re-parse as a trusted event (same struct, same room ID check); CheckFields
      (when the bytes are equal the first parse is kept: same bytes, same fields -- the model
      returns the redacted AST in both cases)
   8. match: CheckFields on the first parse. *)
From Verif Require Import Lib.Bytes Json.Ast Json.Print Event.Redact.
From Verif Require Import Gen.GenStrip Gen.GenVersions.
From Verif Require Ident.Ids.
Open Scope N_scope.

Definition untrusted_field : bytes := bs "newEventFromUntrustedJSONFunc".
Definition format_field : bytes := bs "eventFormat".

Definition version_field (f ver : bytes) : option bytes :=
  match assoc_first ver gen_versions with
  | Some fields => assoc_first f fields
  | None => None
  end.

Inductive parser := PV1 | PV2 | PV3.
Definition parser_of_version (ver : bytes) : option (parser * bytes) :=
  match version_field untrusted_field ver with
  | Some fn =>
      if bytes_eqb fn (bs "newEventFromUntrustedJSONV1") then Some (PV1, fn)
      else if bytes_eqb fn (bs "newEventFromUntrustedJSONV2") then Some (PV2, fn)
      else if bytes_eqb fn (bs "newEventFromUntrustedJSONV3") then Some (PV3, fn)
      else None
  | None => None
  end.

(* the first delete-loop of the function *)
Definition strip_keys (fn : bytes) : list bytes :=
  match assoc_first fn gen_strip_lists with
  | Some (l :: _) => l
  | _ => []
  end.

Definition strip_with (ks : list bytes) (j : json) : json := fold_left (fun j k => jdel k j) ks j.

Definition strip (ver : bytes) (j : json) : json :=
  match parser_of_version ver with
  | Some (_, fn) => strip_with (strip_keys fn) j
  | None => j
  end.

(* the keys checkEventContentHash leaves out of the hash *)
Definition hash_strip_keys : list bytes := strip_keys (bs "checkEventContentHash").
Definition hashed_json (j : json) : json := strip_with hash_strip_keys j.

Definition has_underscore_key (j : json) : bool :=
  existsb (fun k => match k with c :: _ => c =? 95 | [] => false end) (jkeys j).

(* ---------- struct typing of the fields the accessors read ---------- *)
(* Go string field: absent or null -> "", a string, anything else is an unmarshal error *)
Definition str_field (k : bytes) (j : json) : option bytes :=
  match jget_last k j with
  | None | Some JNull => Some []
  | Some (JStr s) => Some (utf8_sanitize s)
  | Some _ => None
  end.

(* *string *)
Definition optstr_field (k : bytes) (j : json) : option (option bytes) :=
  match jget_last k j with
  | None | Some JNull => Some None
  | Some (JStr s) => Some (Some (utf8_sanitize s))
  | Some _ => None
  end.

Definition int64_ok (raw : bytes) : bool :=
  match num_int raw with
  | Some z => (Z.leb (-9223372036854775808) z) && (Z.leb z 9223372036854775807)
  | None => false
  end.

Definition int_field_ok (k : bytes) (j : json) : bool :=
  match jget_last k j with
  | None | Some JNull => true
  | Some (JNum raw) => int64_ok raw
  | Some _ => false
  end.

(* []string: Some None = nil slice *)
Definition strs_field (k : bytes) (j : json) : option (option (list bytes)) :=
  match jget_last k j with
  | None | Some JNull => Some None
  | Some (JArr l) =>
      (fix go (l : list json) : option (option (list bytes)) :=
         match l with
         | [] => Some (Some [])
         | JStr s :: l' => match go l' with Some (Some r) => Some (Some (s :: r)) | _ => None end
         | JNull :: l' => match go l' with Some (Some r) => Some (Some ([] :: r)) | _ => None end
         | _ => None
         end) l
  | Some _ => None
  end.

Definition arr_or_absent (k : bytes) (j : json) : bool :=
  match jget_last k j with
  | None | Some JNull | Some (JArr _) => true
  | Some _ => false
  end.

Definition blen (s : bytes) : N := N.of_nat (length s).

(* checkID: a colon, the sigil, at most 255 bytes (which bounds the rune count as well) *)
Definition id_ok (sigil : N) (id : bytes) : bool :=
  existsb (fun c => c =? 58) id &&
  match id with c :: _ => c =? sigil | [] => false end &&
  (blen id <=? 255).

Definition pseudo_id_version : bytes := bs "org.matrix.msc4014".
(* a room ID that spec.NewRoomID accepts (the parsers refuse any other since the repair of F9);
   the grammar model is C17's *)
Definition room_valid (room : bytes) : bool :=
  match Ident.Ids.room_id_parse room with Some _ => true | None => false end.
Definition create_type : bytes := bs "m.room.create".

(* unmarshal into eventV1 / eventV2 / eventV3 plus the room ID check of the parser *)
Definition parse_checks (p : parser) (j : json) : bool :=
  match j with
  | JObj _ =>
      match str_field (bs "room_id") j, str_field (bs "sender") j, str_field (bs "type") j,
            optstr_field (bs "state_key") j, str_field (bs "redacts") j with
      | Some room, Some _, Some ty, Some sk, Some _ =>
          int_field_ok (bs "depth") j && int_field_ok (bs "origin_server_ts") j &&
          match p with
          | PV1 =>
              match str_field (bs "event_id") j with Some _ => true | None => false end &&
              arr_or_absent (bs "prev_events") j && arr_or_absent (bs "auth_events") j &&
              id_ok 33 room && room_valid room
          | PV2 =>
              match strs_field (bs "prev_events") j, strs_field (bs "auth_events") j with
              | Some _, Some _ => true | _, _ => false end &&
              id_ok 33 room && room_valid room
          | PV3 =>
              match strs_field (bs "prev_events") j, strs_field (bs "auth_events") j with
              | Some _, Some _ => true | _, _ => false end &&
              let is_create := bytes_eqb ty create_type &&
                               match sk with Some [] => true | _ => false end in
              (is_create || (match room with c :: _ => c =? 33 | [] => false end && room_valid room))
          end
      | _, _, _, _, _ => false
      end
  | _ => false
  end.

(* CheckFields *)
Definition check_fields (ver : bytes) (p : parser) (j : json) : bool :=
  let nonnil k := match strs_field k j with Some (Some _) => true | _ => false end in
  match p with
  | PV1 => true                                   (* eventV1 builds fresh slices: never nil *)
  | PV2 => nonnil (bs "auth_events") && nonnil (bs "prev_events")
  | PV3 => nonnil (bs "prev_events")              (* eventV3.AuthEventIDs is never nil *)
  end &&
  (blen (canon_print j) <=? 65536) &&
  match str_field (bs "type") j with Some ty => blen ty <=? 255 | None => false end &&
  match optstr_field (bs "state_key") j with
  | Some (Some sk) => blen sk <=? 255
  | Some None => true
  | None => false
  end &&
  (* pseudo IDs have no sigil or domain, but the length limit applies to them too *)
  match str_field (bs "sender") j with
  | Some s => if bytes_eqb ver pseudo_id_version then blen s <=? 255 else id_ok 64 s
  | None => false
  end.

Inductive uresult := UErr | UOk (redacted : bool) (j : json).

Definition parse_untrusted (ver : bytes) (j : json) (hok : bool) : uresult :=
  match parser_of_version ver with
  | None => UErr
  | Some (p, fn) =>
      if has_underscore_key j then UErr else
      let s := strip_with (strip_keys fn) j in
      if negb (parse_checks p s) then UErr else
      if hok then (if check_fields ver p s then UOk false s else UErr)
      else
        match redact ver s with
        | None => UErr
        | Some r => if parse_checks p r && check_fields ver p r then UOk true r else UErr
        end
  end.
