(* Proofs about the untrusted-parse model (Event/Untrusted.v). *)
From Verif Require Import Lib.Bytes Json.Ast Event.Redact Event.RedactSpec Event.RedactTables Event.RedactProofs Event.Untrusted.
Open Scope N_scope.

(* ---------- stripping is one filter ---------- *)
Definition not_in (ks : list bytes) (kv : bytes * json) : bool := negb (mem_bytes (fst kv) ks).

Lemma filter_filter {A} (p q : A -> bool) l : filter p (filter q l) = filter (fun x => q x && p x) l.
Proof.
  induction l as [|x l IH]; simpl; [reflexivity|].
  destruct (q x); simpl; [destruct (p x); simpl; rewrite IH; reflexivity|exact IH].
Qed.

Lemma strip_with_filter ks : forall m, strip_with ks (JObj m) = JObj (filter (not_in ks) m).
Proof.
  induction ks as [|k ks IH]; intro m; simpl.
  - unfold strip_with. simpl. f_equal. induction m as [|x m IHm]; simpl; [reflexivity|]. f_equal. exact IHm.
  - unfold strip_with in *. simpl. rewrite IH. f_equal. rewrite filter_filter.
    apply filter_ext. intros [k' v']. unfold not_in. simpl.
    rewrite (bytes_eqb_sym k' k). destruct (bytes_eqb k k'); simpl; reflexivity.
Qed.

(* two received events that agree outside the keys discarded on receipt are the same event *)
Lemma strip_agree ks m m' :
  filter (not_in ks) m' = filter (not_in ks) m -> strip_with ks (JObj m') = strip_with ks (JObj m).
Proof. intro H. rewrite !strip_with_filter, H. reflexivity. Qed.

Lemma strip_set_stripped_key ks k v m :
  In k ks -> strip_with ks (JObj (assoc_set k v m)) = strip_with ks (JObj m).
Proof.
  intro Hk. apply strip_agree. apply mem_bytes_In in Hk.
  induction m as [|[k' v'] m IH]; simpl.
  - unfold not_in. simpl. rewrite Hk. reflexivity.
  - destruct (bytes_eqb k k') eqn:E; simpl.
    + apply bytes_eqb_eq in E. subst k'. unfold not_in. simpl. rewrite Hk. reflexivity.
    + rewrite IH. reflexivity.
Qed.

(* ---------- the three outcomes ---------- *)
Lemma finish_ok ver p fl0 s fl e :
  match finish ver p fl0 s with FullOk fl' e' => UOk fl' e' | FullErr _ _ => UErr end = UOk fl e ->
  fl = fl0 /\ e = s.
Proof.
  unfold finish. destruct (check_fields_class ver p s); try discriminate.
  intro H. inversion H. auto.
Qed.

Theorem mismatch_yields_redacted ver j fl e :
  parse_untrusted ver j false = UOk fl e ->
  fl = true /\ redact ver (strip ver j) = Some e /\
  exists a out ty cj, algo_of_version ver = Some a /\ e = JObj out /\
    (forall k, In k (keys_of out) -> In k (top_keep a)) /\
    assoc_first type_key out = Some (JStr ty) /\
    assoc_first content_key out = Some cj /\
    (cj = JNull \/ exists c, cj = JObj c /\ forall k, In k (keys_of c) -> listed a ty k).
Proof.
  unfold parse_untrusted, parse_untrusted_full, strip.
  destruct (parser_of_version ver) as [[p fn]|]; [|discriminate].
  destruct (has_underscore_key j); [discriminate|].
  destruct (parse_class p (strip_with (strip_keys fn) j)); try discriminate.
  destruct (redact ver (strip_with (strip_keys fn) j)) as [r|] eqn:Hr; [|discriminate].
  destruct (parse_class p r); try discriminate.
  intro H. apply finish_ok in H as [Hfl He]. subst. split; [reflexivity|]. split; [reflexivity|].
  unfold redact in Hr. destruct (algo_of_version ver) as [a|] eqn:Ha; [|discriminate].
  destruct (redact_alg_output a _ _ (algo_of_version_ok ver a Ha) Hr) as (out & ty & cj & H1 & H2 & H3 & H4 & H5).
  exists a, out, ty, cj. split; [reflexivity|]. split; [exact H1|]. split; [exact H2|]. split; [exact H3|]. split; [exact H4|exact H5].
Qed.

Theorem match_yields_intact ver j fl e :
  parse_untrusted ver j true = UOk fl e -> fl = false /\ e = strip ver j.
Proof.
  unfold parse_untrusted, parse_untrusted_full, strip.
  destruct (parser_of_version ver) as [[p fn]|]; [|discriminate].
  destruct (has_underscore_key j); [discriminate|].
  destruct (parse_class p (strip_with (strip_keys fn) j)); try discriminate.
  destruct (redact ver (strip_with (strip_keys fn) j)) as [r|]; [|discriminate].
  intro H. apply finish_ok in H. exact H.
Qed.

(* events that agree on every kept top-level key and on the kept part of the content *)
Theorem protected_only ver a m m' :
  algo_of_version ver = Some a ->
  exact_keys a m -> exact_keys a m' -> type_ok m -> content_ok m -> content_ok m' ->
  (forall k, In k (top_keep a) -> k <> content_key -> assoc_first k m' = assoc_first k m) ->
  kept_content a (decoded_type m) (decoded_content m') = kept_content a (decoded_type m) (decoded_content m) ->
  redact ver (JObj m') = redact ver (JObj m).
Proof.
  intros Ha Hex Hex' Hty Hco Hco' Htop Hkept.
  pose proof (algo_of_version_ok ver a Ha) as Hok.
  destruct (algo_ok_facts a Hok) as (Hnd & Hfields & (ft & Ht1 & Ht2 & Ht3) & (fc & Hc1 & Hc2 & Hc3)).
  assert (Etype_lookup : assoc_first type_key m' = assoc_first type_key m).
  { apply Htop; [unfold top_keep; rewrite <- Ht2; apply in_map; exact Ht1|apply type_content_distinct]. }
  assert (Hty' : type_ok m') by (unfold type_ok; rewrite Etype_lookup; exact Hty).
  assert (Edt : decoded_type m' = decoded_type m) by (unfold decoded_type; rewrite Etype_lookup; reflexivity).
  unfold redact. rewrite Ha. unfold redact_alg, redact_alg_outcome.
  rewrite (redact_members_protected_only a m m' Hok Hex Hex' Hty Hty' Hco Hco'); [reflexivity| |exact Edt|rewrite Edt; exact Hkept].
  intros f Hf Hk. apply Htop; [unfold top_keep; apply in_map; exact Hf|].
  intro E. assert (f = fc) by (eapply NoDup_map_inj; eauto; congruence). subst f. congruence.
Qed.

(* whenever the redactions agree, so do the event ID preimage and the signed object, also for
   the redacted event that a failed hash makes the parser return *)
Theorem same_redaction_same_identity ver s s' e' :
  redact ver s' = redact ver s -> redact ver s' = Some e' ->
  reference_json ver e' = reference_json ver s /\ signed_json ver e' = signed_json ver s.
Proof.
  intros E H. unfold signed_json. rewrite (reference_of_redacted ver s' e' H).
  unfold reference_json. rewrite E. auto.
Qed.
