(* C06 - model of eventcrypto.go: VerifyEventSignatures (and VerifyAllEventSignatures, which maps it
   over a list), as the code IS.  No proofs here.

   What is inside the model
     - the reading of the event fields the function uses (type, sender, state_key, content,
       event_id, origin_server_ts) with the semantics of Go's encoding/json struct decoding
       (a member is assigned to a field when its key equals the field name exactly or under
       case folding; the last assignment wins; null leaves the field untouched);
     - PDU.Membership() (decode of content into a struct with a string field membership,
       error when the state key is missing);
     - SplitID, extractAuthorisedViaServerName (encoding/json decode of the content, as the auth
       rules read it: folded member names, last string occurrence, null ignored),
       emptyAuthorisedViaServerName, selected per version from the GENERATED room-version table
       (Gen/GenVersions.v: eventIDFormat, restrictedJoinServernameFunc, signatureValidityCheckFunc);
     - the needed-servers set, the list of verification requests (one per needed server; the
       message is the redacted event, the timestamp origin_server_ts, the validity rule the
       version's), the verdict (every request answered without error);
     - the pseudo-ID version (org.matrix.msc4014): mxid_mapping pre-verification through the
       caller's verifier, then self-verification of the needed names (verify_event_pseudoid).
   What is a parameter (oracle)
     - the caller's UserIDForSender function: its result for this event's sender (lookup);
     - the caller's JSONVerifier: valid : server -> bool (a key of that server, valid at
       origin_server_ts under the version's rule, signed the redacted event) and whether the bulk
       call itself fails (verr);
     - for the pseudo-ID version, self_valid : name -> bool (JSONVerifierSelf's answer).
   Redaction (the message of every request, and the error when it fails) is C05's model of
   redactevent.go: Event/Redact.v, redact ver j. *)
From Verif Require Import Lib.Bytes Json.Ast Gen.GenVersions Event.Redact Ident.Ids.
Open Scope N_scope.

(* ---------- room-version table (generated) ---------- *)
Definition ver_entry (ver : bytes) : option (list (bytes * bytes)) := assoc_first ver gen_versions.
Definition ver_known (ver : bytes) : bool := match ver_entry ver with Some _ => true | None => false end.
Definition ver_field (ver field : bytes) : option bytes :=
  match ver_entry ver with Some fs => assoc_first field fs | None => None end.
Definition ver_field_is (ver field ident : bytes) : bool :=
  match ver_field ver field with Some v => bytes_eqb v ident | None => false end.

Definition id_format_v1 (ver : bytes) : bool :=
  ver_field_is ver (bs "eventIDFormat") (bs "EventIDFormatV1").
Definition restricted_extract (ver : bytes) : bool :=
  ver_field_is ver (bs "restrictedJoinServernameFunc") (bs "extractAuthorisedViaServerName").
Definition strict_validity (ver : bytes) : bool :=
  ver_field_is ver (bs "signatureValidityCheckFunc") (bs "StrictValiditySignatureCheck").

Definition pseudoid_version : bytes := bs "org.matrix.msc4014".
Definition is_pseudoid (ver : bytes) : bool := bytes_eqb ver pseudoid_version.

Definition m_room_member : bytes := bs "m.room.member".
Definition k_join : bytes := bs "join".
Definition k_invite : bytes := bs "invite".
Definition k_authorised_via : bytes := bs "join_authorised_via_users_server".

(* ---------- encoding/json field matching ---------- *)
(* foldName: ASCII letters fold together; the only non-ASCII runes folding onto ASCII letters are
   U+017F (long s, bytes C5 BF) and U+212A (Kelvin sign, bytes E2 84 AA).  The field names are
   ASCII, so matching is decided rune by rune along the field name. *)
Definition fold_byte (c : N) : N := if (65 <=? c) && (c <=? 90) then c + 32 else c.
Fixpoint fold_match (field k : bytes) : bool :=
  match field with
  | [] => match k with [] => true | _ => false end
  | fc :: f' =>
      match k with
      | [] => false
      | c :: r =>
          if (c <? 128) then (fold_byte c =? fold_byte fc) && fold_match f' r
          else if (fold_byte fc =? 115) && (c =? 197) then
            match r with d :: r2 => (d =? 191) && fold_match f' r2 | [] => false end
          else if (fold_byte fc =? 107) && (c =? 226) then
            match r with
            | d :: r2 => match r2 with e :: r3 => (d =? 132) && (e =? 170) && fold_match f' r3 | [] => false end
            | [] => false
            end
          else false
      end
  end.
Definition key_matches (field k : bytes) : bool := fold_match field k.

(* all values assigned to the field, in source order *)
Definition field_values (field : bytes) (m : list (bytes * json)) : list json :=
  map snd (filter (fun kv => key_matches field (fst kv)) m).

(* a Go string field: None = decode error (the event does not parse) *)
Fixpoint go_string_acc (vs : list json) (acc : bytes) : option bytes :=
  match vs with
  | [] => Some acc
  | JStr s :: r => go_string_acc r s
  | JNull :: r => go_string_acc r acc
  | _ :: _ => None
  end.
Definition go_string (field : bytes) (m : list (bytes * json)) : option bytes :=
  go_string_acc (field_values field m) [].

(* a Go *string field *)
Fixpoint go_optstring_acc (vs : list json) (acc : option bytes) : option (option bytes) :=
  match vs with
  | [] => Some acc
  | JStr s :: r => go_optstring_acc r (Some s)
  | JNull :: r => go_optstring_acc r None
  | _ :: _ => None
  end.
Definition go_optstring (field : bytes) (m : list (bytes * json)) : option (option bytes) :=
  go_optstring_acc (field_values field m) None.

(* a RawJSON field: the last assigned value, whatever it is (null included) *)
Definition go_raw (field : bytes) (m : list (bytes * json)) : option json :=
  last (map Some (field_values field m)) None.

(* a uint64 field (spec.Timestamp): integer literal without sign, fraction or exponent, < 2^64 *)
Definition two64 : N := 18446744073709551616.
Fixpoint go_uint64_acc (vs : list json) (acc : N) : option N :=
  match vs with
  | [] => Some acc
  | JNum raw :: r =>
      match raw with
      | [] => None
      | _ => if all_digits raw
             then match parse_dec raw with
                  | Some n => if n <? two64 then go_uint64_acc r n else None
                  | None => None
                  end
             else None
      end
  | JNull :: r => go_uint64_acc r acc
  | _ :: _ => None
  end.
Definition go_uint64 (field : bytes) (m : list (bytes * json)) : option N :=
  go_uint64_acc (field_values field m) 0.

(* ---------- the event as the PDU accessors see it ---------- *)
Record event := {
  e_type : bytes;
  e_sender : bytes;
  e_state_key : option bytes;
  e_content : option json;          (* None = no content member at all (nil RawJSON) *)
  e_event_id : bytes;               (* EventIDRaw; only read for event-ID format 1 *)
  e_ts : N
}.

(* None = the JSON is not an event the library can hold (NewEventFromTrustedJSON fails) *)
Definition read_event (j : json) : option event :=
  match j with
  | JObj m =>
      match go_string (bs "type") m, go_string (bs "sender") m, go_optstring (bs "state_key") m,
            go_string (bs "event_id") m, go_uint64 (bs "origin_server_ts") m with
      | Some ty, Some sn, Some sk, Some id, Some ts =>
          Some {| e_type := ty; e_sender := sn; e_state_key := sk;
                  e_content := go_raw (bs "content") m; e_event_id := id; e_ts := ts |}
      | _, _, _, _, _ => None
      end
  | _ => None
  end.

(* ---------- SplitID ---------- *)
(* strings.SplitN(id, ":", 2) after checking the sigil; the domain may be empty *)
Definition split_id (sigil : N) (id : bytes) : option (bytes * bytes) :=
  match id with
  | [] => None
  | c :: r => if c =? sigil then split_at 58 r else None
  end.
Definition id_domain (sigil : N) (id : bytes) : option bytes :=
  match split_id sigil id with Some (_, d) => Some d | None => None end.

(* ---------- PDU.Membership() ---------- *)
(* json.Unmarshal(content, &struct{Membership string}); then the state-key check *)
Definition membership_of (e : event) : option bytes :=
  match e_content e with
  | None => None                                   (* unexpected end of JSON input *)
  | Some JNull => match e_state_key e with Some _ => Some [] | None => None end
  | Some (JObj m) =>
      match go_string (bs "membership") m with
      | Some s => match e_state_key e with Some _ => Some s | None => None end
      | None => None
      end
  | Some _ => None
  end.

(* ---------- RestrictedJoinServername ---------- *)
(* extractAuthorisedViaServerName: json.Unmarshal(content, &struct{AuthorisedVia string}) - the
   member is matched the encoding/json way (exact or folded name), the LAST string occurrence
   wins, a null occurrence changes nothing, any other value is an error, the empty string names
   nobody; then SplitID with the user sigil.  This is the reading of MemberContent, i.e. of the
   auth rules.  Outer None = error; Some [] = nothing to add. *)
Definition authorised_via (ver : bytes) (e : event) : option bytes :=
  if restricted_extract ver then
    match e_content e with
    | None => None                               (* unexpected end of JSON input *)
    | Some JNull => Some []
    | Some (JObj m) =>
        match go_string k_authorised_via m with
        | None => None
        | Some [] => Some []
        | Some s => id_domain 64 s
        end
    | Some _ => None
    end
  else Some [].

(* ---------- the result of the caller's UserIDForSender ---------- *)
Inductive lookup := LErr | LNil | LDom (d : bytes).

(* ---------- needed servers, in the order the code adds them (duplicates kept; the code's map
   makes it a set, see needed_set) ; None = the function returns an error first ---------- *)
Definition needed_sender (ver : bytes) (lk : lookup) (e : event) : option (list bytes) :=
  match lk with
  | LErr => None
  | LNil => Some []
  | LDom d => Some [d]
  end.

Definition needed_event_id (ver : bytes) (e : event) : option (list bytes) :=
  if id_format_v1 ver then
    match id_domain 36 (e_event_id e) with Some d => Some [d] | None => None end
  else Some [].

Definition needed_member (ver : bytes) (e : event) : option (list bytes) :=
  if bytes_eqb (e_type e) m_room_member then
    match membership_of e with
    | None => None
    | Some ms =>
        let inv :=
          if bytes_eqb ms k_invite then
            match e_state_key e with
            | Some sk => match id_domain 64 sk with Some d => Some [d] | None => None end
            | None => None
            end
          else Some [] in
        let aut :=
          if bytes_eqb ms k_join then
            match authorised_via ver e with
            | Some [] => Some []
            | Some d => Some [d]
            | None => None
            end
          else Some [] in
        match inv, aut with
        | Some a, Some b => Some (a ++ b)
        | _, _ => None
        end
    end
  else Some [].

Definition required_servers (ver : bytes) (lk : lookup) (e : event) : option (list bytes) :=
  if ver_known ver then
    match needed_sender ver lk e, needed_event_id ver e, needed_member ver e with
    | Some a, Some b, Some c => Some (a ++ b ++ c)
    | _, _, _ => None
    end
  else None.

(* one verification request: VerifyJSONRequest{ServerName, AtTS, Message, ValidityCheckingFunc} *)
Record request := { r_server : bytes; r_ts : N; r_strict : bool; r_msg : json }.

Definition requests_of (ver : bytes) (e : event) (msg : json) (servers : list bytes) : list request :=
  map (fun s => {| r_server := s; r_ts := e_ts e; r_strict := strict_validity ver; r_msg := msg |}) servers.

(* the requests handed to the verifier for the event whose JSON is j;
   None = an error is returned before the verifier is consulted (or j is not an event) *)
Definition verify_requests (ver : bytes) (lk : lookup) (j : json) : option (list request) :=
  match read_event j with
  | None => None
  | Some e =>
      match required_servers ver lk e with
      | Some l => match redact ver j with
                  | Some msg => Some (requests_of ver e msg l)
                  | None => None
                  end
      | None => None
      end
  end.

(* VerifyEventSignatures for every version but the pseudo-ID one: true = nil error.
   verifier r = the caller's JSONVerifier finds a valid signature for request r;
   verr = the bulk call itself returns an error *)
Definition verify_event (ver : bytes) (lk : lookup) (j : json) (verifier : request -> bool) (verr : bool) : bool :=
  match verify_requests ver lk j with
  | Some rs => negb verr && forallb verifier rs
  | None => false
  end.

(* an event parsed from RECEIVED bytes (NewEventFromUntrustedJSON): the struct the accessors read
   is decoded from the bytes as received (jf), while JSON() - what is redacted and handed to the
   verifier, hashed and stored - is their canonical re-sort (jb).  For events without repeated or
   case-variant members both readings coincide (verify_requests). *)
Definition verify_requests_wire (ver : bytes) (lk : lookup) (jf jb : json) : option (list request) :=
  match read_event jf with
  | None => None
  | Some e =>
      match required_servers ver lk e with
      | Some l => match redact ver jb with
                  | Some msg => Some (requests_of ver e msg l)
                  | None => None
                  end
      | None => None
      end
  end.

(* VerifyAllEventSignatures: one verdict per event, same order *)
Definition verify_all (ver : bytes) (evs : list (lookup * json)) (verifier : request -> bool) (verr : bool) : list bool :=
  map (fun le => verify_event ver (fst le) (snd le) verifier verr) evs.

(* ---------- the set view (Go map keys), sorted for the observable ---------- *)
Fixpoint insert_sorted (x : bytes) (l : list bytes) : list bytes :=
  match l with
  | [] => [x]
  | y :: l' => match bytes_cmp x y with
               | Lt => x :: l
               | Eq => l
               | Gt => y :: insert_sorted x l'
               end
  end.
Definition needed_set (l : list bytes) : list bytes := fold_right insert_sorted [] l.

(* ---------- pseudo-ID version (org.matrix.msc4014) ---------- *)
(* getMXIDMapping decodes the whole content as MemberContent; the model covers contents whose
   members other than membership / mxid_mapping / join_authorised_via_users_server have the
   declared types (domain restriction stated in props/C06.json). *)
Inductive mapping_result := MErr | MMapping (user_room_key user_id : bytes).

(* the signatures member must still decode (map of server -> map of key ID -> base64) *)
Definition mapping_signers (sigs : option json) : option (list bytes) :=
  match sigs with
  | None => Some []
  | Some JNull => Some []
  | Some (JObj m) =>
      if forallb (fun kv => match snd kv with JObj _ => true | JNull => true | _ => false end) m
      then Some (map fst m) else None
  | Some _ => None
  end.

Definition mxid_mapping (e : event) : mapping_result :=
  match e_content e with
  | Some (JObj m) =>
      match go_raw (bs "mxid_mapping") m with
      | Some (JObj mm) =>
          match go_string (bs "user_room_key") mm, go_string (bs "user_id") mm,
                mapping_signers (go_raw (bs "signatures") mm) with
          | Some k, Some u, Some _ => MMapping k u
          | _, _, _ => MErr
          end
      | _ => MErr            (* absent or null: missing mxid_mapping; other types: decode error *)
      end
  | _ => MErr
  end.

(* the one server whose signature over the mapping is demanded (repair F60): the mapping must be
   for the room key that sent the event, and spec.NewUserID(user_id, true) - C17's model
   Ident.Ids.user_id_parse - gives the server; None = error before the verifier is consulted *)
Definition mapping_server (e : event) : option bytes :=
  match mxid_mapping e with
  | MErr => None
  | MMapping k u =>
      if bytes_eqb k (e_sender e)
      then match user_id_parse true u with Some (_, d) => Some d | None => None end
      else None
  end.

Definition needed_member_pseudoid (ver : bytes) (e : event) : option (list bytes) :=
  if bytes_eqb (e_type e) m_room_member then
    match membership_of e with
    | None => None
    | Some ms =>
        let inv := if bytes_eqb ms k_invite
                   then match e_state_key e with Some sk => Some [sk] | None => None end
                   else Some [] in
        let aut := if bytes_eqb ms k_join
                   then match authorised_via ver e with
                        | Some [] => Some []
                        | Some d => Some [d]
                        | None => None
                        end
                   else Some [] in
        match inv, aut with Some a, Some b => Some (a ++ b) | _, _ => None end
    end
  else Some [].

(* the two verifier consultations of the pseudo-ID branch:
   mapping servers asked through the caller's verifier (joins only), needed names through the
   self-verifier.  Result: (verdict, mapping servers asked or None, names asked or None). *)
Definition pseudoid_trace (ver : bytes) (j : json) (valid self_valid : bytes -> bool) (verr : bool)
  : bool * option (list bytes) * option (list bytes) :=
  match read_event j with None => (false, None, None) | Some e =>
  let redact_fails := match redact ver j with Some _ => false | None => true end in
  if negb (ver_known ver) then (false, None, None) else
  if bytes_eqb (e_type e) m_room_member then
    match membership_of e with
    | None => (false, None, None)
    | Some ms =>
        let pre :=
          if bytes_eqb ms k_join then
            match mapping_server e with
            | None => None
            | Some d => Some (Some [d])
            end
          else Some None in
        match pre with
        | None => (false, None, None)
        | Some asked =>
            let pre_ok := match asked with
                          | Some l => negb verr && forallb valid l
                          | None => true
                          end in
            if negb pre_ok then (false, asked, None) else
            match needed_member_pseudoid ver e with
            | None => (false, asked, None)
            | Some more =>
                if redact_fails then (false, asked, None) else
                let names := e_sender e :: more in
                (forallb self_valid names, asked, Some names)
            end
        end
    end
  else
    if redact_fails then (false, None, None)
    else (self_valid (e_sender e), None, Some [e_sender e])
  end.

Definition verify_event_pseudoid (ver : bytes) (j : json) (valid self_valid : bytes -> bool) (verr : bool) : bool :=
  fst (fst (pseudoid_trace ver j valid self_valid verr)).
