(* C06 - proofs about the model of VerifyEventSignatures (Event/VerifySig.v) against the
   specification of the required servers (Event/RequiredSpec.v). *)
From Verif Require Import Lib.Bytes Json.Ast Gen.GenVersions Event.Redact Event.VerifySig Event.RequiredSpec.
Open Scope N_scope.

(* ---------- member-name matching ---------- *)
Lemma fold_match_alike f k : fold_match f k = true -> alike f k = true.
Proof.
  revert k; induction f as [|fc f IH]; intros [|c r] H; simpl in H; try discriminate.
  - reflexivity.
  - unfold alike. simpl. destruct (c <? 128) eqn:Hc; [|reflexivity].
    apply andb_true_iff in H as [H1 H2]. apply IH in H2. unfold alike in H2.
    apply N.eqb_eq in H1. simpl.
    apply orb_true_iff in H2 as [H2|H2].
    + rewrite H2. reflexivity.
    + rewrite H2. unfold fold_byte in H1. unfold lower. rewrite H1, N.eqb_refl.
      apply orb_true_r.
Qed.

Lemma fold_match_refl f : all_ascii f = true -> fold_match f f = true.
Proof.
  induction f as [|c f IH]; intro H; simpl in *; [reflexivity|].
  apply andb_true_iff in H as [H1 H2]. rewrite H1, N.eqb_refl. simpl. auto.
Qed.

Lemma alike_refl f : alike f f = true.
Proof. unfold alike. rewrite bytes_eqb_refl. apply orb_true_r. Qed.

Lemma not_alike_no_match f k : alike f k = false -> key_matches f k = false.
Proof.
  intro H. unfold key_matches. destruct (fold_match f k) eqn:E; [|reflexivity].
  apply fold_match_alike in E. congruence.
Qed.

Lemma field_values_cons f k v m :
  field_values f ((k, v) :: m) = if key_matches f k then v :: field_values f m else field_values f m.
Proof. unfold field_values. simpl. destruct (key_matches f k); reflexivity. Qed.

Lemma none_alike_no_values f m :
  forallb (fun kv : bytes * json => negb (alike f (fst kv))) m = true -> field_values f m = [].
Proof.
  induction m as [|[k v] m IH]; intro H; simpl in *; [reflexivity|].
  apply andb_true_iff in H as [H1 H2]. apply negb_true_iff in H1.
  rewrite field_values_cons, (not_alike_no_match _ _ H1). auto.
Qed.

(* under unambiguity the decoder assigns exactly the member the plain reading finds *)
Lemma unambiguous_values f m :
  all_ascii f = true -> unambiguous f m = true ->
  field_values f m = match assoc_first f m with Some v => [v] | None => [] end.
Proof.
  intros Hf. induction m as [|[k v] m IH]; intro H; simpl in *; [reflexivity|].
  destruct (alike f k) eqn:Ea.
  - apply andb_true_iff in H as [H1 H2]. rewrite H1.
    apply bytes_eqb_eq in H1. subst k.
    rewrite field_values_cons. unfold key_matches. rewrite (fold_match_refl _ Hf).
    rewrite (none_alike_no_values _ _ H2). reflexivity.
  - assert (Hne : bytes_eqb f k = false).
    { destruct (bytes_eqb f k) eqn:E; [|reflexivity]. apply bytes_eqb_eq in E. subst k.
      rewrite alike_refl in Ea. discriminate. }
    rewrite Hne, field_values_cons, (not_alike_no_match _ _ Ea).
    apply IH. exact H.
Qed.

Lemma go_string_unambiguous f m :
  all_ascii f = true -> field_ok_str f m = true ->
  go_string f m = Some (s_str f (JObj m)).
Proof.
  intros Hf H. unfold field_ok_str in H. apply andb_true_iff in H as [H1 H2].
  unfold go_string, s_str, jget. rewrite (unambiguous_values _ _ Hf H1).
  destruct (assoc_first f m) as [[| | |s| |]|]; try discriminate; reflexivity.
Qed.

Lemma go_optstring_unambiguous f m :
  all_ascii f = true -> field_ok_str f m = true ->
  go_optstring f m = Some (match assoc_first f m with Some (JStr s) => Some s | _ => None end).
Proof.
  intros Hf H. unfold field_ok_str in H. apply andb_true_iff in H as [H1 H2].
  unfold go_optstring. rewrite (unambiguous_values _ _ Hf H1).
  destruct (assoc_first f m) as [[| | |s| |]|]; try discriminate; reflexivity.
Qed.

Lemma go_raw_unambiguous f m :
  all_ascii f = true -> unambiguous f m = true -> go_raw f m = assoc_first f m.
Proof.
  intros Hf H. unfold go_raw. rewrite (unambiguous_values _ _ Hf H).
  destruct (assoc_first f m); reflexivity.
Qed.

Lemma go_uint64_unambiguous f m :
  all_ascii f = true -> unambiguous f m = true ->
  match assoc_first f m with Some (JNum raw) => is_uint64_lit raw | None => true | _ => false end = true ->
  go_uint64 f m = Some (match assoc_first f m with
                        | Some (JNum raw) => match parse_dec raw with Some n => n | None => 0 end
                        | _ => 0
                        end).
Proof.
  intros Hf H Hl. unfold go_uint64. rewrite (unambiguous_values _ _ Hf H).
  destruct (assoc_first f m) as [[| |raw| | |]|]; try discriminate; [|reflexivity].
  simpl. unfold is_uint64_lit in Hl. destruct raw as [|c r]; [discriminate|].
  apply andb_true_iff in Hl as [Hd Hp]. rewrite Hd.
  unfold two64. destruct (parse_dec (c :: r)) as [n|]; [|discriminate]. rewrite Hp. reflexivity.
Qed.

(* ---------- identifiers ---------- *)
Lemma split_at_after_colon r d : after_colon r = Some d -> exists a, split_at 58 r = Some (a, d).
Proof.
  revert d; induction r as [|c r IH]; intros d H; simpl in *; [discriminate|].
  destruct (c =? 58).
  - inversion H; subst. eexists; reflexivity.
  - destruct (IH _ H) as [a Ha]. rewrite Ha. eexists; reflexivity.
Qed.

Lemma id_domain_proper sigil id d :
  sigil <> 58 -> has_sigil sigil id = true -> after_colon id = Some d -> id_domain sigil id = Some d.
Proof.
  intros Hs Hh Ha. destruct id as [|c r]; [discriminate|]. simpl in Hh.
  apply N.eqb_eq in Hh. subst c. simpl in Ha.
  destruct (sigil =? 58) eqn:E; [apply N.eqb_eq in E; contradiction|].
  unfold id_domain, split_id. rewrite N.eqb_refl.
  destruct (split_at_after_colon _ _ Ha) as [a Hsp]. rewrite Hsp. reflexivity.
Qed.

Lemma proper_id_domain sigil id :
  sigil <> 58 -> proper_id sigil id = true ->
  exists c d, after_colon id = Some (c :: d) /\ id_domain sigil id = Some (c :: d) /\ server_of id = [c :: d].
Proof.
  intros Hs H. unfold proper_id in H. apply andb_true_iff in H as [H1 H2].
  destruct (after_colon id) as [[|c d]|] eqn:E; try discriminate.
  exists c, d. split; [reflexivity|]. split.
  - apply id_domain_proper; assumption.
  - unfold server_of. rewrite E. reflexivity.
Qed.

(* ---------- the generated room-version table against the specification's three columns ---------- *)
Definition version_row_ok (ver : bytes) : bool :=
  ver_known ver
  && Bool.eqb (id_format_v1 ver) (spec_event_id_names_server ver)
  && Bool.eqb (restricted_extract ver) (spec_restricted_joins ver)
  && Bool.eqb (strict_validity ver) (spec_strict_validity ver).

Lemma version_rows_ok : forallb version_row_ok spec_versions = true.
Proof. vm_compute. reflexivity. Qed.

Lemma table_versions_are_spec :
  forallb (fun v => mem_bytes v spec_versions) (map fst gen_versions) = true.
Proof. vm_compute. reflexivity. Qed.

Lemma version_row ver : spec_is_version ver = true ->
  ver_known ver = true /\ id_format_v1 ver = spec_event_id_names_server ver /\
  restricted_extract ver = spec_restricted_joins ver /\ strict_validity ver = spec_strict_validity ver.
Proof.
  intro H. unfold spec_is_version in H. apply mem_bytes_In in H.
  pose proof (proj1 (forallb_forall _ _) version_rows_ok _ H) as R. unfold version_row_ok in R.
  repeat rewrite andb_true_iff in R. destruct R as [[[R1 R2] R3] R4].
  apply Bool.eqb_prop in R2, R3, R4. auto.
Qed.

Lemma assoc_first_fst {A} k (l : list (bytes * A)) v : assoc_first k l = Some v -> In k (map fst l).
Proof.
  induction l as [|[k' v'] l IH]; simpl; [discriminate|].
  destruct (bytes_eqb k k') eqn:E; intro H.
  - apply bytes_eqb_eq in E. auto.
  - right. auto.
Qed.

Lemma known_version_is_spec ver : ver_known ver = true -> spec_is_version ver = true.
Proof.
  unfold ver_known, ver_entry. destruct (assoc_first ver gen_versions) eqn:E; [|discriminate].
  intros _. apply assoc_first_fst in E.
  exact (proj1 (forallb_forall _ _) table_versions_are_spec _ E).
Qed.

(* ---------- reading a well-formed event ---------- *)
Definition plain_state_key (m : list (bytes * json)) : option bytes :=
  match assoc_first (bs "state_key") m with Some (JStr s) => Some s | _ => None end.

Lemma wf_event_read ver j : wf_event ver j = true ->
  exists m, j = JObj m /\
  read_event j = Some {| e_type := s_str (bs "type") j; e_sender := s_str (bs "sender") j;
                         e_state_key := plain_state_key m; e_content := assoc_first (bs "content") m;
                         e_event_id := s_str (bs "event_id") j; e_ts := s_ts j |}.
Proof.
  intro H. unfold wf_event in H. apply andb_true_iff in H as [_ H].
  destruct j as [| | | | |m]; try discriminate. exists m. split; [reflexivity|].
  repeat rewrite andb_true_iff in H.
  destruct H as [[[[[[[[[H1 H2] H3] H4] H5] H6] H7] H8] H9] H10].
  unfold read_event.
  rewrite (go_string_unambiguous (bs "type") m eq_refl H1), (go_string_unambiguous (bs "sender") m eq_refl H2),
          (go_optstring_unambiguous (bs "state_key") m eq_refl H3), (go_string_unambiguous (bs "event_id") m eq_refl H4),
          (go_uint64_unambiguous (bs "origin_server_ts") m eq_refl H6 H7), (go_raw_unambiguous (bs "content") m eq_refl H5).
  reflexivity.
Qed.

(* ---------- the needed servers of the code are the required servers of the specification ---------- *)
Lemma sigil_at : 64 <> 58. Proof. discriminate. Qed.
Lemma sigil_dollar : 36 <> 58. Proof. discriminate. Qed.

Lemma required_model_eq_spec_lemma ver j d :
  wf_event ver j = true -> sender_server j = Some d ->
  exists e, read_event j = Some e /\ e_ts e = s_ts j /\
            required_servers ver (LDom d) e = Some (required_spec ver j).
Proof.
  intros Hwf Hd. destruct (wf_event_read _ _ Hwf) as [m [Hj Hread]].
  eexists. split; [exact Hread|]. split; [reflexivity|].
  unfold wf_event in Hwf. apply andb_true_iff in Hwf as [Hv Hwf].
  apply andb_true_iff in Hv as [Hv Hnp].
  destruct (version_row _ Hv) as [Hk [Hid [Hre Hst]]].
  subst j. repeat rewrite andb_true_iff in Hwf.
  destruct Hwf as [[[[[[[[[H1 H2] H3] H4] H5] H6] H7] H8] H9] H10].
  unfold required_servers. rewrite Hk.
  unfold required_spec.
  (* sender *)
  unfold needed_sender. unfold sender_server in Hd. unfold server_of at 1. rewrite Hd.
  (* event ID *)
  assert (Heid : needed_event_id ver
            {| e_type := s_str (bs "type") (JObj m); e_sender := s_str (bs "sender") (JObj m);
               e_state_key := plain_state_key m; e_content := assoc_first (bs "content") m;
               e_event_id := s_str (bs "event_id") (JObj m); e_ts := s_ts (JObj m) |}
          = Some (if spec_event_id_names_server ver then server_of (s_str (bs "event_id") (JObj m)) else [])).
  { unfold needed_event_id. rewrite Hid. simpl e_event_id.
    destruct (spec_event_id_names_server ver); [|reflexivity].
    destruct (proper_id_domain _ _ sigil_dollar H9) as [c [d' [_ [Hdom Hsrv]]]].
    rewrite Hdom, Hsrv. reflexivity. }
  rewrite Heid. clear Heid.
  (* membership part *)
  assert (Hmem : needed_member ver
            {| e_type := s_str (bs "type") (JObj m); e_sender := s_str (bs "sender") (JObj m);
               e_state_key := plain_state_key m; e_content := assoc_first (bs "content") m;
               e_event_id := s_str (bs "event_id") (JObj m); e_ts := s_ts (JObj m) |}
          = Some ((if s_is_member (JObj m) && bytes_eqb (s_membership (JObj m)) (bs "invite")
                   then server_of (s_str (bs "state_key") (JObj m)) else [])
                  ++ (if s_is_member (JObj m) && bytes_eqb (s_membership (JObj m)) (bs "join") && spec_restricted_joins ver
                      then match s_authorised_via (JObj m) with Some u => server_of u | None => [] end
                      else []))).
  { unfold needed_member. simpl e_type. unfold s_is_member in *.
    change m_room_member with (bs "m.room.member").
    unfold wf_content in H10.
    destruct (assoc_first (bs "content") m) as [[| | | | |c]|] eqn:Ec; try discriminate.
    destruct (bytes_eqb (s_str (bs "type") (JObj m)) (bs "m.room.member")) eqn:Ety; [|reflexivity].
    repeat rewrite andb_true_iff in H10. destruct H10 as [[[[C1 C2] C3] C4] C5].
    unfold membership_of. cbn [e_content e_state_key e_type e_event_id e_ts].
    rewrite (go_string_unambiguous (bs "membership") c eq_refl C1).
    unfold plain_state_key.
    destruct (assoc_first (bs "state_key") m) as [[| | |sk| |]|] eqn:Esk; try discriminate.
    unfold s_membership. simpl jget at 1. rewrite Ec.
    change k_invite with (bs "invite"). change k_join with (bs "join").
    set (ms := s_str (bs "membership") (JObj c)) in *.
    simpl andb.
    (* invite *)
    assert (Hinv : (if bytes_eqb ms (bs "invite")
                    then match id_domain 64 sk with Some d0 => Some [d0] | None => None end
                    else Some [])
                   = Some (if bytes_eqb ms (bs "invite") then server_of (s_str (bs "state_key") (JObj m)) else [])).
    { destruct (bytes_eqb ms (bs "invite")); [|reflexivity].
      destruct (proper_id_domain _ _ sigil_at C4) as [c0 [d0 [_ [Hdom Hsrv]]]].
      unfold s_str. simpl jget. rewrite Esk. rewrite Hdom, Hsrv. reflexivity. }
    rewrite Hinv. clear Hinv. rewrite Ec. fold ms.
    (* restricted join *)
    destruct (bytes_eqb ms (bs "join")) eqn:Ej; simpl andb; [|reflexivity].
    unfold authorised_via. rewrite Hre. cbn [e_content].
    destruct (spec_restricted_joins ver); [|reflexivity].
    simpl in C5. apply andb_true_iff in C5 as [C5a C5b].
    change k_authorised_via with (bs "join_authorised_via_users_server").
    rewrite (go_string_unambiguous (bs "join_authorised_via_users_server") c eq_refl C5a).
    unfold s_authorised_via, jget. rewrite Ec. unfold s_str, jget.
    destruct (assoc_first (bs "join_authorised_via_users_server") c) as [[| | |u| |]|]; try discriminate; [|reflexivity].
    destruct (proper_id_domain _ _ sigil_at C5b) as [c0 [d0 [_ [Hdom Hsrv]]]].
    destruct u as [|u0 u']; [discriminate C5b|].
    rewrite Hdom, Hsrv. reflexivity. }
  rewrite Hmem. reflexivity.
Qed.

(* ---------- the verdict ---------- *)
(* the request the specification demands for server s *)
Definition spec_request (ver : bytes) (j msg : json) (s : bytes) : request :=
  {| r_server := s; r_ts := s_ts j; r_strict := required_rule_strict ver; r_msg := msg |}.

Lemma verify_requests_wf ver j d msg :
  wf_event ver j = true -> sender_server j = Some d -> redact ver j = Some msg ->
  verify_requests ver (LDom d) j = Some (map (spec_request ver j msg) (required_spec ver j)).
Proof.
  intros Hwf Hd Hr.
  destruct (required_model_eq_spec_lemma _ _ _ Hwf Hd) as [e [Hread [Hts Hreq]]].
  unfold verify_requests. rewrite Hread, Hreq, Hr. unfold requests_of, spec_request, required_rule_strict.
  unfold wf_event in Hwf. apply andb_true_iff in Hwf as [Hv _]. apply andb_true_iff in Hv as [Hv _].
  destruct (version_row _ Hv) as [_ [_ [_ Hst]]]. rewrite Hst, Hts. reflexivity.
Qed.

Lemma verify_event_iff ver j d msg verifier verr :
  wf_event ver j = true -> sender_server j = Some d -> redact ver j = Some msg ->
  (verify_event ver (LDom d) j verifier verr = true <->
   verr = false /\ forall s, In s (required_spec ver j) -> verifier (spec_request ver j msg s) = true).
Proof.
  intros Hwf Hd Hr. unfold verify_event. rewrite (verify_requests_wf _ _ _ _ Hwf Hd Hr).
  rewrite andb_true_iff, negb_true_iff, forallb_forall. split; intros [H1 H2]; split; auto.
  - intros s Hs. apply H2. apply in_map. exact Hs.
  - intros r Hr'. apply in_map_iff in Hr' as [s [Hs1 Hs2]]. subst r. auto.
Qed.

Lemma verify_requests_shape ver lk j rs :
  verify_requests ver lk j = Some rs ->
  exists e msg l, read_event j = Some e /\ redact ver j = Some msg /\ required_servers ver lk e = Some l /\
    map r_server rs = l /\
    forall r, In r rs -> r_msg r = msg /\ r_ts r = e_ts e /\ r_strict r = strict_validity ver.
Proof.
  unfold verify_requests. destruct (read_event j) as [e|] eqn:E1; [|discriminate].
  destruct (required_servers ver lk e) as [l|] eqn:E2; [|discriminate].
  destruct (redact ver j) as [msg|] eqn:E3; [|discriminate].
  intro H. inversion H; subst rs. clear H. exists e, msg, l.
  split; [reflexivity|]. split; [reflexivity|]. split; [exact E2|]. split.
  - unfold requests_of. rewrite map_map. simpl. apply map_id.
  - intros r Hin. unfold requests_of in Hin. apply in_map_iff in Hin as [s [Hs _]]. subst r.
    repeat split; reflexivity.
Qed.

Lemma verify_event_fails_closed ver lk j verifier verr :
  verify_event ver lk j verifier verr = true ->
  verr = false /\ ver_known ver = true /\ lk <> LErr /\ redact ver j <> None /\ read_event j <> None.
Proof.
  unfold verify_event, verify_requests.
  destruct (read_event j) as [e|]; [|discriminate].
  unfold required_servers. destruct (ver_known ver); [|discriminate].
  destruct lk; simpl; try discriminate;
  destruct (needed_event_id ver e); try discriminate;
  destruct (needed_member ver e); try discriminate;
  destruct (redact ver j); try discriminate;
  intro H; apply andb_true_iff in H as [H _]; apply negb_true_iff in H;
  repeat split; auto; discriminate.
Qed.

(* ---------- pseudo-ID version ---------- *)
Lemma pseudoid_sender_must_self_sign ver j valid self_valid verr :
  verify_event_pseudoid ver j valid self_valid verr = true ->
  exists e, read_event j = Some e /\ self_valid (e_sender e) = true.
Proof.
  unfold verify_event_pseudoid, pseudoid_trace.
  destruct (read_event j) as [e|]; [|discriminate]. intro H. exists e. split; [reflexivity|].
  destruct (negb (ver_known ver)); [discriminate|].
  destruct (bytes_eqb (e_type e) m_room_member).
  - destruct (membership_of e) as [ms|]; [|discriminate].
    destruct (if bytes_eqb ms k_join then match mapping_server e with None => None | Some d => Some (Some [d]) end else Some None)
      as [asked|]; [|discriminate].
    destruct (negb match asked with Some l => negb verr && forallb valid l | None => true end); [discriminate|].
    destruct (needed_member_pseudoid ver e); [|discriminate].
    destruct (redact ver j); [|discriminate].
    simpl in H. apply andb_true_iff in H as [H _]. exact H.
  - destruct (redact ver j); [|discriminate]. exact H.
Qed.

Lemma pseudoid_invited_must_self_sign ver j e sk valid self_valid verr :
  verify_event_pseudoid ver j valid self_valid verr = true ->
  read_event j = Some e -> e_type e = m_room_member -> membership_of e = Some k_invite ->
  e_state_key e = Some sk -> self_valid sk = true.
Proof.
  unfold verify_event_pseudoid, pseudoid_trace. intros H Hr Ht Hm Hs. rewrite Hr in H.
  destruct (negb (ver_known ver)); [discriminate|].
  rewrite Ht, bytes_eqb_refl, Hm in H.
  replace (bytes_eqb k_invite k_join) with false in H by reflexivity.
  simpl in H. unfold needed_member_pseudoid in H.
  rewrite Ht, bytes_eqb_refl, Hm, Hs in H.
  replace (bytes_eqb k_invite k_join) with false in H by reflexivity.
  rewrite bytes_eqb_refl in H. simpl in H.
  destruct (redact ver j); [|discriminate]. simpl in H.
  apply andb_true_iff in H as [_ H]. apply andb_true_iff in H as [H _]. exact H.
Qed.

Lemma pseudoid_join_mapping_must_verify ver j e valid self_valid verr :
  verify_event_pseudoid ver j valid self_valid verr = true ->
  read_event j = Some e -> e_type e = m_room_member -> membership_of e = Some k_join ->
  verr = false /\
  exists u l d, mxid_mapping e = MMapping (e_sender e) u /\ Ident.Ids.user_id_parse true u = Some (l, d) /\
                valid d = true.
Proof.
  unfold verify_event_pseudoid, pseudoid_trace. intros H Hr Ht Hm. rewrite Hr in H.
  destruct (negb (ver_known ver)); [discriminate|].
  rewrite Ht, bytes_eqb_refl, Hm, bytes_eqb_refl in H.
  unfold mapping_server in H.
  destruct (mxid_mapping e) as [|k u] eqn:Em; [discriminate|].
  destruct (bytes_eqb k (e_sender e)) eqn:Ek; [|discriminate].
  apply bytes_eqb_eq in Ek. subst k.
  destruct (Ident.Ids.user_id_parse true u) as [[l d]|] eqn:Eu; [|discriminate].
  destruct (negb verr && forallb valid [d]) eqn:E; [|discriminate].
  apply andb_true_iff in E as [E1 E2]. apply negb_true_iff in E1. split; [exact E1|].
  exists u, l, d. split; [reflexivity|]. split; [exact Eu|].
  simpl in E2. apply andb_true_iff in E2 as [E2 _]. exact E2.
Qed.
