(* C06 - a well-formed event (RequiredSpec.wf_event) always has a redacted form in C05's model of
   redactevent.go (Event/Redact.v): the premise  redact ver j = Some msg  of the C06 theorems is
   implied by well-formedness.  Uses only what C05 states about its tables (algo_ok). *)
From Verif Require Import Lib.Bytes Json.Ast Gen.GenVersions Event.Redact Event.RedactSpec Event.RedactTables
  Event.VerifySig Event.RequiredSpec Event.VerifySigProofs.
Open Scope N_scope.

(* ---------- ASCII names under C05's folding ---------- *)
Lemma sanitize_ascii k : all_ascii k = true -> utf8_sanitize k = k.
Proof.
  induction k as [|c k IH]; intro H; simpl in *; [reflexivity|].
  apply andb_true_iff in H as [H1 H2]. rewrite H1. f_equal. auto.
Qed.

Definition up (c : N) : N := if in_rng 97 122 c then c - 32 else c.

Lemma fold_name_ascii k : all_ascii k = true -> fold_name k = map up k.
Proof.
  induction k as [|c k IH]; intro H; simpl in *; [reflexivity|].
  apply andb_true_iff in H as [H1 H2]. unfold up at 1.
  destruct (in_rng 97 122 c); [f_equal; auto|]. rewrite H1. f_equal. auto.
Qed.

Lemma up_lower c d : c <? 128 = true -> d <? 128 = true -> up c = up d -> lower c = lower d.
Proof.
  unfold up, lower, in_rng. intros Hc Hd.
  apply N.ltb_lt in Hc. apply N.ltb_lt in Hd.
  destruct (N.leb_spec 97 c), (N.leb_spec c 122), (N.leb_spec 97 d), (N.leb_spec d 122),
           (N.leb_spec 65 c), (N.leb_spec c 90), (N.leb_spec 65 d), (N.leb_spec d 90);
    simpl; intro Hu; lia.
Qed.

Lemma map_up_lower f k :
  all_ascii f = true -> all_ascii k = true -> map up f = map up k -> map lower f = map lower k.
Proof.
  revert k; induction f as [|c f IH]; intros [|d k] Hf Hk H; simpl in *; try discriminate; [reflexivity|].
  apply andb_true_iff in Hf as [Hf1 Hf2]. apply andb_true_iff in Hk as [Hk1 Hk2].
  inversion H. f_equal; [apply up_lower; assumption | apply IH; assumption].
Qed.

Lemma field_ok_ascii f : field_ok f = true -> all_ascii (fname f) = true.
Proof. unfold field_ok. intro H. apply andb_true_iff in H as [H _]. exact H. Qed.

Lemma find_field_alike fs k f :
  forallb field_ok fs = true -> find_field fs (utf8_sanitize k) = Some f ->
  In f fs /\ alike (fname f) k = true.
Proof.
  intros Hfs H. unfold find_field in H.
  destruct (all_ascii k) eqn:Ek.
  - rewrite (sanitize_ascii _ Ek) in H.
    destruct (find (fun f0 => bytes_eqb (fname f0) k) fs) as [f0|] eqn:E1.
    + inversion H; subst f0. apply find_some in E1 as [Hin He]. split; [exact Hin|].
      apply bytes_eqb_eq in He. rewrite He. apply alike_refl.
    + apply find_some in H as [Hin He]. split; [exact Hin|].
      apply bytes_eqb_eq in He.
      pose proof (proj1 (forallb_forall _ _) Hfs _ Hin) as Hok. apply field_ok_ascii in Hok.
      rewrite (fold_name_ascii _ Hok), (fold_name_ascii _ Ek) in He.
      unfold alike. rewrite (map_up_lower _ _ Hok Ek He), bytes_eqb_refl. apply orb_true_r.
  - assert (Hal : forall g, alike g k = true) by (intro g; unfold alike; rewrite Ek; reflexivity).
    destruct (find (fun f0 => bytes_eqb (fname f0) (utf8_sanitize k)) fs) as [f0|] eqn:E1.
    + inversion H; subst f0. apply find_some in E1 as [Hin _]. auto.
    + apply find_some in H as [Hin _]. auto.
Qed.

(* ---------- an unambiguous field: the only look-alike member is the one the plain reading finds ---------- *)
Lemma unambiguous_member f m k v :
  unambiguous f m = true -> In (k, v) m -> alike f k = true -> k = f /\ assoc_first f m = Some v.
Proof.
  induction m as [|[k0 v0] m IH]; intros Hu Hin Ha; simpl in *; [contradiction|].
  destruct (alike f k0) eqn:E0.
  - apply andb_true_iff in Hu as [Hu1 Hu2]. rewrite Hu1. apply bytes_eqb_eq in Hu1. subst k0.
    destruct Hin as [Hin|Hin].
    + inversion Hin; subst. auto.
    + pose proof (proj1 (forallb_forall _ _) Hu2 _ Hin) as Hn. simpl in Hn. rewrite Ha in Hn. discriminate.
  - destruct Hin as [Hin|Hin].
    + inversion Hin; subst. congruence.
    + assert (Hne : bytes_eqb f k0 = false).
      { destruct (bytes_eqb f k0) eqn:E; [|reflexivity]. apply bytes_eqb_eq in E. subst k0.
        rewrite alike_refl in E0. discriminate. }
      rewrite Hne. auto.
Qed.

(* ---------- decoding never fails on members that fit the struct ---------- *)
Definition member_fits (fs : list field) (kv : bytes * json) : bool :=
  match find_field fs (utf8_sanitize (fst kv)) with
  | None => true
  | Some f =>
      match fkind_of f with
      | FRaw => true
      | FStr => match snd kv with JStr _ => true | JNull => true | _ => false end
      | FMap => match snd kv with JObj _ => true | JNull => true | _ => false end
      | FUnknown => false
      end
  end.

Lemma decode_member_fits fs d kv : member_fits fs kv = true -> decode_member fs (Some d) kv <> None.
Proof.
  unfold member_fits, decode_member.
  destruct (find_field fs (utf8_sanitize (fst kv))) as [f|]; [|discriminate].
  destruct (fkind_of f); try discriminate.
  - destruct (snd kv); discriminate.
  - destruct (snd kv); discriminate.
Qed.

Lemma decode_fits fs m : forallb (member_fits fs) m = true ->
  forall d, fold_left (decode_member fs) m (Some d) <> None.
Proof.
  induction m as [|kv m IH]; intros H d; [simpl; discriminate|].
  cbn [forallb] in H. apply andb_true_iff in H as [H1 H2]. cbn [fold_left].
  destruct (decode_member fs (Some d) kv) as [d'|] eqn:E.
  - apply IH. exact H2.
  - exfalso. exact (decode_member_fits fs d kv H1 E).
Qed.

Lemma emit_fields_ok d c fs : forallb field_ok fs = true -> emit_fields d c fs <> None.
Proof.
  induction fs as [|f fs IH]; intro H; simpl in *; [discriminate|].
  apply andb_true_iff in H as [H1 H2].
  assert (He : emit_field d c f <> None).
  { unfold emit_field. unfold field_ok in H1. apply andb_true_iff in H1 as [_ H1].
    destruct (fkind_of f); try discriminate.
    - rewrite H1. destruct (assoc_first (fname f) (d_raw d)); discriminate.
    - destruct (fomit f && is_nil (d_type d)); discriminate.
    - destruct c as [c|]; [destruct (fomit f && is_nil c)|destruct (fomit f)]; discriminate. }
  destruct (emit_field d c f); [|contradiction].
  pose proof (IH H2) as Hr. destruct (emit_fields d c fs); [discriminate|contradiction].
Qed.

(* ---------- the members of a well-formed event fit ---------- *)
Lemma wf_members_fit ver m fs :
  wf_event ver (JObj m) = true -> forallb field_ok fs = true -> forallb (member_fits fs) m = true.
Proof.
  intros Hwf Hfs. unfold wf_event in Hwf. apply andb_true_iff in Hwf as [_ Hwf].
  repeat rewrite andb_true_iff in Hwf.
  destruct Hwf as [[[[[[[[[H1 H2] H3] H4] H5] H6] H7] H8] H9] H10].
  apply forallb_forall. intros [k v] Hin. unfold member_fits. simpl fst. simpl snd.
  destruct (find_field fs (utf8_sanitize k)) as [f|] eqn:Ef; [|reflexivity].
  destruct (find_field_alike _ _ _ Hfs Ef) as [Hfin Hal].
  pose proof (proj1 (forallb_forall _ _) Hfs _ Hfin) as Hok. unfold field_ok in Hok.
  apply andb_true_iff in Hok as [_ Hok].
  destruct (fkind_of f); try reflexivity; try discriminate.
  - (* the string field: type *)
    apply andb_true_iff in Hok as [_ Hn]. apply bytes_eqb_eq in Hn. rewrite Hn in Hal.
    unfold type_key in Hal. unfold field_ok_str in H1. apply andb_true_iff in H1 as [U1 S1].
    destruct (unambiguous_member _ _ _ _ U1 Hin Hal) as [_ Ha]. rewrite Ha in S1.
    destruct v; try discriminate; reflexivity.
  - (* the map field: content *)
    apply andb_true_iff in Hok as [_ Hn]. apply bytes_eqb_eq in Hn. rewrite Hn in Hal.
    unfold content_key in Hal.
    destruct (unambiguous_member _ _ _ _ H5 Hin Hal) as [_ Ha].
    unfold wf_content in H10. rewrite Ha in H10.
    destruct v; try discriminate; reflexivity.
Qed.

Lemma spec_version_has_algo ver : spec_is_version ver = true ->
  exists a, algo_of_version ver = Some a /\ algo_ok a = true.
Proof.
  intro H. destruct (version_row _ H) as [Hk _]. unfold ver_known, ver_entry in Hk.
  destruct (assoc_first ver gen_versions) eqn:E; [|discriminate].
  apply assoc_first_fst in E.
  pose proof (proj1 (forallb_forall _ _) all_versions_ok ver E) as Hv. unfold version_ok in Hv.
  destruct (algo_of_version ver) as [a|]; [|discriminate]. eauto.
Qed.

Theorem wf_event_redacts ver j : wf_event ver j = true -> exists msg, redact ver j = Some msg.
Proof.
  intro Hwf. pose proof Hwf as Hwf'. unfold wf_event in Hwf'.
  apply andb_true_iff in Hwf' as [Hv Hm]. apply andb_true_iff in Hv as [Hv _].
  destruct j as [| | | | |m]; try discriminate.
  destruct (spec_version_has_algo _ Hv) as [a [Ha Hok]].
  unfold algo_ok in Hok. repeat rewrite andb_true_iff in Hok. destruct Hok as [[[_ Hfs] _] _].
  unfold redact. rewrite Ha. unfold redact_alg, redact_alg_outcome, redact_members.
  pose proof (decode_fits _ _ (wf_members_fit ver m _ Hwf Hfs) d_init) as Hd. unfold decode.
  destruct (fold_left (decode_member (a_fields a)) m (Some d_init)) as [d|]; [|contradiction].
  pose proof (emit_fields_ok d (filter_content (a_content a) d) _ Hfs) as He.
  destruct (emit_fields d (filter_content (a_content a) d) (a_fields a)); [|contradiction].
  eexists. reflexivity.
Qed.
