(* Extraction of the executable model. Only ExtrOcamlBasic is used: N, Z, positive, ascii
   stay the extracted inductive datatypes (no OCaml int). *)
Require Extraction.
Require Import ExtrOcamlBasic.
From Verif Require Import Run.Dispatch.
Extraction "model.ml" run_case.
