(* C14 model, part 2: authchain.go, VerifyEventAuthChain.

   The Go loop pops the LAST element of eventsToVerify; here the head of the list is the top of
   the stack, so `append(eventsToVerify, newEvents...)` becomes `rev newEvents ++ stack`.
   One unit of fuel per iteration of `for len(eventsToVerify) > 0`. *)
From Coq Require Import List NArith Bool.
From Verif Require Import Fed.Filters.
Import ListNotations.
Open Scope N_scope.

Inductive chain_result :=
| ChainOk
| ChainProviderErr        (* provideEvents returned an error in the bulk fetch *)
| ChainNotAllowed         (* checkAllowedByAuthEvents failed for some event (incl. AddEvent error) *)
| ChainOutOfFuel.

Section AuthChain.
  Variable PS : Type.
  Variable allowed : event -> list event -> bool.
  Variable pcall : PS -> list N -> PS * panswer.

  (* `eventsByID[needEventID] == nil`: no entry, or an entry holding nil *)
  Definition needs (m : emap) (id : N) : bool :=
    match mget m id with Some (Some _) => false | _ => true end.

  Fixpoint chain_loop (fuel gfuel : nat) (stack : list event) (m : emap) (verified : list N)
           (ps : PS) : chain_result * PS :=
    match fuel with
    | O => (ChainOutOfFuel, ps)
    | S f =>
        match stack with
        | [] => (ChainOk, ps)
        | curr :: rest =>
            if mem_N (eid curr) verified then chain_loop f gfuel rest m verified ps
            else
              let need := filter (needs m) (auth_ids curr) in
              let '(ps1, ans) :=
                match need with [] => (ps, PEvents []) | _ => pcall ps need end in
              match ans with
              | PError => (ChainProviderErr, ps1)
              | PEvents newEvents =>
                  let m1 := map_of_events newEvents m in
                  let stack1 := rev newEvents ++ rest in
                  let '(v, m2, ps2) := check_allowed PS allowed pcall gfuel true curr m1 ps1 in
                  match v with
                  | VAllowed => chain_loop f gfuel stack1 m2 (eid curr :: verified) ps2
                  | VOutOfFuel => (ChainOutOfFuel, ps2)
                  | _ => (ChainNotAllowed, ps2)
                  end
              end
        end
    end.

  Definition verify_event_auth_chain (fuel gfuel : nat) (e : event) (ps : PS)
    : chain_result * PS :=
    chain_loop fuel gfuel [e] (mset [] (eid e) (Some e)) [] ps.
End AuthChain.
