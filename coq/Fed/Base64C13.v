(* spec.Base64Bytes: Encode = base64.RawStdEncoding (no padding); Decode = RawURLEncoding when the
   text contains '-' or '_', else RawStdEncoding; Go's decoder skips CR and LF and (not being in
   strict mode) ignores the unused trailing bits.  Model only, no proofs. *)
From Verif Require Import Lib.Bytes Fed.Utf8C13.
Open Scope N_scope.

Definition b64_char (n : N) : N :=
  if n <? 26 then 65 + n
  else if n <? 52 then 71 + n          (* 97 + (n - 26) *)
  else if n <? 62 then n - 4           (* 48 + (n - 52) *)
  else if n =? 62 then 43 else 47.

Definition b64_val (url : bool) (c : N) : option N :=
  if in_range 65 90 c then Some (c - 65)
  else if in_range 97 122 c then Some (c - 71)
  else if in_range 48 57 c then Some (c + 4)
  else if url then (if c =? 45 then Some 62 else if c =? 95 then Some 63 else None)
  else (if c =? 43 then Some 62 else if c =? 47 then Some 63 else None).

Fixpoint b64_encode (s : bytes) : bytes :=
  match s with
  | a :: b :: c :: r =>
      b64_char (a / 4) :: b64_char ((a mod 4) * 16 + b / 16)
      :: b64_char ((b mod 16) * 4 + c / 64) :: b64_char (c mod 64) :: b64_encode r
  | [a; b] => [b64_char (a / 4); b64_char ((a mod 4) * 16 + b / 16); b64_char ((b mod 16) * 4)]
  | [a] => [b64_char (a / 4); b64_char ((a mod 4) * 16)]
  | [] => []
  end.

Fixpoint b64_vals (url : bool) (s : bytes) : option (list N) :=
  match s with
  | [] => Some []
  | c :: r =>
      if (c =? 13) || (c =? 10) then b64_vals url r
      else match b64_val url c, b64_vals url r with
           | Some v, Some vs => Some (v :: vs)
           | _, _ => None
           end
  end.

Fixpoint b64_groups (v : list N) : option bytes :=
  match v with
  | a :: b :: c :: d :: r =>
      match b64_groups r with
      | Some t => Some ((a * 4 + b / 16) :: ((b mod 16) * 16 + c / 4) :: ((c mod 4) * 64 + d) :: t)
      | None => None
      end
  | [a; b; c] => Some [a * 4 + b / 16; (b mod 16) * 16 + c / 4]
  | [a; b] => Some [a * 4 + b / 16]
  | [_] => None
  | [] => Some []
  end.

(* Base64Bytes.Decode *)
Definition b64_decode (s : bytes) : option bytes :=
  let url := existsb (fun c => (c =? 45) || (c =? 95)) s in
  match b64_vals url s with
  | Some v => b64_groups v
  | None => None
  end.
