(* Base64 (unpadded, standard alphabet): decoding what was encoded gives the bytes back. *)
From Verif Require Import Lib.Bytes Fed.Utf8C13 Fed.Base64C13.
From Coq Require Import ZArith Lia.
Open Scope N_scope.

Fixpoint sextets (s : bytes) : list N :=
  match s with
  | a :: b :: c :: r =>
      a / 4 :: (a mod 4) * 16 + b / 16 :: (b mod 16) * 4 + c / 64 :: c mod 64 :: sextets r
  | [a; b] => [a / 4; (a mod 4) * 16 + b / 16; (b mod 16) * 4]
  | [a] => [a / 4; (a mod 4) * 16]
  | [] => []
  end.

Lemma b64_encode_sextets : forall s, b64_encode s = map b64_char (sextets s).
Proof.
  fix IH 1. intros [|a [|b [|c r]]]; try reflexivity.
  cbn [b64_encode sextets map]. rewrite IH. reflexivity.
Qed.

Lemma lt64_cases n : n < 64 -> In n (map N.of_nat (seq 0 64)).
Proof.
  intro H. apply in_map_iff. exists (N.to_nat n). split; [apply N2Nat.id|].
  apply in_seq. lia.
Qed.

Lemma b64_char_facts n : n < 64 ->
  b64_val false (b64_char n) = Some n /\ ((b64_char n =? 45) || (b64_char n =? 95)) = false
  /\ ((b64_char n =? 13) || (b64_char n =? 10)) = false.
Proof.
  intro H. apply lt64_cases in H. cbv [seq map N.of_nat] in H. simpl in H.
  repeat (destruct H as [<-|H]; [vm_compute; auto|]). contradiction.
Qed.

Section Arith.
  Ltac Zify.zify_post_hook ::= Z.to_euclidean_division_equations.

  Lemma sextets_lt : forall s, Forall (fun b => b < 256) s -> Forall (fun v => v < 64) (sextets s).
  Proof.
    fix IH 1. intros [|a [|b [|c r]]] H; cbn [sextets].
    - constructor.
    - inversion H as [|? ? Ha _]; subst. repeat constructor; lia.
    - inversion H as [|? ? Ha H1]; subst. inversion H1 as [|? ? Hb _]; subst. repeat constructor; lia.
    - inversion H as [|? ? Ha H1]; subst. inversion H1 as [|? ? Hb H2]; subst.
      inversion H2 as [|? ? Hc H3]; subst. repeat (constructor; [lia|]). apply IH. exact H3.
  Qed.

  Lemma groups_sextets : forall s, Forall (fun b => b < 256) s -> b64_groups (sextets s) = Some s.
  Proof.
    fix IH 1. intros [|a [|b [|c r]]] H; cbn [sextets b64_groups].
    - reflexivity.
    - inversion H as [|? ? Ha _]; subst. do 2 f_equal. lia.
    - inversion H as [|? ? Ha H1]; subst. inversion H1 as [|? ? Hb _]; subst.
      f_equal. f_equal; [lia|]. f_equal. lia.
    - inversion H as [|? ? Ha H1]; subst. inversion H1 as [|? ? Hb H2]; subst.
      inversion H2 as [|? ? Hc H3]; subst. rewrite (IH r H3).
      f_equal. f_equal; [lia|]. f_equal; [lia|]. f_equal. lia.
  Qed.
End Arith.

Lemma vals_chars l : Forall (fun v => v < 64) l -> b64_vals false (map b64_char l) = Some l.
Proof.
  induction 1 as [|v l Hv _ IH]; [reflexivity|]. cbn [map b64_vals].
  destruct (b64_char_facts v Hv) as (H1 & _ & H3). rewrite H3, H1, IH. reflexivity.
Qed.

Lemma no_url_chars l : Forall (fun v => v < 64) l ->
  existsb (fun c => (c =? 45) || (c =? 95)) (map b64_char l) = false.
Proof.
  induction 1 as [|v l Hv _ IH]; [reflexivity|]. cbn [map existsb].
  destruct (b64_char_facts v Hv) as (_ & H2 & _). rewrite H2, IH. reflexivity.
Qed.

Theorem b64_roundtrip s : Forall (fun b => b < 256) s -> b64_decode (b64_encode s) = Some s.
Proof.
  intro H. unfold b64_decode. rewrite b64_encode_sextets.
  pose proof (sextets_lt s H) as Hl. rewrite (no_url_chars _ Hl), (vals_chars _ Hl).
  apply groups_sextets. exact H.
Qed.
