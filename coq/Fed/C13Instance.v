(* An instance of the ideal signature scheme of Props/C13.v: keys are byte strings, the signature
   of m under k is a self-delimiting code of the pair (k, m), verification compares.  It shows
   the premises of the C13 theorems satisfiable (no theorem is vacuous). *)
From Verif Require Import Lib.Bytes Fed.Base64C13 Fed.Base64C13Proofs.
Open Scope N_scope.

(* n as n ones and a zero; a list as the codes of its elements and a two *)
Definition enc_n (n : N) : bytes := repeat 1 (N.to_nat n) ++ [0].
Fixpoint enc (l : bytes) : bytes :=
  match l with
  | [] => [2]
  | n :: l' => enc_n n ++ enc l'
  end.

Lemma unary_inj a : forall b x y, repeat 1 a ++ 0 :: x = repeat 1 b ++ 0 :: y -> a = b /\ x = y.
Proof.
  induction a as [|a IH]; intros [|b] x y H; simpl in H.
  - inversion H. auto.
  - discriminate.
  - discriminate.
  - inversion H as [H']. apply IH in H' as [-> ->]. auto.
Qed.

Lemma enc_prefix_free l : forall l' x y, enc l ++ x = enc l' ++ y -> l = l' /\ x = y.
Proof.
  induction l as [|n l IH]; intros [|n' l'] x y H; cbn [enc] in H.
  - inversion H. auto.
  - unfold enc_n in H. destruct (N.to_nat n'); simpl in H; discriminate.
  - unfold enc_n in H. destruct (N.to_nat n); simpl in H; discriminate.
  - unfold enc_n in H. rewrite <- !app_assoc in H. cbn [app] in H.
    apply unary_inj in H as [Hn H]. apply IH in H as [-> ->].
    apply N2Nat.inj in Hn. subst. auto.
Qed.

Definition i_sign (k m : bytes) : bytes := enc k ++ enc m.
Definition i_verify (p m s : bytes) : bool := bytes_eqb s (i_sign p m).

Lemma i_sign_inj k m k' m' : i_sign k m = i_sign k' m' -> k = k' /\ m = m'.
Proof.
  unfold i_sign. intro H. apply enc_prefix_free in H as [-> H].
  rewrite <- (app_nil_r (enc m)), <- (app_nil_r (enc m')) in H. apply enc_prefix_free in H as [-> _]. auto.
Qed.

Lemma enc_small l : Forall (fun b => b < 256) (enc l).
Proof.
  induction l as [|n l IH]; cbn [enc]; [repeat constructor; lia|].
  apply Forall_app. split; [|exact IH]. unfold enc_n. apply Forall_app. split.
  - apply Forall_forall. intros x Hx. apply repeat_spec in Hx. subst. lia.
  - repeat constructor; lia.
Qed.

Lemma enc_nonempty l : enc l <> [].
Proof. destruct l; cbn [enc]; [discriminate|]. unfold enc_n. destruct (N.to_nat n); discriminate. Qed.

Lemma i_sign_small k m : Forall (fun b => b < 256) (i_sign k m).
Proof. apply Forall_app. split; apply enc_small. Qed.

Lemma i_sign_nonempty k m : i_sign k m <> [].
Proof. unfold i_sign. intro H. apply app_eq_nil in H as [H _]. exact (enc_nonempty _ H). Qed.
