(* C14 proofs, part 4: VerifyEventAuthChain against a provider that is a function of the ID.
   Soundness: acceptance implies that every event reached through fetched auth events passes.
   Completeness: if all of them pass, the loop never rejects (it accepts unless the model's fuel
   runs out). *)
From Coq Require Import List NArith Bool Lia.
From Verif Require Import Fed.Filters Fed.AuthChain Fed.Spec Fed.GatherProofs Fed.StateProofs.
Import ListNotations.
Open Scope N_scope.

Arguments mset : simpl never.
Arguments mget : simpl never.

Lemma find_none_c {A} (p : A -> bool) l : find p l = None -> forall a, In a l -> p a = false.
Proof. apply find_none. Qed.

Section ChainProofs.
  Variable allowed : event -> list event -> bool.
  Variable prov : N -> presp.
  Hypothesis Hhonest : honest prov.
  Variable root : event.

  Let cres := chain_resolve prov root.
  Let rid := eid root.

  Definition fetched (need : list N) : list event := flat_map (fun x => resp_events (prov x)) need.

  Lemma fetch_eq need :
    match need with [] => (tt, PEvents []) | _ :: _ => pcall_of prov tt need end =
    (tt, if existsb (fun x => is_err (prov x)) need then PError else PEvents (fetched need)).
  Proof. destruct need; reflexivity. Qed.

  Lemma in_fetched a need : In a (fetched need) <-> exists x, In x need /\ prov x = REv a.
  Proof.
    unfold fetched. rewrite in_flat_map. split.
    - intros (x & Hx & Ha). exists x. split; auto.
      destruct (prov x) as [| |b]; simpl in Ha; try tauto. destruct Ha as [->|[]]. reflexivity.
    - intros (x & Hx & Hp). exists x. split; auto. rewrite Hp. now left.
  Qed.

  Lemma needs_false m x : needs m x = false <-> exists a, mget m x = Some (Some a).
  Proof.
    unfold needs. destruct (mget m x) as [[a|]|]; split; try discriminate; eauto;
      intros (? & [=]).
  Qed.

  Lemma reach_resolve c : Reach prov root c -> cres (eid c) = Some c.
  Proof.
    unfold cres, chain_resolve. induction 1 as [|c x a _ _ Hin Hne Hp].
    - now rewrite N.eqb_refl.
    - rewrite (Hhonest x a Hp). apply N.eqb_neq in Hne. now rewrite Hne, Hp.
  Qed.

  (* the invariant of the lookup table *)
  Definition TableOk (m : emap) : Prop :=
    Inv cres m /\ mget m rid = Some (Some root).

  Lemma cres_other x : x <> rid -> cres x = match prov x with REv a => Some a | _ => None end.
  Proof. intros H. unfold cres, chain_resolve. apply N.eqb_neq in H. fold rid. now rewrite H. Qed.

  (* the bulk fetch of the missing auth events of curr *)
  Lemma fetch_step m curr :
    TableOk m ->
    let need := filter (needs m) (auth_ids curr) in
    existsb (fun x => is_err (prov x)) need = false ->
    let m1 := map_of_events (fetched need) m in
    TableOk m1 /\
    (forall x, In x (auth_ids curr) -> mget m1 x = None -> prov x = RNone /\ x <> rid) /\
    (forall x a, mget m1 x = Some (Some a) -> mget m x = Some (Some a) \/ In a (fetched need)).
  Proof.
    intros [HI Hr] need Herr m1.
    assert (Hneed : forall y, In y need -> y <> rid /\ In y (auth_ids curr) /\ prov y <> RErr).
    { intros y Hy. unfold need in Hy. apply filter_In in Hy. destruct Hy as [Hy Hn]. split; [|split]; auto.
      - intros ->. unfold needs in Hn. rewrite Hr in Hn. discriminate.
      - intros He. assert (Ht : existsb (fun x => is_err (prov x)) need = true).
        { apply existsb_exists. exists y. split; [unfold need; apply filter_In; auto|now rewrite He]. }
        congruence. }
    split; [split|split].
    - intros x v. unfold m1. rewrite mget_map_of_events.
      destruct (find _ (rev (fetched need))) as [a|] eqn:Hf; [|apply HI].
      intros [= <-]. apply find_some in Hf. destruct Hf as [Hin He].
      apply in_rev, in_fetched in Hin. destruct Hin as (y & Hy & Hp).
      apply N.eqb_eq in He. rewrite (Hhonest y a Hp) in He. subst y.
      destruct (Hneed x Hy) as (Hne & _ & _). rewrite cres_other by exact Hne. now rewrite Hp.
    - unfold m1. rewrite mget_map_of_events.
      destruct (find _ (rev (fetched need))) as [a|] eqn:Hf; auto.
      exfalso. apply find_some in Hf. destruct Hf as [Hin He].
      apply in_rev, in_fetched in Hin. destruct Hin as (y & Hy & Hp).
      apply N.eqb_eq in He. rewrite (Hhonest y a Hp) in He.
      destruct (Hneed y Hy) as (Hne & _). contradiction.
    - intros x Hx. unfold m1. rewrite mget_map_of_events.
      destruct (find _ (rev (fetched need))) as [a|] eqn:Hf; [discriminate|].
      intros Hm. assert (Hn : In x need).
      { unfold need. apply filter_In. split; auto. unfold needs. now rewrite Hm. }
      destruct (Hneed x Hn) as (Hne & _ & Hperr). split; auto.
      destruct (prov x) as [| |a] eqn:Hp; auto; [congruence|].
      exfalso. assert (Hin : In a (rev (fetched need))).
      { rewrite <- in_rev. apply in_fetched. eauto. }
      pose proof (find_none_c _ _ Hf a Hin) as Hnone. simpl in Hnone.
      rewrite (Hhonest x a Hp), N.eqb_refl in Hnone. discriminate.
    - intros x a. unfold m1. rewrite mget_map_of_events.
      destruct (find _ (rev (fetched need))) as [b|] eqn:Hf; auto.
      intros [= <-]. right. apply find_some in Hf. destruct Hf as [Hin _]. now apply in_rev.
  Qed.

  (* checkAllowedByAuthEvents on curr after the bulk fetch *)
  Lemma check_step gfuel m1 curr :
    TableOk m1 ->
    (forall x, In x (auth_ids curr) -> mget m1 x = None -> prov x = RNone /\ x <> rid) ->
    (2 * length (auth_ids curr) < gfuel)%nat ->
    exists v m2, check_allowed unit allowed (pcall_of prov) gfuel true curr m1 tt = (v, m2, tt) /\
      (v = VAllowed <->
         forallb is_state (chain_auth_list prov root curr) = true /\
         allowed_by allowed curr (chain_auth_list prov root curr) = true) /\
      (v = VAllowed -> TableOk m2 /\
         forall x a, mget m2 x = Some (Some a) -> mget m1 x = Some (Some a)) /\
      v <> VOutOfFuel.
  Proof.
    intros [HI Hr] Hnone Hfuel.
    assert (HF : Fresh prov cres true m1 (auth_ids curr)).
    { intros x Hx Hm. destruct (Hnone x Hx Hm) as [Hp Hne].
      rewrite cres_other by exact Hne. unfold eff_prov, from_prov. now rewrite Hp. }
    destruct (gather_spec prov Hhonest cres true (auth_ids curr) gfuel [] m1 Hfuel HI HF)
      as (st & acc' & m2 & Hg & HI2 & Hmono & Hprov & Hif).
    rewrite admissible_split in Hif.
    change (res_list cres (auth_ids curr)) with (chain_auth_list prov root curr) in Hif.
    unfold check_allowed. rewrite Hg. unfold allowed_by, tuples_distinct.
    destruct (forallb is_state (chain_auth_list prov root curr)) eqn:Hst; simpl in Hif.
    - destruct (tuples_ok [] (chain_auth_list prov root curr)) eqn:Htd.
      + destruct Hif as [-> ->]. simpl.
        destruct (allowed curr (chain_auth_list prov root curr)) eqn:Ha.
        * exists VAllowed, m2. split; auto. split; [tauto|]. split; [|discriminate]. intros _. split.
          -- split; auto. rewrite Hmono; auto. congruence.
          -- intros x a Hx. destruct (Hprov x a Hx) as [H|(H1 & H2 & H3)]; auto.
             exfalso. destruct (Hnone x H1 H2) as [Hp _].
             unfold eff_prov, from_prov in H3. rewrite Hp in H3. discriminate.
        * exists VNotAllowed, m2. split; auto. split; [|split; discriminate].
          split; [discriminate|]. intros [_ H]. discriminate.
      + destruct Hif as [-> | ->]; [exists VAddErr, m2 | exists VDupTuple, m2];
          (split; auto; split; [|split; discriminate]; split; [discriminate|]; intros [_ H]; discriminate).
    - destruct Hif as [-> | ->]; [exists VAddErr, m2 | exists VDupTuple, m2];
        (split; auto; split; [|split; discriminate]; split; [discriminate|]; intros [H _]; discriminate).
  Qed.

  (* ---------------- soundness ---------------- *)
  Definition closed_at (verified : list N) (stack : list event) (c : event) : Prop :=
    forall x a, In x (auth_ids c) -> cres x = Some a -> In (eid a) verified \/ In a stack.

  Definition J (stack : list event) (m : emap) (verified : list N) : Prop :=
    TableOk m /\
    (forall c, In c stack -> Reach prov root c) /\
    (forall id, In id verified -> exists c, cres id = Some c /\ eid c = id /\ Reach prov root c /\
                  chain_ok allowed prov root c /\ closed_at verified stack c) /\
    (In rid verified \/ In root stack) /\
    (forall x a, mget m x = Some (Some a) -> In (eid a) verified \/ In a stack).

  Lemma J_final m verified :
    J [] m verified -> forall c, Reach prov root c -> chain_ok allowed prov root c.
  Proof.
    intros (_ & _ & J3 & J4 & _).
    assert (Hv : forall c, Reach prov root c -> In (eid c) verified).
    { induction 1 as [|c x a Hc IH Hin Hne Hp].
      - destruct J4 as [H|[]]. exact H.
      - destruct (J3 _ IH) as (c' & Hr & _ & _ & _ & Hcl).
        rewrite (reach_resolve c Hc) in Hr. injection Hr as <-.
        assert (Hra : cres x = Some a) by (rewrite cres_other by exact Hne; now rewrite Hp).
        destruct (Hcl x a Hin Hra) as [H|[]]. exact H. }
    intros c Hc. destruct (J3 _ (Hv c Hc)) as (c' & Hr & _ & _ & Hok & _).
    rewrite (reach_resolve c Hc) in Hr. injection Hr as <-. exact Hok.
  Qed.

  (* moving from curr :: rest to a stack that contains rest, with curr now verified *)
  Lemma pop_or verified curr rest stack' a :
    (forall b, In b rest -> In b stack') ->
    In (eid a) verified \/ In a (curr :: rest) ->
    In (eid a) (eid curr :: verified) \/ In a stack'.
  Proof.
    intros Hsub [H|[->|H]]; [left; now right | left; now left | right; auto].
  Qed.

  Lemma mget_nil x : mget [] x = None.
  Proof. reflexivity. Qed.

  Lemma J_init : J [root] (mset [] rid (Some root)) [].
  Proof.
    split; [split|].
    - intros x v. destruct (N.eq_dec x rid) as [->|Hne].
      + rewrite mget_mset_same. intros [= <-]. unfold cres, chain_resolve. fold rid.
        now rewrite N.eqb_refl.
      + rewrite mget_mset_other by exact Hne. rewrite mget_nil. discriminate.
    - apply mget_mset_same.
    - split; [|split; [|split]].
      + intros c [<-|[]]. constructor.
      + intros id [].
      + right. now left.
      + intros x a. destruct (N.eq_dec x rid) as [->|Hne].
        * rewrite mget_mset_same. intros [= <-]. right. now left.
        * rewrite mget_mset_other by exact Hne. rewrite mget_nil. discriminate.
  Qed.

  Section WithFuel.
    Variable gfuel : nat.
    Hypothesis Hg : forall c, Reach prov root c -> (2 * length (auth_ids c) < gfuel)%nat.

    Lemma need_facts m curr x :
      TableOk m -> In x (filter (needs m) (auth_ids curr)) -> In x (auth_ids curr) /\ x <> rid.
    Proof.
      intros [_ Hr] Hx. apply filter_In in Hx. destruct Hx as [Hx Hn]. split; auto.
      intros ->. unfold needs in Hn. rewrite Hr in Hn. discriminate.
    Qed.

    Lemma fetched_reach m curr a :
      TableOk m -> Reach prov root curr ->
      In a (fetched (filter (needs m) (auth_ids curr))) -> Reach prov root a.
    Proof.
      intros HT Hc Ha. apply in_fetched in Ha. destruct Ha as (y & Hy & Hp).
      destruct (need_facts m curr y HT Hy) as [Hin Hne].
      eapply reach_step; eauto.
    Qed.

    Theorem chain_sound : forall fuel stack m verified,
      J stack m verified ->
      chain_loop unit allowed (pcall_of prov) fuel gfuel stack m verified tt = (ChainOk, tt) ->
      forall c, Reach prov root c -> chain_ok allowed prov root c.
    Proof.
      induction fuel as [|f IH]; intros stack m verified HJ; simpl; [discriminate|].
      destruct stack as [|curr rest].
      - intros _. eapply J_final; eauto.
      - destruct HJ as (HT & J2 & J3 & J4 & J5).
        destruct (mem_N (eid curr) verified) eqn:Hv.
        + (* already verified *)
          apply mem_N_In in Hv. apply IH.
          assert (Hpo : forall a, In (eid a) verified \/ In a (curr :: rest) -> In (eid a) verified \/ In a rest).
          { intros a [H|[->|H]]; auto. }
          split; [exact HT|]. split; [intros c Hc; apply J2; now right|].
          split; [|split].
          * intros id Hid. destruct (J3 id Hid) as (c & H1 & H2 & H3 & H4 & H5).
            exists c. split; [exact H1|]. split; [exact H2|]. split; [exact H3|]. split; [exact H4|].
            intros x a Hx Ha. apply Hpo. eapply H5; eauto.
          * destruct J4 as [H|[Heq|H]]; auto. left. unfold rid. rewrite <- Heq. exact Hv.
          * intros x a Hx. apply Hpo. eapply J5; eauto.
        + (* verify curr *)
          rewrite fetch_eq.
          set (need := filter (needs m) (auth_ids curr)).
          destruct (existsb (fun x => is_err (prov x)) need) eqn:Herr; [discriminate|].
          assert (Hcurr : Reach prov root curr) by (apply J2; now left).
          destruct (fetch_step m curr HT Herr) as (HT1 & Hnone & Hprov1).
          fold need in HT1, Hnone, Hprov1.
          destruct (check_step gfuel _ curr HT1 Hnone (Hg curr Hcurr)) as (v & m2 & Hc & Hiff & Hpost & Hnf).
          rewrite Hc. destruct v; try discriminate.
          destruct (proj1 Hiff eq_refl) as [Hst Hal]. destruct (Hpost eq_refl) as [HT2 Hprov2].
          apply IH.
          assert (Hsub : forall b, In b rest -> In b (rev (fetched need) ++ rest))
            by (intros; apply in_or_app; now right).
          assert (Hnew : forall b, In b (fetched need) -> In b (rev (fetched need) ++ rest))
            by (intros; apply in_or_app; left; now apply in_rev in H || (apply -> in_rev; exact H)).
          assert (Hok : chain_ok allowed prov root curr).
          { split; [|split; auto]. intros x Hx Hne.
            destruct (needs m x) eqn:Hn.
            - assert (Hin : In x need) by (unfold need; apply filter_In; auto).
              intros He. assert (existsb (fun x => is_err (prov x)) need = true).
              { apply existsb_exists. exists x. split; auto. now rewrite He. }
              congruence.
            - apply needs_false in Hn. destruct Hn as (a & Hm).
              destruct HT as [HI _]. pose proof (HI x _ Hm) as Hr.
              rewrite cres_other in Hr by exact Hne. destruct (prov x); congruence. }
          assert (Hclosed : closed_at (eid curr :: verified) (rev (fetched need) ++ rest) curr).
          { intros x a Hx Ha. destruct (N.eq_dec x rid) as [->|Hne].
            - unfold cres, chain_resolve in Ha. fold rid in Ha. rewrite N.eqb_refl in Ha.
              injection Ha as <-. apply (pop_or verified curr rest); auto.
            - rewrite cres_other in Ha by exact Hne.
              destruct (prov x) as [| |a'] eqn:Hp; try discriminate. injection Ha as ->.
              destruct (needs m x) eqn:Hn.
              + right. apply Hnew. apply in_fetched. exists x. split; auto.
                unfold need. apply filter_In. auto.
              + apply needs_false in Hn. destruct Hn as (b & Hm).
                destruct HT as [HI _]. pose proof (HI x _ Hm) as Hr.
                rewrite cres_other in Hr by exact Hne. rewrite Hp in Hr. injection Hr as ->.
                apply (pop_or verified curr rest); auto. eapply J5; eauto. }
          split; [exact HT2|]. split; [|split; [|split]].
          * intros c Hc'. apply in_app_or in Hc'. destruct Hc' as [Hc'|Hc'].
            -- apply in_rev in Hc'. apply (fetched_reach m curr c HT Hcurr). exact Hc'.
            -- apply J2. now right.
          * intros id [<-|Hid].
            -- exists curr. split; [now apply reach_resolve|]. split; [reflexivity|].
               split; [exact Hcurr|]. split; [exact Hok|]. exact Hclosed.
            -- destruct (J3 id Hid) as (c & H1 & H2 & H3 & H4 & H5).
               exists c. split; [exact H1|]. split; [exact H2|]. split; [exact H3|]. split; [exact H4|].
               intros x a Hx Ha. apply (pop_or verified curr rest); auto. eapply H5; eauto.
          * apply (pop_or verified curr rest); auto.
          * intros x a Hx. apply Hprov2 in Hx. apply Hprov1 in Hx. destruct Hx as [Hx|Hx].
            -- apply (pop_or verified curr rest); auto. eapply J5; eauto.
            -- right. now apply Hnew.
    Qed.

    Theorem chain_complete :
      (forall c, Reach prov root c -> chain_ok allowed prov root c) ->
      forall fuel stack m verified,
      TableOk m -> (forall c, In c stack -> Reach prov root c) ->
      fst (chain_loop unit allowed (pcall_of prov) fuel gfuel stack m verified tt) = ChainOk \/
      fst (chain_loop unit allowed (pcall_of prov) fuel gfuel stack m verified tt) = ChainOutOfFuel.
    Proof.
      intros Hall. induction fuel as [|f IH]; intros stack m verified HT J2; simpl; [now right|].
      destruct stack as [|curr rest]; [now left|].
      destruct (mem_N (eid curr) verified).
      - apply IH; auto. intros c Hc. apply J2. now right.
      - rewrite fetch_eq.
        set (need := filter (needs m) (auth_ids curr)).
        assert (Hcurr : Reach prov root curr) by (apply J2; now left).
        destruct (Hall curr Hcurr) as (Hnoerr & Hst & Hal).
        assert (Herr : existsb (fun x => is_err (prov x)) need = false).
        { destruct (existsb _ need) eqn:He; auto. apply existsb_exists in He.
          destruct He as (x & Hx & Hex). destruct (need_facts m curr x HT Hx) as [Hin Hne].
          specialize (Hnoerr x Hin Hne). destruct (prov x); simpl in Hex; congruence. }
        rewrite Herr.
        destruct (fetch_step m curr HT Herr) as (HT1 & Hnone & Hprov1).
        fold need in HT1, Hnone, Hprov1.
        destruct (check_step gfuel _ curr HT1 Hnone (Hg curr Hcurr)) as (v & m2 & Hc & Hiff & Hpost & Hnf).
        rewrite Hc. assert (Hv : v = VAllowed) by (apply Hiff; auto). subst v.
        destruct (Hpost eq_refl) as [HT2 _].
        apply IH; auto.
        intros c Hc'. apply in_app_or in Hc'. destruct Hc' as [Hc'|Hc'].
        + apply in_rev in Hc'. apply (fetched_reach m curr c HT Hcurr). exact Hc'.
        + apply J2. now right.
    Qed.

    (* ---------------- fuel adequacy ----------------
       univ: any finite list containing every reachable event. Each iteration either drops an
       already verified stack entry or verifies a new event, pushing at most one entry per auth
       event ID of it. *)
    Variable univ : list event.
    Hypothesis Huniv : forall c, Reach prov root c -> In c univ.

    Definition weight (verified : list N) : nat :=
      fold_right (fun c n => (if mem_N (eid c) verified then O else S (length (auth_ids c))) + n)%nat O univ.

    Lemma weight_mono_gen (l : list event) verified x :
      (fold_right (fun c n => (if mem_N (eid c) (x :: verified) then O else S (length (auth_ids c))) + n) O l
       <= fold_right (fun c n => (if mem_N (eid c) verified then O else S (length (auth_ids c))) + n) O l)%nat.
    Proof.
      induction l as [|c l IH]; simpl in *; auto.
      destruct (eid c =? x); simpl; destruct (mem_N (eid c) verified); simpl; lia.
    Qed.

    Lemma weight_drop_gen (l : list event) verified c :
      In c l -> mem_N (eid c) verified = false ->
      (fold_right (fun c' n => (if mem_N (eid c') (eid c :: verified) then O else S (length (auth_ids c'))) + n) O l
         + S (length (auth_ids c))
       <= fold_right (fun c' n => (if mem_N (eid c') verified then O else S (length (auth_ids c'))) + n) O l)%nat.
    Proof.
      intros Hin Hm. induction l as [|c' l IH]; [destruct Hin|].
      destruct Hin as [->|Hin].
      - pose proof (weight_mono_gen l verified (eid c)) as Hmono.
        simpl in *. rewrite N.eqb_refl, Hm. simpl. lia.
      - specialize (IH Hin). simpl in *.
        destruct (eid c' =? eid c); simpl; destruct (mem_N (eid c') verified); simpl; lia.
    Qed.

    Lemma length_fetched need : (length (fetched need) <= length need)%nat.
    Proof.
      unfold fetched. induction need as [|x r IH]; simpl; auto.
      rewrite app_length. destruct (prov x); simpl; lia.
    Qed.

    Lemma length_filter_c {A} (p : A -> bool) l : (length (filter p l) <= length l)%nat.
    Proof. induction l as [|a l IH]; simpl; auto. destruct (p a); simpl; lia. Qed.

    Theorem chain_fuel_ok : forall fuel stack m verified,
      TableOk m -> (forall c, In c stack -> Reach prov root c) ->
      (length stack + weight verified < fuel)%nat ->
      fst (chain_loop unit allowed (pcall_of prov) fuel gfuel stack m verified tt) <> ChainOutOfFuel.
    Proof.
      induction fuel as [|f IH]; intros stack m verified HT J2 Hlt; [lia|]. simpl.
      destruct stack as [|curr rest]; [discriminate|].
      simpl in Hlt.
      destruct (mem_N (eid curr) verified) eqn:Hv.
      - apply IH; auto; [intros c Hc; apply J2; now right | lia].
      - rewrite fetch_eq.
        set (need := filter (needs m) (auth_ids curr)).
        assert (Hcurr : Reach prov root curr) by (apply J2; now left).
        destruct (existsb (fun x => is_err (prov x)) need) eqn:Herr; [discriminate|].
        destruct (fetch_step m curr HT Herr) as (HT1 & Hnone & Hprov1).
        fold need in HT1, Hnone, Hprov1.
        destruct (check_step gfuel _ curr HT1 Hnone (Hg curr Hcurr)) as (v & m2 & Hc & Hiff & Hpost & Hnf).
        rewrite Hc. destruct v; try discriminate; [|congruence].
        destruct (Hpost eq_refl) as [HT2 _].
        apply IH; auto.
        + intros c Hc'. apply in_app_or in Hc'. destruct Hc' as [Hc'|Hc'].
          * apply in_rev in Hc'. apply (fetched_reach m curr c HT Hcurr). exact Hc'.
          * apply J2. now right.
        + rewrite app_length, rev_length.
          pose proof (length_fetched need). pose proof (length_filter_c (needs m) (auth_ids curr)).
          fold need in H0.
          pose proof (weight_drop_gen univ verified curr (Huniv curr Hcurr) Hv).
          unfold weight in *. lia.
    Qed.
  End WithFuel.

  (* fuel computed from a finite universe of events *)
  Definition gfuel_of (univ : list event) : nat :=
    S (2 * fold_right (fun c n => Nat.max (length (auth_ids c)) n) O univ).
  Definition fuel_of (univ : list event) : nat :=
    S (S (fold_right (fun c n => S (length (auth_ids c)) + n)%nat O univ)).

  Lemma gfuel_of_ok univ c : In c univ -> (2 * length (auth_ids c) < gfuel_of univ)%nat.
  Proof.
    unfold gfuel_of. induction univ as [|c' l IH]; [intros []|].
    intros [->|Hin]; simpl fold_right.
    - lia.
    - specialize (IH Hin). lia.
  Qed.

  Lemma weight_nil univ :
    weight univ [] = fold_right (fun c n => S (length (auth_ids c)) + n)%nat O univ.
  Proof. unfold weight. induction univ as [|c l IH]; simpl; auto. Qed.
End ChainProofs.
