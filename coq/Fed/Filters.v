(* C14 model, part 1: the federation filters of authstate.go and json.go.

   What is modelled here is the filters' OWN logic: which events are parsed, kept and dropped,
   which auth events are consulted (and where they come from), in which order, how the shared
   lookup table (eventsByID) evolves, how failures are classified.  Signature verification and
   the authorisation rules themselves are parameters:

     sig_ok  e      VerifyEventSignatures(e) = nil
     allowed e l    Allowed(e, a, _) = nil   where a is the AuthEvents value obtained from an empty
                    one by AddEvent(x) for the x of l in list order
     pcall st ids   one call of the caller's EventProvider (missingAuth / provideEvents) with the
                    given IDs; st is the provider's state (it also carries the call log in the
                    executable instance)

   Identifiers (event IDs, event types, state keys, room IDs) are interned as numbers by the
   harness: the filters only ever compare them for equality.

   Not modelled: context cancellation (ctx.Err), logging, the length-mismatch guard after
   VerifyAllEventSignatures (that function returns one entry per event by construction). *)
From Coq Require Import List NArith Bool.
Import ListNotations.
Open Scope N_scope.

Record event := mkEvent {
  uid : N;                (* harness index of the event text; never inspected by the filters *)
  eid : N;                (* EventID() *)
  etype : N;              (* Type() *)
  skey : option N;        (* StateKey() *)
  eroom : N;              (* RoomID() *)
  auth_ids : list N       (* AuthEventIDs() *)
}.

(* outcome of roomVersion.NewEventFromUntrustedJSON on one raw input *)
Inductive parsed :=
| POk (e : event)          (* err = nil *)
| PPersist (e : event)     (* EventValidationError with Persistable = true; the event is returned too *)
| PErr.                    (* any other error *)

(* json.go: EventJSONs.UntrustedEvents *)
Definition untrusted_one (p : parsed) : list event :=
  match p with POk e => [e] | PPersist e => [e] | PErr => [] end.
Definition untrusted_events (l : list parsed) : list event := flat_map untrusted_one l.

(* the Go map eventsByID: key -> PDU (possibly nil). The newest binding is first. *)
Definition emap := list (N * option event).
Fixpoint mget (m : emap) (k : N) : option (option event) :=
  match m with
  | [] => None
  | (k', v) :: r => if k =? k' then Some v else mget r k
  end.
Definition mset (m : emap) (k : N) (v : option event) : emap := (k, v) :: m.

Fixpoint mem_N (x : N) (l : list N) : bool :=
  match l with [] => false | y :: r => (x =? y) || mem_N x r end.

Definition is_state (e : event) : bool := match skey e with Some _ => true | None => false end.

Inductive panswer :=
| PEvents (l : list event)   (* err = nil; the list may be empty *)
| PError.

Inductive gstatus := GDone | GAddErr | GDupTuple | GOutOfFuel.
Inductive cverdict := VAllowed | VNotAllowed | VAddErr | VDupTuple | VOutOfFuel.

Definition same_tuple (a b : event) : bool :=
  (etype a =? etype b) &&
  match skey a, skey b with Some x, Some y => x =? y | None, None => true | _, _ => false end.

(* a different event for the same (type, state_key) is already among acc *)
Definition conflict (a : event) (acc : list event) : bool :=
  existsb (fun b => same_tuple a b && negb (eid a =? eid b)) acc.

(* no event of l is a second, different event for a (type, state_key) of acc or of an earlier
   event of l *)
Fixpoint tuples_ok (acc l : list event) : bool :=
  match l with
  | [] => true
  | a :: r => negb (conflict a acc) && tuples_ok (acc ++ [a]) r
  end.
Definition tuples_distinct (l : list event) : bool := tuples_ok [] l.

(* all events belong to one room *)
Definition one_room (l : list event) : bool :=
  match l with [] => true | e :: r => forallb (fun x => eroom x =? eroom e) r end.

Section Filters.
  Variable PS : Type.
  Variable sig_ok : event -> bool.
  Variable allowed : event -> list event -> bool.
  Variable pcall : PS -> list N -> PS * panswer.

  (* the for-loop over the events a provider returned (inside the retry branch): they are
     remembered under their own IDs (nil for a non-state event); since fix F82 they do not enter
     the auth events of the event being checked by themselves *)
  Fixpoint absorb (ev : list event) (m : emap) : emap :=
    match ev with
    | [] => m
    | e :: r => absorb r (mset m (eid e) (if is_state e then Some e else None))
    end.

  (* fix F82: an answer without the requested event counts as an empty answer *)
  Definition settle (m : emap) (ae : N) : emap :=
    match mget m ae with None => mset m ae None | Some _ => m end.

  (* authstate.go: checkAllowedByAuthEvents, the loop over AuthEventIDs() with its
     `goto retryEvent`. One unit of fuel per visit of the label. hasprov = (missingAuth != nil).
     acc lists the AddEvent calls made so far, in order. Fix F84: a second, different event for
     a (type, state_key) already cited is an error. *)
  Fixpoint gather (fuel : nat) (hasprov : bool) (aes : list N) (acc : list event)
           (m : emap) (ps : PS) : gstatus * list event * emap * PS :=
    match fuel with
    | O => (GOutOfFuel, acc, m, ps)
    | S f =>
        match aes with
        | [] => (GDone, acc, m, ps)
        | ae :: rest =>
            match mget m ae with
            | None =>
                if hasprov then
                  let '(ps', ans) := pcall ps [ae] in
                  match ans with
                  | PEvents (e :: ev) =>
                      gather f hasprov aes acc (settle (absorb (e :: ev) m) ae) ps'
                  | _ => gather f hasprov aes acc (mset m ae None) ps'
                  end
                else gather f hasprov rest acc m ps
            | Some (Some a) =>
                if is_state a then
                  if conflict a acc then (GDupTuple, acc, m, ps)
                  else gather f hasprov rest (acc ++ [a]) m ps
                else (GAddErr, acc, m, ps)
            | Some None => gather f hasprov rest acc m ps
            end
        end
    end.

  Definition check_allowed (fuel : nat) (hasprov : bool) (e : event) (m : emap) (ps : PS)
    : cverdict * emap * PS :=
    let '(st, acc, m', ps') := gather fuel hasprov (auth_ids e) [] m ps in
    match st with
    | GDone => (if allowed e acc then VAllowed else VNotAllowed, m', ps')
    | GAddErr => (VAddErr, m', ps')
    | GDupTuple => (VDupTuple, m', ps')
    | GOutOfFuel => (VOutOfFuel, m', ps')
    end.

  (* ---------------- CheckStateResponse ---------------- *)

  Inductive csr_result :=
  | CsrOk (authEvents stateEvents : list event)
  | CsrNoStateKey          (* some event of the response is not a state event *)
  | CsrDuplicate           (* two state events with the same (type, state_key) *)
  | CsrMixedRooms          (* fix F85: the events do not all belong to one room *)
  | CsrOutOfFuel.

  Definition tuple_mem (t k : N) (seen : list (N * N)) : bool :=
    existsb (fun p => (fst p =? t) && (snd p =? k)) seen.

  (* the loop over stateEvents: first offending event decides *)
  Fixpoint scan_state (seen : list (N * N)) (l : list event) : option csr_result :=
    match l with
    | [] => None
    | e :: r =>
        match skey e with
        | None => Some CsrNoStateKey
        | Some k =>
            if tuple_mem (etype e) k seen then Some CsrDuplicate
            else scan_state ((etype e, k) :: seen) r
        end
    end.

  Definition sig_failures (all : list event) : list N :=
    map eid (filter (fun e => negb (sig_ok e)) all).

  (* eventsByID: every event whose ID is not among the signature failures; later wins *)
  Definition verified_map (fails : list N) (all : list event) : emap :=
    fold_left (fun m e => if mem_N (eid e) fails then m else mset m (eid e) (Some e)) all [].

  (* the loop `for _, event := range allEvents { checkAllowedByAuthEvents ... }` *)
  Fixpoint auth_loop (fuel : nat) (hasprov : bool) (l : list event) (fails : list N)
           (m : emap) (ps : PS) : option (list N) * emap * PS :=
    match l with
    | [] => (Some fails, m, ps)
    | e :: r =>
        let '(v, m', ps') := check_allowed fuel hasprov e m ps in
        match v with
        | VAllowed => auth_loop fuel hasprov r fails m' ps'
        | VOutOfFuel => (None, m', ps')
        | _ => auth_loop fuel hasprov r (eid e :: fails) m' ps'
        end
    end.

  Definition keep (fails : list N) (l : list event) : list event :=
    filter (fun e => negb (mem_N (eid e) fails)) l.

  Definition check_state_response (fuel : nat) (hasprov : bool) (rauth rstate : list parsed)
             (ps : PS) : csr_result * PS :=
    let authEvents := untrusted_events rauth in
    let stateEvents := untrusted_events rstate in
    if negb (forallb is_state authEvents) then (CsrNoStateKey, ps) else
    match scan_state [] stateEvents with
    | Some err => (err, ps)
    | None =>
        let all := authEvents ++ stateEvents in
        if negb (one_room all) then (CsrMixedRooms, ps) else
        let sf := sig_failures all in
        let m0 := verified_map sf all in
        let '(fails, _, ps') := auth_loop fuel hasprov all sf m0 ps in
        match fails with
        | None => (CsrOutOfFuel, ps')
        | Some fl => (CsrOk (keep fl authEvents) (keep fl stateEvents), ps')
        end
    end.

  (* ---------------- CheckSendJoinResponse ---------------- *)

  Inductive sj_result :=
  | SjOk (authEvents stateEvents : list event)
  | SjStateErr (r : csr_result)     (* CheckStateResponse failed *)
  | SjNotAllowedByAuth              (* join event not allowed by its auth events *)
  | SjNotAllowedByState             (* join event not allowed by the returned state *)
  | SjOutOfFuel.

  Definition map_of_events (l : list event) (m : emap) : emap :=
    fold_left (fun m e => mset m (eid e) (Some e)) l m.

  Definition check_send_join (fuel : nat) (hasprov : bool) (rauth rstate : list parsed)
             (join : event) (ps : PS) : sj_result * PS :=
    match check_state_response fuel hasprov rauth rstate ps with
    | (CsrOk a s, ps1) =>
        let m := map_of_events s (map_of_events a []) in
        let '(v, _, ps2) := check_allowed fuel hasprov join m ps1 in
        match v with
        | VAllowed =>
            (* authEventProvider.AddEvent(stateEvents[i]) cannot fail: all of them are state events *)
            if allowed join s then (SjOk a s, ps2) else (SjNotAllowedByState, ps2)
        | VOutOfFuel => (SjOutOfFuel, ps2)
        | _ => (SjNotAllowedByAuth, ps2)
        end
    | (CsrOutOfFuel, ps1) => (SjOutOfFuel, ps1)
    | (r, ps1) => (SjStateErr r, ps1)
    end.

  (* ---------------- VerifyAuthRulesAtState ---------------- *)

  Variable sp_ids : PS -> event -> PS * option (list N).            (* StateIDsBeforeEvent *)
  Variable sp_state : PS -> event -> list N -> PS * option emap.    (* StateBeforeEvent *)

  Inductive ras_result :=
  | RasOk | RasIDsErr | RasStateErr | RasStateDup | RasNotAllowed.

  (* the state events of the fetched state (the map's keys play no role) *)
  Definition state_events_of (m : emap) : list event :=
    flat_map (fun kv => match snd kv with Some a => if is_state a then [a] else [] | None => [] end) m.

  (* fix F83: the slow path judges the event by the fetched state itself; a state with two
     different events for one (type, state_key) is refused *)
  Definition verify_auth_rules_at_state (e : event) (allowValidation : bool) (ps : PS)
    : ras_result * PS :=
    match sp_ids ps e with
    | (ps1, None) => (RasIDsErr, ps1)
    | (ps1, Some ids) =>
        if allowValidation && forallb (fun a => mem_N a ids) (auth_ids e) then (RasOk, ps1)
        else
          match sp_state ps1 e ids with
          | (ps2, None) => (RasStateErr, ps2)
          | (ps2, Some m) =>
              let st := state_events_of m in
              if negb (tuples_distinct st) then (RasStateDup, ps2)
              else if allowed e st then (RasOk, ps2) else (RasNotAllowed, ps2)
          end
    end.
End Filters.
