(* C14 proofs, part 1: basic facts, termination of checkAllowedByAuthEvents's loop (gather) for
   ANY provider (since fix F82), and its specification against a provider that is a function of
   the requested ID. *)
From Coq Require Import List NArith Bool Lia.
From Verif Require Import Fed.Filters Fed.Spec.
Import ListNotations.
Open Scope N_scope.

Lemma mem_N_In x l : mem_N x l = true <-> In x l.
Proof.
  induction l as [|y l IH]; simpl; [intuition congruence|].
  rewrite orb_true_iff, IH, N.eqb_eq. intuition congruence.
Qed.

Lemma mem_N_false x l : mem_N x l = false <-> ~ In x l.
Proof. rewrite <- mem_N_In. destruct (mem_N x l); intuition congruence. Qed.

Lemma mget_mset_same m x v : mget (mset m x v) x = Some v.
Proof. unfold mset; simpl. now rewrite N.eqb_refl. Qed.

Lemma mget_mset_other m x y v : y <> x -> mget (mset m x v) y = mget m y.
Proof. intros H. unfold mset; simpl. apply N.eqb_neq in H. now rewrite H. Qed.

Arguments mset : simpl never.
Arguments mget : simpl never.

Lemma settle_defined m x : mget (settle m x) x <> None.
Proof.
  unfold settle. destruct (mget m x) eqn:H; [congruence|]. rewrite mget_mset_same. discriminate.
Qed.

(* ---------- termination, for any provider (stateful, answering with anything) ---------- *)
Section GatherTotal.
  Variable PS : Type.
  Variable pcall : PS -> list N -> PS * panswer.

  Theorem gather_total : forall aes fuel hp acc m ps,
    (2 * length aes < fuel)%nat ->
    fst (fst (fst (gather PS pcall fuel hp aes acc m ps))) <> GOutOfFuel.
  Proof.
    induction aes as [|x rest IH]; intros fuel hp acc m ps Hf.
    - destruct fuel; [simpl in Hf; lia|]. simpl. discriminate.
    - destruct fuel as [|f]; [simpl in Hf; lia|]. simpl in Hf.
      assert (Hknown : forall f' acc' m' ps', (2 * length rest < f')%nat -> mget m' x <> None ->
                fst (fst (fst (gather PS pcall (S f') hp (x :: rest) acc' m' ps'))) <> GOutOfFuel).
      { intros f' acc' m' ps' Hf' Hm. simpl. destruct (mget m' x) as [[a|]|]; [| |congruence].
        - destruct (is_state a); [|simpl; discriminate].
          destruct (conflict a acc'); [simpl; discriminate|]. now apply IH.
        - now apply IH. }
      simpl gather. destruct (mget m x) as [[a|]|] eqn:Hm.
      + destruct (is_state a); [|simpl; discriminate].
        destruct (conflict a acc); [simpl; discriminate|]. apply IH. lia.
      + apply IH. lia.
      + destruct hp; [|apply IH; lia].
        destruct (pcall ps [x]) as [ps' ans]. destruct f as [|f']; [lia|].
        destruct ans as [[|e ev]|].
        * apply Hknown; [lia|]. rewrite mget_mset_same. discriminate.
        * apply Hknown; [lia|]. apply settle_defined.
        * apply Hknown; [lia|]. rewrite mget_mset_same. discriminate.
  Qed.
End GatherTotal.

(* ---------- gather against a provider that is a function of the ID ---------- *)
Fixpoint admissible (acc l : list event) : bool :=
  match l with
  | [] => true
  | a :: r => is_state a && negb (conflict a acc) && admissible (acc ++ [a]) r
  end.

Lemma admissible_split : forall l acc, admissible acc l = forallb is_state l && tuples_ok acc l.
Proof.
  induction l as [|a r IH]; intros acc; simpl; auto.
  rewrite IH. destruct (is_state a), (conflict a acc); simpl; auto.
  now rewrite andb_false_r.
Qed.

Section GatherSpec.
  Variable prov : N -> presp.
  Hypothesis Hhonest : honest prov.
  Variable resolve : N -> option event.

  (* the lookup table agrees with `resolve` wherever it has an entry *)
  Definition Inv (m : emap) : Prop := forall x v, mget m x = Some v -> v = resolve x.
  (* IDs without an entry resolve to what the provider has *)
  Definition Fresh (hp : bool) (m : emap) (aes : list N) : Prop :=
    forall x, In x aes -> mget m x = None -> resolve x = from_prov (eff_prov hp prov) x.

  Definition res_list (aes : list N) : list event := flat_map (fun x => opt_list (resolve x)) aes.

  Definition gather_post (hp : bool) (aes : list N) (acc : list event) (m : emap)
             (r : gstatus * list event * emap * unit) : Prop :=
    exists st acc' m', r = (st, acc', m', tt) /\ Inv m' /\
      (forall x, mget m x <> None -> mget m' x = mget m x) /\
      (forall x a, mget m' x = Some (Some a) ->
         mget m x = Some (Some a) \/
         (In x aes /\ mget m x = None /\ from_prov (eff_prov hp prov) x = Some a)) /\
      (if admissible acc (res_list aes) then st = GDone /\ acc' = acc ++ res_list aes
       else st = GAddErr \/ st = GDupTuple).

  Lemma Inv_mset m x v : Inv m -> v = resolve x -> Inv (mset m x v).
  Proof.
    intros HI Hv y w. destruct (N.eq_dec y x) as [->|Hne].
    - rewrite mget_mset_same. intros [= <-]. exact Hv.
    - rewrite mget_mset_other by exact Hne. apply HI.
  Qed.

  Lemma Fresh_tail hp m x rest : Fresh hp m (x :: rest) -> Fresh hp m rest.
  Proof. intros HF y Hy. apply HF. now right. Qed.

  Lemma Fresh_mset hp m x v aes : Fresh hp m aes -> Fresh hp (mset m x v) aes.
  Proof.
    intros HF y Hy. destruct (N.eq_dec y x) as [->|Hne].
    - rewrite mget_mset_same. discriminate.
    - rewrite mget_mset_other by exact Hne. now apply HF.
  Qed.

  (* the table m1 extends m by the entry for x *)
  Lemma gather_post_weaken hp aes acc m m1 r :
    (forall y, mget m y <> None -> mget m1 y = mget m y) ->
    (forall y b, mget m1 y = Some (Some b) ->
       mget m y = Some (Some b) \/ (In y aes /\ mget m y = None /\ from_prov (eff_prov hp prov) y = Some b)) ->
    gather_post hp aes acc m1 r -> gather_post hp aes acc m r.
  Proof.
    intros Hmono Hsome (st & acc' & m' & -> & HI & Hm & Hp & Hif).
    exists st, acc', m'. split; auto. split; auto. split; [|split; auto].
    - intros y Hy. assert (H1 : mget m1 y = mget m y) by auto.
      rewrite Hm; [exact H1 | rewrite H1; exact Hy].
    - intros y b Hy. destruct (Hp y b Hy) as [H1|(H1 & H2 & H3)]; auto.
      right. split; auto. split; auto.
      destruct (mget m y) eqn:Hmy; auto. rewrite Hmono in H2; congruence.
  Qed.

  Lemma gather_post_cons_none hp x rest acc m r :
    resolve x = None -> gather_post hp rest acc m r -> gather_post hp (x :: rest) acc m r.
  Proof.
    intros Hres (st & acc' & m' & -> & HI & Hm & Hp & Hif).
    exists st, acc', m'. split; auto. split; auto. split; auto. split.
    - intros y b Hy. destruct (Hp y b Hy) as [H|(H1 & H2 & H3)]; auto.
      right. split; [now right|auto].
    - unfold res_list in *. simpl. rewrite Hres. exact Hif.
  Qed.

  (* the step at an ID whose entry exists, given the statement for the rest *)
  Lemma gather_step_known hp x rest f acc m v :
    (forall fuel acc m, (2 * length rest < fuel)%nat -> Inv m -> Fresh hp m rest ->
        gather_post hp rest acc m (gather unit (pcall_of prov) fuel hp rest acc m tt)) ->
    mget m x = Some v -> (2 * length rest < f)%nat -> Inv m -> Fresh hp m rest ->
    gather_post hp (x :: rest) acc m (gather unit (pcall_of prov) (S f) hp (x :: rest) acc m tt).
  Proof.
    intros IH Hmx Hf HI HF. pose proof (HI x _ Hmx) as Hr. simpl gather. rewrite Hmx.
    destruct v as [a|].
    - (* an event *)
      assert (Hl : res_list (x :: rest) = a :: res_list rest)
        by (unfold res_list; simpl; now rewrite <- Hr).
      destruct (is_state a) eqn:Hsa.
      + destruct (conflict a acc) eqn:Hc.
        * exists GDupTuple, acc, m. split; auto. split; auto. split; auto. split; [now left|].
          rewrite Hl. simpl. rewrite Hsa, Hc. simpl. now right.
        * destruct (IH f (acc ++ [a]) m Hf HI HF) as (st & acc' & m' & -> & HI' & Hm & Hp & Hif).
          exists st, acc', m'. split; auto. split; auto. split; auto. split.
          -- intros y b Hy. destruct (Hp y b Hy) as [H|(H1 & H2 & H3)]; auto.
             right. split; [now right|auto].
          -- rewrite Hl. simpl. rewrite Hsa, Hc. simpl.
             destruct (admissible (acc ++ [a]) (res_list rest)); auto.
             destruct Hif as [-> ->]. split; auto. now rewrite <- app_assoc.
      + exists GAddErr, acc, m. split; auto. split; auto. split; auto. split; [now left|].
        rewrite Hl. simpl. rewrite Hsa. simpl. now left.
    - (* nil *)
      apply gather_post_cons_none; auto.
  Qed.

  Lemma gather_spec : forall hp aes fuel acc m,
    (2 * length aes < fuel)%nat -> Inv m -> Fresh hp m aes ->
    gather_post hp aes acc m (gather unit (pcall_of prov) fuel hp aes acc m tt).
  Proof.
    intros hp. induction aes as [|x rest IH]; intros fuel acc m Hfuel HI HF.
    - destruct fuel as [|f]; [simpl in Hfuel; lia|]. simpl.
      exists GDone, acc, m. split; auto. split; auto. split; auto. split; [now left|].
      simpl. now rewrite app_nil_r.
    - destruct fuel as [|f]; [simpl in Hfuel; lia|]. simpl in Hfuel.
      destruct (mget m x) as [v|] eqn:Hmx.
      + apply (gather_step_known hp x rest f acc m v IH Hmx); auto; [lia|]. eapply Fresh_tail; eauto.
      + pose proof (HF x (or_introl eq_refl) Hmx) as Hr.
        simpl gather. rewrite Hmx.
        destruct hp.
        * (* ask the provider; afterwards x has an entry v1 = resolve x *)
          unfold eff_prov, from_prov in Hr. simpl in Hr.
          destruct f as [|f']; [lia|].
          assert (Hgo : forall v1, v1 = resolve x ->
                    (forall b, v1 = Some b -> from_prov (eff_prov true prov) x = Some b) ->
                    gather_post true (x :: rest) acc m
                      (gather unit (pcall_of prov) (S f') true (x :: rest) acc (mset m x v1) tt)).
          { intros v1 Hv1 Hfp.
            apply (gather_post_weaken true (x :: rest) acc m (mset m x v1)).
            - intros y Hy. apply mget_mset_other. intros ->. congruence.
            - intros y b. destruct (N.eq_dec y x) as [->|Hne].
              + rewrite mget_mset_same. intros [= ->]. right. split; [now left|]. split; auto.
              + rewrite mget_mset_other by exact Hne. now left.
            - apply (gather_step_known true x rest f' acc (mset m x v1) v1).
              + intros; apply IH; auto.
              + apply mget_mset_same.
              + lia.
              + apply Inv_mset; auto.
              + apply Fresh_mset. eapply Fresh_tail; eauto. }
          unfold pcall_of. simpl existsb. simpl flat_map.
          destruct (prov x) as [| |a] eqn:Hpx; simpl.
          -- apply Hgo; auto. discriminate.
          -- apply Hgo; auto. discriminate.
          -- pose proof (Hhonest x a Hpx) as Hid. rewrite Hid.
             unfold settle. rewrite mget_mset_same.
             apply Hgo.
             ++ rewrite Hr. reflexivity.
             ++ intros b Hb. unfold eff_prov, from_prov. rewrite Hpx. exact Hb.
        * (* no provider *)
          unfold eff_prov, from_prov in Hr. simpl in Hr.
          apply gather_post_cons_none; auto.
          apply IH; auto; [lia|]. eapply Fresh_tail; eauto.
  Qed.
End GatherSpec.
