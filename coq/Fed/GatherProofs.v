(* C14 proofs, part 1: basic facts and the specification of checkAllowedByAuthEvents's loop
   (gather) against a provider that is a function of the requested ID. *)
From Coq Require Import List NArith Bool Lia.
From Verif Require Import Fed.Filters Fed.Spec.
Import ListNotations.
Open Scope N_scope.

Lemma mem_N_In x l : mem_N x l = true <-> In x l.
Proof.
  induction l as [|y l IH]; simpl; [intuition congruence|].
  rewrite orb_true_iff, IH, N.eqb_eq. intuition congruence.
Qed.

Lemma mem_N_false x l : mem_N x l = false <-> ~ In x l.
Proof. rewrite <- mem_N_In. destruct (mem_N x l); intuition congruence. Qed.

Lemma mget_mset_same m x v : mget (mset m x v) x = Some v.
Proof. unfold mset; simpl. now rewrite N.eqb_refl. Qed.

Lemma mget_mset_other m x y v : y <> x -> mget (mset m x v) y = mget m y.
Proof. intros H. unfold mset; simpl. apply N.eqb_neq in H. now rewrite H. Qed.

Arguments mset : simpl never.
Arguments mget : simpl never.

(* ---------- repeated AddEvent ---------- *)
Inductive stut : list event -> list event -> Prop :=
| stut_nil : stut [] []
| stut_keep a l l' : stut l l' -> stut (a :: l) (a :: l')
| stut_dup a l l' : stut l l' -> stut (a :: l) (a :: a :: l').

Lemma stut_refl l : stut l l.
Proof. induction l; constructor; auto. Qed.

Lemma stut_app l1 l1' l2 l2' : stut l1 l1' -> stut l2 l2' -> stut (l1 ++ l2) (l1' ++ l2').
Proof.
  induction 1; simpl; intros; auto.
  - apply stut_keep; auto.
  - apply stut_dup; auto.
Qed.

Lemma stut_allowed allowed (H : stutter_invariant allowed) e l l' :
  stut l l' -> forall pre, allowed e (pre ++ l') = allowed e (pre ++ l).
Proof.
  induction 1 as [|a l l' _ IH|a l l' _ IH]; intros pre; auto.
  - replace (pre ++ a :: l') with ((pre ++ [a]) ++ l') by now rewrite <- app_assoc.
    replace (pre ++ a :: l) with ((pre ++ [a]) ++ l) by now rewrite <- app_assoc.
    apply IH.
  - rewrite H.
    replace (pre ++ a :: l') with ((pre ++ [a]) ++ l') by now rewrite <- app_assoc.
    replace (pre ++ a :: l) with ((pre ++ [a]) ++ l) by now rewrite <- app_assoc.
    apply IH.
Qed.

Lemma stut_allowed0 allowed (H : stutter_invariant allowed) e l l' :
  stut l l' -> allowed e l' = allowed e l.
Proof. intros S. apply (stut_allowed allowed H e l l' S []). Qed.

(* ---------- gather ---------- *)
Section GatherSpec.
  Variable prov : N -> presp.
  Hypothesis Hhonest : honest prov.
  Variable hp : bool.
  Variable resolve : N -> option event.

  (* the lookup table agrees with `resolve` wherever it has an entry *)
  Definition Inv (m : emap) : Prop := forall x v, mget m x = Some v -> v = resolve x.
  (* IDs without an entry resolve to what the provider has *)
  Definition Fresh (m : emap) (aes : list N) : Prop :=
    forall x, In x aes -> mget m x = None -> resolve x = from_prov (eff_prov hp prov) x.

  Definition res_state (x : N) : bool :=
    match resolve x with Some a => is_state a | None => true end.
  Definition res_list (aes : list N) : list event := flat_map (fun x => opt_list (resolve x)) aes.

  Definition gather_post (aes : list N) (acc : list event) (m : emap)
             (r : gstatus * list event * emap * unit) : Prop :=
    if forallb res_state aes then
      exists d m', r = (GDone, acc ++ d, m', tt) /\ stut (res_list aes) d /\ Inv m' /\
        (forall x, mget m x <> None -> mget m' x = mget m x) /\
        (forall x a, mget m' x = Some (Some a) ->
           mget m x = Some (Some a) \/
           (In x aes /\ mget m x = None /\ from_prov (eff_prov hp prov) x = Some a))
    else exists acc' m', r = (GAddErr, acc', m', tt).

  Lemma Inv_mset m x v : Inv m -> v = resolve x -> Inv (mset m x v).
  Proof.
    intros HI Hv y w. destruct (N.eq_dec y x) as [->|Hne].
    - rewrite mget_mset_same. intros [= <-]. exact Hv.
    - rewrite mget_mset_other by exact Hne. apply HI.
  Qed.

  Lemma Fresh_tail m x rest : Fresh m (x :: rest) -> Fresh m rest.
  Proof. intros HF y Hy. apply HF. now right. Qed.

  Lemma Fresh_mset m x v rest : Fresh m (x :: rest) -> Fresh (mset m x v) rest.
  Proof.
    intros HF y Hy. destruct (N.eq_dec y x) as [->|Hne].
    - rewrite mget_mset_same. discriminate.
    - rewrite mget_mset_other by exact Hne. apply HF. now right.
  Qed.

  (* continuing after the entry of x was settled without changing the accumulated list *)
  Lemma gather_post_skip x rest acc m m1 r :
    resolve x = None ->
    (forall y, mget m y <> None -> mget m1 y = mget m y) ->
    (forall y a, mget m1 y = Some (Some a) -> mget m y = Some (Some a)) ->
    (forall y, mget m1 y = None -> mget m y = None) ->
    gather_post rest acc m1 r -> gather_post (x :: rest) acc m r.
  Proof.
    intros Hres Hmono Hsome Hnone Hpost. unfold gather_post in *.
    assert (Hrs : res_state x = true) by (unfold res_state; now rewrite Hres).
    cbn [forallb]. rewrite Hrs. cbn [andb].
    destruct (forallb res_state rest).
    - destruct Hpost as (d & m' & -> & Hst & HI & Hm & Hp). exists d, m'. repeat split; auto.
      + unfold res_list in *. simpl. rewrite Hres. exact Hst.
      + intros y Hy. assert (H1 : mget m1 y = mget m y) by auto.
        rewrite Hm; [exact H1 | rewrite H1; exact Hy].
      + intros y a Hy. destruct (Hp y a Hy) as [H1|(H1 & H2 & H3)].
        * left. auto.
        * right. split; [now right|]. split; auto.
    - auto.
  Qed.

  (* continuing after event a (= resolve x) was added; d0 is [a] or [a; a] *)
  Lemma gather_post_add x a rest acc d0 m m1 r :
    resolve x = Some a -> is_state a = true -> stut [a] d0 ->
    (forall y, mget m y <> None -> mget m1 y = mget m y) ->
    (forall y b, mget m1 y = Some (Some b) ->
       mget m y = Some (Some b) \/ (y = x /\ mget m y = None /\ from_prov (eff_prov hp prov) y = Some b)) ->
    (forall y, mget m1 y = None -> mget m y = None) ->
    gather_post rest (acc ++ d0) m1 r -> gather_post (x :: rest) acc m r.
  Proof.
    intros Hres Hst0 Hd0 Hmono Hsome Hnone Hpost. unfold gather_post in *.
    assert (Hrs : res_state x = true) by (unfold res_state; now rewrite Hres).
    cbn [forallb]. rewrite Hrs. cbn [andb].
    destruct (forallb res_state rest).
    - destruct Hpost as (d & m' & -> & Hst & HI & Hm & Hp). exists (d0 ++ d), m'. repeat split; auto.
      + now rewrite app_assoc.
      + unfold res_list in *. simpl. rewrite Hres. simpl.
        change (a :: flat_map (fun x0 => opt_list (resolve x0)) rest)
          with ([a] ++ flat_map (fun x0 => opt_list (resolve x0)) rest).
        apply stut_app; auto.
      + intros y Hy. assert (H1 : mget m1 y = mget m y) by auto.
        rewrite Hm; [exact H1 | rewrite H1; exact Hy].
      + intros y b Hy. destruct (Hp y b Hy) as [H1|(H1 & H2 & H3)].
        * destruct (Hsome y b H1) as [H4|(-> & H4 & H5)]; [now left|].
          right. split; [now left|]. split; auto.
        * right. split; [now right|]. split; auto.
    - auto.
  Qed.

  Lemma gather_spec : forall aes fuel acc m,
    (2 * length aes < fuel)%nat -> Inv m -> Fresh m aes ->
    gather_post aes acc m (gather unit (pcall_of prov) fuel hp aes acc m tt).
  Proof.
    induction aes as [|x rest IH]; intros fuel acc m Hfuel HI HF.
    - destruct fuel as [|f]; [simpl in Hfuel; lia|]. simpl.
      exists [], m. rewrite app_nil_r. repeat split; auto using stut_nil.
    - destruct fuel as [|f]; [simpl in Hfuel; lia|].
      simpl in Hfuel. simpl gather.
      destruct (mget m x) as [[a|]|] eqn:Hmx.
      + (* an event is recorded *)
        pose proof (HI x _ Hmx) as Hr. symmetry in Hr.
        destruct (is_state a) eqn:Hsa.
        * eapply (gather_post_add x a rest acc [a] m m); eauto using stut_refl.
          apply IH; auto; [lia|]. eapply Fresh_tail; eauto.
        * unfold gather_post.
          assert (Hrs : res_state x = false) by (unfold res_state; now rewrite Hr).
          cbn [forallb]. rewrite Hrs. cbn [andb]. eauto.
      + (* nil is recorded *)
        pose proof (HI x _ Hmx) as Hr. symmetry in Hr.
        eapply (gather_post_skip x rest acc m m); eauto.
        apply IH; auto; [lia|]. eapply Fresh_tail; eauto.
      + (* no entry *)
        pose proof (HF x (or_introl eq_refl) Hmx) as Hr.
        destruct hp eqn:Hhp.
        * (* ask the provider *)
          unfold eff_prov, from_prov in Hr. simpl in Hr.
          assert (Hskip : forall r, gather_post rest acc (mset m x None) r ->
                   resolve x = None -> gather_post (x :: rest) acc m r).
          { intros r Hp Hn. eapply (gather_post_skip x rest acc m (mset m x None)); eauto.
            - intros y Hy. apply mget_mset_other. intros ->. congruence.
            - intros y b. destruct (N.eq_dec y x) as [->|Hne].
              + rewrite mget_mset_same. discriminate.
              + now rewrite mget_mset_other.
            - intros y. destruct (N.eq_dec y x) as [->|Hne].
              + rewrite mget_mset_same. discriminate.
              + now rewrite mget_mset_other. }
          assert (Hnil : resolve x = None ->
                   gather_post (x :: rest) acc m
                     (gather unit (pcall_of prov) f true (x :: rest) acc (mset m x None) tt)).
          { intros Hn. destruct f as [|f']; [lia|]. simpl gather. rewrite mget_mset_same.
            apply Hskip; auto. apply IH; [lia| |].
            - apply Inv_mset; auto.
            - apply Fresh_mset; auto. }
          unfold pcall_of. simpl existsb. simpl flat_map.
          destruct (prov x) as [| |a] eqn:Hpx; simpl.
          -- apply Hnil. exact Hr.
          -- apply Hnil. exact Hr.
          -- pose proof (Hhonest x a Hpx) as Hid.
             destruct (is_state a) eqn:Hsa; rewrite Hid.
             ++ destruct f as [|f']; [lia|]. simpl gather. rewrite mget_mset_same, Hsa.
                eapply (gather_post_add x a rest acc [a; a] m (mset m x (Some a))); eauto.
                ** apply stut_dup, stut_nil.
                ** intros y Hy. apply mget_mset_other. intros ->. congruence.
                ** intros y b. destruct (N.eq_dec y x) as [->|Hne].
                   --- rewrite mget_mset_same. intros [= <-]. right.
                       split; [reflexivity|]. split; [exact Hmx|].
                       unfold eff_prov, from_prov. rewrite Hhp. now rewrite Hpx, Hsa.
                   --- rewrite mget_mset_other by exact Hne. now left.
                ** intros y. destruct (N.eq_dec y x) as [->|Hne].
                   --- rewrite mget_mset_same. discriminate.
                   --- now rewrite mget_mset_other.
                ** replace (acc ++ [a; a]) with ((acc ++ [a]) ++ [a]) by now rewrite <- app_assoc.
                   apply IH; [lia| |].
                   --- apply Inv_mset; auto.
                   --- apply Fresh_mset; auto.
             ++ apply Hnil. exact Hr.
        * (* no provider *)
          unfold eff_prov, from_prov in Hr. simpl in Hr.
          eapply (gather_post_skip x rest acc m m); eauto.
          apply IH; auto; [lia|]. eapply Fresh_tail; eauto.
  Qed.
End GatherSpec.

(* ---------- liveness note ----------
   A provider that answers every request for x with some other state event d makes the retry
   loop of checkAllowedByAuthEvents run for ever: the model runs out of fuel whatever the fuel. *)
Lemma gather_spins (d : event) (x : N) (rest : list N) :
  eid d <> x -> is_state d = true ->
  forall fuel acc m (ps : unit), mget m x = None ->
  fst (fst (fst (gather unit (fun ps _ => (ps, PEvents [d])) fuel true (x :: rest) acc m ps))) = GOutOfFuel.
Proof.
  intros Hne Hst. induction fuel as [|f IH]; intros acc m ps Hm; simpl; auto.
  rewrite Hm, Hst. apply IH. rewrite mget_mset_other; auto.
Qed.
