(* C15: common vocabulary of the join / leave / invite handshake models.
   Model only (no proofs).  Every handler is a function of an INPUT RECORD in which the answers
   of the queriers / verifiers / builders the Go code calls are data; it returns an outcome
   class (projection of the Go error), the log of querier calls made (guard ORDER is observable
   through it) and, on success, the object handed back. *)
From Verif Require Import Lib.Bytes Json.Ast Gen.GenVersions.
Open Scope N_scope.

(* projection of the Go error value (spec.MatrixError code / internal / passed-through) *)
Inductive outcome :=
| OOk
| OIncompatibleVersion   (* spec.IncompatibleRoomVersion *)
| OUnsupportedVersion    (* spec.UnsupportedRoomVersion *)
| OForbidden             (* M_FORBIDDEN *)
| ONotFound              (* M_NOT_FOUND *)
| OUnableToAuthorise     (* M_UNABLE_TO_AUTHORISE_JOIN *)
| OBadJson               (* M_BAD_JSON *)
| OInternal              (* spec.InternalServerError *)
| OPassthrough           (* an error of a caller-supplied function returned as is *)
| OPanic.                (* the Go code panics (Must* on an unknown version, nil function) *)

Definition outcome_name (o : outcome) : bytes :=
  match o with
  | OOk => bs "ok"
  | OIncompatibleVersion => bs "incompatible_version"
  | OUnsupportedVersion => bs "unsupported_version"
  | OForbidden => bs "forbidden"
  | ONotFound => bs "not_found"
  | OUnableToAuthorise => bs "unable_to_authorise"
  | OBadJson => bs "bad_json"
  | OInternal => bs "internal"
  | OPassthrough => bs "passthrough"
  | OPanic => bs "panic"
  end.

Definition outcome_eqb (a b : outcome) : bool := bytes_eqb (outcome_name a) (outcome_name b).

(* answer of a querier that may fail or return nil *)
Inductive qans (A : Type) :=
| QErr
| QNil
| QVal (a : A).
Arguments QErr {A}.
Arguments QNil {A}.
Arguments QVal {A} a.

(* ---------- constants of package spec (tied to the source in Props/C15.v) ---------- *)
Definition m_room_member : bytes := bs "m.room.member".
Definition m_room_create : bytes := bs "m.room.create".
Definition m_room_join_rules : bytes := bs "m.room.join_rules".
Definition m_room_power_levels : bytes := bs "m.room.power_levels".
Definition m_room_membership : bytes := bs "m.room_membership".
Definition s_join : bytes := bs "join".
Definition s_invite : bytes := bs "invite".
Definition s_leave : bytes := bs "leave".
Definition s_ban : bytes := bs "ban".
Definition s_restricted : bytes := bs "restricted".
Definition s_knock_restricted : bytes := bs "knock_restricted".
Definition v_pseudo_ids : bytes := bs "org.matrix.msc4014".
Definition v_1 : bytes := bs "1".
Definition v_2 : bytes := bs "2".
Definition v_4 : bytes := bs "4".

(* ---------- room-version table (generated from eventversion.go on every run) ---------- *)
Definition version_entry (v : bytes) : option (list (bytes * bytes)) := assoc_first v gen_versions.
Definition version_known (v : bytes) : bool :=
  match version_entry v with Some _ => true | None => false end.
Definition version_field (v f : bytes) : option bytes :=
  match version_entry v with Some fs => assoc_first f fs | None => None end.

(* which function the version's checkRestrictedJoin field holds *)
Inductive rj_kind := RJKCheck | RJKNoCheck | RJKNilFunc.
Definition version_rj_kind (v : bytes) : rj_kind :=
  match version_field v (bs "checkRestrictedJoin") with
  | Some f => if bytes_eqb f (bs "checkRestrictedJoin") then RJKCheck
              else if bytes_eqb f (bs "noCheckRestrictedJoin") then RJKNoCheck
              else RJKNilFunc
  | None => RJKNilFunc
  end.
Definition version_privileged_creators (v : bytes) : bool :=
  match version_field v (bs "privilegedCreators") with
  | Some b => bytes_eqb b (bs "true")
  | None => false
  end.

(* ---------- log entries ---------- *)
Definition bar : bytes := [124].
Definition entry (parts : list bytes) : bytes := join_bytes bar parts.

Definition opt_bytes (o : option bytes) : bytes :=
  match o with Some s => 61 :: s | None => bs "nil" end.   (* "=value" / "nil" *)

Definition bool_name (b : bool) : bytes := if b then bs "1" else bs "0".
