(* C15: model of handleinvite.go (HandleInvite, handleInviteCommonChecks) and of the helpers of
   invite.go it uses (GenerateStrippedState, abortIfAlreadyJoined, setUnsignedFieldForInvite).
   No proofs here. *)
From Verif Require Import Lib.Bytes Json.Ast Fed.HandshakeCommon Fed.HandshakeJoin.
Open Scope N_scope.

Record inv_input := {
  iv_version : bytes;
  iv_event : json;                  (* input.InviteEvent as a JSON value *)
  iv_fields : ev_fields;            (* what its accessors report *)
  iv_req_room : bytes;
  iv_invited_domain : bytes;        (* input.InvitedUser.Domain(): the name the event is signed under *)
  iv_invited_sender : bytes;        (* input.InvitedSenderID *)
  iv_key_id : bytes;
  iv_redact_ok : bool;
  iv_sender : sender_ans;           (* UserIDQuerier(room, event.SenderID()) *)
  iv_verify : verify_ans;
  iv_known_room : option bool;      (* IsKnownRoom; None = error *)
  iv_given_state : list json;       (* input.StrippedState, each rendered as JSON *)
  iv_generated_state : qans (list json);  (* GetState: QErr / QNil (nil slice) / events as stripped state *)
  iv_membership : option bytes;     (* CurrentMembership(room, InvitedSenderID); None = error *)
  iv_set_unsigned_ok : bool         (* event.SetUnsignedField succeeds *)
}.

(* unsigned.invite_room_state := v (other members of unsigned are kept) *)
Definition set_invite_room_state (v : json) (ev : json) : json :=
  let uns := match jget (bs "unsigned") ev with
             | Some (JObj m) => JObj m
             | _ => JObj []
             end in
  jset (bs "unsigned") (jset (bs "invite_room_state") v uns) ev.

(* the state GenerateStrippedState asks for (each with the empty state key) *)
Definition stripped_state_wanted : list bytes :=
  [bs "m.room.name"; bs "m.room.canonical_alias"; m_room_join_rules; bs "m.room.avatar";
   bs "m.room.encryption"; m_room_create].

Section Invite.
  Variable sign : bytes -> bytes -> json -> json.

  (* setUnsignedFieldForInvite and return *)
  Definition invite_finish (i : inv_input) (signed : json) (state : list json) (log : list bytes) : event_result :=
    if negb (iv_set_unsigned_ok i) then efail OPassthrough log
    else
      let v := match state with [] => JObj [] | _ => JArr state end in
      {| er_out := OOk; er_log := log; er_already_joined := false;
         er_event := Some (set_invite_room_state v signed) |}.

  (* the known-room checks, once the stripped state is settled *)
  Definition invite_stage (i : inv_input) (signed : json) (known : bool) (state : list json)
             (log : list bytes) : event_result :=
    if known then
      match state with
      | [] => efail OInternal log
      | _ =>
          let log3 := log ++ [entry [bs "M"; iv_req_room i; iv_invited_sender i]] in
          match iv_membership i with
          | None => efail OInternal log3
          | Some cur => if bytes_eqb cur s_join then efail OForbidden log3
                        else invite_finish i signed state log3
          end
      end
    else invite_finish i signed state log.

  Definition invite_common (i : inv_input) (signed : json) (log : list bytes) : event_result :=
    let log1 := log ++ [entry [bs "K"; iv_req_room i]] in
    match iv_known_room i with
    | None => efail OInternal log1
    | Some known =>
        (* the stripped state: the caller's, else generated from the state querier *)
        match iv_given_state i with
        | [] =>
            let log2 := log1 ++ [entry (bs "G" :: iv_req_room i :: stripped_state_wanted)] in
            match iv_generated_state i with
            | QErr => efail OInternal log2
            | QNil => invite_stage i signed known [] log2
            | QVal st => invite_stage i signed known st log2
            end
        | st => invite_stage i signed known st log1
        end
    end.

  Definition handle_invite (i : inv_input) : event_result :=
    let f := iv_fields i in
    if negb (version_known (iv_version i)) then efail OUnsupportedVersion []
    else if negb (bytes_eqb (ef_room_id f) (iv_req_room i)) then efail OBadJson []
    else if negb (bytes_eqb (ef_type f) m_room_member) then efail OBadJson []
    else match ef_membership f with
         | None => efail OBadJson []
         | Some m =>
             if negb (bytes_eqb m s_invite) then efail OBadJson []
             else if negb (iv_redact_ok i) then efail OBadJson []
             else
               let log1 := [entry [bs "U"; iv_req_room i; ef_sender f]] in
               match iv_sender i with
               | SErr => efail OBadJson log1
               | SNil => efail OBadJson log1
               | SUser dom =>
                   let log2 := log1 ++ [entry [bs "V"; dom]] in
                   match iv_verify i with
                   | VErr => efail OInternal log2
                   | VBad => efail OForbidden log2
                   | VGood =>
                       invite_common i (sign (iv_invited_domain i) (iv_key_id i) (iv_event i)) log2
                   end
               end
         end.
End Invite.

(* ---------- HandleInviteV3 (pseudo-ID rooms): the invited server completes and signs the proto
   event with the invitee's room key, then runs the common checks ---------- *)
Record iv3_extra := {
  v3_proto_room : bytes;               (* InviteProtoEvent.RoomID *)
  v3_proto_type : bytes;               (* InviteProtoEvent.Type *)
  v3_proto_membership : option bytes;  (* content.membership of the proto event; None = unreadable *)
  v3_invited_user : bytes;             (* input.InvitedUser.String() *)
  v3_sender_id : option bytes;         (* GetOrCreateSenderID; None = error *)
  v3_build_ok : bool                   (* EventBuilder.Build succeeds *)
}.

(* what the built event is, as far as the model tracks it *)
Definition v3_built (x : iv3_extra) (sid : bytes) : json :=
  JObj [(bs "type", JStr (v3_proto_type x)); (bs "state_key", JStr sid);
        (bs "membership", match v3_proto_membership x with Some m => JStr m | None => JNull end);
        (bs "signed_by", JStr sid)].

Definition handle_invite_v3 (x : iv3_extra) (i : inv_input) : event_result :=
  if negb (version_known (iv_version i)) then efail OUnsupportedVersion []
  else if negb (bytes_eqb (v3_proto_room x) (iv_req_room i)) then efail OBadJson []
  else if negb (bytes_eqb (v3_proto_type x) m_room_member) then efail OBadJson []
  else match v3_proto_membership x with
       | None => efail OBadJson []
       | Some m =>
           if negb (bytes_eqb m s_invite) then efail OBadJson []
           else
             let log1 := [entry [bs "C"; v3_invited_user x; iv_req_room i; iv_version i]] in
             match v3_sender_id x with
             | None => efail OInternal log1
             | Some sid =>
                 if negb (v3_build_ok x) then efail OInternal log1
                 else invite_common i (v3_built x sid) log1
             end
       end.
