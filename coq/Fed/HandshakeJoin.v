(* C15: models of handlejoin.go (HandleMakeJoin, checkRestrictedJoin, HandleSendJoin) and
   handleleave.go (HandleMakeLeave).  No proofs here. *)
From Verif Require Import Lib.Bytes Json.Ast Fed.HandshakeCommon.
Open Scope N_scope.

(* ====================================================================================== *)
(* checkRestrictedJoin                                                                      *)
(* ====================================================================================== *)

(* one element of RestrictedRoomJoinInfo.JoinedUsers: Type() and StateKey() of the PDU *)
Record rj_member := { rm_type : bytes; rm_state_key : option bytes }.

Record rj_info := {
  ri_local_in_room : bool;          (* LocalServerInRoom *)
  ri_user_joined : bool;            (* UserJoinedToRoom *)
  ri_joined : list rj_member        (* JoinedUsers *)
}.

(* one allow rule of the join-rules content together with what the querier answers for it *)
Record rj_rule := {
  rr_type : bytes;
  rr_room_id : bytes;
  rr_room_valid : bool;             (* spec.NewRoomID(rule.RoomID) succeeds *)
  rr_info : qans rj_info            (* RestrictedRoomJoinInfo(ctx, room, sender, local) *)
}.

Record rj_rules := {
  jr_unmarshal_ok : bool;           (* json.Unmarshal(content, &JoinRuleContent) *)
  jr_join_rule : bytes;
  jr_allow : list rj_rule
}.

Record rj_pl := {
  pl_ok : bool;                     (* powerLevelsEvent.PowerLevels() succeeds *)
  pl_invite : Z;
  pl_users_default : Z;
  pl_users : list (bytes * Z)
}.

Record rj_data := {
  rj_join_rules : qans rj_rules;    (* CurrentStateEvent(room, m.room.join_rules, empty key) *)
  rj_pending : option bool;         (* InvitePending; None = error *)
  rj_power : qans rj_pl;            (* CurrentStateEvent(room, m.room.power_levels, empty key) *)
  rj_create : qans (list bytes)     (* CurrentStateEvent(room, m.room.create, empty key): creators *)
}.

Inductive rj_result :=
| RJVia (user : bytes)              (* nil error; user may be empty = no authoriser needed *)
| RJError                           (* a plain Go error: HandleMakeJoin maps it to internal *)
| RJForbidden
| RJUnable.

Definition user_level (pl : rj_pl) (u : bytes) : Z :=
  match assoc_first u (pl_users pl) with Some l => l | None => pl_users_default pl end.

(* the inner loop over JoinedUsers *)
Fixpoint pick_user (creators : list bytes) (pl : rj_pl) (ms : list rj_member) : option bytes :=
  match ms with
  | [] => None
  | m :: ms' =>
      match rm_state_key m with
      | None => pick_user creators pl ms'
      | Some u =>
          if negb (bytes_eqb (rm_type m) m_room_member) then pick_user creators pl ms'
          else if mem_bytes u creators then Some u
          else if (user_level pl u <? pl_invite pl)%Z then pick_user creators pl ms'
          else Some u
      end
  end.

Definition is_nil {A} (l : list A) : bool := match l with [] => true | _ => false end.

Definition log_info (room sender localname : bytes) : bytes :=
  entry [bs "I"; room; sender; localname].

(* the loop over joinRules.Allow; returns (chosen user, resident flag, log in reverse) *)
Fixpoint walk_rules (sender localname : bytes) (creators : list bytes) (pl : rj_pl)
         (rules : list rj_rule) (resident : bool) (rlog : list bytes)
  : option bytes * bool * list bytes :=
  match rules with
  | [] => (None, resident, rlog)
  | r :: rs =>
      if negb (bytes_eqb (rr_type r) m_room_membership) then
        walk_rules sender localname creators pl rs resident rlog
      else if negb (rr_room_valid r) then
        walk_rules sender localname creators pl rs resident rlog
      else
        let rlog' := log_info (rr_room_id r) sender localname :: rlog in
        match rr_info r with
        | QErr | QNil => walk_rules sender localname creators pl rs false rlog'
        | QVal i =>
            if negb (ri_local_in_room i) then walk_rules sender localname creators pl rs false rlog'
            else if negb (ri_user_joined i) then walk_rules sender localname creators pl rs resident rlog'
            else if is_nil (ri_joined i) then walk_rules sender localname creators pl rs resident rlog'
            else match pick_user creators pl (ri_joined i) with
                 | Some u => (Some u, resident, rlog')
                 | None => walk_rules sender localname creators pl rs resident rlog'
                 end
        end
  end.

Definition log_state (room ty : bytes) : bytes := entry [bs "S"; room; ty; []].
Definition log_pending (room sender : bytes) : bytes := entry [bs "P"; room; sender].

Definition is_restricted_rule (jr : bytes) : bool :=
  bytes_eqb jr s_restricted || bytes_eqb jr s_knock_restricted.

(* checkRestrictedJoin(ctx, localServerName, roomQuerier, roomID, senderID, privilegedCreators) *)
Definition check_restricted_join (localname room sender : bytes) (privileged : bool) (d : rj_data)
  : rj_result * list bytes :=
  let l1 := [log_state room m_room_join_rules] in
  match rj_join_rules d with
  | QErr => (RJError, l1)
  | QNil => (RJVia [], l1)
  | QVal jr =>
      if negb (jr_unmarshal_ok jr) then (RJError, l1)
      else if negb (is_restricted_rule (jr_join_rule jr)) then (RJVia [], l1)
      else
        let l2 := l1 ++ [log_pending room sender] in
        match rj_pending d with
        | None => (RJError, l2)
        | Some true => (RJVia [], l2)
        | Some false =>
            let l3 := l2 ++ [log_state room m_room_power_levels] in
            match rj_power d with
            | QErr | QNil => (RJError, l3)
            | QVal pl =>
                if negb (pl_ok pl) then (RJError, l3)
                else
                  let go (creators : list bytes) (l4 : list bytes) :=
                    match walk_rules sender localname creators pl (jr_allow jr) true [] with
                    | (Some u, _, rl) => (RJVia u, l4 ++ rev rl)
                    | (None, false, rl) => (RJUnable, l4 ++ rev rl)
                    | (None, true, rl) => (RJForbidden, l4 ++ rev rl)
                    end in
                  if privileged then
                    let l4 := l3 ++ [log_state room m_room_create] in
                    match rj_create d with
                    | QErr | QNil => (RJError, l4)
                    | QVal creators => go creators l4
                    end
                  else go [] l3
            end
        end
  end.

(* IRoomVersion.CheckRestrictedJoin: dispatch on the version table *)
Definition version_check_restricted_join (ver localname room sender : bytes) (d : rj_data)
  : option (rj_result * list bytes) :=
  match version_rj_kind ver with
  | RJKNoCheck => Some (RJVia [], [])
  | RJKCheck => Some (check_restricted_join localname room sender (version_privileged_creators ver) d)
  | RJKNilFunc => None   (* nil function value: the call panics *)
  end.

(* ====================================================================================== *)
(* HandleMakeJoin / HandleMakeLeave                                                         *)
(* ====================================================================================== *)

(* what BuildEventTemplate hands back, as far as the handler looks at it *)
Record built := {
  b_type : bytes;                   (* event.Type() *)
  b_version : bytes;                (* event.Version() *)
  b_provider_ok : bool;             (* NewAuthEvents(state) succeeds *)
  b_allowed_ok : bool;              (* Allowed(event, provider, userIDQuerier) == nil, asked of the real library *)
  b_auth_ids : list bytes;          (* event.AuthEventIDs() *)
  b_prev_ids : list bytes           (* event.PrevEventIDs() *)
}.

Inductive build_res :=
| BErr                              (* templateErr != nil: returned as is *)
| BNilEvent
| BNilState
| BBuilt (b : built).

(* the ProtoEvent handed to BuildEventTemplate and returned in the response *)
Record template := {
  t_sender : bytes;
  t_room : bytes;
  t_type : bytes;
  t_state_key : bytes;
  t_membership : bytes;
  t_authorised_via : bytes;                          (* empty = omitted *)
  t_refs : option (list bytes * list bytes)          (* v1/v2: (auth event IDs, prev event IDs) *)
}.

Record template_result := {
  tr_out : outcome;
  tr_log : list bytes;
  tr_template : option (template * bytes)            (* template and response RoomVersion *)
}.

Definition tfail (o : outcome) (log : list bytes) : template_result :=
  {| tr_out := o; tr_log := log; tr_template := None |}.

Definition log_build (t : template) : bytes :=
  entry [bs "B"; t_sender t; t_room t; t_type t; t_state_key t; t_membership t; t_authorised_via t].

Definition is_v1_or_v2 (v : bytes) : bool := bytes_eqb v v_1 || bytes_eqb v v_2.

Record mj_input := {
  mj_version : bytes;
  mj_remote_versions : list bytes;
  mj_user_domain : bytes;           (* input.UserID.Domain() *)
  mj_origin : bytes;                (* RequestOrigin *)
  mj_local_name : bytes;
  mj_local_in_room : bool;
  mj_room_id : bytes;
  mj_sender_id : bytes;
  mj_rj : rj_data;
  mj_build : build_res
}.

(* the part after the guards that HandleMakeJoin and HandleMakeLeave share:
   call the builder, check its answer, run the auth rules *)
Definition build_and_auth (t : template) (resp_version : bytes) (refs_version : built -> bytes)
           (b : build_res) (log : list bytes) : template_result :=
  let log' := log ++ [log_build t] in
  match b with
  | BErr => tfail OPassthrough log'
  | BNilEvent => tfail OInternal log'
  | BNilState => tfail OInternal log'
  | BBuilt e =>
      if negb (bytes_eqb (b_type e) m_room_member) then tfail OInternal log'
      else if negb (b_provider_ok e) then tfail OForbidden log'
      else if negb (b_allowed_ok e) then tfail OForbidden log'
      else
        let refs := if is_v1_or_v2 (refs_version e) then Some (b_auth_ids e, b_prev_ids e) else None in
        {| tr_out := OOk; tr_log := log';
           tr_template := Some ({| t_sender := t_sender t; t_room := t_room t; t_type := t_type t;
                                   t_state_key := t_state_key t; t_membership := t_membership t;
                                   t_authorised_via := t_authorised_via t; t_refs := refs |},
                                resp_version) |}
  end.

Definition make_join (i : mj_input) : template_result :=
  if negb (mem_bytes (mj_version i) (mj_remote_versions i)) then tfail OIncompatibleVersion []
  else if negb (bytes_eqb (mj_user_domain i) (mj_origin i)) then tfail OForbidden []
  else if negb (mj_local_in_room i) then tfail ONotFound []
  else if negb (version_known (mj_version i)) then tfail OPanic []       (* MustGetRoomVersion *)
  else
    match version_check_restricted_join (mj_version i) (mj_local_name i) (mj_room_id i)
                                        (mj_sender_id i) (mj_rj i) with
    | None => tfail OPanic []
    | Some (RJError, log) => tfail OInternal log
    | Some (RJForbidden, log) => tfail OForbidden log
    | Some (RJUnable, log) => tfail OUnableToAuthorise log
    | Some (RJVia via, log) =>
        let t := {| t_sender := mj_sender_id i; t_room := mj_room_id i; t_type := m_room_member;
                    t_state_key := mj_sender_id i; t_membership := s_join;
                    t_authorised_via := via; t_refs := None |} in
        build_and_auth t (mj_version i) (fun _ => mj_version i) (mj_build i) log
    end.

Record ml_input := {
  ml_version : bytes;
  ml_user_domain : bytes;
  ml_origin : bytes;
  ml_local_in_room : bool;
  ml_room_id : bytes;
  ml_sender_id : bytes;
  ml_build : build_res
}.

Definition make_leave (i : ml_input) : template_result :=
  if negb (bytes_eqb (ml_user_domain i) (ml_origin i)) then tfail OForbidden []
  else if negb (ml_local_in_room i) then tfail ONotFound []
  else
    let t := {| t_sender := ml_sender_id i; t_room := ml_room_id i; t_type := m_room_member;
                t_state_key := ml_sender_id i; t_membership := s_leave;
                t_authorised_via := []; t_refs := None |} in
    (* the v1/v2 switch of HandleMakeLeave looks at event.Version(), not input.RoomVersion *)
    build_and_auth t (ml_version i) b_version (ml_build i) [].

(* ====================================================================================== *)
(* HandleSendJoin                                                                           *)
(* ====================================================================================== *)

(* fields of the received event as the accessors of the parsed PDU report them *)
Record ev_fields := {
  ef_type : bytes;
  ef_state_key : option bytes;
  ef_sender : bytes;
  ef_room_id : bytes;
  ef_event_id : bytes;
  ef_membership : option bytes;     (* event.Membership(); None = error *)
  ef_content_ok : bool;             (* json.Unmarshal(event.Content(), &MemberContent) succeeds *)
  ef_authorised_via : bytes         (* MemberContent.AuthorisedVia *)
}.

(* The same fields read off the event JSON (the tie between the event text and the record, for
   events whose members have the types the Go structs expect; the event ID, a hash for most room
   versions, stays an input).  Membership() fails when content.membership is not a string or
   when the event has no state key; an absent membership reads as the empty string.  Members that
   occur more than once are read as encoding/json reads them (last occurrence). *)
(* the reading of a repeated member is the one of encoding/json and hence of every accessor of
   the stored event: the LAST occurrence *)
Definition jget_last_str (k : bytes) (j : json) : option bytes :=
  match jget_last k j with Some v => jstr v | None => None end.

(* a string member as encoding/json decodes it into a string field: every occurrence is visited,
   a string replaces the value, null leaves it, anything else is a type error for the whole
   decode; no occurrence leaves the zero value (the empty string) *)
Fixpoint string_member_acc (k : bytes) (m : list (bytes * json)) (acc : bytes) : option bytes :=
  match m with
  | [] => Some acc
  | (k', v) :: m' =>
      if bytes_eqb k k' then
        match v with
        | JStr s => string_member_acc k m' s
        | JNull => string_member_acc k m' acc
        | _ => None
        end
      else string_member_acc k m' acc
  end.
Definition string_member (k : bytes) (content : json) : option bytes :=
  match content with
  | JObj m => string_member_acc k m []
  | JNull => Some []
  | _ => None
  end.

Definition fields_of_event (ev : json) (event_id : bytes) : ev_fields :=
  let str k := match jget_last_str k ev with Some s => s | None => [] end in
  let content := match jget_last (bs "content") ev with Some c => c | None => JObj [] end in
  let state_key := match jget_last (bs "state_key") ev with Some (JStr s) => Some s | _ => None end in
  let membership := string_member (bs "membership") content in
  {| ef_type := str (bs "type");
     ef_state_key := state_key;
     ef_sender := str (bs "sender");
     ef_room_id := str (bs "room_id");
     ef_event_id := event_id;
     ef_membership := match state_key with Some _ => membership | None => None end;
     ef_content_ok := match membership with Some _ => true | None => false end;
     ef_authorised_via := match string_member (bs "join_authorised_via_users_server") content with
                          | Some s => s | None => [] end |}.

(* answer of the UserIDForSender function *)
Inductive sender_ans :=
| SErr
| SNil                              (* (nil, nil) *)
| SUser (domain : bytes).

(* verdict of input.Verifier.VerifyJSONs for the one request: VGood = the named server (for
   pseudo-ID rooms: the event's SENDER key) has signed the redacted event with a key that was valid
   at the event's origin_server_ts under the strict validity rule *)
Inductive verify_ans := VErr | VBad | VGood.

Record sj_input := {
  sj_version : bytes;
  sj_parse_ok : bool;               (* NewEventFromUntrustedJSON succeeds *)
  sj_event : json;                  (* the event as parsed (JSON value) *)
  sj_fields : ev_fields;
  sj_req_room : bytes;
  sj_req_event_id : bytes;
  sj_origin : bytes;
  sj_local_name : bytes;
  sj_key_id : bytes;
  sj_mapping_ok : bool;             (* pseudo IDs: getMXIDMapping succeeds *)
  sj_mapping_key_ok : bool;         (* pseudo IDs: mapping.user_room_key is the sender of the event *)
  sj_mapping_sig_ok : bool;         (* pseudo IDs: validateMXIDMappingSignatures succeeds (the server of
                                       mapping.user_id has validly signed the mapping) *)
  sj_store_ok : bool;               (* pseudo IDs: StoreSenderIDFromPublicID succeeds *)
  sj_sender : sender_ans;
  sj_redact_ok : bool;
  sj_verify : verify_ans;           (* of the scripted verifier, or of JSONVerifierSelf for pseudo IDs *)
  sj_membership : option bytes;     (* CurrentMembership; None = error *)
  sj_authvia_domain : option bytes; (* spec.NewUserID(AuthorisedVia, true): None = invalid *)
  (* Not an input of HandleSendJoin (HandleSendJoinInput has no querier for it; finding F92): does
     the joiner satisfy an allow condition of the restricted room, or hold an invite?  No model
     function reads it; the specification oracle does. *)
  sj_joiner_entitled : bool
}.

Record event_result := {
  er_out : outcome;
  er_log : list bytes;
  er_already_joined : bool;
  er_event : option json
}.

Definition efail (o : outcome) (log : list bytes) : event_result :=
  {| er_out := o; er_log := log; er_already_joined := false; er_event := None |}.

Definition state_key_is (f : ev_fields) (s : bytes) : bool :=
  match ef_state_key f with Some k => bytes_eqb k s | None => false end.

Section SendJoin.
  (* event.Sign(name, keyID, privateKey) on the JSON value; abstract here, instantiated for the
     run by a marker signature and in the theorems by any ideal scheme *)
  Variable sign : bytes -> bytes -> json -> json.

  (* everything after the mxid_mapping step (which only pseudo-ID rooms have) *)
  Definition send_join_checks (i : sj_input) (log0 : list bytes) : event_result :=
    let f := sj_fields i in
    let pseudo := bytes_eqb (sj_version i) v_pseudo_ids in
    (* in pseudo-ID rooms the sender's user is read off the validated mapping ([sj_sender] is that
       answer); the user-ID querier is asked in the other room versions only *)
    let log1 := if pseudo then log0 else log0 ++ [entry [bs "U"; sj_req_room i; ef_sender f]] in
    match sj_sender i with
    | SErr => efail OForbidden log1
    | SNil => efail OForbidden log1
    | SUser dom =>
        if negb (bytes_eqb dom (sj_origin i)) then efail OForbidden log1
        else
          let to_verify := if pseudo then ef_sender f else dom in
          if negb (bytes_eqb (ef_room_id f) (sj_req_room i)) then efail OBadJson log1
          else if negb (bytes_eqb (ef_event_id f) (sj_req_event_id i)) then efail OBadJson log1
          else if negb (bytes_eqb (ef_type f) m_room_member) then efail OBadJson log1
          else match ef_membership f with
               | None => efail OBadJson log1
               | Some m =>
                   if negb (bytes_eqb m s_join) then efail OBadJson log1
                   else if negb (sj_redact_ok i) then efail OBadJson log1
                   else
                     (* the scripted verifier is not called for pseudo-ID rooms *)
                     let log2 := if pseudo then log1 else log1 ++ [entry [bs "V"; to_verify]] in
                     match sj_verify i with
                     | VErr => efail OInternal log2
                     | VBad => efail OForbidden log2
                     | VGood =>
                         let log3 := log2 ++ [entry [bs "M"; sj_req_room i; ef_sender f]] in
                         match sj_membership i with
                         | None => efail OInternal log3
                         | Some cur =>
                             if bytes_eqb cur s_ban then efail OForbidden log3
                             else if negb (ef_content_ok f) then efail OBadJson log3
                             else
                               let via_ok :=
                                 match ef_authorised_via f with
                                 | [] => true
                                 | _ => match sj_authvia_domain i with
                                        | None => false
                                        | Some d => bytes_eqb d (sj_local_name i)
                                        end
                                 end in
                               if negb via_ok then efail OBadJson log3
                               else
                                 (* the mapping is stored only now that the join is accepted *)
                                 let log4 := if pseudo then log3 ++ [entry [bs "T"; sj_req_room i]] else log3 in
                                 if pseudo && negb (sj_store_ok i) then efail OPassthrough log4
                                 else {| er_out := OOk; er_log := log4;
                                         er_already_joined := bytes_eqb cur s_join;
                                         er_event := Some (sign (sj_local_name i) (sj_key_id i) (sj_event i)) |}
                         end
                     end
               end
    end.

  Definition send_join (i : sj_input) : event_result :=
    let f := sj_fields i in
    let pseudo := bytes_eqb (sj_version i) v_pseudo_ids in
    if negb (version_known (sj_version i)) then efail OUnsupportedVersion []
    else if negb (sj_parse_ok i) then efail OBadJson []
    else if match ef_state_key f with None => true | Some k => bytes_eqb k [] end then efail OBadJson []
    else if negb (state_key_is f (ef_sender f)) then efail OBadJson []
    else if pseudo then
      (* validate the mxid_mapping: present, for the sender's room key, signed by the user's server *)
      if negb (sj_mapping_ok i) then efail OBadJson []
      else if negb (sj_mapping_key_ok i) then efail OBadJson []
      else if negb (sj_mapping_sig_ok i) then efail OForbidden []
      else send_join_checks i []
    else send_join_checks i [].
End SendJoin.
