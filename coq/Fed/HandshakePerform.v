(* C15: model of performjoin.go (PerformJoin, setDefaultRoomVersionFromJoinEvent,
   isWellFormedJoinMemberEvent, checkEventsContainCreateEvent).  The remote's make_join and
   send_join answers, and the verdict of CheckSendJoinResponse (property C14) on the very
   response, are data.  No proofs here. *)
From Verif Require Import Lib.Bytes Json.Ast Fed.HandshakeCommon.
Open Scope N_scope.

(* one event of GetAuthEvents().UntrustedEvents(version), as checkEventsContainCreateEvent sees it *)
Record pj_auth_event := {
  pa_type : bytes;
  pa_state_key : option bytes;
  pa_content_ok : bool;             (* json.Unmarshal(content, &struct{room_version string}) *)
  pa_room_version : bytes;          (* empty = absent *)
  pa_room_ok : bool                 (* the event belongs to the room being joined *)
}.

(* the event member of the send_join response *)
Record pj_remote_ev := {
  pr_parse_ok : bool;
  pr_membership : option bytes;     (* Membership(); None = error *)
  pr_room_id : bytes;
  pr_state_key : option bytes;
  (* Not looked at by PerformJoin (finding F87, recorded): is it the event PerformJoin sent, i.e.
     same event ID?  No model function reads it; the specification oracle does. *)
  pr_same_event : bool
}.

Record pj_input := {
  pj_user_nil : bool;
  pj_room_nil : bool;
  pj_keyring_nil : bool;
  pj_make_join_ok : bool;
  pj_resp_version : bytes;          (* respMakeJoin.GetRoomVersion(), may be empty *)
  pj_auth_first_is_string : bool;   (* template auth_events is a non-empty list whose head is a string *)
  pj_room_id : bytes;
  pj_user_id : bytes;
  pj_origin : bytes;                (* input.UserID.Domain() *)
  pj_server : bytes;                (* input.ServerName *)
  pj_sender_id : option bytes;      (* pseudo IDs: GetOrCreateSenderID; None = error *)
  pj_mapping_sign_ok : bool;
  pj_build_ok : bool;               (* SetContent, SetUnsigned and Build all succeed *)
  pj_send_join_ok : bool;
  pj_remote : option pj_remote_ev;     (* None: response carries no event *)
  pj_auth_events : list pj_auth_event;
  pj_store_ok : bool;               (* pseudo IDs: storeMXIDMappings *)
  (* CheckSendJoinResponse(...) == nil, asked of the real library (property C14) for each of the
     two candidate join events: the one PerformJoin built and sent, and the remote's copy *)
  pj_check_own : bool;
  pj_check_remote : bool
}.

Inductive pj_result :=
| PJJoined (remote_event_used : bool)
| PJError (transient reachable : bool).

Definition default_version (first_is_string : bool) : bytes :=
  if first_is_string then v_4 else v_1.

Definition well_formed_join (r : pj_remote_ev) (room sender : bytes) : bool :=
  match pr_membership r with
  | None => false
  | Some m =>
      bytes_eqb m s_join && bytes_eqb (pr_room_id r) room &&
      match pr_state_key r with Some k => bytes_eqb k sender | None => false end
  end.

(* Some true: create event of a known version; Some false: error *)
Fixpoint contains_create (evs : list pj_auth_event) : bool :=
  match evs with
  | [] => false
  | e :: evs' =>
      if bytes_eqb (pa_type e) m_room_create &&
         match pa_state_key e with Some k => bytes_eqb k [] | None => false end &&
         pa_room_ok e       (* create events of other rooms are passed over *)
      then
        if negb (pa_content_ok e) then false
        else version_known (match pa_room_version e with [] => v_1 | v => v end)
      else contains_create evs'
  end.

Definition perform_join (i : pj_input) : pj_result :=
  if pj_user_nil i then PJError false false
  else if pj_room_nil i then PJError false false
  else if pj_keyring_nil i then PJError false false
  else if negb (pj_make_join_ok i) then PJError true false
  else
    let ver := match pj_resp_version i with
               | [] => default_version (pj_auth_first_is_string i)
               | v => v
               end in
    if negb (version_known ver) then PJError false true
    else
      let pseudo := bytes_eqb (pj_resp_version i) v_pseudo_ids in
      let continue (sender : bytes) : pj_result :=
        if negb (pj_build_ok i) then PJError false true
        else if negb (pj_send_join_ok i) then PJError true false
        else
          let remote_used :=
            match pj_remote i with
            | Some r => pr_parse_ok r && well_formed_join r (pj_room_id i) sender
            | None => false
            end in
          if negb (contains_create (pj_auth_events i)) then PJError false true
          else if bytes_eqb ver v_pseudo_ids && negb (pj_store_ok i) then PJError false true
          (* the checks run on the event that will be returned *)
          else if negb (if remote_used then pj_check_remote i else pj_check_own i) then PJError false true
          else PJJoined remote_used in
      if pseudo then
        match pj_sender_id i with
        | None => PJError false true
        | Some s => if negb (pj_mapping_sign_ok i) then PJError false true else continue s
        end
      else continue (pj_user_id i).

(* the requests PerformJoin sends, in order, with what it puts into them: make_join for the
   user, then send_join with an event that it forces to be a join of the user in the room *)
Definition perform_join_requests (i : pj_input) : list bytes :=
  if pj_user_nil i || pj_room_nil i || pj_keyring_nil i then []
  else
    let mk := entry [bs "make_join"; pj_origin i; pj_server i; pj_room_id i; pj_user_id i] in
    let ver := match pj_resp_version i with
               | [] => default_version (pj_auth_first_is_string i)
               | v => v
               end in
    let pseudo := bytes_eqb (pj_resp_version i) v_pseudo_ids in
    let sender := if pseudo then pj_sender_id i
                  else Some (pj_user_id i) in
    if pj_make_join_ok i && version_known ver && (negb pseudo || pj_mapping_sign_ok i) && pj_build_ok i then
      match sender with
      | Some s => [mk; entry [bs "send_join"; pj_origin i; pj_server i; m_room_member; pj_room_id i; s; s; s_join; ver]]
      | None => [mk]
      end
    else [mk].
