(* C15: model of performinvite.go (PerformInvite, truncateAuthAndPrevEvents) for the room versions
   with user-ID senders (every version except org.matrix.msc4014, whose branch is not modelled).
   Querier answers, StateNeededForProtoEvent / AuthEventReferences (C07), EventBuilder.Build and
   Allowed are data.  No proofs here. *)
From Verif Require Import Lib.Bytes Json.Ast Fed.HandshakeCommon Fed.HandshakeInvite.
Open Scope N_scope.

(* answer of input.EventQuerier *)
Record pi_latest := {
  pl_room_exists : bool;
  pl_depth : Z;
  pl_state_ok : bool;               (* every state event has a state key (AuthEvents.AddEvent) *)
  pl_refs_ok : bool;                (* AuthEventReferences succeeds *)
  pl_refs : list bytes;             (* its result *)
  pl_prev : list bytes              (* PrevEventIDs *)
}.

(* the invited server's answer to the invite that was sent *)
Inductive pi_answer :=
| PSErr                              (* error *)
| PSNil                              (* no error and no event *)
| PSSame (signed_by_invitee : bool)  (* the event sent, with nothing but signatures / unsigned changed;
                                        does it carry a signature entry of the invited server? *)
| PSOther.                           (* some other event *)

Record pi_input := {
  pi_version : bytes;
  pi_target_local : bool;
  pi_room : bytes;
  pi_invitee : bytes;               (* input.Invitee.String() *)
  pi_inviter_domain : bytes;
  pi_invitee_domain : bytes;
  pi_given_state : list json;
  pi_generated_state : qans (list json);
  pi_set_unsigned_ok : bool;
  pi_sender_id : qans bytes;        (* SenderIDQuerier: error / nil / sender ID *)
  pi_membership : option bytes;     (* CurrentMembership; None = error *)
  pi_needed : option (list bytes);  (* StateNeededForProtoEvent(...).Tuples(); None = error *)
  pi_latest_q : option pi_latest;   (* None = error *)
  pi_build_ok : bool;
  pi_provider_ok : bool;            (* StateQuerier.GetAuthEvents succeeds *)
  pi_allowed_ok : bool;             (* Allowed(built event, provider) == nil *)
  pi_send : pi_answer               (* what fedClient.SendInvite comes back with *)
}.

(* what is handed back *)
Inductive pi_event :=
| PIBuilt (state_key : bytes) (depth : Z) (auth prev : list bytes) (signers : list bytes)
          (invite_room_state : json)
| PIRemote.                          (* the invited server's answer: the event sent, countersigned *)

Record pi_result := { pir_out : outcome; pir_log : list bytes; pir_event : option pi_event }.

Definition pfail (o : outcome) (log : list bytes) : pi_result :=
  {| pir_out := o; pir_log := log; pir_event := None |}.

Definition truncate {A} (n : nat) (l : list A) : list A := firstn n l.

Definition both_names (a b : bytes) : list bytes := if bytes_eqb a b then [a] else [a; b].

Definition send_answer_ok (a : pi_answer) : bool :=
  match a with PSNil | PSSame true => true | _ => false end.

(* from StateNeededForProtoEvent to the end *)
Definition pi_core (i : pi_input) (state : list json) (log2 : list bytes) : pi_result :=
  match pi_needed i with
  | None => pfail OPassthrough log2          (* the auth package's error, returned as is *)
  | Some [] => pfail OInternal log2
  | Some tuples =>
      let log3 := log2 ++ [entry (bs "E" :: pi_room i :: tuples)] in
      match pi_latest_q i with
      | None => pfail OPassthrough log3
      | Some le =>
          if negb (pl_room_exists le) then pfail OInternal log3
          else if negb (pl_state_ok le) then pfail OPassthrough log3
          else if negb (pl_refs_ok le) then pfail OPassthrough log3
          else if negb (pi_build_ok i) then pfail OInternal log3
          else
            let log4 := log3 ++ [bs "A"] in
            if negb (pi_provider_ok i) then pfail OForbidden log4
            else if negb (pi_allowed_ok i) then pfail OForbidden log4
            else
              (* the built event is signed under the inviter's server name, and under the invitee's
                 only when the invitee is local *)
              let built (signers : list bytes) :=
                PIBuilt (pi_invitee i) (pl_depth le) (truncate 10 (pl_refs le)) (truncate 20 (pl_prev le))
                        signers (match state with [] => JObj [] | _ => JArr state end) in
              if pi_target_local i then
                {| pir_out := OOk; pir_log := log4;
                   pir_event := Some (built (both_names (pi_inviter_domain i) (pi_invitee_domain i))) |}
              else
                let log5 := log4 ++ [entry [bs "SI"; pi_invitee i; pi_inviter_domain i]] in
                match pi_send i with
                | PSErr => pfail OForbidden log5
                | PSNil => {| pir_out := OOk; pir_log := log5; pir_event := Some (built [pi_inviter_domain i]) |}
                | PSSame true => {| pir_out := OOk; pir_log := log5; pir_event := Some PIRemote |}
                | PSSame false => pfail OForbidden log5
                | PSOther => pfail OForbidden log5
                end
      end
  end.

(* once the stripped state is settled: unsigned field, version, invitee lookup, membership *)
Definition pi_with_state (i : pi_input) (state : list json) (log0 : list bytes) : pi_result :=
  if negb (pi_set_unsigned_ok i) then pfail OPassthrough log0
  else if negb (version_known (pi_version i)) then pfail OUnsupportedVersion log0
  else
    let log1 := log0 ++ [entry [bs "Q"; pi_room i; pi_invitee i]] in
    match pi_sender_id i with
    | QErr => pfail OPassthrough log1
    | QNil => pi_core i state log1
    | QVal sid =>
        let log2 := log1 ++ [entry [bs "M"; pi_room i; sid]] in
        match pi_membership i with
        | None => pfail OInternal log2
        | Some cur => if bytes_eqb cur s_join then pfail OForbidden log2 else pi_core i state log2
        end
    end.

Definition perform_invite (i : pi_input) : pi_result :=
  if bytes_eqb (pi_version i) v_pseudo_ids then pfail OPanic []   (* branch not modelled *)
  else
    match pi_given_state i with
    | [] =>
        let log0 := [entry (bs "G" :: pi_room i :: stripped_state_wanted)] in
        match pi_generated_state i with
        | QErr => pfail OInternal log0
        | QNil => pi_with_state i [] log0
        | QVal st => pi_with_state i st log0
        end
    | st => pi_with_state i st []
    end.

(* ---------- specification: what an accepted local invite request satisfies ---------- *)
Definition perform_invite_admissible (i : pi_input) : bool :=
  version_known (pi_version i) &&
  match pi_sender_id i with
  | QErr => false
  | QNil => true
  | QVal _ => match pi_membership i with Some cur => negb (bytes_eqb cur s_join) | None => false end
  end &&
  match pi_latest_q i with Some le => pl_room_exists le | None => false end &&
  pi_build_ok i && pi_provider_ok i && pi_allowed_ok i &&
  (pi_target_local i || send_answer_ok (pi_send i)).
