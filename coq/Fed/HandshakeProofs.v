(* C15: lemmas about the handshake models (all inputs, no bounds). *)
From Verif Require Import Lib.Bytes Json.Ast Fed.HandshakeCommon Fed.HandshakeJoin
     Fed.HandshakeInvite Fed.HandshakePerform Fed.HandshakePerformInvite Fed.HandshakeSpec.
Open Scope N_scope.

Lemma negb_false_true b : negb b = false -> b = true.
Proof. destruct b; simpl; congruence. Qed.

(* ---------------------------------------------------------------------------------- *)
(* restricted-join authoriser                                                          *)
(* ---------------------------------------------------------------------------------- *)

Lemma pick_user_sound creators pl ms u :
  pick_user creators pl ms = Some u ->
  existsb (member_is u) ms = true /\ entitled creators pl u = true.
Proof.
  induction ms as [|m ms IH]; simpl; intro H; [discriminate|].
  unfold member_is at 1.
  destruct (rm_state_key m) as [k|] eqn:Ek.
  - destruct (bytes_eqb (rm_type m) m_room_member) eqn:Et; simpl in H.
    + destruct (mem_bytes k creators) eqn:Ec.
      * inversion H; subst. rewrite bytes_eqb_refl. simpl. split; [reflexivity|].
        unfold entitled. rewrite Ec. reflexivity.
      * destruct (user_level pl k <? pl_invite pl)%Z eqn:El.
        -- destruct (IH H) as [A B]. rewrite A, B. split; [apply orb_true_r|reflexivity].
        -- inversion H; subst. rewrite bytes_eqb_refl. simpl. split; [reflexivity|].
           unfold entitled. rewrite Ec. simpl. apply Z.leb_le. apply Z.ltb_ge in El. exact El.
    + destruct (IH H) as [A B]. rewrite A, B. split; [apply orb_true_r|reflexivity].
  - destruct (IH H) as [A B]. rewrite A, B. split; [apply orb_true_r|reflexivity].
Qed.

Lemma pick_user_complete creators pl ms :
  pick_user creators pl ms = None ->
  forall u, existsb (member_is u) ms && entitled creators pl u = false.
Proof.
  induction ms as [|m ms IH]; simpl; intros H u; [reflexivity|].
  unfold member_is at 1.
  destruct (rm_state_key m) as [k|] eqn:Ek.
  - destruct (bytes_eqb (rm_type m) m_room_member) eqn:Et; simpl in H |- *.
    + destruct (mem_bytes k creators) eqn:Ec; [discriminate|].
      destruct (user_level pl k <? pl_invite pl)%Z eqn:El; [|discriminate].
      destruct (bytes_eqb k u) eqn:Eku; simpl.
      * apply bytes_eqb_eq in Eku; subst u. unfold entitled. rewrite Ec. simpl.
        apply Z.ltb_lt in El. apply Z.leb_gt. exact El.
      * apply IH. exact H.
    + apply IH. exact H.
  - rewrite andb_false_r. simpl. apply IH. exact H.
Qed.

Lemma pick_user_in creators pl ms u :
  pick_user creators pl ms = Some u ->
  In u (flat_map (fun m => match rm_state_key m with Some k => [k] | None => [] end) ms).
Proof.
  induction ms as [|m ms IH]; simpl; intro H; [discriminate|].
  apply in_or_app.
  destruct (rm_state_key m) as [k|] eqn:Ek.
  - destruct (negb (bytes_eqb (rm_type m) m_room_member)); [right; auto|].
    destruct (mem_bytes k creators); [inversion H; left; left; reflexivity|].
    destruct (user_level pl k <? pl_invite pl)%Z; [right; auto|inversion H; left; left; reflexivity].
  - right; auto.
Qed.

Lemma walk_rules_sound sender localname creators pl rules : forall resident rlog u res' rlog',
  walk_rules sender localname creators pl rules resident rlog = (Some u, res', rlog') ->
  existsb (rule_vouches creators pl u) rules = true /\
  existsb (fun r => mem_bytes u (candidates r)) rules = true.
Proof.
  induction rules as [|r rs IH]; simpl; intros resident rlog u res' rlog' H; [discriminate|].
  unfold rule_vouches at 1, candidates at 1.
  destruct (bytes_eqb (rr_type r) m_room_membership) eqn:Et; simpl in H |- *.
  2:{ destruct (IH _ _ _ _ _ H) as [A B]. rewrite A, B. split; rewrite ?orb_true_r; reflexivity. }
  destruct (rr_room_valid r) eqn:Ev; simpl in H |- *.
  2:{ destruct (IH _ _ _ _ _ H) as [A B]. rewrite A, B. split; rewrite ?orb_true_r; reflexivity. }
  destruct (rr_info r) as [| |i] eqn:Ei.
  1,2: destruct (IH _ _ _ _ _ H) as [A B]; rewrite A, B; split; rewrite ?orb_true_r; reflexivity.
  destruct (ri_local_in_room i) eqn:El; simpl in H |- *.
  2:{ destruct (IH _ _ _ _ _ H) as [A B]. rewrite A, B. split; rewrite ?orb_true_r; reflexivity. }
  destruct (ri_user_joined i) eqn:Ej; simpl in H |- *.
  2:{ destruct (IH _ _ _ _ _ H) as [A B]. rewrite A, B. split; rewrite ?orb_true_r; reflexivity. }
  destruct (is_nil (ri_joined i)) eqn:Em.
  { destruct (IH _ _ _ _ _ H) as [A B]. rewrite A, B. split; rewrite ?orb_true_r; reflexivity. }
  destruct (pick_user creators pl (ri_joined i)) as [u'|] eqn:Ep.
  - assert (u' = u) by congruence. subst u'.
    destruct (pick_user_sound _ _ _ _ Ep) as [A B]. rewrite A, B. simpl. split; [reflexivity|].
    apply pick_user_in in Ep. apply mem_bytes_In in Ep. rewrite Ep. reflexivity.
  - destruct (IH _ _ _ _ _ H) as [A B]. rewrite A, B. split; rewrite ?orb_true_r; reflexivity.
Qed.

Lemma walk_rules_complete sender localname creators pl rules : forall resident rlog res' rlog',
  walk_rules sender localname creators pl rules resident rlog = (None, res', rlog') ->
  (forall u, existsb (rule_vouches creators pl u) rules = false) /\
  res' = resident && negb (existsb rule_unresolved rules).
Proof.
  induction rules as [|r rs IH]; simpl; intros resident rlog res' rlog' H.
  { inversion H; subst. split; [reflexivity|]. rewrite andb_true_r. reflexivity. }
  unfold rule_vouches at 1, rule_unresolved at 1.
  destruct (bytes_eqb (rr_type r) m_room_membership) eqn:Et; simpl in H |- *.
  2:{ apply IH in H. exact H. }
  destruct (rr_room_valid r) eqn:Ev; simpl in H |- *.
  2:{ apply IH in H. exact H. }
  destruct (rr_info r) as [| |i] eqn:Ei.
  1,2: apply IH in H; destruct H as [A B]; split; [exact A|]; rewrite B; simpl;
       rewrite andb_false_r; reflexivity.
  destruct (ri_local_in_room i) eqn:El; simpl in H |- *.
  2:{ apply IH in H. destruct H as [A B]. split; [exact A|]. rewrite B. simpl.
      rewrite andb_false_r. reflexivity. }
  destruct (ri_user_joined i) eqn:Ej; simpl in H |- *.
  2:{ apply IH in H. exact H. }
  destruct (is_nil (ri_joined i)) eqn:Em.
  { apply IH in H. destruct H as [A B]. split; [|exact B]. intro u. rewrite A.
    destruct (ri_joined i); [reflexivity|discriminate]. }
  destruct (pick_user creators pl (ri_joined i)) as [u'|] eqn:Ep; [discriminate|].
  apply IH in H. destruct H as [A B]. split; [|exact B].
  intro u. rewrite A. rewrite (pick_user_complete _ _ _ Ep u). reflexivity.
Qed.

Lemma check_restricted_join_spec localname room sender privileged d :
  rj_verdict_spec privileged d (fst (check_restricted_join localname room sender privileged d)).
Proof.
  unfold check_restricted_join, rj_verdict_spec, no_authoriser_needed, vouched_by, creators_of.
  destruct (rj_join_rules d) as [| |jr] eqn:Ejr; simpl; [reflexivity|left; split; reflexivity|].
  destruct (jr_unmarshal_ok jr) eqn:Eok; simpl; [|reflexivity].
  destruct (is_restricted_rule (jr_join_rule jr)) eqn:Er; simpl; [|left; split; reflexivity].
  destruct (rj_pending d) as [[|]|] eqn:Ep; simpl; [left; split; reflexivity| |reflexivity].
  destruct (rj_power d) as [| |pl] eqn:Epl; simpl; [reflexivity|reflexivity|].
  destruct (pl_ok pl) eqn:Eplok; simpl; [|reflexivity].
  assert (G : forall creators,
    match walk_rules sender localname creators pl (jr_allow jr) true [] with
    | (Some u, _, _) =>
        existsb (rule_vouches creators pl u) (jr_allow jr) = true /\
        existsb (fun r => mem_bytes u (candidates r)) (jr_allow jr) = true
    | (None, b, _) =>
        (forall u, existsb (rule_vouches creators pl u) (jr_allow jr) = false) /\
        b = negb (existsb rule_unresolved (jr_allow jr))
    end).
  { intros creators.
    destruct (walk_rules sender localname creators pl (jr_allow jr) true []) as [[[u|] res] rl] eqn:Ew.
    - apply walk_rules_sound in Ew. exact Ew.
    - apply walk_rules_complete in Ew. exact Ew. }
  destruct privileged.
  - destruct (rj_create d) as [| |creators] eqn:Ec; simpl; [reflexivity|reflexivity|].
    specialize (G creators).
    destruct (walk_rules sender localname creators pl (jr_allow jr) true []) as [[[u|] [|]] rl]; simpl.
    + right. destruct G as [A B]. split; [exact A|]. exists jr. split; [reflexivity|exact B].
    + right. destruct G as [A B]. split; [exact A|]. exists jr. split; [reflexivity|exact B].
    + destruct G as [A B]. split; [exact A|]. split; [reflexivity|]. exists jr. split; [reflexivity|].
      symmetry in B. apply negb_true_iff in B. exact B.
    + destruct G as [A B]. split; [exact A|]. exists jr. split; [reflexivity|].
      symmetry in B. apply negb_false_iff in B. exact B.
  - specialize (G []).
    destruct (walk_rules sender localname [] pl (jr_allow jr) true []) as [[[u|] [|]] rl]; simpl.
    + right. destruct G as [A B]. split; [exact A|]. exists jr. split; [reflexivity|exact B].
    + right. destruct G as [A B]. split; [exact A|]. exists jr. split; [reflexivity|exact B].
    + destruct G as [A B]. split; [exact A|]. split; [reflexivity|]. exists jr. split; [reflexivity|].
      symmetry in B. apply negb_true_iff in B. exact B.
    + destruct G as [A B]. split; [exact A|]. exists jr. split; [reflexivity|].
      symmetry in B. apply negb_false_iff in B. exact B.
Qed.

(* a successful verdict makes the join authorisable in the sense of the specification *)
Lemma via_authorisable privileged d u :
  rj_verdict_spec privileged d (RJVia u) ->
  no_authoriser_needed d = true \/
  exists jr, rj_join_rules d = QVal jr /\
             existsb (fun r => existsb (vouched_by privileged d) (candidates r)) (jr_allow jr) = true.
Proof.
  simpl. intros [[_ H]|[Hv [jr [Ejr Hc]]]]; [left; exact H|right].
  exists jr. split; [exact Ejr|].
  apply existsb_exists in Hc. destruct Hc as [r [Hr Hm]].
  apply existsb_exists. exists r. split; [exact Hr|].
  apply existsb_exists. exists u. split; [apply mem_bytes_In; exact Hm|exact Hv].
Qed.

Lemma version_check_authorisable ver localname room sender d u log :
  version_check_restricted_join ver localname room sender d = Some (RJVia u, log) ->
  restricted_join_authorisable ver d = true.
Proof.
  unfold version_check_restricted_join, restricted_join_authorisable.
  destruct (version_rj_kind ver); intro H; [|reflexivity|discriminate].
  inversion H as [H1].
  pose proof (check_restricted_join_spec localname room sender (version_privileged_creators ver) d) as S.
  rewrite H1 in S. simpl fst in S.
  destruct (via_authorisable _ _ _ S) as [A|[jr [Ejr A]]].
  - rewrite A. reflexivity.
  - rewrite Ejr, A. apply orb_true_r.
Qed.

(* ---------------------------------------------------------------------------------- *)
(* make_join / make_leave                                                               *)
(* ---------------------------------------------------------------------------------- *)

Lemma build_and_auth_ok t v rv b log r :
  build_and_auth t v rv b log = r -> tr_out r = OOk ->
  built_passes_auth b = true /\
  exists refs, tr_template r = Some ({| t_sender := t_sender t; t_room := t_room t; t_type := t_type t;
                                         t_state_key := t_state_key t; t_membership := t_membership t;
                                         t_authorised_via := t_authorised_via t; t_refs := refs |}, v).
Proof.
  intros <-. unfold build_and_auth, built_passes_auth.
  destruct b as [| | |e]; simpl; try discriminate.
  destruct (bytes_eqb (b_type e) m_room_member); simpl; [|discriminate].
  destruct (b_provider_ok e); simpl; [|discriminate].
  destruct (b_allowed_ok e); simpl; [|discriminate].
  intros _. split; [reflexivity|]. eexists. reflexivity.
Qed.

Lemma make_join_ok i :
  tr_out (make_join i) = OOk ->
  make_join_admissible i = true /\
  exists via refs,
    tr_template (make_join i) =
      Some ({| t_sender := mj_sender_id i; t_room := mj_room_id i; t_type := m_room_member;
               t_state_key := mj_sender_id i; t_membership := s_join;
               t_authorised_via := via; t_refs := refs |}, mj_version i) /\
    exists log, version_check_restricted_join (mj_version i) (mj_local_name i) (mj_room_id i)
                  (mj_sender_id i) (mj_rj i) = Some (RJVia via, log).
Proof.
  unfold make_join, make_join_admissible.
  destruct (mem_bytes (mj_version i) (mj_remote_versions i)); simpl; [|discriminate].
  destruct (bytes_eqb (mj_user_domain i) (mj_origin i)); simpl; [|discriminate].
  destruct (mj_local_in_room i); simpl; [|discriminate].
  destruct (version_known (mj_version i)); simpl; [|discriminate].
  destruct (version_check_restricted_join (mj_version i) (mj_local_name i) (mj_room_id i)
              (mj_sender_id i) (mj_rj i)) as [[[via| | |] log]|] eqn:E; simpl; try discriminate.
  intro H.
  destruct (build_and_auth_ok _ _ _ _ _ _ eq_refl H) as [A [refs B]].
  rewrite (version_check_authorisable _ _ _ _ _ _ _ E), A. split; [reflexivity|].
  exists via, refs. split; [exact B|]. exists log. reflexivity.
Qed.

Lemma make_leave_ok i :
  tr_out (make_leave i) = OOk ->
  make_leave_admissible i = true /\
  exists refs,
    tr_template (make_leave i) =
      Some ({| t_sender := ml_sender_id i; t_room := ml_room_id i; t_type := m_room_member;
               t_state_key := ml_sender_id i; t_membership := s_leave;
               t_authorised_via := []; t_refs := refs |}, ml_version i).
Proof.
  unfold make_leave, make_leave_admissible.
  destruct (bytes_eqb (ml_user_domain i) (ml_origin i)); simpl; [|discriminate].
  destruct (ml_local_in_room i); simpl; [|discriminate].
  intro H.
  destruct (build_and_auth_ok _ _ _ _ _ _ eq_refl H) as [A [refs B]].
  rewrite A. split; [reflexivity|]. exists refs. exact B.
Qed.

(* ---------------------------------------------------------------------------------- *)
(* send_join                                                                            *)
(* ---------------------------------------------------------------------------------- *)

Definition send_join_core (i : sj_input) : bool :=
  let f := sj_fields i in
  is_join_event f &&
  bytes_eqb (ef_room_id f) (sj_req_room i) &&
  bytes_eqb (ef_event_id f) (sj_req_event_id i) &&
  sender_of_server (sj_sender i) (sj_origin i) &&
  verified (sj_verify i) &&
  match sj_membership i with Some cur => negb (bytes_eqb cur s_ban) | None => false end &&
  authoriser_local f (sj_authvia_domain i) (sj_local_name i).

Lemma send_join_checks_ok sign i log0 :
  er_out (send_join_checks sign i log0) = OOk ->
  send_join_core i = true /\
  (bytes_eqb (sj_version i) v_pseudo_ids = true -> sj_store_ok i = true) /\
  er_event (send_join_checks sign i log0) = Some (sign (sj_local_name i) (sj_key_id i) (sj_event i)) /\
  er_already_joined (send_join_checks sign i log0) =
    match sj_membership i with Some cur => bytes_eqb cur s_join | None => false end.
Proof.
  unfold send_join_checks, send_join_core, is_join_event, sender_of_server, verified, authoriser_local.
  destruct (bytes_eqb (sj_version i) v_pseudo_ids) eqn:Ep.
  all: destruct (sj_sender i) as [| |dom]; simpl; try discriminate.
  all: destruct (bytes_eqb dom (sj_origin i)); simpl; [|discriminate].
  all: destruct (bytes_eqb (ef_room_id (sj_fields i)) (sj_req_room i)); simpl; [|discriminate].
  all: destruct (bytes_eqb (ef_event_id (sj_fields i)) (sj_req_event_id i)); simpl; [|discriminate].
  all: destruct (bytes_eqb (ef_type (sj_fields i)) m_room_member); simpl; [|discriminate].
  all: destruct (ef_membership (sj_fields i)) as [m|]; simpl; [|discriminate].
  all: destruct (bytes_eqb m s_join); simpl; [|discriminate].
  all: destruct (sj_redact_ok i); simpl; [|discriminate].
  all: destruct (sj_verify i); simpl; try discriminate.
  all: destruct (sj_membership i) as [cur|]; simpl; [|discriminate].
  all: destruct (bytes_eqb cur s_ban); simpl; [discriminate|].
  all: destruct (ef_content_ok (sj_fields i)); simpl; [|discriminate].
  all: destruct (ef_authorised_via (sj_fields i)) as [|c via]; simpl.
  all: try (destruct (sj_authvia_domain i) as [d|]; simpl; [|discriminate];
            destruct (bytes_eqb d (sj_local_name i)); simpl; [|discriminate]).
  all: try (destruct (sj_store_ok i); simpl; [|discriminate]).
  all: intros _; repeat split; try reflexivity; try (intro; discriminate).
Qed.

Lemma send_join_ok sign i :
  er_out (send_join sign i) = OOk ->
  send_join_admissible i = true /\
  er_event (send_join sign i) = Some (sign (sj_local_name i) (sj_key_id i) (sj_event i)) /\
  er_already_joined (send_join sign i) =
    match sj_membership i with Some cur => bytes_eqb cur s_join | None => false end.
Proof.
  unfold send_join, send_join_admissible, state_key_is.
  destruct (version_known (sj_version i)); simpl; [|discriminate].
  destruct (sj_parse_ok i); simpl; [|discriminate].
  destruct (ef_state_key (sj_fields i)) as [k|]; simpl; [|discriminate].
  destruct (bytes_eqb k []) eqn:Ek0; simpl; [discriminate|].
  destruct (bytes_eqb k (ef_sender (sj_fields i))) eqn:Eks; simpl; [|discriminate].
  destruct (bytes_eqb (sj_version i) v_pseudo_ids) eqn:Ep; simpl.
  - destruct (sj_mapping_ok i); simpl; [|discriminate].
    destruct (sj_mapping_key_ok i); simpl; [|discriminate].
    destruct (sj_mapping_sig_ok i); simpl; [|discriminate].
    intro H. destruct (send_join_checks_ok sign i [] H) as [A [S B]].
    split; [|exact B]. unfold send_join_core in A. rewrite (S Ep). rewrite !andb_true_r. exact A.
  - intro H. destruct (send_join_checks_ok sign i [] H) as [A [S B]].
    split; [|exact B]. unfold send_join_core in A. rewrite !andb_true_r. exact A.
Qed.

(* ---------------------------------------------------------------------------------- *)
(* invite                                                                               *)
(* ---------------------------------------------------------------------------------- *)

Lemma invite_finish_ok i signed state log :
  er_out (invite_finish i signed state log) = OOk ->
  exists v, er_event (invite_finish i signed state log) = Some (set_invite_room_state v signed).
Proof.
  unfold invite_finish. destruct (iv_set_unsigned_ok i); simpl; [|discriminate].
  intros _. eexists. reflexivity.
Qed.

Lemma invite_stage_ok i signed known state log :
  er_out (invite_stage i signed known state log) = OOk ->
  (known = true -> exists cur, iv_membership i = Some cur /\ bytes_eqb cur s_join = false) /\
  exists v, er_event (invite_stage i signed known state log) = Some (set_invite_room_state v signed).
Proof.
  unfold invite_stage. destruct known.
  - destruct state as [|x st]; simpl; [discriminate|].
    destruct (iv_membership i) as [cur|]; simpl; [|discriminate].
    destruct (bytes_eqb cur s_join) eqn:E; simpl; [discriminate|].
    intro H. split; [intros _; exists cur; split; [reflexivity|exact E]|].
    apply invite_finish_ok. exact H.
  - intro H. split; [discriminate|]. apply invite_finish_ok. exact H.
Qed.

Lemma invite_common_ok i signed log :
  er_out (invite_common i signed log) = OOk ->
  (exists known, iv_known_room i = Some known /\
     (known = true -> exists cur, iv_membership i = Some cur /\ bytes_eqb cur s_join = false)) /\
  exists v, er_event (invite_common i signed log) = Some (set_invite_room_state v signed).
Proof.
  unfold invite_common.
  destruct (iv_known_room i) as [known|]; simpl; [|discriminate].
  destruct (iv_given_state i) as [|x st].
  - destruct (iv_generated_state i) as [| |st]; simpl; [discriminate| |];
      intro H; apply invite_stage_ok in H; destruct H as [A B]; (split; [exists known; split; [reflexivity|exact A]|exact B]).
  - intro H; apply invite_stage_ok in H; destruct H as [A B]; (split; [exists known; split; [reflexivity|exact A]|exact B]).
Qed.

Lemma handle_invite_ok sign i :
  er_out (handle_invite sign i) = OOk ->
  invite_admissible i = true /\
  exists v, er_event (handle_invite sign i) =
            Some (set_invite_room_state v (sign (iv_invited_domain i) (iv_key_id i) (iv_event i))).
Proof.
  unfold handle_invite, invite_admissible, is_invite_event, verified.
  destruct (version_known (iv_version i)); simpl; [|discriminate].
  destruct (bytes_eqb (ef_room_id (iv_fields i)) (iv_req_room i)); simpl; [|discriminate].
  destruct (bytes_eqb (ef_type (iv_fields i)) m_room_member); simpl; [|discriminate].
  destruct (ef_membership (iv_fields i)) as [m|]; simpl; [|discriminate].
  destruct (bytes_eqb m s_invite); simpl; [|discriminate].
  destruct (iv_redact_ok i); simpl; [|discriminate].
  destruct (iv_sender i) as [| |dom]; simpl; try discriminate.
  destruct (iv_verify i); simpl; try discriminate.
  intro H. apply invite_common_ok in H. destruct H as [[known [Ek Hm]] B].
  split; [|exact B].
  rewrite Ek. destruct known; [|reflexivity].
  destruct (Hm eq_refl) as [cur [Ec En]]. rewrite Ec, En. reflexivity.
Qed.

(* the only part of the signed event that the invite handler rewrites is "unsigned" *)
Lemma filter_assoc_set_same {A} (k : bytes) (v : A) (m : list (bytes * A)) :
  filter (fun kv => negb (bytes_eqb k (fst kv))) (assoc_set k v m) =
  filter (fun kv => negb (bytes_eqb k (fst kv))) m.
Proof.
  induction m as [|[k' v'] m IH]; simpl.
  - rewrite bytes_eqb_refl. reflexivity.
  - destruct (bytes_eqb k k') eqn:E; simpl.
    + rewrite bytes_eqb_refl. simpl. reflexivity.
    + rewrite E. simpl. rewrite IH. reflexivity.
Qed.

Lemma set_invite_room_state_only_unsigned v ev :
  jdel (bs "unsigned") (set_invite_room_state v ev) = jdel (bs "unsigned") ev.
Proof.
  unfold set_invite_room_state. destruct ev; try reflexivity.
  unfold jset at 1. unfold jdel. f_equal. apply filter_assoc_set_same.
Qed.

(* ---------------------------------------------------------------------------------- *)
(* perform_join                                                                         *)
(* ---------------------------------------------------------------------------------- *)

Lemma contains_create_exists evs :
  contains_create evs = true -> existsb is_known_create evs = true.
Proof.
  induction evs as [|e evs IH]; simpl; [discriminate|].
  unfold is_known_create at 1.
  destruct (bytes_eqb (pa_type e) m_room_create); simpl; [|exact IH].
  destruct (pa_state_key e) as [k|]; simpl; [|exact IH].
  destruct (bytes_eqb k []); simpl; [|exact IH].
  destruct (pa_room_ok e); simpl; [|exact IH].
  destruct (pa_content_ok e); simpl; [|discriminate].
  intro H. rewrite H. reflexivity.
Qed.

Definition effective_version (i : pj_input) : bytes :=
  match pj_resp_version i with [] => default_version (pj_auth_first_is_string i) | v => v end.

Lemma perform_join_ok i used :
  perform_join i = PJJoined used ->
  perform_join_admissible i used = true /\
  version_known (effective_version i) = true /\
  pj_user_nil i = false /\ pj_room_nil i = false /\ pj_keyring_nil i = false.
Proof.
  unfold perform_join, perform_join_admissible, effective_version.
  destruct (pj_user_nil i); simpl; [discriminate|].
  destruct (pj_room_nil i); simpl; [discriminate|].
  destruct (pj_keyring_nil i); simpl; [discriminate|].
  destruct (pj_make_join_ok i); simpl; [|discriminate].
  set (ver := match pj_resp_version i with [] => default_version (pj_auth_first_is_string i) | v => v end).
  destruct (version_known ver) eqn:Ev; simpl; [|discriminate].
  assert (Fin : forall sender,
    (if negb (pj_build_ok i) then PJError false true
     else if negb (pj_send_join_ok i) then PJError true false
     else if negb (contains_create (pj_auth_events i)) then PJError false true
     else if bytes_eqb ver v_pseudo_ids && negb (pj_store_ok i) then PJError false true
     else if negb (if match pj_remote i with
                      | Some r => pr_parse_ok r && well_formed_join r (pj_room_id i) sender
                      | None => false
                      end then pj_check_remote i else pj_check_own i) then PJError false true
     else PJJoined match pj_remote i with
                   | Some r => pr_parse_ok r && well_formed_join r (pj_room_id i) sender
                   | None => false
                   end) = PJJoined used ->
    pj_send_join_ok i && (if used then pj_check_remote i else pj_check_own i) &&
    existsb is_known_create (pj_auth_events i) &&
    (negb used ||
     match pj_remote i with
     | Some r => pr_parse_ok r &&
                 match pr_membership r with Some m => bytes_eqb m s_join | None => false end &&
                 bytes_eqb (pr_room_id r) (pj_room_id i)
     | None => false
     end) = true /\
    true = true /\ false = false /\ false = false /\ false = false).
  { intros sender.
    destruct (pj_build_ok i); simpl; [|discriminate].
    destruct (pj_send_join_ok i); simpl; [|discriminate].
    destruct (contains_create (pj_auth_events i)) eqn:Ec; simpl; [|discriminate].
    destruct (bytes_eqb ver v_pseudo_ids && negb (pj_store_ok i)); simpl; [discriminate|].
    set (ru := match pj_remote i with
               | Some r => pr_parse_ok r && well_formed_join r (pj_room_id i) sender
               | None => false end).
    destruct (if ru then pj_check_remote i else pj_check_own i) eqn:Ck; simpl; [|discriminate].
    intro H. assert (ru = used) by congruence. subst used.
    rewrite Ck, (contains_create_exists _ Ec). simpl.
    repeat split.
    unfold ru. destruct (pj_remote i) as [r|]; [|reflexivity].
    unfold well_formed_join.
    destruct (pr_parse_ok r); simpl; [|reflexivity].
    destruct (pr_membership r) as [m|]; simpl; [|reflexivity].
    destruct (bytes_eqb m s_join); simpl; [|reflexivity].
    destruct (bytes_eqb (pr_room_id r) (pj_room_id i)); simpl; [|reflexivity].
    destruct (pr_state_key r) as [k|]; [|reflexivity].
    destruct (bytes_eqb k sender); reflexivity. }
  destruct (bytes_eqb (pj_resp_version i) v_pseudo_ids).
  - destruct (pj_sender_id i) as [s|]; [|discriminate].
    destruct (pj_mapping_sign_ok i); simpl; [|discriminate].
    apply Fin.
  - apply Fin.
Qed.

(* ---------------------------------------------------------------------------------- *)
(* the boolean specifications spelled out                                               *)
(* ---------------------------------------------------------------------------------- *)

Lemma vouched_by_meaning privileged d u :
  vouched_by privileged d u = true ->
  exists jr pl r info,
    rj_join_rules d = QVal jr /\ is_restricted_rule (jr_join_rule jr) = true /\
    rj_pending d = Some false /\
    rj_power d = QVal pl /\ pl_ok pl = true /\
    In r (jr_allow jr) /\ rr_type r = m_room_membership /\ rr_room_valid r = true /\
    rr_info r = QVal info /\ ri_local_in_room info = true /\ ri_user_joined info = true /\
    (exists m, In m (ri_joined info) /\ rm_type m = m_room_member /\ rm_state_key m = Some u) /\
    (In u (creators_of privileged d) \/ (pl_invite pl <= user_level pl u)%Z).
Proof.
  unfold vouched_by.
  destruct (rj_join_rules d) as [| |jr]; try discriminate.
  destruct (rj_power d) as [| |pl]; try discriminate.
  intro H.
  apply andb_true_iff in H. destruct H as [H Hex].
  apply andb_true_iff in H. destruct H as [H Hpend].
  apply andb_true_iff in H. destruct H as [H Hplok].
  apply andb_true_iff in H. destruct H as [_ Hres].
  destruct (rj_pending d) as [[|]|]; try discriminate.
  apply existsb_exists in Hex. destruct Hex as [r [Hin Hv]].
  unfold rule_vouches in Hv.
  apply andb_true_iff in Hv. destruct Hv as [Hv Hinfo].
  apply andb_true_iff in Hv. destruct Hv as [Ht Hvalid].
  destruct (rr_info r) as [| |info] eqn:Ei; try discriminate.
  apply andb_true_iff in Hinfo. destruct Hinfo as [Hinfo Hent].
  apply andb_true_iff in Hinfo. destruct Hinfo as [Hinfo Hmem].
  apply andb_true_iff in Hinfo. destruct Hinfo as [Hloc Hjoined].
  apply existsb_exists in Hmem. destruct Hmem as [m [Hm Hmi]].
  unfold member_is in Hmi. apply andb_true_iff in Hmi. destruct Hmi as [Hmt Hmk].
  destruct (rm_state_key m) as [k|] eqn:Ek; [|discriminate].
  apply bytes_eqb_eq in Hmk. subst k.
  exists jr, pl, r, info.
  repeat split; try assumption; try reflexivity.
  - apply bytes_eqb_eq. exact Ht.
  - exists m. repeat split; [exact Hm|apply bytes_eqb_eq; exact Hmt|exact Ek].
  - unfold entitled in Hent. apply orb_true_iff in Hent. destruct Hent as [Hc|Hl].
    + left. apply mem_bytes_In. exact Hc.
    + right. apply Z.leb_le. exact Hl.
Qed.

Lemma built_passes_auth_meaning b :
  built_passes_auth b = true ->
  exists e, b = BBuilt e /\ b_type e = m_room_member /\ b_provider_ok e = true /\ b_allowed_ok e = true.
Proof.
  unfold built_passes_auth. destruct b as [| | |e]; try discriminate.
  intro H. apply andb_true_iff in H. destruct H as [H Ha].
  apply andb_true_iff in H. destruct H as [Ht Hp].
  exists e. repeat split; try assumption. apply bytes_eqb_eq. exact Ht.
Qed.

Lemma make_join_admissible_meaning i :
  make_join_admissible i = true ->
  In (mj_version i) (mj_remote_versions i) /\
  mj_user_domain i = mj_origin i /\
  mj_local_in_room i = true /\
  restricted_join_authorisable (mj_version i) (mj_rj i) = true /\
  exists e, mj_build i = BBuilt e /\ b_type e = m_room_member /\ b_provider_ok e = true /\ b_allowed_ok e = true.
Proof.
  unfold make_join_admissible. intro H.
  apply andb_true_iff in H. destruct H as [H Hb].
  apply andb_true_iff in H. destruct H as [H Hr].
  apply andb_true_iff in H. destruct H as [H Hl].
  apply andb_true_iff in H. destruct H as [Hv Hd].
  repeat split; try assumption.
  - apply mem_bytes_In. exact Hv.
  - apply bytes_eqb_eq. exact Hd.
  - apply built_passes_auth_meaning. exact Hb.
Qed.

Lemma make_leave_admissible_meaning i :
  make_leave_admissible i = true ->
  ml_user_domain i = ml_origin i /\
  ml_local_in_room i = true /\
  exists e, ml_build i = BBuilt e /\ b_type e = m_room_member /\ b_provider_ok e = true /\ b_allowed_ok e = true.
Proof.
  unfold make_leave_admissible. intro H.
  apply andb_true_iff in H. destruct H as [H Hb].
  apply andb_true_iff in H. destruct H as [Hd Hl].
  repeat split; try assumption.
  - apply bytes_eqb_eq. exact Hd.
  - apply built_passes_auth_meaning. exact Hb.
Qed.

Lemma send_join_admissible_meaning i :
  send_join_admissible i = true ->
  let f := sj_fields i in
  version_known (sj_version i) = true /\ sj_parse_ok i = true /\
  ef_type f = m_room_member /\ ef_membership f = Some s_join /\
  ef_state_key f = Some (ef_sender f) /\ ef_sender f <> [] /\
  ef_room_id f = sj_req_room i /\ ef_event_id f = sj_req_event_id i /\
  sj_sender i = SUser (sj_origin i) /\
  sj_verify i = VGood /\
  (exists cur, sj_membership i = Some cur /\ cur <> s_ban) /\
  (ef_authorised_via f = [] \/ sj_authvia_domain i = Some (sj_local_name i)).
Proof.
  unfold send_join_admissible. intro H. cbv zeta.
  apply andb_true_iff in H. destruct H as [H _].
  apply andb_true_iff in H. destruct H as [H Hvia].
  apply andb_true_iff in H. destruct H as [H Hmem].
  apply andb_true_iff in H. destruct H as [H Hver].
  apply andb_true_iff in H. destruct H as [H Hsnd].
  apply andb_true_iff in H. destruct H as [H Hid].
  apply andb_true_iff in H. destruct H as [H Hroom].
  apply andb_true_iff in H. destruct H as [H Hsk].
  apply andb_true_iff in H. destruct H as [H Hjoin].
  apply andb_true_iff in H. destruct H as [Hknown Hparse].
  unfold is_join_event in Hjoin. apply andb_true_iff in Hjoin. destruct Hjoin as [Ht Hm].
  destruct (ef_membership (sj_fields i)) as [m|] eqn:Em; [|discriminate].
  apply bytes_eqb_eq in Hm. subst m.
  destruct (ef_state_key (sj_fields i)) as [k|] eqn:Ek; [|discriminate].
  apply andb_true_iff in Hsk. destruct Hsk as [Hks Hk0].
  apply bytes_eqb_eq in Hks. subst k.
  unfold sender_of_server in Hsnd. destruct (sj_sender i) as [| |dom] eqn:Es; try discriminate.
  apply bytes_eqb_eq in Hsnd. subst dom.
  unfold verified in Hver. destruct (sj_verify i) eqn:Evf; try discriminate.
  destruct (sj_membership i) as [cur|] eqn:Ecur; [|discriminate].
  repeat split; try assumption; try reflexivity.
  - apply bytes_eqb_eq. exact Ht.
  - intro E. rewrite E in Hk0. discriminate.
  - apply bytes_eqb_eq. exact Hroom.
  - apply bytes_eqb_eq. exact Hid.
  - exists cur. split; [reflexivity|]. intro E. subst cur. discriminate.
  - unfold authoriser_local in Hvia.
    destruct (ef_authorised_via (sj_fields i)) as [|c via]; [left; reflexivity|right].
    destruct (sj_authvia_domain i) as [dd|]; [|discriminate].
    apply bytes_eqb_eq in Hvia. subst dd. reflexivity.
Qed.

Lemma invite_admissible_meaning i :
  invite_admissible i = true ->
  let f := iv_fields i in
  version_known (iv_version i) = true /\
  ef_type f = m_room_member /\ ef_membership f = Some s_invite /\
  ef_room_id f = iv_req_room i /\
  (exists dom, iv_sender i = SUser dom) /\
  iv_verify i = VGood /\
  (iv_known_room i = Some false \/
   (iv_known_room i = Some true /\ exists cur, iv_membership i = Some cur /\ cur <> s_join)).
Proof.
  unfold invite_admissible. intro H. cbv zeta.
  apply andb_true_iff in H. destruct H as [H Hk].
  apply andb_true_iff in H. destruct H as [H Hver].
  apply andb_true_iff in H. destruct H as [H Hsnd].
  apply andb_true_iff in H. destruct H as [H Hroom].
  apply andb_true_iff in H. destruct H as [Hknown Hinv].
  unfold is_invite_event in Hinv. apply andb_true_iff in Hinv. destruct Hinv as [Ht Hm].
  destruct (ef_membership (iv_fields i)) as [m|] eqn:Em; [|discriminate].
  apply bytes_eqb_eq in Hm. subst m.
  destruct (iv_sender i) as [| |dom] eqn:Es; try discriminate.
  unfold verified in Hver. destruct (iv_verify i) eqn:Evf; try discriminate.
  repeat split; try assumption; try reflexivity.
  - apply bytes_eqb_eq. exact Ht.
  - apply bytes_eqb_eq. exact Hroom.
  - exists dom. reflexivity.
  - destruct (iv_known_room i) as [[|]|]; [right|left; reflexivity|discriminate].
    split; [reflexivity|].
    destruct (iv_membership i) as [cur|]; [|discriminate].
    exists cur. split; [reflexivity|]. intro E. subst cur. discriminate.
Qed.

Lemma perform_join_admissible_meaning i used :
  perform_join_admissible i used = true ->
  pj_make_join_ok i = true /\ pj_send_join_ok i = true /\
  (if used then pj_check_remote i else pj_check_own i) = true /\
  (exists e, In e (pj_auth_events i) /\ pa_type e = m_room_create /\ pa_state_key e = Some [] /\
             pa_room_ok e = true /\ pa_content_ok e = true /\
             version_known (match pa_room_version e with [] => v_1 | v => v end) = true) /\
  (used = true -> exists r, pj_remote i = Some r /\ pr_parse_ok r = true /\
                  pr_membership r = Some s_join /\ pr_room_id r = pj_room_id i).
Proof.
  unfold perform_join_admissible. intro H.
  apply andb_true_iff in H. destruct H as [H Hu].
  apply andb_true_iff in H. destruct H as [H Hex].
  apply andb_true_iff in H. destruct H as [H Hc].
  apply andb_true_iff in H. destruct H as [Hm Hs].
  split; [exact Hm|]. split; [exact Hs|]. split; [exact Hc|]. split.
  - apply existsb_exists in Hex. destruct Hex as [e [Hin He]].
    unfold is_known_create in He.
    apply andb_true_iff in He. destruct He as [He Hv].
    apply andb_true_iff in He. destruct He as [He Hco].
    apply andb_true_iff in He. destruct He as [He Hro].
    apply andb_true_iff in He. destruct He as [Ht Hk].
    destruct (pa_state_key e) as [k|] eqn:Ek; [|discriminate].
    apply bytes_eqb_eq in Hk. subst k.
    exists e. repeat split; try assumption. apply bytes_eqb_eq. exact Ht.
  - intro U. subst used. simpl in Hu.
    destruct (pj_remote i) as [r|]; [|discriminate].
    apply andb_true_iff in Hu. destruct Hu as [Hu Hr].
    apply andb_true_iff in Hu. destruct Hu as [Hp Hmm].
    destruct (pr_membership r) as [m|] eqn:Em; [|discriminate].
    apply bytes_eqb_eq in Hmm. apply bytes_eqb_eq in Hr. subst m.
    exists r. split; [reflexivity|]. split; [exact Hp|]. split; [exact Em|exact Hr].
Qed.

Lemma version_check_via_spec ver localname room sender d u log :
  version_check_restricted_join ver localname room sender d = Some (RJVia u, log) ->
  (version_rj_kind ver = RJKNoCheck /\ u = []) \/
  (version_rj_kind ver = RJKCheck /\ rj_verdict_spec (version_privileged_creators ver) d (RJVia u)).
Proof.
  unfold version_check_restricted_join.
  destruct (version_rj_kind ver); intro H; [|left|discriminate].
  - right. split; [reflexivity|]. inversion H as [H1].
    pose proof (check_restricted_join_spec localname room sender (version_privileged_creators ver) d) as S.
    rewrite H1 in S. exact S.
  - inversion H. split; reflexivity.
Qed.

(* ---------------------------------------------------------------------------------- *)
(* the accepted join read off the event text                                            *)
(* ---------------------------------------------------------------------------------- *)

Lemma join_fields_on_event ev eid :
  let f := fields_of_event ev eid in
  ef_type f = m_room_member -> ef_membership f = Some s_join ->
  ef_state_key f = Some (ef_sender f) -> ef_sender f <> [] ->
  jget_last_str (bs "type") ev = Some m_room_member /\
  (exists content, jget_last (bs "content") ev = Some content /\
                   string_member (bs "membership") content = Some s_join) /\
  (exists sender, sender <> [] /\ jget_last_str (bs "sender") ev = Some sender /\
                  jget_last (bs "state_key") ev = Some (JStr sender)).
Proof.
  unfold fields_of_event. cbn [ef_type ef_membership ef_state_key ef_sender].
  intros Ht Hm Hk Hs.
  split; [|split].
  - destruct (jget_last_str (bs "type") ev) as [t|]; [subst t; reflexivity|discriminate].
  - destruct (jget_last (bs "state_key") ev) as [[| | |sk| |]|]; try discriminate.
    destruct (jget_last (bs "content") ev) as [content|].
    + exists content. split; [reflexivity|exact Hm].
    + simpl in Hm. discriminate.
  - destruct (jget_last_str (bs "sender") ev) as [sender|]; [|contradiction Hs; reflexivity].
    exists sender. split; [exact Hs|]. split; [reflexivity|].
    destruct (jget_last (bs "state_key") ev) as [[| | |sk| |]|]; try discriminate.
    inversion Hk; subst. reflexivity.
Qed.

(* ---------------------------------------------------------------------------------- *)
(* perform_invite                                                                       *)
(* ---------------------------------------------------------------------------------- *)

Arguments truncate {A} n l : simpl never.

Definition pi_core_spec (i : pi_input) : bool :=
  match pi_latest_q i with Some le => pl_room_exists le | None => false end &&
  pi_build_ok i && pi_provider_ok i && pi_allowed_ok i && (pi_target_local i || send_answer_ok (pi_send i)).

(* the event that comes back *)
Definition pi_event_spec (i : pi_input) (ev : option pi_event) : Prop :=
  exists le st, pi_latest_q i = Some le /\
    let built signers := PIBuilt (pi_invitee i) (pl_depth le) (truncate 10 (pl_refs le))
                                 (truncate 20 (pl_prev le)) signers st in
    if pi_target_local i then ev = Some (built (both_names (pi_inviter_domain i) (pi_invitee_domain i)))
    else match pi_send i with
         | PSNil => ev = Some (built [pi_inviter_domain i])
         | PSSame true => ev = Some PIRemote
         | _ => False
         end.

Lemma pi_core_ok i state log :
  pir_out (pi_core i state log) = OOk ->
  pi_core_spec i = true /\ pi_event_spec i (pir_event (pi_core i state log)).
Proof.
  unfold pi_core, pi_core_spec, pi_event_spec.
  destruct (pi_needed i) as [[|t ts]|]; simpl; try discriminate.
  destruct (pi_latest_q i) as [le|]; simpl; [|discriminate].
  destruct (pl_room_exists le); simpl; [|discriminate].
  destruct (pl_state_ok le); simpl; [|discriminate].
  destruct (pl_refs_ok le); simpl; [|discriminate].
  destruct (pi_build_ok i); simpl; [|discriminate].
  destruct (pi_provider_ok i); simpl; [|discriminate].
  destruct (pi_allowed_ok i); simpl; [|discriminate].
  destruct (pi_target_local i); simpl.
  - intros _. split; [reflexivity|]. eexists. eexists. split; [reflexivity|]. cbv zeta. reflexivity.
  - destruct (pi_send i) as [| |[|]|]; simpl; try discriminate; intros _.
    + split; [reflexivity|]. exists le. eexists. split; reflexivity.
    + split; [reflexivity|]. exists le, JNull. split; reflexivity.
Qed.

Lemma perform_invite_ok i :
  pir_out (perform_invite i) = OOk ->
  perform_invite_admissible i = true /\ pi_event_spec i (pir_event (perform_invite i)).
Proof.
  assert (W : forall state log, pir_out (pi_with_state i state log) = OOk ->
    perform_invite_admissible i = true /\ pi_event_spec i (pir_event (pi_with_state i state log))).
  { intros state log. unfold pi_with_state, perform_invite_admissible.
    destruct (pi_set_unsigned_ok i); simpl; [|discriminate].
    destruct (version_known (pi_version i)); simpl; [|discriminate].
    destruct (pi_sender_id i) as [| |sid]; simpl; [discriminate| |].
    - intro H. destruct (pi_core_ok i _ _ H) as [A B]. split; [|exact B].
      unfold pi_core_spec in A. exact A.
    - destruct (pi_membership i) as [cur|]; simpl; [|discriminate].
      destruct (bytes_eqb cur s_join); simpl; [discriminate|].
      intro H. destruct (pi_core_ok i _ _ H) as [A B]. split; [|exact B].
      unfold pi_core_spec in A. exact A. }
  unfold perform_invite.
  destruct (bytes_eqb (pi_version i) v_pseudo_ids); simpl; [discriminate|].
  destruct (pi_given_state i) as [|x st].
  - destruct (pi_generated_state i) as [| |st]; simpl; [discriminate| |]; apply W.
  - apply W.
Qed.

Lemma firstn_le {A} n (l : list A) : (length (firstn n l) <= n)%nat.
Proof. apply firstn_le_length. Qed.

(* ---------------------------------------------------------------------------------- *)
(* HandleInviteV3                                                                       *)
(* ---------------------------------------------------------------------------------- *)

Lemma handle_invite_v3_ok x i :
  er_out (handle_invite_v3 x i) = OOk ->
  invite_v3_admissible x i = true /\
  exists sid v, v3_sender_id x = Some sid /\
    er_event (handle_invite_v3 x i) = Some (set_invite_room_state v (v3_built x sid)).
Proof.
  unfold handle_invite_v3, invite_v3_admissible.
  destruct (version_known (iv_version i)); simpl; [|discriminate].
  destruct (bytes_eqb (v3_proto_room x) (iv_req_room i)); simpl; [|discriminate].
  destruct (bytes_eqb (v3_proto_type x) m_room_member); simpl; [|discriminate].
  destruct (v3_proto_membership x) as [m|] eqn:Epm; simpl; [|discriminate].
  destruct (bytes_eqb m s_invite); simpl; [|discriminate].
  destruct (v3_sender_id x) as [sid|]; simpl; [|discriminate].
  destruct (v3_build_ok x); simpl; [|discriminate].
  intro H. apply invite_common_ok in H. destruct H as [[known [Ek Hm]] [v B]].
  split.
  - rewrite Ek. destruct known; [|reflexivity].
    destruct (Hm eq_refl) as [cur [Ec En]]. rewrite Ec, En. reflexivity.
  - exists sid, v. split; [reflexivity|]. unfold v3_built in *. rewrite ?Epm in *. exact B.
Qed.

(* ---------------------------------------------------------------------------------- *)
(* the restricted-join oracle accepts every verdict of the model                        *)
(* ---------------------------------------------------------------------------------- *)

Lemma nobody_vouches_of_forall privileged d :
  (forall u, vouched_by privileged d u = false) -> nobody_vouches privileged d = true.
Proof.
  intro H. unfold nobody_vouches. apply negb_true_iff.
  destruct (existsb (vouched_by privileged d) (all_candidates d)) eqn:E; [|reflexivity].
  apply existsb_exists in E. destruct E as [u [_ Hu]]. rewrite H in Hu. discriminate.
Qed.

Lemma rj_oracle_sound ver localname room sender d r log :
  version_check_restricted_join ver localname room sender d = Some (r, log) ->
  rj_observed_admissible ver d (observe r) = true.
Proof.
  unfold version_check_restricted_join, rj_observed_admissible.
  destruct (version_rj_kind ver); intro H; [|inversion H; reflexivity|discriminate].
  inversion H as [H1].
  pose proof (check_restricted_join_spec localname room sender (version_privileged_creators ver) d) as S.
  rewrite H1 in S. simpl fst in S.
  destruct r as [u| | |]; simpl in S |- *.
  - destruct S as [[Eu Hn]|[Hv _]].
    + subst u. rewrite Hn. reflexivity.
    + rewrite Hv. apply orb_true_r.
  - rewrite S. reflexivity.
  - destruct S as [Hf _]. apply nobody_vouches_of_forall. exact Hf.
  - destruct S as [Hf _]. apply nobody_vouches_of_forall. exact Hf.
Qed.
