(* C15: what the property text demands of an ACCEPTED request, written as one flat conjunction
   per handler, independently of the order and nesting of the guards in the models
   (Fed/HandshakeJoin.v, HandshakeInvite.v, HandshakePerform.v).  These predicates are the
   specification oracles of the correspondence run and the right-hand sides of the theorems
   of Props/C15.v. *)
From Verif Require Import Lib.Bytes Json.Ast Fed.HandshakeCommon Fed.HandshakeJoin
     Fed.HandshakeInvite Fed.HandshakePerform.
Open Scope N_scope.

(* ---------- restricted joins ---------- *)

(* u is entitled to authorise: a member event of JoinedUsers for user u who is a creator
   (room versions with privileged creators) or whose power level reaches the invite level *)
Definition entitled (creators : list bytes) (pl : rj_pl) (u : bytes) : bool :=
  mem_bytes u creators || (pl_invite pl <=? user_level pl u)%Z.

Definition member_is (u : bytes) (m : rj_member) : bool :=
  bytes_eqb (rm_type m) m_room_member &&
  match rm_state_key m with Some k => bytes_eqb k u | None => false end.

(* rule r lets local user u vouch: we are resident in the room, the joiner is in it, u is one
   of the (local) joined users reported for it and is entitled to invite *)
Definition rule_vouches (creators : list bytes) (pl : rj_pl) (u : bytes) (r : rj_rule) : bool :=
  bytes_eqb (rr_type r) m_room_membership && rr_room_valid r &&
  match rr_info r with
  | QVal i => ri_local_in_room i && ri_user_joined i &&
              existsb (member_is u) (ri_joined i) && entitled creators pl u
  | _ => false
  end.

Definition candidates (r : rj_rule) : list bytes :=
  match rr_info r with
  | QVal i => flat_map (fun m => match rm_state_key m with Some k => [k] | None => [] end) (ri_joined i)
  | _ => []
  end.

Definition creators_of (privileged : bool) (d : rj_data) : list bytes :=
  if privileged then match rj_create d with QVal c => c | _ => [] end else [].

(* the join needs no authoriser: no join rules event, not a restricted rule, or invite pending *)
Definition no_authoriser_needed (d : rj_data) : bool :=
  match rj_join_rules d with
  | QNil => true
  | QVal jr =>
      jr_unmarshal_ok jr &&
      (negb (is_restricted_rule (jr_join_rule jr)) ||
       match rj_pending d with Some true => true | _ => false end)
  | QErr => false
  end.

Definition vouched_by (privileged : bool) (d : rj_data) (u : bytes) : bool :=
  match rj_join_rules d, rj_power d with
  | QVal jr, QVal pl =>
      jr_unmarshal_ok jr && is_restricted_rule (jr_join_rule jr) && pl_ok pl &&
      match rj_pending d with Some false => true | _ => false end &&
      existsb (rule_vouches (creators_of privileged d) pl u) (jr_allow jr)
  | _, _ => false
  end.

(* a restricted join can be authorised (by somebody) *)
Definition restricted_join_authorisable (ver : bytes) (d : rj_data) : bool :=
  match version_rj_kind ver with
  | RJKNoCheck => true
  | RJKNilFunc => false
  | RJKCheck =>
      no_authoriser_needed d ||
      match rj_join_rules d with
      | QVal jr => existsb (fun r => existsb (vouched_by (version_privileged_creators ver) d) (candidates r))
                           (jr_allow jr)
      | _ => false
      end
  end.

(* a rule for which the server cannot tell (not resident / no answer) *)
Definition rule_unresolved (r : rj_rule) : bool :=
  bytes_eqb (rr_type r) m_room_membership && rr_room_valid r &&
  match rr_info r with QVal i => negb (ri_local_in_room i) | _ => true end.

(* what each verdict of checkRestrictedJoin means: a chosen user is vouched for; "unable" only
   when nobody can vouch and some rule could not be evaluated for lack of residency; "forbidden"
   only when nobody can vouch although every rule could be evaluated *)
Definition rj_verdict_spec (privileged : bool) (d : rj_data) (r : rj_result) : Prop :=
  match r with
  | RJVia u =>
      (u = [] /\ no_authoriser_needed d = true) \/
      (vouched_by privileged d u = true /\
       exists jr, rj_join_rules d = QVal jr /\
                  existsb (fun r => mem_bytes u (candidates r)) (jr_allow jr) = true)
  | RJUnable =>
      (forall u, vouched_by privileged d u = false) /\
      exists jr, rj_join_rules d = QVal jr /\ existsb rule_unresolved (jr_allow jr) = true
  | RJForbidden =>
      (forall u, vouched_by privileged d u = false) /\ no_authoriser_needed d = false /\
      exists jr, rj_join_rules d = QVal jr /\ existsb rule_unresolved (jr_allow jr) = false
  | RJError => no_authoriser_needed d = false
  end.

(* Judging an observed verdict of checkRestrictedJoin from the querier answers alone.  The power
   levels in [d] are those of the room BEING JOINED (the querier is asked per room); a user who
   can invite elsewhere but not here must not be named. *)
Definition all_candidates (d : rj_data) : list bytes :=
  match rj_join_rules d with QVal jr => flat_map candidates (jr_allow jr) | _ => [] end.

Definition nobody_vouches (privileged : bool) (d : rj_data) : bool :=
  negb (existsb (vouched_by privileged d) (all_candidates d)).

Inductive rj_observed := ObsVia (u : bytes) | ObsForbidden | ObsUnable | ObsError.

Definition rj_observed_admissible (ver : bytes) (d : rj_data) (o : rj_observed) : bool :=
  match version_rj_kind ver with
  | RJKNoCheck => match o with ObsVia [] => true | _ => false end
  | RJKNilFunc => false
  | RJKCheck =>
      let p := version_privileged_creators ver in
      match o with
      | ObsVia u => (match u with [] => no_authoriser_needed d | _ => false end) || vouched_by p d u
      | ObsForbidden | ObsUnable => nobody_vouches p d
      | ObsError => negb (no_authoriser_needed d)
      end
  end.

Definition observe (r : rj_result) : rj_observed :=
  match r with RJVia u => ObsVia u | RJForbidden => ObsForbidden | RJUnable => ObsUnable | RJError => ObsError end.

Definition built_passes_auth (b : build_res) : bool :=
  match b with
  | BBuilt e => bytes_eqb (b_type e) m_room_member && b_provider_ok e && b_allowed_ok e
  | _ => false
  end.

(* ---------- make_join / make_leave ---------- *)
Definition make_join_admissible (i : mj_input) : bool :=
  mem_bytes (mj_version i) (mj_remote_versions i) &&
  bytes_eqb (mj_user_domain i) (mj_origin i) &&
  mj_local_in_room i &&
  restricted_join_authorisable (mj_version i) (mj_rj i) &&
  built_passes_auth (mj_build i).

(* make_leave has no version list in its input (HandleMakeLeaveInput carries none) *)
Definition make_leave_admissible (i : ml_input) : bool :=
  bytes_eqb (ml_user_domain i) (ml_origin i) &&
  ml_local_in_room i &&
  built_passes_auth (ml_build i).

(* ---------- send_join ---------- *)
Definition is_join_event (f : ev_fields) : bool :=
  bytes_eqb (ef_type f) m_room_member &&
  match ef_membership f with Some m => bytes_eqb m s_join | None => false end.

Definition is_invite_event (f : ev_fields) : bool :=
  bytes_eqb (ef_type f) m_room_member &&
  match ef_membership f with Some m => bytes_eqb m s_invite | None => false end.

Definition sender_of_server (s : sender_ans) (server : bytes) : bool :=
  match s with SUser d => bytes_eqb d server | _ => false end.

Definition verified (v : verify_ans) : bool := match v with VGood => true | _ => false end.

Definition authoriser_local (f : ev_fields) (dom : option bytes) (localname : bytes) : bool :=
  match ef_authorised_via f with
  | [] => true
  | _ => match dom with Some d => bytes_eqb d localname | None => false end
  end.

Definition send_join_admissible (i : sj_input) : bool :=
  let f := sj_fields i in
  version_known (sj_version i) && sj_parse_ok i &&
  is_join_event f &&
  match ef_state_key f with Some k => bytes_eqb k (ef_sender f) && negb (bytes_eqb k []) | None => false end &&
  bytes_eqb (ef_room_id f) (sj_req_room i) &&
  bytes_eqb (ef_event_id f) (sj_req_event_id i) &&
  sender_of_server (sj_sender i) (sj_origin i) &&
  verified (sj_verify i) &&
  match sj_membership i with Some cur => negb (bytes_eqb cur s_ban) | None => false end &&
  authoriser_local f (sj_authvia_domain i) (sj_local_name i) &&
  (* pseudo-ID rooms: the mapping is the sender key's, signed by the user's server, and stored *)
  (negb (bytes_eqb (sj_version i) v_pseudo_ids) ||
   (sj_mapping_ok i && sj_mapping_key_ok i && sj_mapping_sig_ok i && sj_store_ok i)).

(* What the handshake is for (finding F92, recorded): the local signature on a restricted join
   attests that the joiner satisfies an allow condition; HandleSendJoin cannot know and signs. *)
Definition send_join_attestation_justified (i : sj_input) : bool :=
  match ef_authorised_via (sj_fields i) with
  | [] => true
  | _ => sj_joiner_entitled i
  end.

(* ---------- invite ----------
   HandleInviteInput carries neither the event ID nor the origin of the request, so those two
   conjuncts of the property text are not expressible for HandleInvite; what stands in for the
   origin is that the signature verified is the one of the SENDER's server. *)
Definition invite_admissible (i : inv_input) : bool :=
  let f := iv_fields i in
  version_known (iv_version i) &&
  is_invite_event f &&
  bytes_eqb (ef_room_id f) (iv_req_room i) &&
  match iv_sender i with SUser _ => true | _ => false end &&
  verified (iv_verify i) &&
  match iv_known_room i with
  | Some true => match iv_membership i with Some cur => negb (bytes_eqb cur s_join) | None => false end
  | Some false => true     (* a room the server does not know: nobody local can be joined to it *)
  | None => false
  end.

Definition invite_v3_admissible (x : iv3_extra) (i : inv_input) : bool :=
  version_known (iv_version i) &&
  bytes_eqb (v3_proto_type x) m_room_member &&
  match v3_proto_membership x with Some m => bytes_eqb m s_invite | None => false end &&
  bytes_eqb (v3_proto_room x) (iv_req_room i) &&
  match v3_sender_id x with Some _ => true | None => false end &&
  match iv_known_room i with
  | Some true => match iv_membership i with Some cur => negb (bytes_eqb cur s_join) | None => false end
  | Some false => true
  | None => false
  end.

(* ---------- perform_join ---------- *)
Definition is_known_create (e : pj_auth_event) : bool :=
  bytes_eqb (pa_type e) m_room_create &&
  match pa_state_key e with Some k => bytes_eqb k [] | None => false end &&
  pa_room_ok e &&
  pa_content_ok e &&
  version_known (match pa_room_version e with [] => v_1 | v => v end).

(* [used]: the join event handed back is the remote's copy (else the one built locally).
   Whichever is handed back is the one the federation-response checks passed for; the remote's
   copy is only ever handed back when it is a parsable join of this room. *)
Definition perform_join_admissible (i : pj_input) (used : bool) : bool :=
  pj_make_join_ok i && pj_send_join_ok i &&
  (if used then pj_check_remote i else pj_check_own i) &&
  existsb is_known_create (pj_auth_events i) &&
  (negb used ||
   match pj_remote i with
   | Some r => pr_parse_ok r &&
               match pr_membership r with Some m => bytes_eqb m s_join | None => false end &&
               bytes_eqb (pr_room_id r) (pj_room_id i)
   | None => false
   end).

(* What the event member of a send_join response is for (finding F87, recorded): the remote's copy
   may replace the join PerformJoin built only if it is that very event. *)
Definition perform_join_returns_own_event (i : pj_input) (used : bool) : bool :=
  negb used || match pj_remote i with Some r => pr_same_event r | None => false end.
