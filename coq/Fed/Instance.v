(* C14: the executable instance of the filter models used by the correspondence check.

   The harness hands over one scenario (JSON made of numbers only; identifiers are interned):
     ev    [[eid,type,skey|-1,room,sig,[auth ids]], ...]   the universe of parsed events, uid = position;
           sig = result of the REAL signature verification of that event
     al    [[uid,[uids],0|1], ...]   results of the REAL Allowed(event, auth events) for auth-event
           sets (tuple-distinct, given as ascending uid lists)
     pv    [[id,[answer,...]], ...]  script of the event provider per requested ID; an answer is a
           uid list or -1 (error); the last answer of a script is repeated for ever; no script =
           it returns nothing
     hp    1 = a provider is passed, 0 = nil
     fuel, gfuel   loop bounds of the model
   plus operation-specific members (see the run functions).
   The instance of `allowed` mirrors the AuthEvents container (eventauth.go: AddEvent replaces
   the event with the same (type, state_key); Valid() = at most one room ID among everything
   ever added) and then looks the remaining set up in the table. *)
From Coq Require Import List NArith ZArith Bool.
From Verif Require Import Lib.Bytes Json.Ast Json.Parse Fed.Filters Fed.AuthChain Fed.Load.
Import ListNotations.
Open Scope N_scope.

(* ---------- decoding helpers ---------- *)
Definition jZ (j : json) : Z := match jint j with Some z => z | None => (-1)%Z end.
Definition jN (j : json) : N := Z.to_N (jZ j).
Definition jlist (j : json) : list json := match j with JArr l => l | _ => [] end.
Definition jNs (j : json) : list N := map jN (jlist j).
Definition jfield (k : string) (j : json) : json :=
  match jget (bs k) j with Some v => v | None => JNull end.
Definition jnth (i : nat) (j : json) : json := nth i (jlist j) JNull.

Definition dec_event (u : N) (j : json) : event :=
  mkEvent u (jN (jnth 0 j)) (jN (jnth 1 j))
          (let k := jZ (jnth 2 j) in if (k <? 0)%Z then None else Some (Z.to_N k))
          (jN (jnth 3 j)) (jNs (jnth 5 j)).

Fixpoint dec_events (u : N) (l : list json) : list event :=
  match l with [] => [] | j :: r => dec_event u j :: dec_events (u + 1) r end.

Definition dummy_event : event := mkEvent 0 0 0 None 0 [].

Record scen := mkScen {
  s_json : json;
  s_univ : list event;
  s_sigs : list bool;
  s_allowed : list (N * list N * bool);
  s_topo : list (list N * list N)
}.

Definition ev_of (U : list event) (u : N) : event := nth (N.to_nat u) U dummy_event.
Definition evs_of (U : list event) (us : list N) : list event := map (ev_of U) us.

Definition dec_scen (j : json) : scen :=
  let evj := jlist (jfield "ev" j) in
  mkScen j (dec_events 0 evj)
         (map (fun e => jN (jnth 4 e) =? 1) evj)
         (map (fun a => (jN (jnth 0 a), jNs (jnth 1 a), jN (jnth 2 a) =? 1)) (jlist (jfield "al" j)))
         (map (fun a => (jNs (jnth 0 a), jNs (jnth 1 a))) (jlist (jfield "topo" j))).

(* item of a raw list: [0,uid] parsed, [1,uid] parsed with a persistable size error, [2] error *)
Definition dec_item (U : list event) (j : json) : parsed :=
  let c := jN (jnth 0 j) in
  if c =? 0 then POk (ev_of U (jN (jnth 1 j)))
  else if c =? 1 then PPersist (ev_of U (jN (jnth 1 j)))
  else PErr.
Definition dec_items (U : list event) (j : json) : list parsed := map (dec_item U) (jlist j).

(* ---------- sig_ok, allowed, topo ---------- *)
Definition sig_inst (s : scen) (e : event) : bool := nth (N.to_nat (uid e)) (s_sigs s) false.

Fixpoint Ns_eqb (a b : list N) : bool :=
  match a, b with
  | [], [] => true
  | x :: a', y :: b' => (x =? y) && Ns_eqb a' b'
  | _, _ => false
  end.

Fixpoint insert_N (x : N) (l : list N) : list N :=
  match l with
  | [] => [x]
  | y :: r => if x <? y then x :: l else if x =? y then l else y :: insert_N x r
  end.
Definition sort_N (l : list N) : list N := fold_right insert_N [] l.

(* what the AuthEvents map holds after AddEvent of the list elements in order *)
Fixpoint final_map (l : list event) : list event :=
  match l with
  | [] => []
  | e :: r => if existsb (same_tuple e) r then final_map r else e :: final_map r
  end.

Definition rooms_valid (l : list event) : bool := one_room l.

Fixpoint lookup_allowed (t : list (N * list N * bool)) (u : N) (k : list N) : option bool :=
  match t with
  | [] => None
  | (u', k', b) :: r => if (u =? u') && Ns_eqb k k' then Some b else lookup_allowed r u k
  end.

(* alt selects the answer for a pair the table does not contain; the run functions evaluate
   the model with both and report a disagreement as MISSING-TABLE-ENTRY *)
Definition allowed_inst (s : scen) (alt : bool) (e : event) (l : list event) : bool :=
  rooms_valid l &&
  match lookup_allowed (s_allowed s) (uid e) (sort_N (map uid (final_map l))) with
  | Some b => b
  | None => alt
  end.

Fixpoint lookup_topo (t : list (list N * list N)) (k : list N) : option (list N) :=
  match t with
  | [] => None
  | (k', v) :: r => if Ns_eqb k k' then Some v else lookup_topo r k
  end.
Definition topo_inst (s : scen) (alt : bool) (l : list event) : list event :=
  match lookup_topo (s_topo s) (map uid l) with
  | Some v => evs_of (s_univ s) v
  | None => if alt then rev l else l
  end.

(* ---------- the scripted providers ---------- *)
Inductive pans := AEvents (us : list N) | AError.

Record pstate := mkPstate {
  p_script : list (N * list pans);
  p_log : list bytes                 (* newest first *)
}.

Definition dec_ans (j : json) : pans :=
  match j with JArr l => AEvents (map jN l) | _ => AError end.
Definition dec_script (j : json) : list (N * list pans) :=
  map (fun p => (jN (jnth 0 p), map dec_ans (jlist (jnth 1 p)))) (jlist j).

(* consume one answer for id: a script of length >= 2 loses its head, the last answer stays *)
Fixpoint take_answer (sc : list (N * list pans)) (id : N) : pans * list (N * list pans) :=
  match sc with
  | [] => (AEvents [], [])
  | (k, answers) :: r =>
      if k =? id then
        match answers with
        | [] => (AEvents [], sc)
        | [a] => (a, sc)
        | a :: more => (a, (k, more) :: r)
        end
      else let '(a, r') := take_answer r id in (a, (k, answers) :: r')
  end.

Fixpoint take_answers (sc : list (N * list pans)) (ids : list N)
  : list pans * list (N * list pans) :=
  match ids with
  | [] => ([], sc)
  | id :: r => let '(a, sc1) := take_answer sc id in
               let '(l, sc2) := take_answers sc1 r in (a :: l, sc2)
  end.

Fixpoint combine_answers (U : list event) (l : list pans) : panswer :=
  match l with
  | [] => PEvents []
  | AError :: _ => PError
  | AEvents us :: r =>
      match combine_answers U r with
      | PError => PError
      | PEvents evs => PEvents (evs_of U us ++ evs)
      end
  end.

Definition pN (n : N) : bytes := print_dec n.
Definition pNs (sep : string) (l : list N) : bytes := join_bytes (bs sep) (map pN l).

Definition pcall_inst (s : scen) (ps : pstate) (ids : list N) : pstate * panswer :=
  let '(answers, sc) := take_answers (p_script ps) ids in
  (mkPstate sc ((bs "P:" ++ pNs "+" (sort_N ids)) :: p_log ps), combine_answers (s_univ s) answers).

Definition logged (ps : pstate) (entry : bytes) : pstate := mkPstate (p_script ps) (entry :: p_log ps).

(* state provider script: sp = [[eid, ids|-1, [[key,uid|-1],...]|-1], ...] (a function of the event ID) *)
Fixpoint find_sp (l : list json) (id : N) : option json :=
  match l with
  | [] => None
  | j :: r => if jN (jnth 0 j) =? id then Some j else find_sp r id
  end.

Definition sp_ids_inst (s : scen) (ps : pstate) (e : event) : pstate * option (list N) :=
  let ps' := logged ps (bs "I:" ++ pN (eid e)) in
  match find_sp (jlist (jfield "sp" (s_json s))) (eid e) with
  | Some j => match jnth 1 j with JArr l => (ps', Some (map jN l)) | _ => (ps', None) end
  | None => (ps', None)
  end.

Definition dec_state_map (U : list event) (l : list json) : emap :=
  map (fun p => (jN (jnth 0 p),
                 let u := jZ (jnth 1 p) in if (u <? 0)%Z then None else Some (ev_of U (Z.to_N u)))) l.

Definition sp_state_inst (s : scen) (ps : pstate) (e : event) (ids : list N) : pstate * option emap :=
  let ps' := logged ps (bs "S:" ++ pN (eid e) ++ bs ":" ++ pNs "+" ids) in
  match find_sp (jlist (jfield "sp" (s_json s))) (eid e) with
  | Some j => match jnth 2 j with
              | JArr l => (ps', Some (dec_state_map (s_univ s) l))
              | _ => (ps', None)
              end
  | None => (ps', None)
  end.

Definition servers_inst (s : scen) (ps : pstate) (first : N) : pstate * list N :=
  (logged ps (bs "V:" ++ pN first), jNs (jfield "servers" (s_json s))).

(* bf = [[server, -1 | [items]], ...] *)
Definition backfill_inst (s : scen) (ps : pstate) (srv : N) : pstate * option (list parsed) :=
  let ps' := logged ps (bs "B:" ++ pN srv ++ bs ":" ++ print_int (jZ (jfield "limit" (s_json s)))
                         ++ bs ":" ++ pNs "+" (jNs (jfield "from" (s_json s)))) in
  match find_sp (jlist (jfield "bf" (s_json s))) srv with
  | Some j => match jnth 1 j with
              | JArr l => (ps', Some (map (dec_item (s_univ s)) l))
              | _ => (ps', None)
              end
  | None => (ps', None)
  end.

(* ---------- printing ---------- *)
Definition p_ids (l : list event) : bytes := pNs "," (map eid l).
Definition p_log_of (ps : pstate) : bytes := bs " log=" ++ join_bytes (bs ";") (rev (p_log ps)).
Definition out_of_fuel : bytes := bs "OUTOFFUEL".

Definition init_ps (s : scen) : pstate := mkPstate (dec_script (jfield "pv" (s_json s))) [].
Definition s_fuel (s : scen) : nat := N.to_nat (jN (jfield "fuel" (s_json s))).
Definition s_gfuel (s : scen) : nat := N.to_nat (jN (jfield "gfuel" (s_json s))).
Definition s_hasprov (s : scen) : bool := jN (jfield "hp" (s_json s)) =? 1.

Definition with_scen (args : list bytes) (f : scen -> bool -> bytes) : bytes :=
  match args with
  | [_; t] =>
      match parse_json t with
      | Some j =>
          let s := dec_scen j in
          let a := f s false in
          let b := f s true in
          if bytes_eqb a b then a else bs "MISSING-TABLE-ENTRY " ++ a ++ bs " / " ++ b
      | None => bs "badscenario"
      end
  | _ => bs "badargs"
  end.

(* CheckStateResponse: A, S = raw auth / state lists *)
Definition out_csr (s : scen) (al : event -> list event -> bool) : bytes :=
    let U := s_univ s in
    match check_state_response pstate (sig_inst s) al (pcall_inst s)
            (s_gfuel s) (s_hasprov s) (dec_items U (jfield "A" (s_json s)))
            (dec_items U (jfield "S" (s_json s))) (init_ps s) with
    | (CsrOk a st, ps) => bs "ok a=" ++ p_ids a ++ bs " s=" ++ p_ids st ++ p_log_of ps
    | (CsrOutOfFuel, _) => out_of_fuel
    | (_, ps) => bs "err" ++ p_log_of ps
    end.
Definition run_csr (args : list bytes) : bytes :=
  with_scen args (fun s alt => out_csr s (allowed_inst s alt)).

(* CheckSendJoinResponse: additionally J = uid of the join event *)
Definition out_sj (s : scen) (al : event -> list event -> bool) : bytes :=
    let U := s_univ s in
    match check_send_join pstate (sig_inst s) al (pcall_inst s)
            (s_gfuel s) (s_hasprov s) (dec_items U (jfield "A" (s_json s)))
            (dec_items U (jfield "S" (s_json s))) (ev_of U (jN (jfield "J" (s_json s)))) (init_ps s) with
    | (SjOk a st, ps) => bs "ok a=" ++ p_ids a ++ bs " s=" ++ p_ids st ++ p_log_of ps
    | (SjOutOfFuel, _) => out_of_fuel
    | (_, ps) => bs "err" ++ p_log_of ps
    end.
Definition run_sj (args : list bytes) : bytes :=
  with_scen args (fun s alt => out_sj s (allowed_inst s alt)).

(* VerifyEventAuthChain: E = uid of the event *)
Definition out_chain (s : scen) (al : event -> list event -> bool) : bytes :=
    match verify_event_auth_chain pstate al (pcall_inst s)
            (s_fuel s) (s_gfuel s) (ev_of (s_univ s) (jN (jfield "E" (s_json s)))) (init_ps s) with
    | (ChainOk, ps) => bs "ok" ++ p_log_of ps
    | (ChainOutOfFuel, _) => out_of_fuel
    | (_, ps) => bs "err" ++ p_log_of ps
    end.
Definition run_chain (args : list bytes) : bytes :=
  with_scen args (fun s alt => out_chain s (allowed_inst s alt)).

(* VerifyAuthRulesAtState: E, av = allowValidation, sp = state provider script *)
Definition run_vras (args : list bytes) : bytes :=
  with_scen args (fun s alt =>
    match verify_auth_rules_at_state pstate (allowed_inst s alt)
            (sp_ids_inst s) (sp_state_inst s)
            (ev_of (s_univ s) (jN (jfield "E" (s_json s)))) (jN (jfield "av" (s_json s)) =? 1)
            (init_ps s) with
    | (RasOk, ps) => bs "ok" ++ p_log_of ps
    | (_, ps) => bs "err" ++ p_log_of ps
    end).

Definition p_class (c : lclass) : bytes :=
  match c with
  | LOk => bs "ok" | LSig => bs "sig" | LAuthChain => bs "chain" | LAuthRules => bs "rules"
  | LParse => bs "parse"
  end.
Definition p_result (r : option event * lclass) : bytes :=
  match fst r with Some e => pN (eid e) | None => bs "-" end ++ bs ":" ++ p_class (snd r).

(* LoadAndVerify: R = raw inputs, vk = room version known, topo = answers of the real sort *)
Definition run_load (args : list bytes) : bytes :=
  with_scen args (fun s alt =>
    match load_and_verify pstate (sig_inst s) (allowed_inst s alt) (pcall_inst s)
            (sp_ids_inst s) (sp_state_inst s) (topo_inst s alt)
            (s_fuel s) (s_gfuel s) (jN (jfield "vk" (s_json s)) =? 1)
            (dec_items (s_univ s) (jfield "R" (s_json s))) (init_ps s) with
    | (LoadResults rs, ps) => bs "ok " ++ join_bytes (bs ",") (map p_result rs) ++ p_log_of ps
    | (LoadErr, ps) => bs "err" ++ p_log_of ps
    | (LoadOutOfFuel, _) => out_of_fuel
    end).

(* RequestBackfill: from, limit, servers, bf; the returned events are compared as a sorted ID set *)
Definition run_bf (args : list bytes) : bytes :=
  with_scen args (fun s alt =>
    match request_backfill pstate (sig_inst s) (allowed_inst s alt) (pcall_inst s)
            (sp_ids_inst s) (sp_state_inst s) (topo_inst s alt) (servers_inst s) (backfill_inst s)
            (s_fuel s) (s_gfuel s) (jN (jfield "vk" (s_json s)) =? 1) (jN (jfield "room" (s_json s)))
            (jNs (jfield "from" (s_json s))) (jZ (jfield "limit" (s_json s))) (init_ps s) with
    | (BfResult evs lastErr, ps) =>
        bs "ids=" ++ pNs "," (sort_N (map eid evs)) ++ bs " n=" ++ pN (N.of_nat (length evs))
           ++ (if lastErr then bs " lasterr" else bs " noerr") ++ p_log_of ps
    | (BfOutOfFuel, _) => out_of_fuel
    end).
