(* C14 end to end: the same filter models, with `allowed` instantiated by the executable
   authorisation model of C07 (Auth/Model.v: allowed_bool on the events' JSON) instead of the table
   completed from the real library. The filters INCLUDING the auth rules then run inside the
   model. A disagreement of an e2e operation alone (the table-based operation agreeing on the
   same scenario) is a matter of the auth model, not of the filters.
   Third argument: JSON array with, per universe event, the JSON the library keeps for it
   (PDU.JSON()) plus its event_id member; null for texts that do not parse. *)
From Coq Require Import List NArith Bool.
From Verif Require Import Lib.Bytes Json.Ast Json.Parse Fed.Filters Fed.Instance Auth.Model.
Import ListNotations.
Open Scope N_scope.

Definition allowed_e2e (ver : bytes) (J : list json) (e : event) (l : list event) : bool :=
  let j (x : event) := nth (N.to_nat (uid x)) J JNull in
  allowed_bool ver (j e) (map j l).

Definition with_scen_e2e (args : list bytes) (f : scen -> (event -> list event -> bool) -> bytes) : bytes :=
  match args with
  | [_; t; ej] =>
      match parse_json t, parse_json ej with
      | Some j, Some (JArr J) =>
          let ver := match jfield "ver" j with JStr v => v | _ => [] end in
          f (dec_scen j) (allowed_e2e ver J)
      | _, _ => bs "badscenario"
      end
  | _ => bs "badargs"
  end.

Definition run_csr_e2e (args : list bytes) : bytes := with_scen_e2e args out_csr.
Definition run_sj_e2e (args : list bytes) : bytes := with_scen_e2e args out_sj.
Definition run_chain_e2e (args : list bytes) : bytes := with_scen_e2e args out_chain.
