(* C14: small list facts used by the examples of Props/C14.v. *)
From Coq Require Import List Bool.
Import ListNotations.

Lemma forallb_ext_c14 {A} (p q : A -> bool) l : (forall a, p a = q a) -> forallb p l = forallb q l.
Proof. intros H. induction l as [|a l IH]; simpl; auto. now rewrite H, IH. Qed.
