(* C14: the `allowed` of the executable instance (AuthEvents container + table of the real
   Allowed) satisfies the one hypothesis the theorems make about `allowed`. *)
From Coq Require Import List NArith Bool.
From Verif Require Import Lib.Bytes Fed.Filters Fed.Spec Fed.Instance.
Import ListNotations.
Open Scope N_scope.

Lemma same_tuple_refl a : same_tuple a a = true.
Proof.
  unfold same_tuple. rewrite N.eqb_refl. destruct (skey a); simpl; auto. apply N.eqb_refl.
Qed.

Lemma existsb_dup {A} (p : A -> bool) l1 a l2 :
  existsb p (l1 ++ a :: a :: l2) = existsb p (l1 ++ a :: l2).
Proof.
  rewrite !existsb_app. simpl. destruct (p a); simpl; auto.
Qed.

Lemma forallb_dup {A} (p : A -> bool) l1 a l2 :
  forallb p (l1 ++ a :: a :: l2) = forallb p (l1 ++ a :: l2).
Proof.
  rewrite !forallb_app. simpl. destruct (p a); simpl; auto.
Qed.

Lemma final_map_dup l1 a l2 : final_map (l1 ++ a :: a :: l2) = final_map (l1 ++ a :: l2).
Proof.
  induction l1 as [|e l1 IH]; simpl.
  - now rewrite same_tuple_refl.
  - rewrite existsb_dup, IH. reflexivity.
Qed.

Lemma rooms_valid_dup l1 a l2 : rooms_valid (l1 ++ a :: a :: l2) = rooms_valid (l1 ++ a :: l2).
Proof.
  destruct l1 as [|e l1]; simpl.
  - now rewrite N.eqb_refl.
  - apply forallb_dup.
Qed.

Theorem allowed_inst_stutter s alt : stutter_invariant (allowed_inst s alt).
Proof.
  intros e l1 a l2. unfold allowed_inst. now rewrite rooms_valid_dup, final_map_dup.
Qed.

Lemma forallb_ext_c14 {A} (p q : A -> bool) l : (forall a, p a = q a) -> forallb p l = forallb q l.
Proof. intros H. induction l as [|a l IH]; simpl; auto. now rewrite H, IH. Qed.
