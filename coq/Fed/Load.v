(* C14 model, part 3: load.go (EventsLoader.LoadAndVerify) and backfill.go (RequestBackfill).

   ReverseTopologicalOrdering is a parameter (topo): it belongs to another property; the harness
   obtains its answers from the real function. *)
From Coq Require Import List NArith ZArith Bool.
From Verif Require Import Fed.Filters Fed.AuthChain.
Import ListNotations.
Open Scope N_scope.

Inductive lclass :=
| LOk            (* Error == nil *)
| LSig           (* SignatureErr *)
| LAuthChain     (* AuthChainErr *)
| LAuthRules     (* AuthRulesErr *)
| LParse.        (* the error of NewEventFromUntrustedJSON; no Event *)

Section Load.
  Variable PS : Type.
  Variable sig_ok : event -> bool.
  Variable allowed : event -> list event -> bool.
  Variable pcall : PS -> list N -> PS * panswer.
  Variable sp_ids : PS -> event -> PS * option (list N).
  Variable sp_state : PS -> event -> list N -> PS * option emap.
  Variable topo : list event -> list event.      (* ReverseTopologicalOrdering(events, sortOrder) *)

  (* LoadAndVerify keeps an input only when NewEventFromUntrustedJSON returned no error at all
     (a persistable size error is an error here) and, since the fix for finding C14-dup, when no
     earlier kept input has the same event ID; everything else becomes an error result *)
  Fixpoint loaded_from (seen : list N) (l : list parsed) : list event :=
    match l with
    | [] => []
    | POk e :: r =>
        if mem_N (eid e) seen then loaded_from seen r else e :: loaded_from (eid e :: seen) r
    | _ :: r => loaded_from seen r
    end.
  Definition loaded (l : list parsed) : list event := loaded_from [] l.
  Definition n_errors (l : list parsed) : nat := length l - length (loaded l).

  (* steps 2, 4, 5 for one event. None = the model ran out of fuel. *)
  Definition classify (fuel gfuel : nat) (e : event) (ps : PS) : option lclass * PS :=
    if negb (sig_ok e) then (Some LSig, ps) else
    match verify_event_auth_chain PS allowed pcall fuel gfuel e ps with
    | (ChainOutOfFuel, ps1) => (None, ps1)
    | (ChainOk, ps1) =>
        match verify_auth_rules_at_state PS allowed sp_ids sp_state e true ps1 with
        | (RasOk, ps2) => (Some LOk, ps2)
        | (_, ps2) => (Some LAuthRules, ps2)
        end
    | (_, ps1) => (Some LAuthChain, ps1)
    end.

  Fixpoint classify_all (fuel gfuel : nat) (l : list event) (ps : PS)
    : option (list (option event * lclass)) * PS :=
    match l with
    | [] => (Some [], ps)
    | e :: r =>
        match classify fuel gfuel e ps with
        | (None, ps1) => (None, ps1)
        | (Some c, ps1) =>
            match classify_all fuel gfuel r ps1 with
            | (None, ps2) => (None, ps2)
            | (Some rs, ps2) => (Some ((Some e, c) :: rs), ps2)
            end
        end
    end.

  (* version_known = false: GetRoomVersion fails, LoadAndVerify returns (nil, err) *)
  Inductive load_result :=
  | LoadResults (rs : list (option event * lclass))
  | LoadErr
  | LoadOutOfFuel.

  Definition load_and_verify (fuel gfuel : nat) (version_known : bool) (raws : list parsed)
             (ps : PS) : load_result * PS :=
    if negb version_known then (LoadErr, ps) else
    let events := topo (loaded raws) in
    match classify_all fuel gfuel events ps with
    | (None, ps1) => (LoadOutOfFuel, ps1)
    | (Some rs, ps1) => (LoadResults (rs ++ repeat (None, LParse) (n_errors raws)), ps1)
    end.

  (* ---------------- RequestBackfill ---------------- *)

  Variable servers_at : PS -> N -> PS * list N.                 (* ServersAtEvent(roomID, fromEventIDs[0]) *)
  Variable backfill : PS -> N -> PS * option (list parsed).     (* Backfill(server, ...) -> txn.PDUs *)

  (* the loop over loadResults: results without error and with SignatureErr are taken, once per
     event ID; fix F85: only events of the room that is being backfilled *)
  Fixpoint take_results (room : N) (rs : list (option event * lclass)) (have : list N)
           (result : list event) : list N * list event :=
    match rs with
    | [] => (have, result)
    | (Some e, LOk) :: r | (Some e, LSig) :: r =>
        if negb (eroom e =? room) then take_results room r have result
        else if mem_N (eid e) have then take_results room r have result
        else take_results room r (eid e :: have) (result ++ [e])
    | _ :: r => take_results room r have result
    end.

  Inductive bf_result :=
  | BfResult (events : list event) (lastErr : bool)
  | BfOutOfFuel.

  Fixpoint bf_loop (fuel gfuel : nat) (version_known : bool) (room : N) (limit : Z) (servers : list N)
           (have : list N) (result : list event) (lastErr : bool) (ps : PS) : bf_result * PS :=
    match servers with
    | [] => (BfResult result lastErr, ps)
    | s :: rest =>
        if (limit <=? Z.of_nat (length result))%Z then (BfResult result lastErr, ps) else
        match backfill ps s with
        | (ps1, None) => bf_loop fuel gfuel version_known room limit rest have result true ps1
        | (ps1, Some pdus) =>
            match load_and_verify fuel gfuel version_known pdus ps1 with
            | (LoadOutOfFuel, ps2) => (BfOutOfFuel, ps2)
            | (LoadErr, ps2) => bf_loop fuel gfuel version_known room limit rest have result true ps2
            | (LoadResults rs, ps2) =>
                let '(have', result') := take_results room rs have result in
                bf_loop fuel gfuel version_known room limit rest have' result' lastErr ps2
            end
        end
    end.

  (* the final ReverseTopologicalOrdering(result) is applied by the caller of this function
     (the executable instance compares the returned events as a set) *)
  Definition request_backfill (fuel gfuel : nat) (version_known : bool) (room : N) (from_ids : list N)
             (limit : Z) (ps : PS) : bf_result * PS :=
    match from_ids with
    | [] => (BfResult [] false, ps)
    | first :: _ =>
        let '(ps1, servers) := servers_at ps first in
        bf_loop fuel gfuel version_known room limit servers [] [] false ps1
    end.
End Load.
