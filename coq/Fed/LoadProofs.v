(* C14 proofs, part 3: VerifyAuthRulesAtState and LoadAndVerify, for arbitrary (stateful)
   providers. *)
From Coq Require Import List NArith ZArith Bool Lia PeanoNat.
From Verif Require Import Fed.Filters Fed.AuthChain Fed.Load Fed.Spec.
Import ListNotations.
Open Scope N_scope.

Lemma mem_N_false_c14 x l : mem_N x l = false -> ~ In x l.
Proof.
  induction l as [|y l IH]; simpl; [tauto|].
  intros H. apply orb_false_iff in H. destruct H as [H1 H2]. apply N.eqb_neq in H1.
  intros [->|Hin]; [congruence|]. now apply IH.
Qed.

Lemma NoDup_app_single_c14 {A} (l : list A) a : NoDup l -> ~ In a l -> NoDup (l ++ [a]).
Proof.
  induction l as [|b l IH]; simpl; intros Hnd Hin.
  - constructor; [tauto|constructor].
  - inversion Hnd as [|? ? Hb Hnd']; subst. constructor.
    + intros H. apply in_app_or in H. destruct H as [H|[->|[]]]; tauto.
    + apply IH; tauto.
Qed.

Section RasProofs.
  Variable PS : Type.
  Variable allowed : event -> list event -> bool.
  Variable sp_ids : PS -> event -> PS * option (list N).
  Variable sp_state : PS -> event -> list N -> PS * option emap.

  (* since fix F83: accepted exactly when the state IDs can be fetched and either (validation
     permitted) all auth event IDs are among them, or the state can be fetched, holds at most one
     event per (type, state_key), and ITS state events allow the event *)
  Theorem vras_accept_iff e av ps :
    fst (verify_auth_rules_at_state PS allowed sp_ids sp_state e av ps) = RasOk <->
    exists ps1 ids, sp_ids ps e = (ps1, Some ids) /\
      ((av = true /\ forallb (fun a => mem_N a ids) (auth_ids e) = true) \/
       exists ps2 m, sp_state ps1 e ids = (ps2, Some m) /\
         tuples_distinct (state_events_of m) = true /\
         allowed e (state_events_of m) = true).
  Proof.
    unfold verify_auth_rules_at_state.
    destruct (sp_ids ps e) as [ps1 [ids|]] eqn:Hids; simpl.
    2:{ split; [discriminate|]. intros (? & ? & [=] & _). }
    destruct (av && forallb (fun a => mem_N a ids) (auth_ids e)) eqn:Hav.
    - simpl. split; auto. intros _. exists ps1, ids. split; auto. left.
      now apply andb_true_iff in Hav.
    - destruct (sp_state ps1 e ids) as [ps2 [m|]] eqn:Hst; simpl.
      2:{ split; [discriminate|]. intros (? & ? & [= <- <-] & [[-> H]|(? & ? & H & _)]).
          - simpl in Hav. congruence.
          - rewrite Hst in H. discriminate. }
      destruct (tuples_distinct (state_events_of m)) eqn:Htd; simpl.
      + destruct (allowed e (state_events_of m)) eqn:Ha; simpl.
        * split; auto. intros _. exists ps1, ids. split; auto. right. exists ps2, m. auto.
        * split; [discriminate|]. intros (? & ? & [= <- <-] & [[-> H]|(? & ? & H & _ & H2)]).
          -- simpl in Hav. congruence.
          -- rewrite Hst in H. injection H as <- <-. congruence.
      + split; [discriminate|]. intros (? & ? & [= <- <-] & [[-> H]|(? & ? & H & H2 & _)]).
        * simpl in Hav. congruence.
        * rewrite Hst in H. injection H as <- <-. congruence.
  Qed.
End RasProofs.

Section LoadProofs.
  Variable PS : Type.
  Variable sig_ok : event -> bool.
  Variable allowed : event -> list event -> bool.
  Variable pcall : PS -> list N -> PS * panswer.
  Variable sp_ids : PS -> event -> PS * option (list N).
  Variable sp_state : PS -> event -> list N -> PS * option emap.
  Variable topo : list event -> list event.
  Hypothesis topo_length : forall l, length (topo l) = length l.

  Variables fuel gfuel : nat.

  Let chain := verify_event_auth_chain PS allowed pcall fuel gfuel.
  Let ras e := verify_auth_rules_at_state PS allowed sp_ids sp_state e true.

  (* the class of an event is the first check it fails; ps is the providers' state before the
     event is looked at, ps1 after *)
  Definition class_spec (e : event) (ps : PS) (c : lclass) (ps1 : PS) : Prop :=
    (sig_ok e = false /\ c = LSig /\ ps1 = ps) \/
    (sig_ok e = true /\
     ((fst (chain e ps) <> ChainOk /\ c = LAuthChain /\ ps1 = snd (chain e ps)) \/
      (fst (chain e ps) = ChainOk /\ ps1 = snd (ras e (snd (chain e ps))) /\
       ((fst (ras e (snd (chain e ps))) = RasOk /\ c = LOk) \/
        (fst (ras e (snd (chain e ps))) <> RasOk /\ c = LAuthRules))))).

  Inductive classified : list event -> PS -> list (option event * lclass) -> PS -> Prop :=
  | cl_nil ps : classified [] ps [] ps
  | cl_cons e l ps c ps1 rs ps2 :
      class_spec e ps c ps1 -> classified l ps1 rs ps2 ->
      classified (e :: l) ps ((Some e, c) :: rs) ps2.

  Lemma classify_spec e ps c ps1 :
    classify PS sig_ok allowed pcall sp_ids sp_state fuel gfuel e ps = (Some c, ps1) ->
    class_spec e ps c ps1.
  Proof.
    unfold classify, class_spec. fold (chain e ps).
    destruct (sig_ok e); simpl.
    2:{ intros [= <- <-]. left. auto. }
    destruct (chain e ps) as [r psa] eqn:Hc. simpl.
    destruct r; try (intros [= <- <-]; right; split; auto; left; repeat split; auto; discriminate).
    - fold (ras e psa). destruct (ras e psa) as [r2 psb] eqn:Hr. simpl.
      destruct r2; intros [= <- <-]; right; (split; [reflexivity|]); right;
        (split; [reflexivity|]); (split; [reflexivity|]).
      + left. split; reflexivity.
      + right. split; [discriminate|reflexivity].
      + right. split; [discriminate|reflexivity].
      + right. split; [discriminate|reflexivity].
      + right. split; [discriminate|reflexivity].
  Qed.

  Lemma classify_all_spec : forall l ps rs ps',
    classify_all PS sig_ok allowed pcall sp_ids sp_state fuel gfuel l ps = (Some rs, ps') ->
    classified l ps rs ps'.
  Proof.
    induction l as [|e l IH]; intros ps rs ps'; simpl.
    - intros [= <- <-]. constructor.
    - destruct (classify _ _ _ _ _ _ _ _ e ps) as [[c|] ps1] eqn:Hc; [|discriminate].
      destruct (classify_all _ _ _ _ _ _ _ _ l ps1) as [[rs'|] ps2] eqn:Hl; [|discriminate].
      intros [= <- <-]. econstructor; eauto using classify_spec.
  Qed.

  Lemma classified_fst l ps rs ps' : classified l ps rs ps' -> map fst rs = map Some l.
  Proof. induction 1; simpl; congruence. Qed.

  Lemma loaded_from_length seen l : (length (loaded_from seen l) <= length l)%nat.
  Proof.
    revert seen. induction l as [|p l IH]; intros seen; simpl; auto.
    destruct p as [e|e|]; try (specialize (IH seen); lia).
    destruct (mem_N (eid e) seen); [specialize (IH seen) | specialize (IH (eid e :: seen)); simpl]; lia.
  Qed.

  (* one result per input; the sorted loadable events first, each with the class of its first
     failing check; then one error entry for every input that could not be loaded *)
  Theorem load_shape vk raws ps rs ps' :
    load_and_verify PS sig_ok allowed pcall sp_ids sp_state topo fuel gfuel vk raws ps = (LoadResults rs, ps') ->
    length rs = length raws /\
    exists rs1, rs = rs1 ++ repeat (None, LParse) (length raws - length (loaded raws)) /\
                classified (topo (loaded raws)) ps rs1 ps'.
  Proof.
    unfold load_and_verify. destruct vk; simpl; [|discriminate].
    destruct (classify_all _ _ _ _ _ _ _ _ (topo (loaded raws)) ps) as [[rs1|] ps1] eqn:Hc; [|discriminate].
    intros [= <- <-]. apply classify_all_spec in Hc.
    split.
    - rewrite app_length, repeat_length. unfold n_errors.
      pose proof (classified_fst _ _ _ _ Hc) as Hf.
      apply (f_equal (@length _)) in Hf. rewrite !map_length, topo_length in Hf.
      pose proof (loaded_from_length [] raws). unfold loaded in *. lia.
    - exists rs1. split; auto.
  Qed.

  Lemma classified_in l ps rs ps' e c :
    classified l ps rs ps' -> In (Some e, c) rs -> exists psa psb, class_spec e psa c psb.
  Proof.
    induction 1 as [|e0 l ps c0 ps1 rs ps2 Hc _ IH]; [intros []|].
    intros [H|H]; [injection H as -> ->; eauto | auto].
  Qed.

  (* every result that carries an event carries the class of that event's first failing check *)
  Theorem load_result_class vk raws ps rs ps' e c :
    load_and_verify PS sig_ok allowed pcall sp_ids sp_state topo fuel gfuel vk raws ps = (LoadResults rs, ps') ->
    In (Some e, c) rs -> exists psa psb, class_spec e psa c psb.
  Proof.
    unfold load_and_verify. destruct vk; simpl; [|discriminate].
    destruct (classify_all _ _ _ _ _ _ _ _ (topo (loaded raws)) ps) as [[rs1|] ps1] eqn:Hc; [|discriminate].
    intros [= <- <-] Hin. apply classify_all_spec in Hc.
    apply in_app_or in Hin. destruct Hin as [Hin|Hin].
    - eapply classified_in; eauto.
    - apply repeat_spec in Hin. discriminate.
  Qed.
End LoadProofs.

(* ---------- RequestBackfill ---------- *)
Section BackfillProofs.
  Variable PS : Type.
  Variable sig_ok : event -> bool.
  Variable allowed : event -> list event -> bool.
  Variable pcall : PS -> list N -> PS * panswer.
  Variable sp_ids : PS -> event -> PS * option (list N).
  Variable sp_state : PS -> event -> list N -> PS * option emap.
  Variable topo : list event -> list event.
  Variable servers_at : PS -> N -> PS * list N.
  Variable backfill : PS -> N -> PS * option (list parsed).
  Variable room : N.      (* the room that is being backfilled *)

  Definition taken (rs : list (option event * lclass)) (e : event) : Prop :=
    In (Some e, LOk) rs \/ In (Some e, LSig) rs.

  (* have covers the IDs of result; result has unique IDs *)
  Definition bf_inv (have : list N) (result : list event) : Prop :=
    (forall e, In e result -> In (eid e) have) /\ NoDup (map eid result).

  Lemma take_results_spec : forall rs have result have' result',
    take_results room rs have result = (have', result') -> bf_inv have result ->
    bf_inv have' result' /\
    exists added, result' = result ++ added /\ forall e, In e added -> taken rs e.
  Proof.
    induction rs as [|[oe c] rs IH]; intros have result have' result'; simpl.
    - intros [= <- <-] Hinv. split; auto. exists []. rewrite app_nil_r. split; auto. intros e [].
    - assert (Hskip : take_results room rs have result = (have', result') -> bf_inv have result ->
               bf_inv have' result' /\
               exists added, result' = result ++ added /\ forall e, In e added -> taken ((oe, c) :: rs) e).
      { intros H Hinv. destruct (IH _ _ _ _ H Hinv) as (Hi & added & -> & Ha). split; auto.
        exists added. split; auto. intros e He. destruct (Ha e He); [left|right]; now right. }
      assert (Htake : forall e, oe = Some e -> (c = LOk \/ c = LSig) ->
                (if negb (eroom e =? room) then take_results room rs have result
                 else if mem_N (eid e) have then take_results room rs have result
                 else take_results room rs (eid e :: have) (result ++ [e])) = (have', result') ->
                bf_inv have result ->
                bf_inv have' result' /\
                exists added, result' = result ++ added /\ forall e', In e' added -> taken ((oe, c) :: rs) e').
      { intros e -> Hc H Hinv. destruct (eroom e =? room); simpl in H; [|now apply Hskip].
        destruct (mem_N (eid e) have) eqn:Hm; [now apply Hskip|].
        assert (Hinv' : bf_inv (eid e :: have) (result ++ [e])).
        { destruct Hinv as [H1 H2]. split.
          - intros e' He'. apply in_app_or in He'. destruct He' as [He'|[<-|[]]]; [right; auto|now left].
          - rewrite map_app. simpl. apply NoDup_app_single_c14; auto.
            intros Hin. apply in_map_iff in Hin. destruct Hin as (e' & Heq & He').
            apply H1 in He'. rewrite Heq in He'. apply mem_N_false_c14 in Hm. contradiction. }
        destruct (IH _ _ _ _ H Hinv') as (Hi & added & -> & Ha). split; auto.
        exists (e :: added). rewrite <- app_assoc. split; auto.
        intros e' [<-|He'].
        - destruct Hc as [-> | ->]; [left|right]; now left.
        - destruct (Ha e' He'); [left|right]; now right. }
      destruct oe as [e|]; [|apply Hskip].
      destruct c; try apply Hskip; apply (Htake e); auto.
  Qed.

  Lemma bf_loop_unique fuel gfuel vk limit : forall servers have result lastErr ps evs le ps',
    bf_loop PS sig_ok allowed pcall sp_ids sp_state topo backfill fuel gfuel vk room limit servers
            have result lastErr ps = (BfResult evs le, ps') ->
    bf_inv have result -> NoDup (map eid evs).
  Proof.
    induction servers as [|s rest IH]; intros have result lastErr ps evs le ps'; simpl.
    - intros [= <- <- <-] [_ H]. exact H.
    - destruct (Z.leb limit (Z.of_nat (length result))).
      + intros [= <- <- <-] [_ H]. exact H.
      + destruct (backfill ps s) as [ps1 [pdus|]]; [|apply IH].
        destruct (load_and_verify _ _ _ _ _ _ _ _ _ _ pdus ps1) as [[rs| |] ps2]; try discriminate.
        * destruct (take_results room rs have result) as [have' result'] eqn:Ht.
          intros H Hinv. destruct (take_results_spec _ _ _ _ _ Ht Hinv) as [Hinv' _]. eapply IH; eauto.
        * apply IH.
  Qed.

  (* where a returned event comes from: some server's transaction, loaded and verified, gave it
     a result without error or with a signature error only *)
  Definition from_server (fuel gfuel : nat) (vk : bool) (e : event) : Prop :=
    exists s psa psb pdus rs psc,
      backfill psa s = (psb, Some pdus) /\
      load_and_verify PS sig_ok allowed pcall sp_ids sp_state topo fuel gfuel vk pdus psb = (LoadResults rs, psc) /\
      taken rs e.

  Lemma bf_loop_from fuel gfuel vk limit : forall servers have result lastErr ps evs le ps',
    bf_loop PS sig_ok allowed pcall sp_ids sp_state topo backfill fuel gfuel vk room limit servers
            have result lastErr ps = (BfResult evs le, ps') ->
    bf_inv have result ->
    (forall e, In e result -> from_server fuel gfuel vk e) ->
    forall e, In e evs -> from_server fuel gfuel vk e.
  Proof.
    induction servers as [|s rest IH]; intros have result lastErr ps evs le ps'; simpl.
    - intros [= <- <- <-] _ H. exact H.
    - destruct (Z.leb limit (Z.of_nat (length result))).
      + intros [= <- <- <-] _ H. exact H.
      + destruct (backfill ps s) as [ps1 [pdus|]] eqn:Hb; [|apply IH].
        destruct (load_and_verify _ _ _ _ _ _ _ _ _ _ pdus ps1) as [[rs| |] ps2] eqn:Hl; try discriminate.
        * destruct (take_results room rs have result) as [have' result'] eqn:Ht.
          intros H Hinv Hres.
          destruct (take_results_spec _ _ _ _ _ Ht Hinv) as (Hinv' & added & -> & Hadd).
          eapply IH; eauto. intros e He. apply in_app_or in He. destruct He as [He|He]; auto.
          exists s, ps, ps1, pdus, rs, ps2. auto.
        * apply IH.
  Qed.

  (* every event RequestBackfill returns passed the signature, auth chain and state-at-event
     checks of LoadAndVerify on some server's answer, or failed the signature check only (the
     code documents that those are passed on) *)
  Theorem backfill_events_checked fuel gfuel vk from_ids limit ps evs le ps' :
    request_backfill PS sig_ok allowed pcall sp_ids sp_state topo servers_at backfill
                     fuel gfuel vk room from_ids limit ps = (BfResult evs le, ps') ->
    forall e, In e evs ->
      exists psa psb c, (c = LOk \/ c = LSig) /\
        class_spec PS sig_ok allowed pcall sp_ids sp_state fuel gfuel e psa c psb.
  Proof.
    unfold request_backfill. destruct from_ids as [|first r].
    - intros [= <- <- <-] e [].
    - destruct (servers_at ps first) as [ps1 servers]. intros H e He.
      assert (Hf : from_server fuel gfuel vk e).
      { eapply bf_loop_from; eauto.
        - split; [intros x []|constructor].
        - intros x []. }
      destruct Hf as (s & psa & psb & pdus & rs & psc & _ & Hl & [Ht|Ht]);
        destruct (load_result_class PS sig_ok allowed pcall sp_ids sp_state topo fuel gfuel vk pdus psb rs psc e _ Hl Ht)
          as (p1 & p2 & Hc); eauto 6.
  Qed.

  (* a non-positive limit returns nothing *)
  Theorem backfill_limit_nonpositive fuel gfuel vk from_ids limit ps evs le ps' :
    (limit <= 0)%Z ->
    request_backfill PS sig_ok allowed pcall sp_ids sp_state topo servers_at backfill
                     fuel gfuel vk room from_ids limit ps = (BfResult evs le, ps') ->
    evs = [] /\ le = false.
  Proof.
    intros Hl. unfold request_backfill. destruct from_ids as [|first r].
    - intros [= <- <- <-]. auto.
    - destruct (servers_at ps first) as [ps1 servers]. destruct servers as [|s rest]; simpl.
      + intros [= <- <- <-]. auto.
      + destruct (Z.leb limit 0) eqn:Hz; [intros [= <- <- <-]; auto|].
        apply Z.leb_gt in Hz. lia.
  Qed.


  (* ---------- which copy of an event is returned ---------- *)
  (* the event of a load result that RequestBackfill takes: no error, or a signature error only *)
  Definition is_taken (p : option event * lclass) : option event :=
    match p with
    | (Some e, LOk) | (Some e, LSig) => if eroom e =? room then Some e else None
    | _ => None
    end.

  Lemma take_results_step p rs have result :
    take_results room (p :: rs) have result =
    match is_taken p with
    | Some e => if mem_N (eid e) have then take_results room rs have result
                else take_results room rs (eid e :: have) (result ++ [e])
    | None => take_results room rs have result
    end.
  Proof. destruct p as [[e|] []]; simpl; try reflexivity; destruct (eroom e =? room); reflexivity. Qed.

  Lemma take_results_app : forall r1 r2 have result,
    take_results room (r1 ++ r2) have result =
    take_results room r2 (fst (take_results room r1 have result)) (snd (take_results room r1 have result)).
  Proof.
    induction r1 as [|p r1 IH]; intros r2 have result; [reflexivity|].
    rewrite <- app_comm_cons, !take_results_step.
    destruct (is_taken p) as [e|]; auto. destruct (mem_N (eid e) have); auto.
  Qed.

  (* e is the first takeable copy of its event ID in rs, and that ID was not obtained before *)
  Definition first_good_copy (rs : list (option event * lclass)) (have : list N) (e : event) : Prop :=
    exists l1 p l2, rs = l1 ++ p :: l2 /\ is_taken p = Some e /\ ~ In (eid e) have /\
      forall p' e', In p' l1 -> is_taken p' = Some e' -> eid e' <> eid e.

  Lemma fgc_cons_other p rs have e :
    (forall e0, is_taken p = Some e0 -> eid e0 <> eid e) ->
    first_good_copy rs have e -> first_good_copy (p :: rs) have e.
  Proof.
    intros Hp (l1 & q & l2 & -> & Hq & Hn & Hf). exists (p :: l1), q, l2.
    split; [reflexivity|]. split; auto. split; auto.
    intros p' e' [<-|Hin] Ht; eauto.
  Qed.

  Lemma fgc_cons_inv p rs have e :
    first_good_copy (p :: rs) have e ->
    (is_taken p = Some e /\ ~ In (eid e) have) \/
    ((forall e0, is_taken p = Some e0 -> eid e0 <> eid e) /\ first_good_copy rs have e).
  Proof.
    intros (l1 & q & l2 & Heq & Hq & Hn & Hf). destruct l1 as [|p0 l1]; simpl in Heq.
    - injection Heq as <- <-. left. auto.
    - injection Heq as <- ->. right. split.
      + intros e0 He0. apply (Hf p e0); auto. now left.
      + exists l1, q, l2. split; auto. split; auto. split; auto.
        intros p' e' Hin. apply Hf. now right.
  Qed.

  Lemma mem_N_true_c14 x l : mem_N x l = true -> In x l.
  Proof.
    induction l as [|y l IH]; simpl; [discriminate|].
    intros H. apply orb_true_iff in H. destruct H as [H|H]; [left; apply N.eqb_eq in H; auto | right; auto].
  Qed.

  Lemma fgc_weaken rs have x e : first_good_copy rs (x :: have) e -> first_good_copy rs have e.
  Proof.
    intros (l1 & q & l2 & H1 & H2 & H3 & H4). exists l1, q, l2. repeat split; auto.
    intros Hin. apply H3. now right.
  Qed.

  Lemma fgc_strengthen rs have x e :
    x <> eid e -> first_good_copy rs have e -> first_good_copy rs (x :: have) e.
  Proof.
    intros Hx (l1 & q & l2 & H1 & H2 & H3 & H4). exists l1, q, l2. repeat split; auto.
    intros [Hin|Hin]; auto.
  Qed.

  Lemma take_results_in : forall rs have result e,
    In e (snd (take_results room rs have result)) <-> In e result \/ first_good_copy rs have e.
  Proof.
    induction rs as [|p rs IH]; intros have result e.
    - simpl. split; [auto|]. intros [H|(l1 & q & l2 & H & _)]; auto.
      exfalso. destruct l1; discriminate.
    - rewrite take_results_step. destruct (is_taken p) as [e0|] eqn:Hp.
      + destruct (mem_N (eid e0) have) eqn:Hm.
        * apply mem_N_true_c14 in Hm. rewrite IH. split; intros [H|H]; auto; right.
          -- apply fgc_cons_other; auto. intros e1 He1 Heq. rewrite Hp in He1. injection He1 as <-.
             destruct H as (_ & q & _ & _ & _ & Hn & _). apply Hn. now rewrite <- Heq.
          -- apply fgc_cons_inv in H. destruct H as [[H1 H2]|[_ H]]; auto.
             rewrite Hp in H1. injection H1 as ->. contradiction.
        * apply mem_N_false_c14 in Hm. rewrite IH, in_app_iff. simpl. split.
          -- intros [[H|[<-|[]]]|H]; auto.
             ++ right. exists [], p, rs. repeat split; auto; intros p' e' [].
             ++ right. apply fgc_cons_other.
                ** intros e1 He1. rewrite Hp in He1. injection He1 as <-.
                   destruct H as (_ & q & _ & _ & _ & Hn & _). intros Heq. apply Hn. left. auto.
                ** eapply fgc_weaken; eauto.
          -- intros [H|H]; auto. apply fgc_cons_inv in H. destruct H as [[H1 H2]|[H1 H]].
             ++ rewrite Hp in H1. injection H1 as ->. left. right. now left.
             ++ right. apply fgc_strengthen; auto.
      + rewrite IH. split; intros [H|H]; auto; right.
        * apply fgc_cons_other; auto. intros e0 He0. congruence.
        * apply fgc_cons_inv in H. destruct H as [[H1 _]|[_ H]]; auto. congruence.
  Qed.

  (* the load results of the servers that are asked, in server order (a mirror of bf_loop that
     only records them) *)
  Fixpoint bf_answers (fuel gfuel : nat) (vk : bool) (limit : Z) (servers : list N)
           (have : list N) (result : list event) (ps : PS) : list (list (option event * lclass)) :=
    match servers with
    | [] => []
    | s :: rest =>
        if (limit <=? Z.of_nat (length result))%Z then [] else
        match backfill ps s with
        | (ps1, None) => bf_answers fuel gfuel vk limit rest have result ps1
        | (ps1, Some pdus) =>
            match load_and_verify PS sig_ok allowed pcall sp_ids sp_state topo fuel gfuel vk pdus ps1 with
            | (LoadOutOfFuel, _) => []
            | (LoadErr, ps2) => bf_answers fuel gfuel vk limit rest have result ps2
            | (LoadResults rs, ps2) =>
                let '(have', result') := take_results room rs have result in
                rs :: bf_answers fuel gfuel vk limit rest have' result' ps2
            end
        end
    end.

  Lemma bf_loop_answers fuel gfuel vk limit : forall servers have result lastErr ps evs le ps',
    bf_loop PS sig_ok allowed pcall sp_ids sp_state topo backfill fuel gfuel vk room limit servers
            have result lastErr ps = (BfResult evs le, ps') ->
    evs = snd (take_results room (concat (bf_answers fuel gfuel vk limit servers have result ps)) have result).
  Proof.
    induction servers as [|s rest IH]; intros have result lastErr ps evs le ps'; simpl.
    - intros [= <- <- <-]. reflexivity.
    - destruct (Z.leb limit (Z.of_nat (length result))).
      + intros [= <- <- <-]. reflexivity.
      + destruct (backfill ps s) as [ps1 [pdus|]]; [|apply IH].
        destruct (load_and_verify _ _ _ _ _ _ _ _ _ _ pdus ps1) as [[rs| |] ps2]; try discriminate.
        * destruct (take_results room rs have result) as [have' result'] eqn:Ht.
          intros H. simpl. rewrite take_results_app, Ht. simpl. eapply IH; eauto.
        * apply IH.
  Qed.

  (* An event is returned iff it is, in the sequence of load results of the servers asked (in
     server order), the FIRST copy of its event ID that is classified "no error" or "signature
     error only": a rejected or unloadable copy from an earlier server does not shadow it, and a
     later copy never replaces it. *)
  Theorem backfill_first_good_copy fuel gfuel vk first rest limit ps evs le ps' :
    request_backfill PS sig_ok allowed pcall sp_ids sp_state topo servers_at backfill
                     fuel gfuel vk room (first :: rest) limit ps = (BfResult evs le, ps') ->
    let ps1 := fst (servers_at ps first) in
    let servers := snd (servers_at ps first) in
    forall e, In e evs <->
      first_good_copy (concat (bf_answers fuel gfuel vk limit servers [] [] ps1)) [] e.
  Proof.
    unfold request_backfill. destruct (servers_at ps first) as [ps1 servers]. simpl.
    intros H e. rewrite (bf_loop_answers _ _ _ _ _ _ _ _ _ _ _ _ H), take_results_in.
    split; [intros [[]|H0]; auto | auto].
  Qed.

  (* fix F85: only events of the requested room are returned *)
  Theorem backfill_only_room fuel gfuel vk from_ids limit ps evs le ps' :
    request_backfill PS sig_ok allowed pcall sp_ids sp_state topo servers_at backfill
                     fuel gfuel vk room from_ids limit ps = (BfResult evs le, ps') ->
    forall e, In e evs -> eroom e = room.
  Proof.
    destruct from_ids as [|first rest].
    - unfold request_backfill. intros [= <- <- <-] e [].
    - intros H e He. apply (backfill_first_good_copy _ _ _ _ _ _ _ _ _ _ H) in He.
      destruct He as (_ & p & _ & _ & Hp & _). unfold is_taken in Hp.
      destruct p as [[e0|] []]; try discriminate;
        destruct (eroom e0 =? room) eqn:Hr; try discriminate;
        injection Hp as ->; now apply N.eqb_eq.
  Qed.

  (* the events RequestBackfill returns carry pairwise different IDs; without starting points
     nothing is asked and nothing is returned *)
  Theorem backfill_unique_ids fuel gfuel vk from_ids limit ps evs le ps' :
    request_backfill PS sig_ok allowed pcall sp_ids sp_state topo servers_at backfill
                     fuel gfuel vk room from_ids limit ps = (BfResult evs le, ps') ->
    NoDup (map eid evs) /\ (from_ids = [] -> evs = [] /\ le = false /\ ps' = ps).
  Proof.
    unfold request_backfill. destruct from_ids as [|first r].
    - intros [= <- <- <-]. split; [constructor|auto].
    - destruct (servers_at ps first) as [ps1 servers]. intros H. split; [|discriminate].
      eapply bf_loop_unique; eauto. split; [intros e []|constructor].
  Qed.
End BackfillProofs.
