(* C14 proofs, part 3: VerifyAuthRulesAtState and LoadAndVerify, for arbitrary (stateful)
   providers. *)
From Coq Require Import List NArith ZArith Bool Lia PeanoNat.
From Verif Require Import Fed.Filters Fed.AuthChain Fed.Load Fed.Spec.
Import ListNotations.
Open Scope N_scope.

Lemma mem_N_false_c14 x l : mem_N x l = false -> ~ In x l.
Proof.
  induction l as [|y l IH]; simpl; [tauto|].
  intros H. apply orb_false_iff in H. destruct H as [H1 H2]. apply N.eqb_neq in H1.
  intros [->|Hin]; [congruence|]. now apply IH.
Qed.

Lemma NoDup_app_single_c14 {A} (l : list A) a : NoDup l -> ~ In a l -> NoDup (l ++ [a]).
Proof.
  induction l as [|b l IH]; simpl; intros Hnd Hin.
  - constructor; [tauto|constructor].
  - inversion Hnd as [|? ? Hb Hnd']; subst. constructor.
    + intros H. apply in_app_or in H. destruct H as [H|[->|[]]]; tauto.
    + apply IH; tauto.
Qed.

Section RasProofs.
  Variable PS : Type.
  Variable allowed : event -> list event -> bool.
  Variable pcall : PS -> list N -> PS * panswer.
  Variable sp_ids : PS -> event -> PS * option (list N).
  Variable sp_state : PS -> event -> list N -> PS * option emap.

  (* without a provider the loop just collects what the table has *)
  Lemma gather_noprov_ok : forall aes fuel acc m ps,
    (length aes < fuel)%nat ->
    forallb is_state (lookup_list m aes) = true ->
    gather PS pcall fuel false aes acc m ps = (GDone, acc ++ lookup_list m aes, m, ps).
  Proof.
    induction aes as [|x rest IH]; intros fuel acc m ps Hf H;
      (destruct fuel as [|f]; [simpl in Hf; lia|]); simpl.
    - now rewrite app_nil_r.
    - simpl in Hf. unfold lookup_list in H. simpl in H.
      destruct (mget m x) as [[a|]|] eqn:Hm; simpl in H.
      + apply andb_true_iff in H. destruct H as [Ha Hr]. rewrite Ha.
        rewrite (IH f _ m ps) by (auto; lia). unfold lookup_list. simpl. simpl.
        now rewrite <- app_assoc.
      + rewrite (IH f _ m ps) by (auto; lia). unfold lookup_list. simpl. reflexivity.
      + rewrite (IH f _ m ps) by (auto; lia). unfold lookup_list. simpl. reflexivity.
  Qed.

  Lemma gather_noprov_err : forall aes fuel acc m ps,
    (length aes < fuel)%nat ->
    forallb is_state (lookup_list m aes) = false ->
    exists acc', gather PS pcall fuel false aes acc m ps = (GAddErr, acc', m, ps).
  Proof.
    induction aes as [|x rest IH]; intros fuel acc m ps Hf H;
      (destruct fuel as [|f]; [simpl in Hf; lia|]); simpl.
    - discriminate.
    - simpl in Hf. unfold lookup_list in H. simpl in H.
      destruct (mget m x) as [[a|]|] eqn:Hm; simpl in H.
      + destruct (is_state a) eqn:Ha; simpl in H; [apply IH; auto; lia | eauto].
      + apply IH; auto; lia.
      + apply IH; auto; lia.
  Qed.

  Theorem vras_accept_iff e av ps :
    fst (verify_auth_rules_at_state PS allowed pcall sp_ids sp_state e av ps) = RasOk <->
    exists ps1 ids, sp_ids ps e = (ps1, Some ids) /\
      ((av = true /\ forallb (fun a => mem_N a ids) (auth_ids e) = true) \/
       exists ps2 m, sp_state ps1 e ids = (ps2, Some m) /\
         forallb is_state (lookup_list m (auth_ids e)) = true /\
         allowed e (lookup_list m (auth_ids e)) = true).
  Proof.
    unfold verify_auth_rules_at_state.
    destruct (sp_ids ps e) as [ps1 [ids|]] eqn:Hids; simpl.
    2:{ split; [discriminate|]. intros (? & ? & [=] & _). }
    destruct (av && forallb (fun a => mem_N a ids) (auth_ids e)) eqn:Hav.
    - simpl. split; auto. intros _. exists ps1, ids. split; auto. left.
      now apply andb_true_iff in Hav.
    - destruct (sp_state ps1 e ids) as [ps2 [m|]] eqn:Hst; simpl.
      2:{ split; [discriminate|]. intros (? & ? & [= <- <-] & [[-> H]|(? & ? & H & _)]).
          - simpl in Hav. congruence.
          - rewrite Hst in H. discriminate. }
      unfold check_allowed.
      destruct (forallb is_state (lookup_list m (auth_ids e))) eqn:Hall.
      + rewrite (gather_noprov_ok _ _ [] m ps2 (Nat.lt_succ_diag_r _) Hall). simpl.
        destruct (allowed e (lookup_list m (auth_ids e))) eqn:Ha; simpl.
        * split; auto. intros _. exists ps1, ids. split; auto. right. exists ps2, m. auto.
        * split; [discriminate|]. intros (? & ? & [= <- <-] & [[-> H]|(? & ? & H & _ & H2)]).
          -- simpl in Hav. congruence.
          -- rewrite Hst in H. injection H as <- <-. congruence.
      + destruct (gather_noprov_err _ _ [] m ps2 (Nat.lt_succ_diag_r _) Hall) as (acc' & ->). simpl.
        split; [discriminate|]. intros (? & ? & [= <- <-] & [[-> H]|(? & ? & H & H2 & _)]).
        * simpl in Hav. congruence.
        * rewrite Hst in H. injection H as <- <-. congruence.
  Qed.
End RasProofs.

Section LoadProofs.
  Variable PS : Type.
  Variable sig_ok : event -> bool.
  Variable allowed : event -> list event -> bool.
  Variable pcall : PS -> list N -> PS * panswer.
  Variable sp_ids : PS -> event -> PS * option (list N).
  Variable sp_state : PS -> event -> list N -> PS * option emap.
  Variable topo : list event -> list event.
  Hypothesis topo_length : forall l, length (topo l) = length l.

  Variables fuel gfuel : nat.

  Let chain := verify_event_auth_chain PS allowed pcall fuel gfuel.
  Let ras e := verify_auth_rules_at_state PS allowed pcall sp_ids sp_state e true.

  (* the class of an event is the first check it fails; ps is the providers' state before the
     event is looked at, ps1 after *)
  Definition class_spec (e : event) (ps : PS) (c : lclass) (ps1 : PS) : Prop :=
    (sig_ok e = false /\ c = LSig /\ ps1 = ps) \/
    (sig_ok e = true /\
     ((fst (chain e ps) <> ChainOk /\ c = LAuthChain /\ ps1 = snd (chain e ps)) \/
      (fst (chain e ps) = ChainOk /\ ps1 = snd (ras e (snd (chain e ps))) /\
       ((fst (ras e (snd (chain e ps))) = RasOk /\ c = LOk) \/
        (fst (ras e (snd (chain e ps))) <> RasOk /\ c = LAuthRules))))).

  Inductive classified : list event -> PS -> list (option event * lclass) -> PS -> Prop :=
  | cl_nil ps : classified [] ps [] ps
  | cl_cons e l ps c ps1 rs ps2 :
      class_spec e ps c ps1 -> classified l ps1 rs ps2 ->
      classified (e :: l) ps ((Some e, c) :: rs) ps2.

  Lemma classify_spec e ps c ps1 :
    classify PS sig_ok allowed pcall sp_ids sp_state fuel gfuel e ps = (Some c, ps1) ->
    class_spec e ps c ps1.
  Proof.
    unfold classify, class_spec. fold (chain e ps).
    destruct (sig_ok e); simpl.
    2:{ intros [= <- <-]. left. auto. }
    destruct (chain e ps) as [r psa] eqn:Hc. simpl.
    destruct r; try (intros [= <- <-]; right; split; auto; left; repeat split; auto; discriminate).
    - fold (ras e psa). destruct (ras e psa) as [r2 psb] eqn:Hr. simpl.
      destruct r2; intros [= <- <-]; right; (split; [reflexivity|]); right;
        (split; [reflexivity|]); (split; [reflexivity|]).
      + left. split; reflexivity.
      + right. split; [discriminate|reflexivity].
      + right. split; [discriminate|reflexivity].
      + right. split; [discriminate|reflexivity].
  Qed.

  Lemma classify_all_spec : forall l ps rs ps',
    classify_all PS sig_ok allowed pcall sp_ids sp_state fuel gfuel l ps = (Some rs, ps') ->
    classified l ps rs ps'.
  Proof.
    induction l as [|e l IH]; intros ps rs ps'; simpl.
    - intros [= <- <-]. constructor.
    - destruct (classify _ _ _ _ _ _ _ _ e ps) as [[c|] ps1] eqn:Hc; [|discriminate].
      destruct (classify_all _ _ _ _ _ _ _ _ l ps1) as [[rs'|] ps2] eqn:Hl; [|discriminate].
      intros [= <- <-]. econstructor; eauto using classify_spec.
  Qed.

  Lemma classified_fst l ps rs ps' : classified l ps rs ps' -> map fst rs = map Some l.
  Proof. induction 1; simpl; congruence. Qed.

  Lemma loaded_from_length seen l : (length (loaded_from seen l) <= length l)%nat.
  Proof.
    revert seen. induction l as [|p l IH]; intros seen; simpl; auto.
    destruct p as [e|e|]; try (specialize (IH seen); lia).
    destruct (mem_N (eid e) seen); [specialize (IH seen) | specialize (IH (eid e :: seen)); simpl]; lia.
  Qed.

  (* one result per input; the sorted loadable events first, each with the class of its first
     failing check; then one error entry for every input that could not be loaded *)
  Theorem load_shape vk raws ps rs ps' :
    load_and_verify PS sig_ok allowed pcall sp_ids sp_state topo fuel gfuel vk raws ps = (LoadResults rs, ps') ->
    length rs = length raws /\
    exists rs1, rs = rs1 ++ repeat (None, LParse) (length raws - length (loaded raws)) /\
                classified (topo (loaded raws)) ps rs1 ps'.
  Proof.
    unfold load_and_verify. destruct vk; simpl; [|discriminate].
    destruct (classify_all _ _ _ _ _ _ _ _ (topo (loaded raws)) ps) as [[rs1|] ps1] eqn:Hc; [|discriminate].
    intros [= <- <-]. apply classify_all_spec in Hc.
    split.
    - rewrite app_length, repeat_length. unfold n_errors.
      pose proof (classified_fst _ _ _ _ Hc) as Hf.
      apply (f_equal (@length _)) in Hf. rewrite !map_length, topo_length in Hf.
      pose proof (loaded_from_length [] raws). unfold loaded in *. lia.
    - exists rs1. split; auto.
  Qed.

  Lemma classified_in l ps rs ps' e c :
    classified l ps rs ps' -> In (Some e, c) rs -> exists psa psb, class_spec e psa c psb.
  Proof.
    induction 1 as [|e0 l ps c0 ps1 rs ps2 Hc _ IH]; [intros []|].
    intros [H|H]; [injection H as -> ->; eauto | auto].
  Qed.

  (* every result that carries an event carries the class of that event's first failing check *)
  Theorem load_result_class vk raws ps rs ps' e c :
    load_and_verify PS sig_ok allowed pcall sp_ids sp_state topo fuel gfuel vk raws ps = (LoadResults rs, ps') ->
    In (Some e, c) rs -> exists psa psb, class_spec e psa c psb.
  Proof.
    unfold load_and_verify. destruct vk; simpl; [|discriminate].
    destruct (classify_all _ _ _ _ _ _ _ _ (topo (loaded raws)) ps) as [[rs1|] ps1] eqn:Hc; [|discriminate].
    intros [= <- <-] Hin. apply classify_all_spec in Hc.
    apply in_app_or in Hin. destruct Hin as [Hin|Hin].
    - eapply classified_in; eauto.
    - apply repeat_spec in Hin. discriminate.
  Qed.
End LoadProofs.

(* ---------- RequestBackfill ---------- *)
Section BackfillProofs.
  Variable PS : Type.
  Variable sig_ok : event -> bool.
  Variable allowed : event -> list event -> bool.
  Variable pcall : PS -> list N -> PS * panswer.
  Variable sp_ids : PS -> event -> PS * option (list N).
  Variable sp_state : PS -> event -> list N -> PS * option emap.
  Variable topo : list event -> list event.
  Variable servers_at : PS -> N -> PS * list N.
  Variable backfill : PS -> N -> PS * option (list parsed).

  Definition taken (rs : list (option event * lclass)) (e : event) : Prop :=
    In (Some e, LOk) rs \/ In (Some e, LSig) rs.

  (* have covers the IDs of result; result has unique IDs *)
  Definition bf_inv (have : list N) (result : list event) : Prop :=
    (forall e, In e result -> In (eid e) have) /\ NoDup (map eid result).

  Lemma take_results_spec : forall rs have result have' result',
    take_results rs have result = (have', result') -> bf_inv have result ->
    bf_inv have' result' /\
    exists added, result' = result ++ added /\ forall e, In e added -> taken rs e.
  Proof.
    induction rs as [|[oe c] rs IH]; intros have result have' result'; simpl.
    - intros [= <- <-] Hinv. split; auto. exists []. rewrite app_nil_r. split; auto. intros e [].
    - assert (Hskip : take_results rs have result = (have', result') -> bf_inv have result ->
               bf_inv have' result' /\
               exists added, result' = result ++ added /\ forall e, In e added -> taken ((oe, c) :: rs) e).
      { intros H Hinv. destruct (IH _ _ _ _ H Hinv) as (Hi & added & -> & Ha). split; auto.
        exists added. split; auto. intros e He. destruct (Ha e He); [left|right]; now right. }
      assert (Htake : forall e, oe = Some e -> (c = LOk \/ c = LSig) ->
                (if mem_N (eid e) have then take_results rs have result
                 else take_results rs (eid e :: have) (result ++ [e])) = (have', result') ->
                bf_inv have result ->
                bf_inv have' result' /\
                exists added, result' = result ++ added /\ forall e', In e' added -> taken ((oe, c) :: rs) e').
      { intros e -> Hc H Hinv. destruct (mem_N (eid e) have) eqn:Hm; [now apply Hskip|].
        assert (Hinv' : bf_inv (eid e :: have) (result ++ [e])).
        { destruct Hinv as [H1 H2]. split.
          - intros e' He'. apply in_app_or in He'. destruct He' as [He'|[<-|[]]]; [right; auto|now left].
          - rewrite map_app. simpl. apply NoDup_app_single_c14; auto.
            intros Hin. apply in_map_iff in Hin. destruct Hin as (e' & Heq & He').
            apply H1 in He'. rewrite Heq in He'. apply mem_N_false_c14 in Hm. contradiction. }
        destruct (IH _ _ _ _ H Hinv') as (Hi & added & -> & Ha). split; auto.
        exists (e :: added). rewrite <- app_assoc. split; auto.
        intros e' [<-|He'].
        - destruct Hc as [-> | ->]; [left|right]; now left.
        - destruct (Ha e' He'); [left|right]; now right. }
      destruct oe as [e|]; [|apply Hskip].
      destruct c; try apply Hskip; apply (Htake e); auto.
  Qed.

  Lemma bf_loop_unique fuel gfuel vk limit : forall servers have result lastErr ps evs le ps',
    bf_loop PS sig_ok allowed pcall sp_ids sp_state topo backfill fuel gfuel vk limit servers
            have result lastErr ps = (BfResult evs le, ps') ->
    bf_inv have result -> NoDup (map eid evs).
  Proof.
    induction servers as [|s rest IH]; intros have result lastErr ps evs le ps'; simpl.
    - intros [= <- <- <-] [_ H]. exact H.
    - destruct (Z.leb limit (Z.of_nat (length result))).
      + intros [= <- <- <-] [_ H]. exact H.
      + destruct (backfill ps s) as [ps1 [pdus|]]; [|apply IH].
        destruct (load_and_verify _ _ _ _ _ _ _ _ _ _ pdus ps1) as [[rs| |] ps2]; try discriminate.
        * destruct (take_results rs have result) as [have' result'] eqn:Ht.
          intros H Hinv. destruct (take_results_spec _ _ _ _ _ Ht Hinv) as [Hinv' _]. eapply IH; eauto.
        * apply IH.
  Qed.

  (* where a returned event comes from: some server's transaction, loaded and verified, gave it
     a result without error or with a signature error only *)
  Definition from_server (fuel gfuel : nat) (vk : bool) (e : event) : Prop :=
    exists s psa psb pdus rs psc,
      backfill psa s = (psb, Some pdus) /\
      load_and_verify PS sig_ok allowed pcall sp_ids sp_state topo fuel gfuel vk pdus psb = (LoadResults rs, psc) /\
      taken rs e.

  Lemma bf_loop_from fuel gfuel vk limit : forall servers have result lastErr ps evs le ps',
    bf_loop PS sig_ok allowed pcall sp_ids sp_state topo backfill fuel gfuel vk limit servers
            have result lastErr ps = (BfResult evs le, ps') ->
    bf_inv have result ->
    (forall e, In e result -> from_server fuel gfuel vk e) ->
    forall e, In e evs -> from_server fuel gfuel vk e.
  Proof.
    induction servers as [|s rest IH]; intros have result lastErr ps evs le ps'; simpl.
    - intros [= <- <- <-] _ H. exact H.
    - destruct (Z.leb limit (Z.of_nat (length result))).
      + intros [= <- <- <-] _ H. exact H.
      + destruct (backfill ps s) as [ps1 [pdus|]] eqn:Hb; [|apply IH].
        destruct (load_and_verify _ _ _ _ _ _ _ _ _ _ pdus ps1) as [[rs| |] ps2] eqn:Hl; try discriminate.
        * destruct (take_results rs have result) as [have' result'] eqn:Ht.
          intros H Hinv Hres.
          destruct (take_results_spec _ _ _ _ _ Ht Hinv) as (Hinv' & added & -> & Hadd).
          eapply IH; eauto. intros e He. apply in_app_or in He. destruct He as [He|He]; auto.
          exists s, ps, ps1, pdus, rs, ps2. auto.
        * apply IH.
  Qed.

  (* every event RequestBackfill returns passed the signature, auth chain and state-at-event
     checks of LoadAndVerify on some server's answer, or failed the signature check only (the
     code documents that those are passed on) *)
  Theorem backfill_events_checked fuel gfuel vk from_ids limit ps evs le ps' :
    request_backfill PS sig_ok allowed pcall sp_ids sp_state topo servers_at backfill
                     fuel gfuel vk from_ids limit ps = (BfResult evs le, ps') ->
    forall e, In e evs ->
      exists psa psb c, (c = LOk \/ c = LSig) /\
        class_spec PS sig_ok allowed pcall sp_ids sp_state fuel gfuel e psa c psb.
  Proof.
    unfold request_backfill. destruct from_ids as [|first r].
    - intros [= <- <- <-] e [].
    - destruct (servers_at ps first) as [ps1 servers]. intros H e He.
      assert (Hf : from_server fuel gfuel vk e).
      { eapply bf_loop_from; eauto.
        - split; [intros x []|constructor].
        - intros x []. }
      destruct Hf as (s & psa & psb & pdus & rs & psc & _ & Hl & [Ht|Ht]);
        destruct (load_result_class PS sig_ok allowed pcall sp_ids sp_state topo fuel gfuel vk pdus psb rs psc e _ Hl Ht)
          as (p1 & p2 & Hc); eauto 6.
  Qed.

  (* a non-positive limit returns nothing *)
  Theorem backfill_limit_nonpositive fuel gfuel vk from_ids limit ps evs le ps' :
    (limit <= 0)%Z ->
    request_backfill PS sig_ok allowed pcall sp_ids sp_state topo servers_at backfill
                     fuel gfuel vk from_ids limit ps = (BfResult evs le, ps') ->
    evs = [] /\ le = false.
  Proof.
    intros Hl. unfold request_backfill. destruct from_ids as [|first r].
    - intros [= <- <- <-]. auto.
    - destruct (servers_at ps first) as [ps1 servers]. destruct servers as [|s rest]; simpl.
      + intros [= <- <- <-]. auto.
      + destruct (Z.leb limit 0) eqn:Hz; [intros [= <- <- <-]; auto|].
        apply Z.leb_gt in Hz. lia.
  Qed.

  (* the events RequestBackfill returns carry pairwise different IDs; without starting points
     nothing is asked and nothing is returned *)
  Theorem backfill_unique_ids fuel gfuel vk from_ids limit ps evs le ps' :
    request_backfill PS sig_ok allowed pcall sp_ids sp_state topo servers_at backfill
                     fuel gfuel vk from_ids limit ps = (BfResult evs le, ps') ->
    NoDup (map eid evs) /\ (from_ids = [] -> evs = [] /\ le = false /\ ps' = ps).
  Proof.
    unfold request_backfill. destruct from_ids as [|first r].
    - intros [= <- <- <-]. split; [constructor|auto].
    - destruct (servers_at ps first) as [ps1 servers]. intros H. split; [|discriminate].
      eapply bf_loop_unique; eauto. split; [intros e []|constructor].
  Qed.
End BackfillProofs.
