(* C14 proofs, part 3: VerifyAuthRulesAtState and LoadAndVerify, for arbitrary (stateful)
   providers. *)
From Coq Require Import List NArith Bool Lia PeanoNat.
From Verif Require Import Fed.Filters Fed.AuthChain Fed.Load Fed.Spec.
Import ListNotations.
Open Scope N_scope.

Section RasProofs.
  Variable PS : Type.
  Variable allowed : event -> list event -> bool.
  Variable pcall : PS -> list N -> PS * panswer.
  Variable sp_ids : PS -> event -> PS * option (list N).
  Variable sp_state : PS -> event -> list N -> PS * option emap.

  (* without a provider the loop just collects what the table has *)
  Lemma gather_noprov_ok : forall aes fuel acc m ps,
    (length aes < fuel)%nat ->
    forallb is_state (lookup_list m aes) = true ->
    gather PS pcall fuel false aes acc m ps = (GDone, acc ++ lookup_list m aes, m, ps).
  Proof.
    induction aes as [|x rest IH]; intros fuel acc m ps Hf H;
      (destruct fuel as [|f]; [simpl in Hf; lia|]); simpl.
    - now rewrite app_nil_r.
    - simpl in Hf. unfold lookup_list in H. simpl in H.
      destruct (mget m x) as [[a|]|] eqn:Hm; simpl in H.
      + apply andb_true_iff in H. destruct H as [Ha Hr]. rewrite Ha.
        rewrite (IH f _ m ps) by (auto; lia). unfold lookup_list. simpl. simpl.
        now rewrite <- app_assoc.
      + rewrite (IH f _ m ps) by (auto; lia). unfold lookup_list. simpl. reflexivity.
      + rewrite (IH f _ m ps) by (auto; lia). unfold lookup_list. simpl. reflexivity.
  Qed.

  Lemma gather_noprov_err : forall aes fuel acc m ps,
    (length aes < fuel)%nat ->
    forallb is_state (lookup_list m aes) = false ->
    exists acc', gather PS pcall fuel false aes acc m ps = (GAddErr, acc', m, ps).
  Proof.
    induction aes as [|x rest IH]; intros fuel acc m ps Hf H;
      (destruct fuel as [|f]; [simpl in Hf; lia|]); simpl.
    - discriminate.
    - simpl in Hf. unfold lookup_list in H. simpl in H.
      destruct (mget m x) as [[a|]|] eqn:Hm; simpl in H.
      + destruct (is_state a) eqn:Ha; simpl in H; [apply IH; auto; lia | eauto].
      + apply IH; auto; lia.
      + apply IH; auto; lia.
  Qed.

  Theorem vras_accept_iff e av ps :
    fst (verify_auth_rules_at_state PS allowed pcall sp_ids sp_state e av ps) = RasOk <->
    exists ps1 ids, sp_ids ps e = (ps1, Some ids) /\
      ((av = true /\ forallb (fun a => mem_N a ids) (auth_ids e) = true) \/
       exists ps2 m, sp_state ps1 e ids = (ps2, Some m) /\
         forallb is_state (lookup_list m (auth_ids e)) = true /\
         allowed e (lookup_list m (auth_ids e)) = true).
  Proof.
    unfold verify_auth_rules_at_state.
    destruct (sp_ids ps e) as [ps1 [ids|]] eqn:Hids; simpl.
    2:{ split; [discriminate|]. intros (? & ? & [=] & _). }
    destruct (av && forallb (fun a => mem_N a ids) (auth_ids e)) eqn:Hav.
    - simpl. split; auto. intros _. exists ps1, ids. split; auto. left.
      now apply andb_true_iff in Hav.
    - destruct (sp_state ps1 e ids) as [ps2 [m|]] eqn:Hst; simpl.
      2:{ split; [discriminate|]. intros (? & ? & [= <- <-] & [[-> H]|(? & ? & H & _)]).
          - simpl in Hav. congruence.
          - rewrite Hst in H. discriminate. }
      unfold check_allowed.
      destruct (forallb is_state (lookup_list m (auth_ids e))) eqn:Hall.
      + rewrite (gather_noprov_ok _ _ [] m ps2 (Nat.lt_succ_diag_r _) Hall). simpl.
        destruct (allowed e (lookup_list m (auth_ids e))) eqn:Ha; simpl.
        * split; auto. intros _. exists ps1, ids. split; auto. right. exists ps2, m. auto.
        * split; [discriminate|]. intros (? & ? & [= <- <-] & [[-> H]|(? & ? & H & _ & H2)]).
          -- simpl in Hav. congruence.
          -- rewrite Hst in H. injection H as <- <-. congruence.
      + destruct (gather_noprov_err _ _ [] m ps2 (Nat.lt_succ_diag_r _) Hall) as (acc' & ->). simpl.
        split; [discriminate|]. intros (? & ? & [= <- <-] & [[-> H]|(? & ? & H & H2 & _)]).
        * simpl in Hav. congruence.
        * rewrite Hst in H. injection H as <- <-. congruence.
  Qed.
End RasProofs.

Section LoadProofs.
  Variable PS : Type.
  Variable sig_ok : event -> bool.
  Variable allowed : event -> list event -> bool.
  Variable pcall : PS -> list N -> PS * panswer.
  Variable sp_ids : PS -> event -> PS * option (list N).
  Variable sp_state : PS -> event -> list N -> PS * option emap.
  Variable topo : list event -> list event.
  Hypothesis topo_length : forall l, length (topo l) = length l.

  Variables fuel gfuel : nat.

  Let chain := verify_event_auth_chain PS allowed pcall fuel gfuel.
  Let ras e := verify_auth_rules_at_state PS allowed pcall sp_ids sp_state e true.

  (* the class of an event is the first check it fails; ps is the providers' state before the
     event is looked at, ps1 after *)
  Definition class_spec (e : event) (ps : PS) (c : lclass) (ps1 : PS) : Prop :=
    (sig_ok e = false /\ c = LSig /\ ps1 = ps) \/
    (sig_ok e = true /\
     ((fst (chain e ps) <> ChainOk /\ c = LAuthChain /\ ps1 = snd (chain e ps)) \/
      (fst (chain e ps) = ChainOk /\ ps1 = snd (ras e (snd (chain e ps))) /\
       ((fst (ras e (snd (chain e ps))) = RasOk /\ c = LOk) \/
        (fst (ras e (snd (chain e ps))) <> RasOk /\ c = LAuthRules))))).

  Inductive classified : list event -> PS -> list (option event * lclass) -> PS -> Prop :=
  | cl_nil ps : classified [] ps [] ps
  | cl_cons e l ps c ps1 rs ps2 :
      class_spec e ps c ps1 -> classified l ps1 rs ps2 ->
      classified (e :: l) ps ((Some e, c) :: rs) ps2.

  Lemma classify_spec e ps c ps1 :
    classify PS sig_ok allowed pcall sp_ids sp_state fuel gfuel e ps = (Some c, ps1) ->
    class_spec e ps c ps1.
  Proof.
    unfold classify, class_spec. fold (chain e ps).
    destruct (sig_ok e); simpl.
    2:{ intros [= <- <-]. left. auto. }
    destruct (chain e ps) as [r psa] eqn:Hc. simpl.
    destruct r; try (intros [= <- <-]; right; split; auto; left; repeat split; auto; discriminate).
    - fold (ras e psa). destruct (ras e psa) as [r2 psb] eqn:Hr. simpl.
      destruct r2; intros [= <- <-]; right; (split; [reflexivity|]); right;
        (split; [reflexivity|]); (split; [reflexivity|]).
      + left. split; reflexivity.
      + right. split; [discriminate|reflexivity].
      + right. split; [discriminate|reflexivity].
      + right. split; [discriminate|reflexivity].
  Qed.

  Lemma classify_all_spec : forall l ps rs ps',
    classify_all PS sig_ok allowed pcall sp_ids sp_state fuel gfuel l ps = (Some rs, ps') ->
    classified l ps rs ps'.
  Proof.
    induction l as [|e l IH]; intros ps rs ps'; simpl.
    - intros [= <- <-]. constructor.
    - destruct (classify _ _ _ _ _ _ _ _ e ps) as [[c|] ps1] eqn:Hc; [|discriminate].
      destruct (classify_all _ _ _ _ _ _ _ _ l ps1) as [[rs'|] ps2] eqn:Hl; [|discriminate].
      intros [= <- <-]. econstructor; eauto using classify_spec.
  Qed.

  Lemma classified_fst l ps rs ps' : classified l ps rs ps' -> map fst rs = map Some l.
  Proof. induction 1; simpl; congruence. Qed.

  Lemma loaded_from_length seen l : (length (loaded_from seen l) <= length l)%nat.
  Proof.
    revert seen. induction l as [|p l IH]; intros seen; simpl; auto.
    destruct p as [e|e|]; try (specialize (IH seen); lia).
    destruct (mem_N (eid e) seen); [specialize (IH seen) | specialize (IH (eid e :: seen)); simpl]; lia.
  Qed.

  (* one result per input; the sorted loadable events first, each with the class of its first
     failing check; then one error entry for every input that could not be loaded *)
  Theorem load_shape vk raws ps rs ps' :
    load_and_verify PS sig_ok allowed pcall sp_ids sp_state topo fuel gfuel vk raws ps = (LoadResults rs, ps') ->
    length rs = length raws /\
    exists rs1, rs = rs1 ++ repeat (None, LParse) (length raws - length (loaded raws)) /\
                classified (topo (loaded raws)) ps rs1 ps'.
  Proof.
    unfold load_and_verify. destruct vk; simpl; [|discriminate].
    destruct (classify_all _ _ _ _ _ _ _ _ (topo (loaded raws)) ps) as [[rs1|] ps1] eqn:Hc; [|discriminate].
    intros [= <- <-]. apply classify_all_spec in Hc.
    split.
    - rewrite app_length, repeat_length. unfold n_errors.
      pose proof (classified_fst _ _ _ _ Hc) as Hf.
      apply (f_equal (@length _)) in Hf. rewrite !map_length, topo_length in Hf.
      pose proof (loaded_from_length [] raws). unfold loaded in *. lia.
    - exists rs1. split; auto.
  Qed.
End LoadProofs.
