(* The Content-Type gate of readHTTPRequest: mime.ParseMediaType (Go 1.23) returns no error and
   the media type application/json.  ASCII input assumed for the case folding.  Model only. *)
From Verif Require Import Lib.Bytes Fed.Utf8C13.
Open Scope N_scope.

(* mime.isTSpecial: the tspecials of RFC 2045 *)
Definition is_tspecial (c : N) : bool :=
  existsb (fun x => x =? c) [40; 41; 60; 62; 64; 44; 59; 58; 92; 34; 47; 91; 93; 63; 61].
Definition is_token_char (c : N) : bool := (32 <? c) && (c <? 127) && negb (is_tspecial c).

(* consumeToken *)
Fixpoint consume_token (s : bytes) : bytes * bytes :=
  match s with
  | c :: r => if is_token_char c then let (t, r') := consume_token r in (c :: t, r') else ([], s)
  | [] => ([], [])
  end.

(* the quoted-string branch of consumeValue, after the opening quote; None = no value *)
Fixpoint consume_quoted (s : bytes) (acc : bytes) : option (bytes * bytes) :=
  match s with
  | [] => None
  | c :: r =>
      if c =? 34 then Some (rev acc, r)
      else if c =? 92 then
        match r with
        | c2 :: r2 => if is_tspecial c2 then consume_quoted r2 (c2 :: acc)
                      else consume_quoted r (c :: acc)
        | [] => consume_quoted r (c :: acc)
        end
      else if (c =? 13) || (c =? 10) then None
      else consume_quoted r (c :: acc)
  end.

(* consumeValue: (value, rest, consumed something) *)
Definition consume_value (s : bytes) : bytes * bytes * bool :=
  match s with
  | [] => ([], [], false)
  | c :: r =>
      if c =? 34 then
        match consume_quoted r [] with
        | Some (v, rest) => (v, rest, true)
        | None => ([], s, false)
        end
      else let (t, rest) := consume_token s in
           (t, rest, match t with [] => false | _ => true end)
  end.

(* consumeMediaParam: None = the empty key *)
Definition consume_media_param (v : bytes) : option (bytes * bytes * bytes) :=
  match trim_left v with
  | c :: rest =>
      if negb (c =? 59) then None else
      let (param, rest1) := consume_token (trim_left rest) in
      match param with
      | [] => None
      | _ =>
          match trim_left rest1 with
          | e :: rest2 =>
              if negb (e =? 61) then None else
              let '(value, rest3, moved) := consume_value (trim_left rest2) in
              match value, moved with
              | [], false => None
              | _, _ => Some (to_lower param, value, rest3)
              end
          | [] => None
          end
      end
  | [] => None
  end.

Fixpoint assoc_b (k : bytes) (m : list (bytes * bytes)) : option bytes :=
  match m with
  | [] => None
  | (k', v) :: m' => if bytes_eqb k k' then Some v else assoc_b k m'
  end.

(* the parameter loop: true = no error *)
Fixpoint params_ok (fuel : nat) (v : bytes) (seen : list (bytes * bytes)) : bool :=
  match fuel with
  | O => false
  | S f =>
      match trim_left v with
      | [] => true
      | v1 =>
          match consume_media_param v1 with
          | None => bytes_eqb (trim_space v1) [59]
          | Some (key, value, rest) =>
              match assoc_b key seen with
              | Some old => if bytes_eqb old value then params_ok f rest ((key, value) :: seen) else false
              | None => params_ok f rest ((key, value) :: seen)
              end
          end
      end
  end.

Definition s_application_json : bytes := bs "application/json".

(* err == nil && mimetype == application/json for mime.ParseMediaType(v) *)
Definition is_json_content_type (v : bytes) : bool :=
  let (base, rest) :=
    match split_at 59 v with
    | Some (b, r) => (b, 59 :: r)
    | None => (v, [])
    end in
  bytes_eqb (trim_space (to_lower base)) s_application_json
  && params_ok (S (length rest)) rest [].
