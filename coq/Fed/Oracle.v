(* C14 specification oracles: decide from the scenario tables and the implementation's
   observable whether the property text holds, using only Fed/Spec.v (no lookup table, no retry
   loop, no stack). Applicable when the scripted event provider is a function of the requested
   ID answering with an event of that ID, nothing, or an error; otherwise the answer is n/a. *)
From Coq Require Import List NArith ZArith Bool.
From Verif Require Import Lib.Bytes Json.Ast Json.Parse Fed.Filters Fed.Load Fed.Spec Fed.Instance.
Import ListNotations.
Open Scope N_scope.

(* the provider function of a script, if the script is one *)
Definition script_resp (U : list event) (id : N) (answers : list pans) : option presp :=
  match answers with
  | [] => Some RNone
  | [AError] => Some RErr
  | [AEvents []] => Some RNone
  | [AEvents [u]] => let a := ev_of U u in if eid a =? id then Some (REv a) else None
  | _ => None
  end.

Fixpoint script_fun (U : list event) (sc : list (N * list pans)) : option (N -> presp) :=
  match sc with
  | [] => Some (fun _ => RNone)
  | (id, answers) :: r =>
      match script_resp U id answers, script_fun U r with
      | Some p, Some f => Some (fun x => if x =? id then p else f x)
      | _, _ => None
      end
  end.

(* For CheckStateResponse / CheckSendJoinResponse the answer to a request may also carry events
   that were not asked for (fix F82: they are remembered under their own IDs and otherwise
   ignored; an answer without the requested event counts as "nothing"). The specification's
   provider function picks the event with the requested ID. To stay a function of the ID the
   script must be consistent: an unrequested event d is the script's answer for its own ID as
   well, and no other event of the scenario has d's ID. *)
Definition pick_resp (U : list event) (id : N) (answers : list pans) : option presp :=
  match answers with
  | [] => Some RNone
  | [AError] => Some RErr
  | [AEvents us] =>
      match filter (fun a => eid a =? id) (evs_of U us) with
      | [] => Some RNone
      | [a] => Some (REv a)
      | _ => None
      end
  | _ => None
  end.

Fixpoint script_fun_lenient (U : list event) (sc : list (N * list pans)) : option (N -> presp) :=
  match sc with
  | [] => Some (fun _ => RNone)
  | (id, answers) :: r =>
      match pick_resp U id answers, script_fun_lenient U r with
      | Some p, Some f => Some (fun x => if x =? id then p else f x)
      | _, _ => None
      end
  end.

Definition extras_consistent (U : list event) (sc : list (N * list pans)) (f : N -> presp) : bool :=
  forallb (fun entry =>
    match snd entry with
    | [AEvents us] =>
        forallb (fun d =>
          (eid d =? fst entry) ||
          (match f (eid d) with REv d' => uid d' =? uid d | _ => false end
           && forallb (fun u => negb (eid u =? eid d) || (uid u =? uid d)) U))
          (evs_of U us)
    | _ => true
    end) sc.

Definition script_fun_extras (U : list event) (sc : list (N * list pans)) : option (N -> presp) :=
  match script_fun_lenient U sc with
  | Some f => if extras_consistent U sc f then Some f else None
  | None => None
  end.

Definition tuple_eqb (a b : event) : bool := same_tuple a b.

Fixpoint has_dup_tuple (l : list event) : bool :=
  match l with
  | [] => false
  | e :: r => existsb (tuple_eqb e) r || has_dup_tuple r
  end.

(* text before " log=" *)
Fixpoint before_log (s : bytes) : bytes :=
  match s with
  | [] => []
  | c :: r => if is_prefix (bs " log=") s then [] else c :: before_log r
  end.

Definition verdict (want got : bytes) : bytes :=
  if bytes_eqb want got then bs "ok" else bs "FAIL want=" ++ want ++ bs " got=" ++ got.

Definition with_scen_prop (args : list bytes) (f : scen -> bool -> bytes -> bytes) : bytes :=
  match args with
  | [_; t; obs] =>
      match parse_json t with
      | Some j =>
          let s := dec_scen j in
          let a := f s false (before_log obs) in
          let b := f s true (before_log obs) in
          if bytes_eqb a b then a else bs "MISSING-TABLE-ENTRY " ++ a ++ bs " / " ++ b
      | None => bs "badscenario"
      end
  | _ => bs "badargs"
  end.

Definition spec_state (s : scen) (alt : bool) (prov : N -> presp) : option (list event * list event) :=
  let U := s_univ s in
  let A := untrusted_events (dec_items U (jfield "A" (s_json s))) in
  let S := untrusted_events (dec_items U (jfield "S" (s_json s))) in
  let all := A ++ S in
  if existsb (fun e => negb (is_state e)) all || has_dup_tuple S || negb (one_room all) then None
  else
    let P := eff_prov (s_hasprov s) prov in
    let g := good_id (sig_inst s) (allowed_inst s alt) P all in
    Some (filter g A, filter g S).

Definition prop_csr (args : list bytes) : bytes :=
  with_scen_prop args (fun s alt obs =>
    match script_fun_extras (s_univ s) (p_script (init_ps s)) with
    | None => bs "n/a"
    | Some prov =>
        match spec_state s alt prov with
        | None => verdict (bs "err") obs
        | Some (a, st) => verdict (bs "ok a=" ++ p_ids a ++ bs " s=" ++ p_ids st) obs
        end
    end).

Definition prop_sj (args : list bytes) : bytes :=
  with_scen_prop args (fun s alt obs =>
    match script_fun_extras (s_univ s) (p_script (init_ps s)) with
    | None => bs "n/a"
    | Some prov =>
        match spec_state s alt prov with
        | None => verdict (bs "err") obs
        | Some (a, st) =>
            let join := ev_of (s_univ s) (jN (jfield "J" (s_json s))) in
            let P := eff_prov (s_hasprov s) prov in
            if allowed_by (allowed_inst s alt) join (join_auth_events P a st join) && allowed_inst s alt join st
            then verdict (bs "ok a=" ++ p_ids a ++ bs " s=" ++ p_ids st) obs
            else verdict (bs "err") obs
        end
    end).

(* the events reachable from root through provider-supplied auth events: n rounds of closure *)
Definition add_new (acc : list event) (a : event) : list event :=
  if existsb (fun b => uid b =? uid a) acc then acc else acc ++ [a].

Definition reach_round (prov : N -> presp) (root : event) (S : list event) : list event :=
  fold_left add_new
    (flat_map (fun c => flat_map (fun x => if x =? eid root then [] else resp_events (prov x))
                                 (auth_ids c)) S) S.

Fixpoint reach_n (n : nat) (prov : N -> presp) (root : event) (S : list event) : list event :=
  match n with O => S | S k => reach_n k prov root (reach_round prov root S) end.

Definition chain_ok_b (allowed : event -> list event -> bool) (prov : N -> presp) (root c : event) : bool :=
  forallb (fun x => (x =? eid root) || negb (is_err (prov x))) (auth_ids c)
  && forallb is_state (chain_auth_list prov root c)
  && allowed_by allowed c (chain_auth_list prov root c).

(* one round per event of the universe reaches everything reachable *)
Definition prop_chain (args : list bytes) : bytes :=
  with_scen_prop args (fun s alt obs =>
    match script_fun (s_univ s) (p_script (init_ps s)) with
    | None => bs "n/a"
    | Some prov =>
        let root := ev_of (s_univ s) (jN (jfield "E" (s_json s))) in
        let R := reach_n (S (length (s_univ s))) prov root [root] in
        if forallb (chain_ok_b (allowed_inst s alt) prov root) R
        then verdict (bs "ok") obs else verdict (bs "err") obs
    end).

(* VerifyAuthRulesAtState per the property text, from the state provider's script: allowed by
   the state before the event (or, if permitted, all its auth events belong to that state) *)
Definition vras_want (s : scen) (alt : bool) (e : event) (av : bool) : bool :=
  match find_sp (jlist (jfield "sp" (s_json s))) (eid e) with
  | None => false
  | Some j =>
      match jnth 1 j with
      | JArr ids =>
          (av && forallb (fun a => mem_N a (map jN ids)) (auth_ids e)) ||
          match jnth 2 j with
          | JArr l =>
              let st := state_events_of (dec_state_map (s_univ s) l) in
              tuples_distinct st && allowed_inst s alt e st
          | _ => false
          end
      | _ => false
      end
  end.

Definition prop_vras (args : list bytes) : bytes :=
  with_scen_prop args (fun s alt obs =>
    let e := ev_of (s_univ s) (jN (jfield "E" (s_json s))) in
    let av := jN (jfield "av" (s_json s)) =? 1 in
    verdict (if vras_want s alt e av then bs "ok" else bs "err") obs).

(* ---------- LoadAndVerify: the class of an event is the FIRST check it fails ----------
   signature, then auth chain (every reachable event passes), then auth rules at the state before
   it; decided per event from the tables and the (stationary) providers, independently of the
   order in which the implementation runs and overwrites its checks *)
Definition spec_class (s : scen) (alt : bool) (prov : N -> presp) (e : event) : lclass :=
  if negb (sig_inst s e) then LSig
  else if negb (forallb (chain_ok_b (allowed_inst s alt) prov e)
                        (reach_n (S (length (s_univ s))) prov e [e])) then LAuthChain
  else if negb (vras_want s alt e true) then LAuthRules
  else LOk.

Definition spec_results (s : scen) (alt : bool) (prov : N -> presp) (raws : list parsed) : list bytes :=
  map (fun e => pN (eid e) ++ bs ":" ++ p_class (spec_class s alt prov e)) (topo_inst s alt (loaded raws))
  ++ repeat (bs "-:parse") (n_errors raws).

Definition prop_load (args : list bytes) : bytes :=
  with_scen_prop args (fun s alt obs =>
    match script_fun (s_univ s) (p_script (init_ps s)) with
    | None => bs "n/a"
    | Some prov =>
        if negb (jN (jfield "vk" (s_json s)) =? 1) then verdict (bs "err") obs
        else verdict (bs "ok " ++ join_bytes (bs ",")
                        (spec_results s alt prov (dec_items (s_univ s) (jfield "R" (s_json s))))) obs
    end).

(* ---------- RequestBackfill: an event ID is returned iff some server's answer, in server order
   and while fewer than `limit` events have been collected, contains a copy whose class is "no
   error" or "signature error only"; the first such copy counts ---------- *)
Fixpoint spec_bf_take (s : scen) (alt : bool) (prov : N -> presp) (evs : list event)
         (got : list event) : list event :=
  match evs with
  | [] => got
  | e :: r =>
      let keep := match spec_class s alt prov e with LOk | LSig => true | _ => false end in
      if keep && (eroom e =? jN (jfield "room" (s_json s))) && negb (existsb (fun g => eid g =? eid e) got)
      then spec_bf_take s alt prov r (got ++ [e]) else spec_bf_take s alt prov r got
  end.

Fixpoint spec_bf (s : scen) (alt : bool) (prov : N -> presp) (vk : bool) (limit : Z)
         (servers : list N) (got : list event) (err : bool) : list event * bool :=
  match servers with
  | [] => (got, err)
  | srv :: rest =>
      if (limit <=? Z.of_nat (length got))%Z then (got, err) else
      match find_sp (jlist (jfield "bf" (s_json s))) srv with
      | Some j =>
          match jnth 1 j with
          | JArr l =>
              if vk then
                spec_bf s alt prov vk limit rest
                        (spec_bf_take s alt prov (loaded (map (dec_item (s_univ s)) l)) got) err
              else spec_bf s alt prov vk limit rest got true
          | _ => spec_bf s alt prov vk limit rest got true
          end
      | None => spec_bf s alt prov vk limit rest got true
      end
  end.

Definition prop_bf (args : list bytes) : bytes :=
  with_scen_prop args (fun s alt obs =>
    match script_fun (s_univ s) (p_script (init_ps s)) with
    | None => bs "n/a"
    | Some prov =>
        let '(got, err) :=
          match jNs (jfield "from" (s_json s)) with
          | [] => ([], false)
          | _ => spec_bf s alt prov (jN (jfield "vk" (s_json s)) =? 1) (jZ (jfield "limit" (s_json s)))
                         (jNs (jfield "servers" (s_json s))) [] false
          end in
        let v := verdict (bs "ids=" ++ pNs "," (sort_N (map eid got)) ++ bs " n=" ++ pN (N.of_nat (length got))
                 ++ (if err then bs " lasterr" else bs " noerr")) obs in
        (* Finding F86 (recorded, not repaired): the code deliberately passes on events whose
           signature check failed, and LoadAndVerify never ran the auth checks on them. The
           property's title asks that only events passing the signature AND auth checks leave. *)
        let unsigned := filter (fun e => match spec_class s alt prov e with LSig => true | _ => false end) got in
        match unsigned with
        | [] => v
        | _ => if bytes_eqb v (bs "ok")
               then bs "FAIL-F86 returned although the signature check failed (never auth-checked): ids="
                    ++ pNs "," (sort_N (map eid unsigned))
               else v
        end
    end).
