(* fclient/request.go: FederationRequest.fields, Sign, HTTPRequest, readHTTPRequest,
   VerifyHTTPRequest, with the KeyRing (keyring.go: VerifyJSONs, checkUsingKeys, WasValidAt,
   StrictValiditySignatureCheck) and VerifyJSON (signing.go) as the JSONVerifier.

   The signature scheme is a parameter (Section variables): the theorems of Props/C13.v assume an
   ideal scheme, the executable instance of Run/RunC13.v is the table of signatures that were
   really made.  net/url is a parameter as well (url_request_uri d u = what
   url.Parse(matrix://d ++ u).RequestURI() returns).  Model only, no proofs. *)
From Verif Require Import Lib.Bytes Json.Ast Json.Parse Json.Print.
From Verif Require Import Fed.Utf8C13 Fed.XMatrix Fed.ServerNameC13 Fed.MediaTypeC13 Fed.Base64C13.
Open Scope N_scope.

Definition is_nil {A} (l : list A) : bool := match l with [] => true | _ => false end.
Definition is_some {A} (o : option A) : bool := match o with Some _ => true | None => false end.

(* the request as FederationRequest.fields holds it; signatures: those of the origin *)
Record fedreq := {
  f_content : option bytes;          (* raw JSON text, None = nil RawJSON *)
  f_dest : bytes;
  f_method : bytes;
  f_origin : bytes;
  f_uri : bytes;
  f_sigs : list (bytes * bytes)      (* key ID, signature text (base64) *)
}.

Definition k_content : bytes := bs "content".
Definition k_destination : bytes := bs "destination".
Definition k_method : bytes := bs "method".
Definition k_origin : bytes := bs "origin".
Definition k_uri : bytes := bs "uri".

(* the JSON object that is signed (json.Marshal of fields without signatures): content is left
   out when there is none; Go strings go through the JSON encoder (to_valid_utf8) *)
Definition fields_obj (c : option json) (d m o u : bytes) : json :=
  JObj ((match c with Some j => [(k_content, j)] | None => [] end)
        ++ [(k_destination, JStr (to_valid_utf8 d)); (k_method, JStr (to_valid_utf8 m));
            (k_origin, JStr (to_valid_utf8 o)); (k_uri, JStr (to_valid_utf8 u))]).

(* the bytes that are signed / verified; None = json.Marshal fails (content is not JSON) *)
Definition signing_bytes (c : option bytes) (d m o u : bytes) : option bytes :=
  match c with
  | None => Some (canon_print (fields_obj None d m o u))
  | Some raw =>
      match parse_json raw with
      | Some j => Some (canon_print (fields_obj (Some j) d m o u))
      | None => None
      end
  end.

(* NewFederationRequest (strings.ToUpper on the method; ASCII assumed) and SetContent
   (json.Marshal of the raw JSON: an error when it is not JSON; the compaction it applies is not
   modelled, the value is the same and Sign replaces the text by its canonical form) *)
Definition upper_byte (c : N) : N := if in_range 97 122 c then c - 32 else c.
Definition new_federation_request (method origin dest uri : bytes) : fedreq :=
  {| f_content := None; f_dest := dest; f_method := map upper_byte method; f_origin := origin;
     f_uri := uri; f_sigs := [] |}.
Definition set_content (r : fedreq) (raw : bytes) : option fedreq :=
  match f_content r, f_sigs r, parse_json raw with
  | None, [], Some _ =>
      Some {| f_content := Some raw; f_dest := f_dest r; f_method := f_method r;
              f_origin := f_origin r; f_uri := f_uri r; f_sigs := [] |}
  | _, _, _ => None
  end.

(* httpguts.IsTokenRune: what net/http accepts in a method *)
Definition is_tchar (c : N) : bool :=
  in_range 48 57 c || in_range 65 90 c || in_range 97 122 c
  || existsb (fun x => x =? c) [33; 35; 36; 37; 38; 39; 42; 43; 45; 46; 94; 95; 96; 124; 126].

(* http.NewRequest: the empty method means GET *)
Definition http_method (m : bytes) : option bytes :=
  match m with
  | [] => Some (bs "GET")
  | _ => if forallb is_tchar m then Some m else None
  end.

(* what HTTPRequest hands to net/http *)
Record httpreq := {
  h_method : bytes;
  h_target : bytes;                  (* URL.RequestURI() *)
  h_ctype : option bytes;
  h_body : option bytes;
  h_auth : list bytes                (* Authorization header values *)
}.

(* what the receiving handler sees *)
Record rawreq := {
  q_method : bytes;
  q_uri : bytes;                     (* req.URL.RequestURI() *)
  q_ctype : bytes;                   (* Header.Get(Content-Type), empty when absent *)
  q_body : bytes;
  q_auths : list bytes               (* Header[Authorization] *)
}.

Definition s_ed25519 : bytes := bs "ed25519:".
Definition s_app_json : bytes := bs "application/json".
Definition seven_days_ms : N := 604800000.

(* StrictValiditySignatureCheck; realnow = the clock it reads *)
Definition strict_validity (at_ts valid_until realnow : N) : bool :=
  if valid_until =? 0 then false
  else negb (N.min valid_until (realnow + seven_days_ms) <? at_ts).

(* readHTTPRequest: the loop over the Authorization headers *)
Definition hstate := (bytes * bytes * list (bytes * bytes))%type.
Definition header_step (st : option hstate) (h : bytes) : option hstate :=
  match st with
  | None => None
  | Some (o, d, sigs) =>
      let (scheme, x) := parse_authorization h in
      if negb (bytes_eqb scheme s_xmatrix) then st
      else if is_nil (x_origin x) || is_nil (x_key x) || is_nil (x_sig x) then None
      else if negb (is_nil o) && negb (bytes_eqb o (x_origin x)) then None
      else Some (x_origin x, x_dest x, assoc_set (x_key x) (x_sig x) sigs)
  end.

(* readHTTPRequest (with the repair: method and URI must be valid UTF-8) *)
Definition read_http_request (q : rawreq) : option fedreq :=
  if negb (utf8_valid (q_method q) && utf8_valid (q_uri q)) then None else
  let content :=
    match q_body q with
    | [] => Some None
    | b => if is_json_content_type (q_ctype q) && utf8_valid b then Some (Some b) else None
    end in
  match content, fold_left header_step (q_auths q) (Some ([], [], [])) with
  | Some c, Some (o, d, sigs) =>
      Some {| f_content := c; f_dest := d; f_method := q_method q; f_origin := o;
              f_uri := q_uri q; f_sigs := sigs |}
  | _, _ => None
  end.

(* json.Marshal(fields) copies the bytes of the body: it is valid UTF-8 iff the body is (the
   string members go through the JSON encoder) *)
Definition content_not_utf8 (c : option bytes) : bool :=
  match c with Some raw => negb (utf8_valid raw) | None => false end.

Section Crypto.
  Variables skT pkT sigT : Type.
  Variable sign : skT -> bytes -> sigT.
  Variable verify : pkT -> bytes -> sigT -> bool.
  Variable sig_wire : sigT -> bytes.            (* the signature as a byte string *)
  Variable sig_unwire : bytes -> option sigT.   (* None: not of signature length *)
  Variable url_request_uri : bytes -> bytes -> option bytes.

  (* FederationRequest.Sign (SignJSON inside): None = error *)
  Definition fr_sign (r : fedreq) (server keyid : bytes) (sk : skT) : option fedreq :=
    if negb (is_nil (f_origin r)) && negb (bytes_eqb (f_origin r) server) then None
    else if negb (forallb (fun kv => is_some (b64_decode (snd kv))) (f_sigs r)) then None
    else if content_not_utf8 (f_content r) then None   (* SignJSON: the text to sign must be UTF-8 *)
    else
      match signing_bytes (f_content r) (f_dest r) (f_method r) server (f_uri r) with
      | None => None
      | Some msg =>
          let old := map (fun kv => (fst kv, match b64_decode (snd kv) with
                                             | Some b => b64_encode b
                                             | None => snd kv
                                             end)) (f_sigs r) in
          Some {| f_content := match f_content r with
                               | Some raw => canonical raw
                               | None => None
                               end;
                  f_dest := to_valid_utf8 (f_dest r);
                  f_method := to_valid_utf8 (f_method r);
                  f_origin := to_valid_utf8 server;
                  f_uri := to_valid_utf8 (f_uri r);
                  f_sigs := assoc_set (to_valid_utf8 keyid) (b64_encode (sig_wire (sign sk msg))) old |}
      end.

  (* FederationRequest.HTTPRequest: None = error *)
  Definition http_request (r : fedreq) : option httpreq :=
    match http_method (f_method r), url_request_uri (f_dest r) (f_uri r) with
    | Some m, Some u' =>
        if negb (bytes_eqb u' (f_uri r)) then None
        else if negb (is_nil (f_sigs r))
                && negb (is_safe_in_quoted (f_origin r)
                         && forallb (fun kv => is_safe_in_quoted (fst kv)) (f_sigs r)
                         && is_safe_in_quoted (f_dest r)) then None
        else Some {| h_method := m; h_target := u';
                     h_ctype := match f_content r with Some _ => Some s_app_json | None => None end;
                     h_body := f_content r;
                     h_auth := map (fun kv => emit_auth (f_origin r) (fst kv) (snd kv) (f_dest r))
                                   (f_sigs r) |}
    | _, _ => None
    end.

  (* the request line, headers and body as the server hands them to the handler *)
  Definition deliver (h : httpreq) : rawreq :=
    {| q_method := h_method h; q_uri := h_target h;
       q_ctype := match h_ctype h with Some c => c | None => [] end;
       q_body := match h_body h with Some b => b | None => [] end;
       q_auths := h_auth h |}.

  (* ---- the key ring ---- *)
  Record keyent := {
    k_server : bytes; k_id : bytes; k_pub : pkT;
    k_expired : N;        (* ExpiredTS, 0 = PublicKeyNotExpired *)
    k_valid_until : N     (* ValidUntilTS, 0 = PublicKeyNotValid *)
  }.

  (* PublicKeyLookupResult.WasValidAt with StrictValiditySignatureCheck *)
  Definition was_valid_at (e : keyent) (at_ts realnow : N) : bool :=
    if negb (k_expired e =? 0) then at_ts <? k_expired e
    else strict_validity at_ts (k_valid_until e) realnow.

  Fixpoint lookup_key (store : list keyent) (server id : bytes) : option keyent :=
    match store with
    | [] => None
    | e :: store' => if bytes_eqb (k_server e) server && bytes_eqb (k_id e) id then Some e
                     else lookup_key store' server id
    end.

  (* VerifyJSON for one key ID: only that entry of the signatures is decoded; it must be base64,
     have the length of a signature and verify over the canonical bytes *)
  Definition verify_json (msg : bytes) (sigs : list (bytes * bytes)) (id : bytes) (pk : pkT) : bool :=
    match assoc_first id sigs with
    | None => false
    | Some s =>
        match b64_decode s with
        | None => false
        | Some raw => match sig_unwire raw with
                      | Some sg => verify pk msg sg
                      | None => false
                      end
        end
    end.

  Inductive vres := VOk | VBad | VErr.

  (* KeyRing.VerifyJSONs for the one request VerifyHTTPRequest makes, key database only *)
  Definition keyring_verify (store : list keyent) (dberr : bool) (realnow : N)
             (origin : bytes) (at_ts : N) (msg : bytes) (sigs : list (bytes * bytes)) : vres :=
    match filter (is_prefix s_ed25519) (map fst sigs) with
    | [] => VBad
    | ids =>
        if dberr then VErr
        else if existsb (fun id =>
                           match lookup_key store origin id with
                           | Some e => was_valid_at e at_ts realnow && verify_json msg sigs id (k_pub e)
                           | None => false
                           end) ids
             then VOk else VBad
    end.

  Record receiver := {
    rc_default : bytes;                 (* the destination argument *)
    rc_locals : option (list bytes);    (* isLocalServerName: None = nil, Some l = membership in l *)
    rc_store : list keyent;
    rc_dberr : bool
  }.

  (* VerifyHTTPRequest: status code and, when 200, the request it returns *)
  Definition verify_http_request (rc : receiver) (now realnow : N) (q : rawreq) : N * option fedreq :=
    match read_http_request q with
    | None => (400, None)
    | Some r =>
        let dest_ok :=
          match f_dest r with
          | [] => true
          | d => match rc_locals rc with
                 | Some l => mem_bytes d l
                 | None => bytes_eqb (rc_default rc) d
                 end
          end in
        if negb dest_ok then (400, None) else
        let d := match f_dest r with [] => rc_default rc | d => d end in
        match signing_bytes (f_content r) d (f_method r) (f_origin r) (f_uri r) with
        | None => (400, None)
        | Some msg =>
            if is_nil (f_origin r) then (401, None)
            else if negb (valid_server_name (f_origin r)) then (400, None)
            else match keyring_verify (rc_store rc) (rc_dberr rc) realnow (f_origin r) now msg (f_sigs r) with
                 | VErr => (500, None)
                 | VBad => (401, None)
                 | VOk => (200, Some {| f_content := f_content r; f_dest := d; f_method := f_method r;
                                        f_origin := f_origin r; f_uri := f_uri r; f_sigs := f_sigs r |})
                 end
        end
    end.
End Crypto.

Arguments k_server {pkT} _.
Arguments k_id {pkT} _.
Arguments k_pub {pkT} _.
Arguments k_expired {pkT} _.
Arguments k_valid_until {pkT} _.
Arguments rc_default {pkT} _.
Arguments rc_locals {pkT} _.
Arguments rc_store {pkT} _.
Arguments rc_dberr {pkT} _.
