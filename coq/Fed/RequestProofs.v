(* Proofs about the model of fclient/request.go (Fed/Request.v). *)
From Verif Require Import Lib.Bytes Json.Ast Json.Parse Json.Print.
From Verif Require Import Json.Render Json.CanonFacts Json.ParseSound.
From Verif Require Import Fed.Utf8C13 Fed.XMatrix Fed.XMatrixProofs Fed.ServerNameC13 Fed.MediaTypeC13
     Fed.Base64C13 Fed.Request.
Open Scope N_scope.

(* ---------- ASCII strings are valid UTF-8 and survive the JSON encoder ---------- *)
Definition ascii (s : bytes) : bool := forallb (fun c => c <? 128) s.

Lemma utf8_valid_fuel_ascii s : forall f, (length s <= f)%nat -> ascii s = true -> utf8_valid_fuel f s = true.
Proof.
  induction s as [|c s IH]; intros f Hf H.
  - destruct f; reflexivity.
  - destruct f as [|f]; [simpl in Hf; lia|].
    unfold ascii in H. simpl in H. apply andb_true_iff in H as [Hc H].
    cbn [utf8_valid_fuel utf8_head]. rewrite Hc. cbn [drop]. apply IH; [simpl in Hf; lia|exact H].
Qed.

Lemma utf8_valid_ascii s : ascii s = true -> utf8_valid s = true.
Proof. intro H. apply utf8_valid_fuel_ascii; [lia|exact H]. Qed.

(* a valid string is not changed by the JSON encoder *)
Lemma utf8_head_le s n : utf8_head s = Some n -> (1 <= n <= length s)%nat.
Proof.
  unfold utf8_head. destruct s as [|c r]; [discriminate|].
  destruct (c <? 128); [intro H; inversion H; simpl; lia|].
  destruct (in_range 194 223 c).
  { destruct r as [|c1 r]; [discriminate|]. destruct (is_cont c1); [|discriminate].
    intro H; inversion H; simpl; lia. }
  destruct (in_range 224 239 c).
  { destruct r as [|c1 [|c2 r]]; try discriminate.
    destruct (in_range _ _ c1 && is_cont c2); [|discriminate]. intro H; inversion H; simpl; lia. }
  destruct (in_range 240 244 c); [|discriminate].
  destruct r as [|c1 [|c2 [|c3 r]]]; try discriminate.
  destruct (in_range _ _ c1 && is_cont c2 && is_cont c3); [|discriminate]. intro H; inversion H; simpl; lia.
Qed.

Lemma firstn_drop n (s : bytes) : firstn n s ++ drop n s = s.
Proof.
  revert s; induction n as [|n IH]; intros s; [reflexivity|].
  destruct s as [|c s]; [reflexivity|]. simpl. rewrite IH. reflexivity.
Qed.

Lemma drop_length n (s : bytes) : (n <= length s)%nat -> length (drop n s) = (length s - n)%nat.
Proof.
  revert s; induction n as [|n IH]; intros s H; [simpl; lia|].
  destruct s as [|c s]; [simpl in H; lia|]. simpl. apply IH. simpl in H. lia.
Qed.

Lemma to_valid_fuel_id f : forall s, (length s <= f)%nat ->
  utf8_valid_fuel f s = true -> to_valid_utf8_fuel f s = s.
Proof.
  induction f as [|f IH]; intros s Hf H.
  - destruct s; [reflexivity|simpl in Hf; lia].
  - destruct s as [|c r]; [reflexivity|].
    cbn [utf8_valid_fuel] in H. cbn [to_valid_utf8_fuel].
    destruct (utf8_head (c :: r)) as [n|] eqn:E; [|discriminate].
    pose proof (utf8_head_le _ _ E) as Hn.
    assert (Hl : (length (drop n (c :: r)) <= f)%nat).
    { rewrite drop_length; [|apply Hn]. cbn [length] in *. lia. }
    rewrite IH; [apply firstn_drop|exact Hl|exact H].
Qed.

Lemma to_valid_utf8_id s : utf8_valid s = true -> to_valid_utf8 s = s.
Proof. intro H. apply to_valid_fuel_id; [lia|exact H]. Qed.

Lemma plain_ascii s : plain s = true -> ascii s = true.
Proof.
  unfold plain, ascii. rewrite !forallb_forall. intros H x Hx. apply H in Hx.
  apply hdr_plain_range in Hx. apply N.ltb_lt. lia.
Qed.

Lemma plain_utf8 s : plain s = true -> utf8_valid s = true.
Proof. intro H. apply utf8_valid_ascii, plain_ascii, H. Qed.

Lemma plain_to_valid s : plain s = true -> to_valid_utf8 s = s.
Proof. intro H. apply to_valid_utf8_id, plain_utf8, H. Qed.

(* ---------- base64 texts are plain ---------- *)
Lemma b64_char_plain n : hdr_plain (b64_char n) = true.
Proof.
  unfold b64_char.
  destruct (n <? 26) eqn:E1; [apply N.ltb_lt in E1|apply N.ltb_ge in E1].
  { unfold hdr_plain, in_range. rewrite !andb_true_iff, !negb_true_iff, !N.leb_le, !N.eqb_neq. lia. }
  destruct (n <? 52) eqn:E2; [apply N.ltb_lt in E2|apply N.ltb_ge in E2].
  { unfold hdr_plain, in_range. rewrite !andb_true_iff, !negb_true_iff, !N.leb_le, !N.eqb_neq. lia. }
  destruct (n <? 62) eqn:E3; [apply N.ltb_lt in E3|apply N.ltb_ge in E3].
  { unfold hdr_plain, in_range. rewrite !andb_true_iff, !negb_true_iff, !N.leb_le, !N.eqb_neq. lia. }
  destruct (n =? 62); reflexivity.
Qed.

Lemma b64_encode_plain : forall s, plain (b64_encode s) = true.
Proof.
  fix IH 1. intros [|a [|b [|c r]]]; try reflexivity.
  - unfold plain. cbn [b64_encode forallb]. rewrite !b64_char_plain. reflexivity.
  - unfold plain. cbn [b64_encode forallb]. rewrite !b64_char_plain. reflexivity.
  - unfold plain. cbn [b64_encode forallb]. rewrite !b64_char_plain. cbn [andb]. apply IH.
Qed.

Lemma b64_encode_nonempty s : s <> [] -> b64_encode s <> [].
Proof. destruct s as [|a [|b [|c r]]]; intro H; [contradiction| | |]; discriminate. Qed.

(* ---------- the Authorization header loop ---------- *)
Lemma fold_header_none l : fold_left header_step l None = None.
Proof. induction l; simpl; auto. Qed.

(* no X-Matrix header: the state does not move *)
Lemma fold_header_foreign l st :
  (forall h, In h l -> fst (parse_authorization h) <> s_xmatrix) ->
  fold_left header_step l (Some st) = Some st.
Proof.
  induction l as [|h l IH]; intro H; [reflexivity|].
  cbn [fold_left]. assert (Hh : fst (parse_authorization h) <> s_xmatrix) by (apply H; left; reflexivity).
  unfold header_step at 2. destruct st as [[o d] sigs]. destruct (parse_authorization h) as [scheme x].
  simpl in Hh. apply bytes_eqb_neq in Hh. rewrite Hh. cbn [negb]. apply IH. intros h' Hh'. apply H. right. exact Hh'.
Qed.

Definition malformed (h : bytes) : Prop :=
  fst (parse_authorization h) = s_xmatrix /\
  let x := snd (parse_authorization h) in x_origin x = [] \/ x_key x = [] \/ x_sig x = [].

Lemma header_step_malformed st h : malformed h -> header_step (Some st) h = None.
Proof.
  intros [Hs Hm]. unfold header_step. destruct st as [[o d] sigs].
  destruct (parse_authorization h) as [scheme x]. simpl in Hs, Hm. subst scheme.
  rewrite bytes_eqb_refl. cbn [negb].
  destruct Hm as [E|[E|E]]; rewrite E; cbn [is_nil orb]; rewrite ?orb_true_r; reflexivity.
Qed.

Lemma fold_header_malformed l : forall st h, In h l -> malformed h -> fold_left header_step l st = None.
Proof.
  induction l as [|h0 l IH]; intros st h Hin Hm; [contradiction|].
  cbn [fold_left]. destruct Hin as [->|Hin].
  - destruct st as [st|]; [rewrite header_step_malformed by exact Hm|]; apply fold_header_none.
  - eapply IH; eauto.
Qed.

(* ---------- canonical printing of the signing object: congruence in the content ---------- *)
Lemma fields_obj_content_congr j j' d m o u :
  canon_print j = canon_print j' ->
  canon_print (fields_obj (Some j) d m o u) = canon_print (fields_obj (Some j') d m o u).
Proof.
  intro H. unfold fields_obj. cbn [app canon_print]. rewrite H. reflexivity.
Qed.

(* C01 (canon_print_injective, specialised to the signing object): equal canonical forms of two
   signing objects mean equal members and the same JSON body.  The bodies are well-formed values
   (every number literal grammatical), as everything the parser returns is (ParseSound.parse_wf). *)
Definition opt_wf (c : option json) : Prop := match c with Some j => json_wf j | None => True end.

Definition canon_inj_premise : Prop :=
  forall c d m o u c' d' m' o' u',
    opt_wf c -> opt_wf c' ->
    canon_print (fields_obj c d m o u) = canon_print (fields_obj c' d' m' o' u') ->
    to_valid_utf8 d = to_valid_utf8 d' /\ to_valid_utf8 m = to_valid_utf8 m' /\
    to_valid_utf8 o = to_valid_utf8 o' /\ to_valid_utf8 u = to_valid_utf8 u' /\
    option_map canon_print c = option_map canon_print c'.

Lemma fields_obj_wf c d m o u : opt_wf c -> json_wf (fields_obj c d m o u).
Proof. destruct c; simpl; tauto. Qed.

Lemma fields_obj_normalise c d m o u :
  normalise (fields_obj c d m o u) = fields_obj (option_map normalise c) d m o u.
Proof.
  unfold fields_obj. cbn [normalise]. f_equal. rewrite sort_members_of_sorted.
  - destruct c; reflexivity.
  - destruct c; cbn; repeat split; vm_compute; reflexivity.
Qed.

(* ... which is C01's theorem *)
Lemma canon_inj_holds : canon_inj_premise.
Proof.
  intros c d m o u c' d' m' o' u' W W' E.
  apply canon_print_injective in E; [|apply fields_obj_wf; assumption|apply fields_obj_wf; assumption].
  unfold jequiv in E. rewrite !fields_obj_normalise in E. unfold fields_obj in E.
  destruct c as [j|], c' as [j'|]; cbn [option_map app] in E; inversion E.
  - repeat split; try assumption. cbn [option_map]. f_equal.
    apply canon_print_respects. assumption.
  - repeat split; assumption.
Qed.

Lemma some_inj {A} (a b : A) : Some a = Some b -> a = b.
Proof. intro H. injection H. auto. Qed.

(* key IDs ed25519:[A-Za-z0-9_]+ *)
Definition key_char (c : N) : bool := in_range 48 57 c || in_range 65 90 c || in_range 97 122 c || (c =? 95).
Definition key_id_ok (k : bytes) : bool :=
  is_prefix s_ed25519 k && negb (is_nil (drop 8 k)) && forallb key_char (drop 8 k).
(* base64 text, either alphabet *)
Definition b64_text_char (c : N) : bool :=
  in_range 48 57 c || in_range 65 90 c || in_range 97 122 c || (c =? 43) || (c =? 47) || (c =? 45) || (c =? 95).

Lemma key_id_plain k : key_id_ok k = true -> plain k = true /\ is_prefix s_ed25519 k = true.
Proof.
  intro Hk. unfold key_id_ok in Hk. apply andb_true_iff in Hk as [Hk Hc]. apply andb_true_iff in Hk as [Hp _].
  split; [|exact Hp]. apply is_prefix_app in Hp. rewrite Hp, plain_app. apply andb_true_iff.
  split; [reflexivity|]. unfold plain. rewrite forallb_forall in *. intros x Hx. apply Hc in Hx.
  unfold key_char, in_range in Hx. unfold hdr_plain, in_range.
  rewrite !orb_true_iff, !andb_true_iff, !N.leb_le, N.eqb_eq in Hx.
  rewrite !andb_true_iff, !negb_true_iff, !N.leb_le, !N.eqb_neq. lia.
Qed.

Lemma b64_text_plain s : forallb b64_text_char s = true -> plain s = true.
Proof.
  intro Hs. unfold plain. rewrite forallb_forall in *. intros x Hx. apply Hs in Hx.
  unfold b64_text_char, in_range in Hx. unfold hdr_plain, in_range.
  rewrite !orb_true_iff, !andb_true_iff, !N.leb_le, !N.eqb_eq in Hx.
  rewrite !andb_true_iff, !negb_true_iff, !N.leb_le, !N.eqb_neq. lia.
Qed.

Lemma roundtrip_lemma o k s d :
  plain o = true -> plain d = true -> key_id_ok k = true -> forallb b64_text_char s = true ->
  parse_authorization (emit_auth o k s d)
  = (s_xmatrix, {| x_origin := o; x_dest := d; x_key := k; x_sig := s |}).
Proof.
  intros Ho Hd Hk Hs. apply parse_emit; try assumption.
  - apply key_id_plain, Hk.
  - apply b64_text_plain, Hs.
Qed.

Section RequestProofs.
  Variables skT pkT sigT : Type.
  Variable pub : skT -> pkT.
  Variable sign : skT -> bytes -> sigT.
  Variable verify : pkT -> bytes -> sigT -> bool.
  Variable sig_wire : sigT -> bytes.
  Variable sig_unwire : bytes -> option sigT.
  Variable url_request_uri : bytes -> bytes -> option bytes.

  Notation verify_http_request := (verify_http_request pkT sigT verify sig_unwire).
  Notation keyring_verify := (keyring_verify pkT sigT verify sig_unwire).
  Notation verify_json := (verify_json pkT sigT verify sig_unwire).
  Notation fr_sign := (fr_sign skT sigT sign sig_wire).
  Notation http_request := (http_request url_request_uri).
  Notation receiver := (receiver pkT).
  Notation keyent := (keyent pkT).

  Definition dest_local (rc : receiver) (d : bytes) : bool :=
    match rc_locals rc with
    | Some l => mem_bytes d l
    | None => bytes_eqb (rc_default rc) d
    end.

  (* refused: an error status and no request *)
  Definition refused (rc : receiver) (now rn : N) (q : rawreq) : Prop :=
    exists c, verify_http_request rc now rn q = (c, None) /\ (c = 400 \/ c = 401 \/ c = 500).

  Lemma lookup_key_some store server id e :
    lookup_key pkT store server id = Some e -> In e store /\ k_server e = server /\ k_id e = id.
  Proof.
    induction store as [|e0 store IH]; [discriminate|]. cbn [lookup_key].
    destruct (bytes_eqb (k_server e0) server && bytes_eqb (k_id e0) id) eqn:E.
    - intro H. inversion H; subst. apply andb_true_iff in E as [E1 E2].
      apply bytes_eqb_eq in E1, E2. split; [left; reflexivity|split; assumption].
    - intro H. apply IH in H as (H1 & H2 & H3). split; [right; exact H1|split; assumption].
  Qed.

  (* what an accepting key ring has seen *)
  Lemma keyring_ok_inv store dberr rn origin at_ts msg sigs :
    keyring_verify store dberr rn origin at_ts msg sigs = VOk ->
    dberr = false /\
    exists id e text raw sg,
      is_prefix s_ed25519 id = true /\
      lookup_key pkT store origin id = Some e /\ was_valid_at pkT e at_ts rn = true /\
      assoc_first id sigs = Some text /\ b64_decode text = Some raw /\ sig_unwire raw = Some sg /\
      verify (k_pub e) msg sg = true.
  Proof.
    unfold Request.keyring_verify.
    destruct (filter (is_prefix s_ed25519) (map fst sigs)) as [|id0 ids] eqn:Ef; [discriminate|].
    destruct dberr; [discriminate|].
    destruct (existsb _ (id0 :: ids)) eqn:Ex; [|discriminate]. intros _. split; [reflexivity|].
    apply existsb_exists in Ex as (id & Hin & Hid). rewrite <- Ef in Hin. apply filter_In in Hin as [_ Hp].
    destruct (lookup_key pkT store origin id) as [e|] eqn:El; [|discriminate].
    apply andb_true_iff in Hid as [Hv Hj]. unfold Request.verify_json in Hj.
    destruct (assoc_first id sigs) as [text|] eqn:Ea; [|discriminate].
    destruct (b64_decode text) as [raw|] eqn:Eb; [|discriminate].
    destruct (sig_unwire raw) as [sg|] eqn:Eu; [|discriminate].
    exists id, e, text, raw, sg. repeat split; assumption.
  Qed.

  (* ---------- what acceptance means ---------- *)
  Lemma accepted_inv rc now rn q c r :
    verify_http_request rc now rn q = (c, Some r) ->
    c = 200 /\ exists r0 msg,
      read_http_request q = Some r0 /\
      (f_dest r0 = [] \/ dest_local rc (f_dest r0) = true) /\
      f_dest r = (match f_dest r0 with [] => rc_default rc | d => d end) /\
      f_method r = f_method r0 /\ f_uri r = f_uri r0 /\ f_origin r = f_origin r0 /\
      f_content r = f_content r0 /\ f_sigs r = f_sigs r0 /\
      signing_bytes (f_content r) (f_dest r) (f_method r) (f_origin r) (f_uri r) = Some msg /\
      f_origin r <> [] /\ valid_server_name (f_origin r) = true /\
      keyring_verify (rc_store rc) (rc_dberr rc) rn (f_origin r) now msg (f_sigs r) = VOk.
  Proof.
    unfold Request.verify_http_request.
    destruct (read_http_request q) as [r0|] eqn:Er; [|intro H; inversion H].
    match goal with |- context [negb ?b] => destruct b eqn:Ed end; cbn [negb]; [|intro H; inversion H].
    destruct (signing_bytes _ _ _ _ _) as [msg|] eqn:Es; [|intro H; inversion H].
    destruct (is_nil (f_origin r0)) eqn:Eo; [intro H; inversion H|].
    destruct (valid_server_name (f_origin r0)) eqn:Ev; cbn [negb]; [|intro H; inversion H].
    destruct (Request.keyring_verify _ _ _ _ _ _ _ _ _ _ _) eqn:Ek; intro H; inversion H; subst; clear H.
    split; [reflexivity|]. exists r0, msg. cbn [f_dest f_method f_uri f_origin f_content f_sigs].
    repeat split; try assumption; try reflexivity.
    - destruct (f_dest r0) as [|x d]; [left; reflexivity|right]. unfold dest_local. exact Ed.
    - intro E. rewrite E in Eo. discriminate.
  Qed.

  Lemma not_accepted_refused rc now rn q :
    (forall c r, verify_http_request rc now rn q <> (c, Some r)) -> refused rc now rn q.
  Proof.
    intro H. unfold refused. destruct (verify_http_request rc now rn q) as [c [r|]] eqn:E.
    - exfalso. eapply H. reflexivity.
    - exists c. split; [reflexivity|]. revert E. unfold Request.verify_http_request.
      destruct (read_http_request q) as [r0|]; [|intro E; inversion E; auto].
      match goal with |- context [negb ?b] => destruct b end; cbn [negb]; [|intro E; inversion E; auto].
      destruct (signing_bytes _ _ _ _ _); [|intro E; inversion E; auto].
      destruct (is_nil (f_origin r0)); [intro E; inversion E; auto|].
      destruct (valid_server_name (f_origin r0)); cbn [negb]; [|intro E; inversion E; auto].
      destruct (Request.keyring_verify _ _ _ _ _ _ _ _ _ _ _); intro E; inversion E; auto.
  Qed.

  (* ---------- refusals ---------- *)
  Lemma read_none_refused rc now rn q :
    read_http_request q = None -> verify_http_request rc now rn q = (400, None).
  Proof. intro H. unfold Request.verify_http_request. rewrite H. reflexivity. Qed.

  Lemma wrong_destination rc now rn q r0 :
    read_http_request q = Some r0 -> f_dest r0 <> [] -> dest_local rc (f_dest r0) = false ->
    verify_http_request rc now rn q = (400, None).
  Proof.
    intros Hr Hd Hl. unfold Request.verify_http_request. rewrite Hr.
    destruct (f_dest r0) as [|x d] eqn:E; [contradiction|].
    unfold dest_local in Hl. rewrite Hl. reflexivity.
  Qed.

  Lemma bad_body rc now rn q :
    q_body q <> [] -> (is_json_content_type (q_ctype q) = false \/ utf8_valid (q_body q) = false) ->
    verify_http_request rc now rn q = (400, None).
  Proof.
    intros Hb Hc. apply read_none_refused. unfold read_http_request.
    destruct (negb _); [reflexivity|].
    destruct (q_body q) as [|x b] eqn:E; [contradiction|].
    assert (Hg : is_json_content_type (q_ctype q) && utf8_valid (x :: b) = false).
    { destruct Hc as [Hc|Hc]; rewrite Hc; [reflexivity|apply andb_false_r]. }
    rewrite Hg. reflexivity.
  Qed.

  Lemma malformed_header rc now rn q h :
    In h (q_auths q) -> malformed h -> verify_http_request rc now rn q = (400, None).
  Proof.
    intros Hin Hm. apply read_none_refused. unfold read_http_request.
    destruct (negb _); [reflexivity|].
    rewrite (fold_header_malformed _ _ h Hin Hm).
    destruct (match q_body q with [] => _ | _ => _ end); reflexivity.
  Qed.

  Lemma missing_header rc now rn q :
    (forall h, In h (q_auths q) -> fst (parse_authorization h) <> s_xmatrix) ->
    refused rc now rn q.
  Proof.
    intro H. apply not_accepted_refused. intros c r E.
    apply accepted_inv in E as (_ & r0 & msg & Hr & _ & _ & _ & _ & Ho & _ & _ & _ & Hne & _).
    apply Hne. rewrite Ho. revert Hr. unfold read_http_request.
    destruct (negb _); [discriminate|].
    rewrite (fold_header_foreign _ _ H).
    destruct (match q_body q with [] => _ | _ => _ end); [|discriminate].
    intro E. inversion E. reflexivity.
  Qed.

  Lemma invalid_origin rc now rn q r0 :
    read_http_request q = Some r0 -> valid_server_name (f_origin r0) = false -> refused rc now rn q.
  Proof.
    intros Hr Hv. apply not_accepted_refused. intros c r E.
    apply accepted_inv in E as (_ & r0' & msg & Hr' & _ & _ & _ & _ & Ho & _ & _ & _ & _ & Hvalid & _).
    rewrite Hr in Hr'. inversion Hr'; subst r0'. rewrite Ho, Hv in Hvalid. discriminate.
  Qed.

  Lemma no_valid_key rc now rn q r0 :
    read_http_request q = Some r0 ->
    (forall e, In e (rc_store rc) -> k_server e = f_origin r0 -> was_valid_at pkT e now rn = false) ->
    refused rc now rn q.
  Proof.
    intros Hr Hk. apply not_accepted_refused. intros c r E.
    apply accepted_inv in E as (_ & r0' & msg & Hr' & _ & _ & _ & _ & Ho & _ & _ & _ & _ & _ & Hv).
    rewrite Hr in Hr'. inversion Hr'; subst r0'.
    apply keyring_ok_inv in Hv as (_ & id & e & text & raw & sg & _ & Hl & Hvalid & _).
    apply lookup_key_some in Hl as (Hin & Hs & _).
    rewrite (Hk e Hin) in Hvalid; [discriminate|]. rewrite Hs. exact Ho.
  Qed.

  (* the strict validity rule *)
  Lemma strict_validity_spec at_ts vu rn :
    strict_validity at_ts vu rn = true <-> vu <> 0 /\ at_ts <= vu /\ at_ts <= rn + seven_days_ms.
  Proof.
    unfold strict_validity. destruct (vu =? 0) eqn:E.
    - apply N.eqb_eq in E. split; [discriminate|]. intros (H & _). contradiction.
    - apply N.eqb_neq in E. rewrite negb_true_iff, N.ltb_ge. split.
      + intro H. split; [exact E|]. split; [eapply N.le_trans; [exact H|apply N.le_min_l]|
                                            eapply N.le_trans; [exact H|apply N.le_min_r]].
      + intros (_ & H1 & H2). apply N.min_glb; assumption.
  Qed.

  (* ---------- binding: what verifies with the signature of m0 is m0 ---------- *)
  Hypothesis sig_sound : forall p m s, verify p m s = true -> exists k, p = pub k /\ s = sign k m.
  Hypothesis sign_inj : forall k m k' m', sign k m = sign k' m' -> pub k = pub k' /\ m = m'.

  Lemma assoc_first_in {A} id (l : list (bytes * A)) v : assoc_first id l = Some v -> In v (map snd l).
  Proof.
    induction l as [|[k x] l IH]; [discriminate|]. cbn [assoc_first map snd].
    destruct (bytes_eqb id k); intro H; [inversion H; left; reflexivity|right; apply IH; exact H].
  Qed.

  Lemma accepted_message rc now rn q c r k m0 :
    verify_http_request rc now rn q = (c, Some r) ->
    (forall text raw sg, In text (map snd (f_sigs r)) -> b64_decode text = Some raw ->
                         sig_unwire raw = Some sg -> sg = sign k m0) ->
    signing_bytes (f_content r) (f_dest r) (f_method r) (f_origin r) (f_uri r) = Some m0.
  Proof.
    intros E Hs.
    apply accepted_inv in E as (_ & r0 & msg & _ & _ & _ & _ & _ & _ & _ & _ & Hm & _ & _ & Hv).
    apply keyring_ok_inv in Hv as (_ & id & e & text & raw & sg & _ & _ & _ & Ha & Hb & Hu & Hver).
    apply assoc_first_in in Ha. specialize (Hs text raw sg Ha Hb Hu). subst sg.
    apply sig_sound in Hver as (k' & _ & Hk). apply sign_inj in Hk as [_ Hk]. rewrite Hm, Hk. reflexivity.
  Qed.

  Lemma binding_lemma rc now rn q code r k c0 d0 m0 o0 u0 msg0 :
    signing_bytes c0 d0 m0 o0 u0 = Some msg0 ->
    verify_http_request rc now rn q = (code, Some r) ->
    (forall text raw sg, In text (map snd (f_sigs r)) -> b64_decode text = Some raw ->
                         sig_unwire raw = Some sg -> sg = sign k msg0) ->
    to_valid_utf8 (f_method r) = to_valid_utf8 m0 /\ to_valid_utf8 (f_uri r) = to_valid_utf8 u0 /\
    to_valid_utf8 (f_origin r) = to_valid_utf8 o0 /\ to_valid_utf8 (f_dest r) = to_valid_utf8 d0 /\
    option_map canonical (f_content r) = option_map canonical c0.
  Proof.
    intros Hs Hv Hsig. pose proof canon_inj_holds as CI.
    assert (Hm : signing_bytes (f_content r) (f_dest r) (f_method r) (f_origin r) (f_uri r) = Some msg0)
      by (eapply accepted_message; eauto).
    unfold signing_bytes in Hm, Hs.
    destruct (f_content r) as [raw|]; destruct c0 as [raw0|]; unfold canonical; cbn [option_map].
    - destruct (parse_json raw) as [j|] eqn:Ej; [|discriminate].
      destruct (parse_json raw0) as [j0|] eqn:Ej0; [|discriminate].
      apply some_inj in Hm. apply some_inj in Hs. rewrite <- Hs in Hm.
      apply CI in Hm as (Hd & Hmm & Ho & Hu & Hc);
        [|exact (parse_wf _ _ Ej)|exact (parse_wf _ _ Ej0)].
      cbn [option_map] in Hc. apply some_inj in Hc.
      cbn [option_map]. rewrite Hc. repeat split; assumption.
    - destruct (parse_json raw) as [j|] eqn:Ej; [|discriminate].
      apply some_inj in Hm. apply some_inj in Hs. rewrite <- Hs in Hm.
      apply CI in Hm as (_ & _ & _ & _ & Hc); [discriminate|exact (parse_wf _ _ Ej)|exact I].
    - destruct (parse_json raw0) as [j0|] eqn:Ej0; [|discriminate].
      apply some_inj in Hm. apply some_inj in Hs. rewrite <- Hs in Hm.
      apply CI in Hm as (_ & _ & _ & _ & Hc); [discriminate|exact I|exact (parse_wf _ _ Ej0)].
    - apply some_inj in Hm. apply some_inj in Hs. rewrite <- Hs in Hm.
      apply CI in Hm as (Hd & Hmm & Ho & Hu & _); [|exact I|exact I]. repeat split; assumption.
  Qed.

  Lemma reports_lemma rc now rn q code r :
    verify_http_request rc now rn q = (code, Some r) ->
    code = 200 /\ f_method r = q_method q /\ f_uri r = q_uri q /\
    f_content r = (match q_body q with [] => None | b => Some b end) /\
    f_origin r <> [] /\ valid_server_name (f_origin r) = true /\
    (dest_local rc (f_dest r) = true \/ f_dest r = rc_default rc).
  Proof.
    intro Hv.
    apply accepted_inv in Hv as (Hc & r0 & msg & Hr & Hd & Hd' & Hm & Hu & Ho & Hcn & _ & _ & Hne & Hval & _).
    split; [exact Hc|]. revert Hr. unfold read_http_request.
    destruct (negb _); [discriminate|].
    destruct (fold_left header_step (q_auths q) (Some ([], [], []))) as [[[o d] sigs]|];
      [|destruct (match q_body q with [] => _ | _ => _ end); discriminate].
    destruct (q_body q) as [|x b] eqn:Eb.
    - intro E. apply some_inj in E. subst r0. cbn [f_method f_uri f_content f_dest] in *.
      repeat split; try assumption.
      rewrite Hd'. destruct Hd as [Hd|Hd]; [rewrite Hd; right; reflexivity|].
      destruct d; [right; reflexivity|left; exact Hd].
    - destruct (is_json_content_type (q_ctype q) && utf8_valid (x :: b)); [|discriminate].
      intro E. apply some_inj in E. subst r0. cbn [f_method f_uri f_content f_dest] in *.
      repeat split; try assumption.
      rewrite Hd'. destruct Hd as [Hd|Hd]; [rewrite Hd; right; reflexivity|].
      destruct d; [right; reflexivity|left; exact Hd].
  Qed.

  Lemma bad_request_line rc now rn q :
    (utf8_valid (q_method q) = false \/ utf8_valid (q_uri q) = false) ->
    verify_http_request rc now rn q = (400, None).
  Proof.
    intro H. apply read_none_refused. unfold read_http_request.
    destruct H as [H|H]; rewrite H; [reflexivity|rewrite andb_false_r; reflexivity].
  Qed.

  Lemma expired_lemma rc now rn q r0 :
    read_http_request q = Some r0 ->
    (forall e, In e (rc_store rc) -> k_server e = f_origin r0 ->
               (k_expired e <> 0 /\ k_expired e <= now) \/
               (k_expired e = 0 /\ (k_valid_until e = 0 \/ k_valid_until e < now
                                    \/ rn + seven_days_ms < now))) ->
    refused rc now rn q.
  Proof.
    intros Hr Hk. eapply no_valid_key; eauto.
    intros e Hin Hs. specialize (Hk e Hin Hs). unfold was_valid_at.
    destruct Hk as [[H1 H2]|[H1 H2]].
    - apply N.eqb_neq in H1. rewrite H1. cbn [negb]. apply N.ltb_ge. exact H2.
    - rewrite H1. cbn [N.eqb negb].
      destruct (strict_validity now (k_valid_until e) rn) eqn:E; [|reflexivity].
      apply strict_validity_spec in E. lia.
  Qed.

  (* ---------- completeness: sign, send, verify ---------- *)
  Hypothesis sig_complete : forall k m, verify (pub k) m (sign k m) = true.
  Hypothesis wire_ok : forall k m, sig_unwire (sig_wire (sign k m)) = Some (sign k m).
  Hypothesis wire_nonempty : forall k m, sig_wire (sign k m) <> [].
  Hypothesis wire_b64 : forall k m, b64_decode (b64_encode (sig_wire (sign k m))) = Some (sig_wire (sign k m)).

  Lemma http_method_nonempty m m' : m <> [] -> http_method m = Some m' -> m' = m.
  Proof.
    destruct m as [|c m]; [contradiction|]. intros _. unfold http_method.
    destruct (forallb is_tchar (c :: m)); intro H; inversion H. reflexivity.
  Qed.

  (* what Sign leaves as the body is a canonical text: non-empty and its own canonical form
     (C01: ParseSound.canonical_idempotent_all) *)
  Lemma fr_sign_content r0 origin keyid sk r1 b :
    fr_sign r0 origin keyid sk = Some r1 -> f_content r1 = Some b -> b <> [] /\ canonical b = Some b.
  Proof.
    unfold Request.fr_sign. intros Hsign Hb.
    destruct (negb (is_nil (f_origin r0)) && negb (bytes_eqb (f_origin r0) origin)); [discriminate|].
    destruct (negb _); [discriminate|].
    destruct (content_not_utf8 _); [discriminate|].
    destruct (signing_bytes _ _ _ _ _); [|discriminate].
    inversion Hsign; subst r1; clear Hsign. cbn [f_content] in Hb.
    destruct (f_content r0) as [raw|]; [|discriminate].
    assert (C : canonical b = Some b) by (eapply canonical_idempotent_all; exact Hb).
    split; [|exact C]. intro E. subst b. vm_compute in C. discriminate.
  Qed.

  Lemma sign_send_verify_lemma r0 origin keyid sk r1 h (rc : receiver) now rn e :
    f_sigs r0 = [] ->
    fr_sign r0 origin keyid sk = Some r1 ->
    http_request r1 = Some h ->
    f_method r0 <> [] -> utf8_valid (f_method r0) = true -> utf8_valid (f_uri r0) = true ->
    plain origin = true -> valid_server_name origin = true ->
    plain (f_dest r0) = true -> f_dest r0 <> [] ->
    plain keyid = true -> is_prefix s_ed25519 keyid = true ->
    (forall b, f_content r1 = Some b -> b <> [] /\ utf8_valid b = true /\ canonical b = Some b) ->
    dest_local rc (f_dest r0) = true ->
    lookup_key pkT (rc_store rc) origin keyid = Some e -> k_pub e = pub sk ->
    was_valid_at pkT e now rn = true -> rc_dberr rc = false ->
    exists r', verify_http_request rc now rn (deliver h) = (200, Some r') /\
               f_method r' = f_method r1 /\ f_uri r' = f_uri r1 /\ f_origin r' = f_origin r1 /\
               f_dest r' = f_dest r1 /\ f_content r' = f_content r1.
  Proof.
    intros Hsigs Hsign Hhttp Hmne Hmu Huu Hpo Hvo Hpd Hdne Hpk Hkp Hcont Hloc Hlook Hpub Hvalid Hdb.
    (* the signed request *)
    unfold Request.fr_sign in Hsign.
    destruct (negb (is_nil (f_origin r0)) && negb (bytes_eqb (f_origin r0) origin)); [discriminate|].
    rewrite Hsigs in Hsign. cbn [forallb negb map assoc_set] in Hsign.
    destruct (content_not_utf8 (f_content r0)); [discriminate|].
    destruct (signing_bytes (f_content r0) (f_dest r0) (f_method r0) origin (f_uri r0)) as [msg|] eqn:Emsg;
      [|discriminate].
    rewrite (plain_to_valid _ Hpd), (to_valid_utf8_id _ Hmu), (plain_to_valid _ Hpo),
            (to_valid_utf8_id _ Huu), (plain_to_valid _ Hpk) in Hsign.
    inversion Hsign; subst r1; clear Hsign.
    set (text := b64_encode (sig_wire (sign sk msg))) in *.
    cbn [f_content f_dest f_method f_origin f_uri f_sigs] in *.
    (* the HTTP request *)
    unfold Request.http_request in Hhttp. cbn [f_content f_dest f_method f_origin f_uri f_sigs] in Hhttp.
    destruct (http_method (f_method r0)) as [m'|] eqn:Em; [|discriminate].
    apply (http_method_nonempty _ _ Hmne) in Em. subst m'.
    destruct (url_request_uri (f_dest r0) (f_uri r0)) as [u'|]; [|discriminate].
    destruct (bytes_eqb u' (f_uri r0)) eqn:Eu; cbn [negb] in Hhttp; [|discriminate].
    apply bytes_eqb_eq in Eu. subst u'.
    destruct (negb (is_nil _) && negb _); [discriminate|].
    inversion Hhttp; subst h; clear Hhttp. cbn [map fst snd].
    (* the receiver reads it back *)
    assert (Htext : plain text = true) by apply b64_encode_plain.
    assert (Htne : text <> []) by (apply b64_encode_nonempty, wire_nonempty).
    assert (Hone : origin <> []) by (intro E; rewrite E in Hvo; discriminate).
    assert (Hkne : keyid <> []) by (intro E; rewrite E in Hkp; discriminate).
    (* content as the receiver sees it *)
    set (body := match (match f_content r0 with Some raw => canonical raw | None => None end) with
                 | Some b => b | None => [] end).
    assert (Hread : read_http_request
                      (deliver {| h_method := f_method r0; h_target := f_uri r0;
                                  h_ctype := match (match f_content r0 with Some raw => canonical raw | None => None end) with
                                             | Some _ => Some s_app_json | None => None end;
                                  h_body := match f_content r0 with Some raw => canonical raw | None => None end;
                                  h_auth := [emit_auth origin keyid text (f_dest r0)] |})
                    = Some {| f_content := match f_content r0 with Some raw => canonical raw | None => None end;
                              f_dest := f_dest r0; f_method := f_method r0; f_origin := origin;
                              f_uri := f_uri r0; f_sigs := [(keyid, text)] |}).
    { unfold read_http_request, deliver. cbn [q_method q_uri q_ctype q_body q_auths h_method h_target h_ctype h_body h_auth].
      rewrite Hmu, Huu. cbn [andb negb fold_left].
      unfold header_step. rewrite (parse_emit _ _ _ _ Hpo Hpk Htext Hpd). rewrite bytes_eqb_refl.
      cbn [negb x_origin x_key x_sig x_dest is_nil andb assoc_set].
      destruct origin as [|oc orest]; [contradiction|]. destruct keyid as [|kc krest]; [contradiction|].
      destruct text as [|tc trest] eqn:Et; [contradiction|]. cbn [is_nil orb andb negb].
      destruct (match f_content r0 with Some raw => canonical raw | None => None end) as [b|] eqn:Ec.
      - destruct (Hcont b eq_refl) as (Hbne & Hbu & _).
        destruct b as [|bc brest]; [contradiction|].
        rewrite Hbu. replace (is_json_content_type s_app_json) with true by (vm_compute; reflexivity).
        reflexivity.
      - reflexivity. }
    unfold Request.verify_http_request. rewrite Hread. clear Hread.
    cbn [f_content f_dest f_method f_origin f_uri f_sigs].
    unfold dest_local in Hloc.
    destruct (f_dest r0) as [|dc drest] eqn:Ed; [contradiction|].
    rewrite Hloc. cbn [negb].
    (* the same bytes are verified *)
    assert (Hmsg : signing_bytes (match f_content r0 with Some raw => canonical raw | None => None end)
                                 (dc :: drest) (f_method r0) origin (f_uri r0) = Some msg).
    { revert Emsg. unfold signing_bytes. destruct (f_content r0) as [raw|] eqn:Ec; [|auto].
      unfold canonical at 1. destruct (parse_json raw) as [j|] eqn:Ej; [|discriminate]. cbn [option_map].
      intro H. inversion H; subst msg; clear H.
      destruct (Hcont (canon_print j)) as (_ & _ & Hidem).
      { unfold canonical. rewrite Ej. reflexivity. }
      unfold canonical in Hidem. destruct (parse_json (canon_print j)) as [j'|]; [|discriminate].
      cbn [option_map] in Hidem. inversion Hidem as [Hj]. f_equal; try (apply fields_obj_content_congr; exact Hj). }
    rewrite Hmsg.
    destruct origin as [|oc orest] eqn:Eo; [contradiction|]. cbn [is_nil]. rewrite <- Eo in *.
    rewrite Hvo. cbn [negb].
    (* the key ring *)
    unfold Request.keyring_verify. cbn [map fst filter]. rewrite Hkp. rewrite Hdb.
    cbn [existsb]. rewrite Hlook, Hvalid. unfold Request.verify_json.
    cbn [snd assoc_first].
    rewrite bytes_eqb_refl. unfold text. rewrite wire_b64, wire_ok, Hpub, sig_complete. cbn [andb orb].
    eexists. split; [reflexivity|]. cbn [f_method f_uri f_origin f_dest f_content]. repeat split; reflexivity.
  Qed.
End RequestProofs.
