(* spec/servername.go: ParseAndValidateServerName (validity only), with net.ParseIP as Go 1.23
   implements it (net/netip.ParseAddr; zones refused).  Model only, no proofs. *)
From Verif Require Import Lib.Bytes Fed.Utf8C13.
Open Scope N_scope.

Definition hexv (c : N) : option N :=
  if in_range 48 57 c then Some (c - 48)
  else if in_range 97 102 c then Some (c - 87)
  else if in_range 65 70 c then Some (c - 55)
  else None.

(* parseIPv4Fields: val, pos, digLen; first = at index 0; prevdot = previous byte was '.' *)
Fixpoint v4_loop (s : bytes) (val : N) (pos diglen : nat) (first prevdot : bool) (acc : bytes)
  : option bytes :=
  match s with
  | [] => if (pos <? 3)%nat then None else Some (acc ++ [val])
  | c :: r =>
      if is_digit c then
        if (diglen =? 1)%nat && (val =? 0) then None
        else let val' := val * 10 + (c - 48) in
             if 255 <? val' then None else v4_loop r val' pos (S diglen) false false acc
      else if c =? 46 then
        if first || prevdot || (match r with [] => true | _ => false end) then None
        else if (pos =? 3)%nat then None
        else v4_loop r 0 (S pos) O false true (acc ++ [val])
      else None
  end.
Definition parse_ipv4_fields (s : bytes) : option bytes := v4_loop s 0 O O true false [].

(* the hex-digit scan of one IPv6 group: (digits read, value, rest); None = more than 4 digits *)
Fixpoint scan_hex (s : bytes) (off : nat) (acc : N) : option (nat * N * bytes) :=
  match s with
  | c :: r =>
      match hexv c with
      | Some v => if (3 <? off)%nat then None else scan_hex r (S off) (acc * 16 + v)
      | None => Some (off, acc, s)
      end
  | [] => Some (off, acc, [])
  end.

(* the main loop of parseIPv6; ip = bytes written so far (i = length ip) *)
Fixpoint v6_loop (fuel : nat) (ip : bytes) (ell : option nat) (s : bytes)
  : option (bytes * option nat * bytes) :=
  match fuel with
  | O => Some (ip, ell, s)
  | S f =>
      let i := length ip in
      if (16 <=? i)%nat then Some (ip, ell, s) else
      match scan_hex s O 0 with
      | None => None
      | Some (off, acc, rest) =>
          if (off =? 0)%nat then None else
          if (match rest with c :: _ => c =? 46 | [] => false end) then
            if (match ell with None => negb (i =? 12)%nat | Some _ => false end) then None
            else if (16 <? i + 4)%nat then None
            else match parse_ipv4_fields s with
                 | None => None
                 | Some f4 => Some (ip ++ f4, ell, [])
                 end
          else
            let ip' := ip ++ [acc / 256; acc mod 256] in
            let i' := length ip' in
            match rest with
            | [] => Some (ip', ell, [])
            | c :: r1 =>
                if negb (c =? 58) then None else
                match r1 with
                | [] => None
                | c2 :: r2 =>
                    if c2 =? 58 then
                      match ell with
                      | Some _ => None
                      | None => match r2 with
                                | [] => Some (ip', Some i', [])
                                | _ => v6_loop f ip' (Some i') r2
                                end
                      end
                    else v6_loop f ip' ell r1
                end
            end
      end
  end.

Definition zeros (n : nat) : bytes := repeat 0 n.

Definition parse_ipv6 (s : bytes) : option bytes :=
  if existsb (fun c => c =? 37) s then None else
  let '(ell0, s1, done) :=
    match s with
    | c1 :: c2 :: r => if (c1 =? 58) && (c2 =? 58)
                       then (Some O, r, match r with [] => true | _ => false end)
                       else (None, s, false)
    | _ => (None, s, false)
    end in
  if done then Some (zeros 16) else
  match v6_loop 9 [] ell0 s1 with
  | None => None
  | Some (ip, ell, rest) =>
      match rest with
      | _ :: _ => None
      | [] =>
          let i := length ip in
          if (i <? 16)%nat then
            match ell with
            | None => None
            | Some e => Some (firstn e ip ++ zeros (16 - i) ++ skipn e ip)
            end
          else match ell with Some _ => None | None => Some ip end
      end
  end.

(* netip.ParseAddr dispatch on the first of '.', ':', '%'; result as 16 bytes (As16) *)
Fixpoint parse_ip_dispatch (whole s : bytes) : option bytes :=
  match s with
  | [] => None
  | c :: r =>
      if c =? 46 then
        match parse_ipv4_fields whole with
        | Some f4 => Some (zeros 10 ++ [255; 255] ++ f4)
        | None => None
        end
      else if c =? 58 then parse_ipv6 whole
      else if c =? 37 then None
      else parse_ip_dispatch whole r
  end.
Definition parse_ip (s : bytes) : option bytes := parse_ip_dispatch s s.

(* IP.To4() != nil on a 16-byte address *)
Definition is_v4_mapped (ip : bytes) : bool :=
  bytes_eqb (firstn 12 ip) (zeros 10 ++ [255; 255]).

Definition is_dns_char (c : N) : bool :=
  in_range 65 90 c || in_range 97 122 c || in_range 48 57 c || (c =? 45) || (c =? 46).

(* splitServerName: host part (the port value is not needed for validity) *)
Definition split_host (s : bytes) : bytes :=
  match split_at 58 (rev s) with
  | None => s
  | Some (rport, rhost) =>
      let port := rev rport in
      match parse_dec port with
      | Some n => if n <=? 65535 then rev rhost else s
      | None => s
      end
  end.

Definition last_byte (s : bytes) : N := match rev s with c :: _ => c | [] => 0 end.

(* ParseAndValidateServerName(...).valid *)
Definition valid_server_name (s : bytes) : bool :=
  match s with
  | [] => false
  | _ =>
      let host := split_host s in
      match host with
      | [] => false
      | c0 :: rest0 =>
          if c0 =? 91 then
            if negb (last_byte host =? 93) then false
            else match parse_ip (removelast rest0) with Some _ => true | None => false end
          else
            match parse_ip host with
            | Some ip => if is_v4_mapped ip then true else forallb is_dns_char host
            | None => forallb is_dns_char host
            end
      end
  end.
