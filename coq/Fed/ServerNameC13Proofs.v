(* Every server name ParseAndValidateServerName accepts consists of printable ASCII other than
   the quote and the comma (so the X-Matrix round trip applies to it). *)
From Verif Require Import Lib.Bytes Fed.Utf8C13 Fed.XMatrix Fed.XMatrixProofs Fed.ServerNameC13.
Open Scope N_scope.

(* hex digits, colon, dot *)
Definition ip_char (c : N) : bool :=
  in_range 48 57 c || in_range 97 102 c || in_range 65 70 c || (c =? 58) || (c =? 46).

Lemma ip_char_plain c : ip_char c = true -> hdr_plain c = true.
Proof.
  unfold ip_char, hdr_plain, in_range.
  rewrite !orb_true_iff, !andb_true_iff, !negb_true_iff, !N.leb_le, !N.eqb_eq, !N.eqb_neq. lia.
Qed.

Lemma digit_ip_char c : is_digit c = true -> ip_char c = true.
Proof.
  unfold is_digit, ip_char, in_range. intro H. rewrite H. reflexivity.
Qed.

Lemma hexv_ip_char c v : hexv c = Some v -> ip_char c = true.
Proof.
  unfold hexv, ip_char. destruct (in_range 48 57 c); [reflexivity|].
  destruct (in_range 97 102 c); [reflexivity|]. destruct (in_range 65 70 c); [reflexivity|discriminate].
Qed.

Lemma dns_char_plain c : is_dns_char c = true -> hdr_plain c = true.
Proof.
  unfold is_dns_char, hdr_plain, in_range.
  rewrite !orb_true_iff, !andb_true_iff, !negb_true_iff, !N.leb_le, !N.eqb_eq, !N.eqb_neq. lia.
Qed.

Lemma v4_loop_chars s : forall val pos dl first prevdot acc r,
  v4_loop s val pos dl first prevdot acc = Some r -> forallb ip_char s = true.
Proof.
  induction s as [|c s IH]; intros val pos dl first prevdot acc r H; [reflexivity|].
  cbn [v4_loop] in H. cbn [forallb].
  destruct (is_digit c) eqn:Ed.
  - rewrite (digit_ip_char _ Ed). cbn [andb].
    destruct ((dl =? 1)%nat && (val =? 0)); [discriminate|].
    destruct (255 <? val * 10 + (c - 48)); [discriminate|]. eapply IH. exact H.
  - destruct (c =? 46) eqn:E46; [|discriminate].
    assert (Hc : ip_char c = true) by (unfold ip_char; rewrite E46; rewrite !orb_true_r; reflexivity).
    rewrite Hc. cbn [andb].
    destruct (first || prevdot || match s with [] => true | _ => false end); [discriminate|].
    destruct (pos =? 3)%nat; [discriminate|]. eapply IH. exact H.
Qed.

Lemma scan_hex_split s : forall off acc off' acc' rest,
  scan_hex s off acc = Some (off', acc', rest) ->
  exists pre, s = pre ++ rest /\ forallb ip_char pre = true.
Proof.
  induction s as [|c s IH]; intros off acc off' acc' rest H; cbn [scan_hex] in H.
  - inversion H. exists []. auto.
  - destruct (hexv c) as [v|] eqn:Eh.
    + destruct (3 <? off)%nat; [discriminate|].
      apply IH in H as (pre & -> & Hp). exists (c :: pre). split; [reflexivity|].
      cbn [forallb]. rewrite (hexv_ip_char _ _ Eh), Hp. reflexivity.
    + inversion H. exists []. auto.
Qed.

Lemma forallb_app_ip a b : forallb ip_char (a ++ b) = forallb ip_char a && forallb ip_char b.
Proof. apply forallb_app. Qed.

Lemma v6_loop_chars fuel : forall ip ell s ip' ell',
  v6_loop fuel ip ell s = Some (ip', ell', []) -> forallb ip_char s = true.
Proof.
  induction fuel as [|f IH]; intros ip ell s ip' ell' H; cbn [v6_loop] in H.
  - inversion H. reflexivity.
  - destruct (16 <=? length ip)%nat; [inversion H; reflexivity|].
    destruct (scan_hex s 0 0) as [[[off acc] rest]|] eqn:Es; [|discriminate].
    destruct (off =? 0)%nat; [discriminate|].
    pose proof (scan_hex_split _ _ _ _ _ _ Es) as (pre & Hs & Hpre).
    destruct (match rest with c :: _ => c =? 46 | [] => false end).
    + destruct (match ell with None => negb (length ip =? 12)%nat | Some _ => false end); [discriminate|].
      destruct (16 <? length ip + 4)%nat; [discriminate|].
      destruct (parse_ipv4_fields s) as [f4|] eqn:E4; [|discriminate].
      unfold parse_ipv4_fields in E4. eapply v4_loop_chars. exact E4.
    + subst s. rewrite forallb_app_ip, Hpre. cbn [andb].
      destruct rest as [|c r1]; [reflexivity|].
      destruct (c =? 58) eqn:Ec; cbn [negb] in H; [|discriminate].
      assert (Hc : ip_char c = true) by (unfold ip_char; rewrite Ec; rewrite !orb_true_r; reflexivity).
      cbn [forallb]. rewrite Hc. cbn [andb].
      destruct r1 as [|c2 r2]; [discriminate|].
      destruct (c2 =? 58) eqn:Ec2.
      * assert (Hc2 : ip_char c2 = true) by (unfold ip_char; rewrite Ec2; rewrite !orb_true_r; reflexivity).
        cbn [forallb]. rewrite Hc2. cbn [andb].
        destruct ell; [discriminate|]. destruct r2 as [|c3 r3]; [reflexivity|].
        eapply IH. exact H.
      * eapply IH. exact H.
Qed.

Lemma parse_ipv6_chars s ip : parse_ipv6 s = Some ip -> forallb ip_char s = true.
Proof.
  unfold parse_ipv6. destruct (existsb _ s); [discriminate|].
  destruct s as [|c1 [|c2 r]].
  - reflexivity.
  - destruct (v6_loop 9 [] None [c1]) as [[[ip0 ell] rest]|] eqn:E; [|discriminate].
    destruct rest; [|discriminate]. intros _. eapply v6_loop_chars. exact E.
  - destruct ((c1 =? 58) && (c2 =? 58)) eqn:E12.
    + apply andb_true_iff in E12 as [E1 E2].
      assert (H1 : ip_char c1 = true) by (unfold ip_char; rewrite E1; rewrite !orb_true_r; reflexivity).
      assert (H2 : ip_char c2 = true) by (unfold ip_char; rewrite E2; rewrite !orb_true_r; reflexivity).
      cbn [forallb]. rewrite H1, H2. cbn [andb].
      destruct r as [|c3 r3]; [reflexivity|].
      destruct (v6_loop 9 [] (Some 0%nat) (c3 :: r3)) as [[[ip0 ell] rest]|] eqn:E; [|discriminate].
      destruct rest; [|discriminate]. intros _. eapply v6_loop_chars. exact E.
    + destruct (v6_loop 9 [] None (c1 :: c2 :: r)) as [[[ip0 ell] rest]|] eqn:E; [|discriminate].
      destruct rest; [|discriminate]. intros _. eapply v6_loop_chars. exact E.
Qed.

Lemma parse_ip_dispatch_chars whole s ip :
  parse_ip_dispatch whole s = Some ip -> forallb ip_char whole = true.
Proof.
  induction s as [|c s IH]; cbn [parse_ip_dispatch]; [discriminate|].
  destruct (c =? 46).
  - destruct (parse_ipv4_fields whole) eqn:E; [|discriminate]. intros _.
    unfold parse_ipv4_fields in E. eapply v4_loop_chars. exact E.
  - destruct (c =? 58); [apply parse_ipv6_chars|].
    destruct (c =? 37); [discriminate|exact IH].
Qed.

Lemma parse_ip_chars s ip : parse_ip s = Some ip -> plain s = true.
Proof.
  intro H. apply parse_ip_dispatch_chars in H. unfold plain. rewrite forallb_forall in *.
  intros x Hx. apply ip_char_plain, H, Hx.
Qed.

Lemma dns_plain s : forallb is_dns_char s = true -> plain s = true.
Proof.
  unfold plain. rewrite !forallb_forall. intros H x Hx. apply dns_char_plain, H, Hx.
Qed.

(* ---- host and port ---- *)
Lemma split_at_some c s a b : split_at c s = Some (a, b) -> s = a ++ c :: b.
Proof.
  revert a b; induction s as [|x s IH]; intros a b H; [discriminate|]. cbn [split_at] in H.
  destruct (x =? c) eqn:E.
  - apply N.eqb_eq in E. inversion H; subst. reflexivity.
  - destruct (split_at c s) as [[a' b']|]; [|discriminate]. inversion H; subst.
    rewrite (IH a' b eq_refl). reflexivity.
Qed.

Lemma parse_dec_acc_digits s : forall acc n, parse_dec_acc acc s = Some n -> forallb is_digit s = true.
Proof.
  induction s as [|c s IH]; intros acc n H; [reflexivity|]. cbn [parse_dec_acc] in H. cbn [forallb].
  destruct (is_digit c); [|discriminate]. cbn [andb]. eapply IH. exact H.
Qed.

Lemma split_host_cases s :
  split_host s = s \/
  exists port, s = split_host s ++ 58 :: port /\ forallb is_digit port = true.
Proof.
  unfold split_host. destruct (split_at 58 (rev s)) as [[rport rhost]|] eqn:E; [|left; reflexivity].
  destruct (parse_dec (rev rport)) as [n|] eqn:Ep; [|left; reflexivity].
  destruct (n <=? 65535); [|left; reflexivity]. right. exists (rev rport).
  apply split_at_some in E. split.
  - rewrite <- (rev_involutive s), E, rev_app_distr. cbn [rev]. rewrite <- app_assoc. reflexivity.
  - unfold parse_dec in Ep. destruct (rev rport); [discriminate|]. eapply parse_dec_acc_digits. exact Ep.
Qed.

Lemma digits_plain s : forallb is_digit s = true -> plain s = true.
Proof.
  unfold plain. rewrite !forallb_forall. intros H x Hx. apply ip_char_plain, digit_ip_char, H, Hx.
Qed.

Lemma host_plain host :
  (match host with
   | [] => false
   | c0 :: rest0 =>
       if c0 =? 91 then
         if negb (last_byte host =? 93) then false
         else match parse_ip (removelast rest0) with Some _ => true | None => false end
       else match parse_ip host with
            | Some ip => if is_v4_mapped ip then true else forallb is_dns_char host
            | None => forallb is_dns_char host
            end
   end) = true -> plain host = true.
Proof.
  destruct host as [|c0 rest0]; [discriminate|].
  destruct (c0 =? 91) eqn:E0.
  - apply N.eqb_eq in E0. subst c0.
    destruct (last_byte (91 :: rest0) =? 93) eqn:El; cbn [negb]; [|discriminate].
    destruct (parse_ip (removelast rest0)) as [ip|] eqn:Ep; [|discriminate]. intros _.
    destruct rest0 as [|z r] using rev_ind; [vm_compute in El; discriminate|]. clear IHr.
    rewrite removelast_last in Ep. apply parse_ip_chars in Ep.
    unfold last_byte in El. cbn [rev] in El. rewrite rev_app_distr in El. cbn [rev app] in El.
    apply N.eqb_eq in El. subst z.
    change (91 :: r ++ [93]) with ([91] ++ r ++ [93]). rewrite !plain_app, Ep. reflexivity.
  - destruct (parse_ip (c0 :: rest0)) as [ip|] eqn:Ep.
    + intros _. eapply parse_ip_chars. exact Ep.
    + apply dns_plain.
Qed.

Theorem valid_server_name_plain s : valid_server_name s = true -> plain s = true.
Proof.
  unfold valid_server_name. destruct s as [|c s]; [discriminate|].
  intro H. apply host_plain in H.
  destruct (split_host_cases (c :: s)) as [E|(port & E & Hp)].
  - rewrite <- E. exact H.
  - rewrite E. change (58 :: port) with ([58] ++ port). rewrite !plain_app, H, (digits_plain _ Hp). reflexivity.
Qed.
