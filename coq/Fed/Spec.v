(* C14 specification side: what the property text demands of the filters, written without the
   filters' loops, lookup tables and retry logic.

   The caller's event provider is, for the specification, a function of the requested event ID
   (the same answer whenever it is asked; this excludes the provider of the liveness note that
   keeps answering with ever different events) that answers with an event carrying the requested
   ID, with nothing, or with an error. *)
From Coq Require Import List NArith Bool.
From Verif Require Import Fed.Filters.
Import ListNotations.
Open Scope N_scope.

Inductive presp := RErr | RNone | REv (a : event).

Definition resp_events (r : presp) : list event := match r with REv a => [a] | _ => [] end.
Definition is_err (r : presp) : bool := match r with RErr => true | _ => false end.

(* the EventProvider made from such a function (no state) *)
Definition pcall_of (prov : N -> presp) (_ : unit) (ids : list N) : unit * panswer :=
  (tt, if existsb (fun x => is_err (prov x)) ids then PError
       else PEvents (flat_map (fun x => resp_events (prov x)) ids)).

Definition honest (prov : N -> presp) : Prop := forall x a, prov x = REv a -> eid a = x.

(* missingAuth = nil behaves like a provider that never has anything *)
Definition eff_prov (hasprov : bool) (prov : N -> presp) : N -> presp :=
  if hasprov then prov else fun _ => RNone.

Definition opt_list {A} (o : option A) : list A := match o with Some a => [a] | None => [] end.

(* what checkAllowedByAuthEvents can use of a provider's answer: state events only *)
Definition from_prov (prov : N -> presp) (x : N) : option event :=
  match prov x with REv a => if is_state a then Some a else None | _ => None end.

(* "allowed by its auth events" (auth rule 2: considering the event's auth_events, duplicate
   entries for a (type, state_key) pair reject; then the rules proper) *)
Definition allowed_by (allowed : event -> list event -> bool) (e : event) (l : list event) : bool :=
  tuples_distinct l && allowed e l.

Section StateSpec.
  Variable sig_ok : event -> bool.
  Variable allowed : event -> list event -> bool.
  Variable prov : N -> presp.

  (* `all` = the parsed auth events followed by the parsed state events of the response *)
  Variable all : list event.

  (* all events of the response carrying ID x have verified signatures *)
  Definition id_sig_ok (x : N) : bool :=
    forallb (fun e => negb (eid e =? x) || sig_ok e) all.

  (* the event of the response that an auth event ID refers to: the last one with that ID,
     provided every event with that ID has verified signatures *)
  Definition response_event (x : N) : option event :=
    if id_sig_ok x then find (fun e => eid e =? x) (rev all) else None.

  (* the auth event an ID resolves to: from the response if it arrived there with verified
     signatures, otherwise from the caller's event provider *)
  Definition resolve_auth (x : N) : option event :=
    match response_event x with
    | Some a => Some a
    | None => from_prov prov x
    end.

  Definition auth_events_of (e : event) : list event :=
    flat_map (fun x => opt_list (resolve_auth x)) (auth_ids e).

  (* passes both checks *)
  Definition good (e : event) : bool := sig_ok e && allowed_by allowed e (auth_events_of e).

  (* The filter works by event ID: an event is kept when every event of the response with its ID
     passes both checks (IDs are unique in a well-formed response, see good_id_unique). *)
  Definition good_id (e : event) : bool :=
    forallb (fun e' => negb (eid e' =? eid e) || good e') all.
End StateSpec.

(* ---------- send_join: the auth events of the join event ---------- *)
Section JoinSpec.
  Variable prov : N -> presp.
  Variables a s : list event.     (* the auth and state events CheckStateResponse returned *)

  (* from the returned events (the last one with the ID), otherwise from the provider *)
  Definition join_resolve (x : N) : option event :=
    match find (fun e => eid e =? x) (rev (a ++ s)) with
    | Some e => Some e
    | None => from_prov prov x
    end.
  Definition join_auth_events (join : event) : list event :=
    flat_map (fun x => opt_list (join_resolve x)) (auth_ids join).
End JoinSpec.

(* ---------- auth chain ---------- *)
Section ChainSpec.
  Variable allowed : event -> list event -> bool.
  Variable prov : N -> presp.
  Variable root : event.

  Definition chain_resolve (x : N) : option event :=
    if x =? eid root then Some root
    else match prov x with REv a => Some a | _ => None end.

  (* the events VerifyEventAuthChain gets to see: the event itself and, recursively, every
     auth event the provider supplies *)
  Inductive Reach : event -> Prop :=
  | reach_root : Reach root
  | reach_step c x a : Reach c -> In x (auth_ids c) -> x <> eid root -> prov x = REv a -> Reach a.

  Definition chain_auth_list (c : event) : list event :=
    flat_map (fun x => opt_list (chain_resolve x)) (auth_ids c).

  (* c passes: the provider does not fail on any of its auth events, every auth event obtained
     is a state event, no two of them are different events for one (type, state_key), and the
     rules allow c by them *)
  Definition chain_ok (c : event) : Prop :=
    (forall x, In x (auth_ids c) -> x <> eid root -> prov x <> RErr) /\
    forallb is_state (chain_auth_list c) = true /\
    allowed_by allowed c (chain_auth_list c) = true.
End ChainSpec.

