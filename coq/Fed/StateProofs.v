(* C14 proofs, part 2: CheckStateResponse and CheckSendJoinResponse. *)
From Coq Require Import List NArith Bool Lia.
From Verif Require Import Fed.Filters Fed.Spec Fed.GatherProofs.
Import ListNotations.
Open Scope N_scope.

Arguments mset : simpl never.
Arguments mget : simpl never.

(* ---------- list facts ---------- *)
Lemma find_app_c {A} (p : A -> bool) l1 l2 :
  find p (l1 ++ l2) = match find p l1 with Some a => Some a | None => find p l2 end.
Proof. induction l1 as [|a l1 IH]; simpl; auto. destruct (p a); auto. Qed.

Lemma find_ext_c {A} (p q : A -> bool) l : (forall a, p a = q a) -> find p l = find q l.
Proof. intros H. induction l as [|a l IH]; simpl; auto. rewrite H, IH. reflexivity. Qed.

Lemma existsb_ext_c {A} (p q : A -> bool) l : (forall a, p a = q a) -> existsb p l = existsb q l.
Proof. intros H. induction l as [|a l IH]; simpl; auto. now rewrite H, IH. Qed.

Lemma find_false_c {A} (l : list A) : find (fun _ => false) l = None.
Proof. induction l; simpl; auto. Qed.

Lemma mem_N_map_filter (x : N) (p : event -> bool) l :
  mem_N x (map eid (filter p l)) = existsb (fun e => (eid e =? x) && p e) l.
Proof.
  induction l as [|e l IH]; simpl; auto.
  destruct (p e) eqn:Hp; simpl; rewrite IH.
  - rewrite (N.eqb_sym x (eid e)). now rewrite andb_true_r.
  - now rewrite andb_false_r.
Qed.

(* the table built by `for ... { eventsByID[id] = event }` holds the last event with the ID *)
Lemma mget_fold_mset (fails : list N) l : forall m x,
  mget (fold_left (fun m e => if mem_N (eid e) fails then m else mset m (eid e) (Some e)) l m) x =
  match find (fun e => (eid e =? x) && negb (mem_N (eid e) fails)) (rev l) with
  | Some a => Some (Some a)
  | None => mget m x
  end.
Proof.
  induction l as [|e l IH]; intros m x; simpl; auto.
  rewrite IH, find_app_c.
  destruct (find _ (rev l)); auto. simpl.
  destruct (mem_N (eid e) fails) eqn:Hm; simpl.
  - now rewrite andb_false_r.
  - rewrite andb_true_r. destruct (eid e =? x) eqn:He.
    + apply N.eqb_eq in He. subst. now rewrite mget_mset_same.
    + apply N.eqb_neq in He. rewrite mget_mset_other; auto.
Qed.

Lemma mget_map_of_events l : forall m x,
  mget (map_of_events l m) x =
  match find (fun e => eid e =? x) (rev l) with
  | Some a => Some (Some a)
  | None => mget m x
  end.
Proof.
  unfold map_of_events.
  induction l as [|e l IH]; intros m x; simpl; auto.
  rewrite IH, find_app_c.
  destruct (find _ (rev l)); auto. simpl.
  destruct (eid e =? x) eqn:He.
  - apply N.eqb_eq in He. subst. now rewrite mget_mset_same.
  - apply N.eqb_neq in He. rewrite mget_mset_other; auto.
Qed.

Lemma find_some_in {A} (p : A -> bool) l a : find p l = Some a -> In a l /\ p a = true.
Proof. apply find_some. Qed.

Lemma forallb_keep fl l : forallb is_state l = true -> forallb is_state (keep fl l) = true.
Proof.
  unfold keep. induction l as [|e l IH]; simpl; auto.
  rewrite andb_true_iff. intros [H1 H2]. destruct (negb _); simpl; auto. now rewrite H1, IH.
Qed.

(* ---------- the scan of the state list ---------- *)
Lemma scan_state_none seen l : scan_state seen l = None -> forallb is_state l = true.
Proof.
  revert seen. induction l as [|e l IH]; intros seen; simpl; auto.
  unfold is_state. destruct (skey e) as [k|]; [|discriminate].
  destruct (tuple_mem (etype e) k seen); [discriminate|]. intros H. simpl. eauto.
Qed.

Lemma scan_state_err seen l r : scan_state seen l = Some r -> r = CsrNoStateKey \/ r = CsrDuplicate.
Proof.
  revert seen. induction l as [|e l IH]; intros seen; simpl; [discriminate|].
  destruct (skey e) as [k|]; [|intros [= <-]; now left].
  destruct (tuple_mem (etype e) k seen); [intros [= <-]; now right|]. eauto.
Qed.

Lemma tuple_mem_cons t k p seen : tuple_mem t k seen = true -> tuple_mem t k (p :: seen) = true.
Proof. unfold tuple_mem. simpl. intros ->. apply orb_true_r. Qed.

Lemma scan_state_seen t k seen l2 e2 l3 :
  tuple_mem t k seen = true -> etype e2 = t -> skey e2 = Some k ->
  scan_state seen (l2 ++ e2 :: l3) <> None.
Proof.
  revert seen. induction l2 as [|e l2 IH]; intros seen Hm Ht Hk; simpl.
  - rewrite Hk, Ht, Hm. discriminate.
  - destruct (skey e) as [k'|]; [|discriminate].
    destruct (tuple_mem (etype e) k' seen); [discriminate|].
    apply IH; auto using tuple_mem_cons.
Qed.

Lemma scan_state_dup seen l1 e1 l2 e2 l3 :
  etype e1 = etype e2 -> skey e1 = skey e2 ->
  scan_state seen (l1 ++ e1 :: l2 ++ e2 :: l3) <> None.
Proof.
  revert seen. induction l1 as [|e l1 IH]; intros seen Ht Hk; simpl.
  - destruct (skey e1) as [k|] eqn:Hk1; [|discriminate].
    destruct (tuple_mem (etype e1) k seen); [discriminate|].
    apply scan_state_seen with (t := etype e1) (k := k); auto.
    unfold tuple_mem. simpl. now rewrite !N.eqb_refl.
  - destruct (skey e) as [k'|]; [|discriminate].
    destruct (tuple_mem (etype e) k' seen); [discriminate|]. apply IH; auto.
Qed.

Lemma scan_state_nonstate seen l e : In e l -> skey e = None -> scan_state seen l <> None.
Proof.
  intros Hin Hk H. apply scan_state_none in H. rewrite forallb_forall in H.
  specialize (H e Hin). unfold is_state in H. rewrite Hk in H. discriminate.
Qed.

(* ---------- whole-response failures, for any provider ---------- *)
Section StateFailures.
  Variable PS : Type.
  Variable sig_ok : event -> bool.
  Variable allowed : event -> list event -> bool.
  Variable pcall : PS -> list N -> PS * panswer.

  Lemma csr_ok_state fuel hp rauth rstate ps a s ps' :
    check_state_response PS sig_ok allowed pcall fuel hp rauth rstate ps = (CsrOk a s, ps') ->
    forallb is_state a = true /\ forallb is_state s = true /\
    one_room (untrusted_events rauth ++ untrusted_events rstate) = true.
  Proof.
    unfold check_state_response.
    destruct (forallb is_state (untrusted_events rauth)) eqn:Hsa; simpl; [|discriminate].
    destruct (scan_state [] (untrusted_events rstate)) eqn:Hscan.
    { apply scan_state_err in Hscan. destruct Hscan as [-> | ->]; discriminate. }
    apply scan_state_none in Hscan.
    destruct (one_room _) eqn:Hroom; simpl; [|discriminate].
    destruct (auth_loop _ _ _ _ _ _ _ _ _) as [[fails m'] ps1]. destruct fails; [|discriminate].
    intros [= <- <- <-]. split; [|split]; auto; apply forallb_keep; auto.
  Qed.

  (* the response fails as a whole and the provider is not even consulted *)
  Definition whole_failure (r : csr_result * PS) (ps : PS) : Prop :=
    r = (CsrNoStateKey, ps) \/ r = (CsrDuplicate, ps) \/ r = (CsrMixedRooms, ps).

  Theorem csr_duplicate_fails fuel hp rauth rstate ps l1 e1 l2 e2 l3 :
    untrusted_events rstate = l1 ++ e1 :: l2 ++ e2 :: l3 ->
    etype e1 = etype e2 -> skey e1 = skey e2 ->
    whole_failure (check_state_response PS sig_ok allowed pcall fuel hp rauth rstate ps) ps.
  Proof.
    intros Hl Ht Hk. unfold check_state_response, whole_failure.
    destruct (forallb is_state (untrusted_events rauth)); simpl; [|now left].
    destruct (scan_state [] (untrusted_events rstate)) eqn:Hscan.
    - apply scan_state_err in Hscan. destruct Hscan as [-> | ->]; auto.
    - exfalso. rewrite Hl in Hscan. revert Hscan. now apply scan_state_dup.
  Qed.

  Theorem csr_nonstate_fails fuel hp rauth rstate ps e :
    In e (untrusted_events rauth ++ untrusted_events rstate) -> skey e = None ->
    whole_failure (check_state_response PS sig_ok allowed pcall fuel hp rauth rstate ps) ps.
  Proof.
    intros Hin Hk. unfold check_state_response, whole_failure.
    destruct (forallb is_state (untrusted_events rauth)) eqn:Hsa; simpl; [|now left].
    destruct (scan_state [] (untrusted_events rstate)) eqn:Hscan.
    - apply scan_state_err in Hscan. destruct Hscan as [-> | ->]; auto.
    - exfalso. apply in_app_or in Hin. destruct Hin as [Hin|Hin].
      + rewrite forallb_forall in Hsa. specialize (Hsa e Hin). unfold is_state in Hsa.
        rewrite Hk in Hsa. discriminate.
      + revert Hscan. eapply scan_state_nonstate; eauto.
  Qed.

  (* fix F85: events of two rooms in one response *)
  Theorem csr_mixed_rooms_fails fuel hp rauth rstate ps :
    one_room (untrusted_events rauth ++ untrusted_events rstate) = false ->
    whole_failure (check_state_response PS sig_ok allowed pcall fuel hp rauth rstate ps) ps.
  Proof.
    intros Hr. unfold check_state_response, whole_failure.
    destruct (forallb is_state (untrusted_events rauth)); simpl; [|now left].
    destruct (scan_state [] (untrusted_events rstate)) eqn:Hscan.
    - apply scan_state_err in Hscan. destruct Hscan as [-> | ->]; auto.
    - rewrite Hr. simpl. auto.
  Qed.

  (* since fix F82 the retry loop terminates whatever the provider answers: with the fuel
     computed from the response CheckStateResponse never runs out, for ANY provider *)
  Lemma auth_loop_total fuel hp : forall l fails m ps,
    (forall e, In e l -> (2 * length (auth_ids e) < fuel)%nat) ->
    fst (fst (auth_loop PS allowed pcall fuel hp l fails m ps)) <> None.
  Proof.
    induction l as [|e l IH]; intros fails m ps Hf; simpl; [discriminate|].
    unfold check_allowed.
    pose proof (gather_total PS pcall (auth_ids e) fuel hp [] m ps (Hf e (or_introl eq_refl))) as Ht.
    destruct (gather PS pcall fuel hp (auth_ids e) [] m ps) as [[[st acc] m1] ps1]. simpl in Ht.
    assert (Hf' : forall e', In e' l -> (2 * length (auth_ids e') < fuel)%nat) by (intros; apply Hf; now right).
    destruct st; try congruence; try (apply IH; auto).
    destruct (allowed e acc); apply IH; auto.
  Qed.

  Theorem csr_total_any_provider fuel hp rauth rstate ps :
    (forall e, In e (untrusted_events rauth ++ untrusted_events rstate) ->
               (2 * length (auth_ids e) < fuel)%nat) ->
    fst (check_state_response PS sig_ok allowed pcall fuel hp rauth rstate ps) <> CsrOutOfFuel.
  Proof.
    intros Hf. unfold check_state_response.
    destruct (forallb is_state (untrusted_events rauth)); simpl; [|discriminate].
    destruct (scan_state [] (untrusted_events rstate)) eqn:Hscan.
    { apply scan_state_err in Hscan. destruct Hscan as [-> | ->]; discriminate. }
    destruct (one_room _); simpl; [|discriminate].
    match goal with |- context [auth_loop ?a ?b ?c ?d ?e ?f ?g ?h ?i] =>
      pose proof (auth_loop_total d e f g h i Hf) as Ht;
      destruct (auth_loop a b c d e f g h i) as [[fails m'] ps1] end.
    simpl in Ht. destruct fails; [discriminate|congruence].
  Qed.
End StateFailures.

(* ---------- CheckStateResponse against a provider that is a function of the ID ---------- *)
Section StateProofs.
  Variable sig_ok : event -> bool.
  Variable allowed : event -> list event -> bool.
  Variable prov : N -> presp.
  Hypothesis Hhonest : honest prov.
  Variable hp : bool.

  Let P := eff_prov hp prov.

  Section Table.
    (* m0: the table at the start; every event in it is a state event *)
    Variable m0 : emap.
    Hypothesis m0_state : forall x a, mget m0 x = Some (Some a) -> is_state a = true.

    Definition resolve0 (x : N) : option event :=
      match mget m0 x with Some v => v | None => from_prov P x end.

    Definition Ext (m : emap) : Prop := forall x, mget m x = None -> mget m0 x = None.

    Lemma resolve0_state x a : resolve0 x = Some a -> is_state a = true.
    Proof.
      unfold resolve0. destruct (mget m0 x) as [v|] eqn:Hm.
      - intros ->. eauto.
      - unfold from_prov. destruct (P x) as [| |b]; try discriminate.
        destruct (is_state b) eqn:Hb; [|discriminate]. now intros [= <-].
    Qed.

    Lemma res_list_state aes : forallb is_state (res_list resolve0 aes) = true.
    Proof.
      apply forallb_forall. intros a Ha. unfold res_list in Ha. apply in_flat_map in Ha.
      destruct Ha as (x & _ & Hx). destruct (resolve0 x) as [b|] eqn:Hr; simpl in Hx; [|tauto].
      destruct Hx as [<-|[]]. eapply resolve0_state; eauto.
    Qed.

    Lemma Inv_m0 : Inv resolve0 m0.
    Proof. intros x v H. unfold resolve0. now rewrite H. Qed.

    Lemma check_allowed_spec fuel e m :
      (2 * length (auth_ids e) < fuel)%nat -> Inv resolve0 m -> Ext m ->
      exists v m', check_allowed unit allowed (pcall_of prov) fuel hp e m tt = (v, m', tt)
        /\ (v = VAllowed <-> allowed_by allowed e (res_list resolve0 (auth_ids e)) = true)
        /\ v <> VOutOfFuel /\ Inv resolve0 m' /\ Ext m'.
    Proof.
      intros Hf HI HE.
      assert (HF : Fresh prov resolve0 hp m (auth_ids e)).
      { intros x _ Hx. unfold resolve0. now rewrite (HE x Hx). }
      destruct (gather_spec prov Hhonest resolve0 hp (auth_ids e) fuel [] m Hf HI HF)
        as (st & acc' & m' & Hg & HI' & Hmono & _ & Hif).
      rewrite admissible_split, res_list_state in Hif. simpl in Hif.
      unfold check_allowed. rewrite Hg. unfold allowed_by, tuples_distinct.
      assert (HE' : Ext m').
      { intros x Hx. apply HE. destruct (mget m x) eqn:Hmx; auto.
        assert (H1 : mget m' x = mget m x) by (apply Hmono; congruence). congruence. }
      destruct (tuples_ok [] (res_list resolve0 (auth_ids e))).
      - destruct Hif as [-> ->]. simpl.
        destruct (allowed e (res_list resolve0 (auth_ids e))).
        + exists VAllowed, m'. repeat split; auto. discriminate.
        + exists VNotAllowed, m'. repeat split; auto; discriminate.
      - destruct Hif as [-> | ->].
        + exists VAddErr, m'. repeat split; auto; discriminate.
        + exists VDupTuple, m'. repeat split; auto; discriminate.
    Qed.

    Definition not_allowed0 (e : event) : bool :=
      negb (allowed_by allowed e (res_list resolve0 (auth_ids e))).

    Lemma auth_loop_spec fuel : forall l fails m,
      (forall e, In e l -> (2 * length (auth_ids e) < fuel)%nat) -> Inv resolve0 m -> Ext m ->
      exists fl m', auth_loop unit allowed (pcall_of prov) fuel hp l fails m tt = (Some fl, m', tt) /\
        forall x, mem_N x fl = mem_N x fails || existsb (fun e => (eid e =? x) && not_allowed0 e) l.
    Proof.
      induction l as [|e l IH]; intros fails m Hf HI HE.
      - exists fails, m. split; auto. intros x. simpl. now rewrite orb_false_r.
      - destruct (check_allowed_spec fuel e m (Hf e (or_introl eq_refl)) HI HE)
          as (v & m1 & Hc & Hiff & Hnf & HI1 & HE1).
        simpl auth_loop. rewrite Hc.
        assert (Hf' : forall e', In e' l -> (2 * length (auth_ids e') < fuel)%nat) by (intros; apply Hf; now right).
        destruct (allowed_by allowed e (res_list resolve0 (auth_ids e))) eqn:Ha.
        + assert (Hv : v = VAllowed) by (apply Hiff; reflexivity). subst v.
          destruct (IH fails m1 Hf' HI1 HE1) as (fl & m' & Hl & Hm). exists fl, m'. split; auto.
          assert (Hn : not_allowed0 e = false) by (unfold not_allowed0; now rewrite Ha).
          intros x. rewrite Hm. simpl. rewrite Hn. simpl.
          now rewrite andb_false_r.
        + assert (Hv : v <> VAllowed) by (intros H; apply Hiff in H; congruence).
          destruct (IH (eid e :: fails) m1 Hf' HI1 HE1) as (fl & m' & Hl & Hm). exists fl, m'. split.
          * destruct v; try congruence; exact Hl.
          * assert (Hn : not_allowed0 e = true) by (unfold not_allowed0; now rewrite Ha).
            intros x. rewrite Hm. simpl. rewrite Hn. simpl.
            rewrite andb_true_r, (N.eqb_sym x (eid e)).
            destruct (eid e =? x), (mem_N x fails); reflexivity.
    Qed.
  End Table.

  (* the table of verified response events is what the specification calls response_event *)
  Lemma verified_map_lookup all x :
    mget (verified_map (sig_failures sig_ok all) all) x = option_map Some (response_event sig_ok all x).
  Proof.
    unfold verified_map, response_event. rewrite mget_fold_mset.
    assert (Hsf : forall y, mem_N y (sig_failures sig_ok all) = negb (id_sig_ok sig_ok all y)).
    { intros y. unfold sig_failures, id_sig_ok. rewrite mem_N_map_filter.
      induction all as [|e l IH]; simpl; auto. rewrite IH.
      destruct (eid e =? y), (sig_ok e); simpl; auto. }
    destruct (id_sig_ok sig_ok all x) eqn:Hid.
    - rewrite (find_ext_c _ (fun e => eid e =? x)).
      + destruct (find _ (rev all)); reflexivity.
      + intros e. destruct (eid e =? x) eqn:He; auto. apply N.eqb_eq in He. subst.
        now rewrite Hsf, Hid.
    - rewrite (find_ext_c _ (fun _ => false)).
      + rewrite find_false_c. reflexivity.
      + intros e. destruct (eid e =? x) eqn:He; auto. apply N.eqb_eq in He. subst.
        now rewrite Hsf, Hid.
  Qed.

  Lemma resolve0_verified all x :
    resolve0 (verified_map (sig_failures sig_ok all) all) x = resolve_auth sig_ok P all x.
  Proof.
    unfold resolve0, resolve_auth. rewrite verified_map_lookup.
    destruct (response_event sig_ok all x); reflexivity.
  Qed.

  Lemma res_list_verified all e :
    res_list (resolve0 (verified_map (sig_failures sig_ok all) all)) (auth_ids e) =
    auth_events_of sig_ok P all e.
  Proof.
    unfold res_list, auth_events_of. apply flat_map_ext. intros x. now rewrite resolve0_verified.
  Qed.

  Lemma response_event_in all x a : response_event sig_ok all x = Some a -> In a all.
  Proof.
    unfold response_event. destruct (id_sig_ok sig_ok all x); [|discriminate].
    intros H. apply find_some in H. destruct H as [H _]. now apply in_rev.
  Qed.

  Lemma good_id_bool (all : list event) (s a : event -> bool) x :
    forallb (fun e' => negb (eid e' =? x) || (s e' && a e')) all =
    negb (existsb (fun e => (eid e =? x) && negb (s e)) all
          || existsb (fun e => (eid e =? x) && negb (a e)) all).
  Proof.
    induction all as [|e l IH]; simpl; auto. rewrite IH.
    destruct (eid e =? x), (s e), (a e); simpl; auto;
      try (destruct (existsb _ l); reflexivity).
  Qed.

  (* the result, whenever the scans pass: exact filter, never OutOfFuel *)
  Lemma csr_passing fuel rauth rstate :
    let all := untrusted_events rauth ++ untrusted_events rstate in
    (forall e, In e all -> (2 * length (auth_ids e) < fuel)%nat) ->
    forallb is_state (untrusted_events rauth) = true ->
    scan_state [] (untrusted_events rstate) = None ->
    one_room all = true ->
    check_state_response unit sig_ok allowed (pcall_of prov) fuel hp rauth rstate tt =
    (CsrOk (filter (good_id sig_ok allowed P all) (untrusted_events rauth))
           (filter (good_id sig_ok allowed P all) (untrusted_events rstate)), tt).
  Proof.
    intros all Hfuel Hsa Hscan Hroom. unfold check_state_response.
    rewrite Hsa, Hscan. simpl. fold all. rewrite Hroom. simpl.
    apply scan_state_none in Hscan.
    set (sf := sig_failures sig_ok all). set (m0 := verified_map sf all).
    assert (Hall : forall e, In e all -> is_state e = true).
    { intros e He. unfold all in He. apply in_app_or in He.
      rewrite forallb_forall in Hsa, Hscan. destruct He; auto. }
    assert (Hm0 : forall x b, mget m0 x = Some (Some b) -> is_state b = true).
    { intros x b Hb. unfold m0, sf in Hb. rewrite verified_map_lookup in Hb.
      destruct (response_event sig_ok all x) eqn:Hr; [|discriminate]. injection Hb as ->.
      apply Hall. eapply response_event_in; eauto. }
    destruct (auth_loop_spec m0 Hm0 fuel all sf m0 Hfuel (Inv_m0 m0)) as (fl & m' & Hl & Hmem).
    { intros x Hx. exact Hx. }
    rewrite Hl.
    assert (Hkeep : forall e, negb (mem_N (eid e) fl) = good_id sig_ok allowed P all e).
    { intros e. rewrite Hmem. unfold good_id, good. rewrite good_id_bool. f_equal. f_equal.
      - unfold sf, sig_failures. now rewrite mem_N_map_filter.
      - apply existsb_ext_c. intros e'. unfold not_allowed0, m0, sf.
        now rewrite res_list_verified. }
    unfold keep. f_equal. f_equal; apply filter_ext; intros e; apply Hkeep.
  Qed.

  Theorem csr_shape fuel rauth rstate :
    let all := untrusted_events rauth ++ untrusted_events rstate in
    (forall e, In e all -> (2 * length (auth_ids e) < fuel)%nat) ->
    let r := check_state_response unit sig_ok allowed (pcall_of prov) fuel hp rauth rstate tt in
    whole_failure unit r tt \/
    r = (CsrOk (filter (good_id sig_ok allowed P all) (untrusted_events rauth))
               (filter (good_id sig_ok allowed P all) (untrusted_events rstate)), tt).
  Proof.
    intros all Hfuel r.
    destruct (forallb is_state (untrusted_events rauth)) eqn:Hsa.
    2:{ left. left. unfold r, check_state_response. now rewrite Hsa. }
    destruct (scan_state [] (untrusted_events rstate)) eqn:Hscan.
    { left. unfold r, check_state_response. rewrite Hsa, Hscan. simpl.
      apply scan_state_err in Hscan. destruct Hscan as [-> | ->]; [left|right; left]; reflexivity. }
    destruct (one_room all) eqn:Hroom.
    2:{ left. right. right. unfold r, check_state_response. rewrite Hsa, Hscan. simpl.
        fold all. now rewrite Hroom. }
    right. unfold r. now apply csr_passing.
  Qed.

  Theorem csr_exact fuel rauth rstate a s :
    let all := untrusted_events rauth ++ untrusted_events rstate in
    (forall e, In e all -> (2 * length (auth_ids e) < fuel)%nat) ->
    check_state_response unit sig_ok allowed (pcall_of prov) fuel hp rauth rstate tt = (CsrOk a s, tt) ->
    a = filter (good_id sig_ok allowed P all) (untrusted_events rauth) /\
    s = filter (good_id sig_ok allowed P all) (untrusted_events rstate).
  Proof.
    intros all Hfuel Hc. destruct (csr_shape fuel rauth rstate Hfuel) as [[H|[H|H]]|H];
      simpl in H; rewrite Hc in H; try discriminate.
    injection H as -> ->. auto.
  Qed.

  (* a fuel that is enough, computed from the response *)
  Definition csr_fuel (all : list event) : nat :=
    S (2 * fold_right (fun c n => Nat.max (length (auth_ids c)) n) O all).

  Lemma csr_fuel_ok all e : In e all -> (2 * length (auth_ids e) < csr_fuel all)%nat.
  Proof.
    unfold csr_fuel. induction all as [|c l IH]; [intros []|].
    intros [->|Hin]; simpl fold_right; [lia|]. specialize (IH Hin). lia.
  Qed.

  (* with unique event IDs the by-ID filter is the by-event filter *)
  Lemma NoDup_map_inj {A B} (f : A -> B) l x y :
    NoDup (map f l) -> In x l -> In y l -> f x = f y -> x = y.
  Proof.
    induction l as [|z l IH]; simpl; [tauto|].
    intros Hnd Hx Hy Hf. inversion Hnd as [|? ? Hnin Hnd']; subst.
    destruct Hx as [->|Hx], Hy as [->|Hy]; auto.
    - exfalso. apply Hnin. rewrite Hf. now apply in_map.
    - exfalso. apply Hnin. rewrite <- Hf. now apply in_map.
  Qed.

  Lemma good_id_unique all e :
    NoDup (map eid all) -> In e all ->
    good_id sig_ok allowed P all e = good sig_ok allowed P all e.
  Proof.
    intros Hnd He. unfold good_id.
    destruct (good sig_ok allowed P all e) eqn:Hg.
    - apply forallb_forall. intros e' He'. destruct (eid e' =? eid e) eqn:Hid; auto.
      apply N.eqb_eq in Hid. rewrite (NoDup_map_inj eid all e' e Hnd He' He Hid). now rewrite Hg.
    - destruct (forallb _ all) eqn:Hf; auto. rewrite forallb_forall in Hf.
      specialize (Hf e He). now rewrite N.eqb_refl, Hg in Hf.
  Qed.

  (* ---------- CheckSendJoinResponse ---------- *)
  Lemma join_table_state a s x b :
    forallb is_state a = true -> forallb is_state s = true ->
    mget (map_of_events s (map_of_events a [])) x = Some (Some b) -> is_state b = true.
  Proof.
    intros Ha Hs. rewrite !mget_map_of_events.
    rewrite forallb_forall in Ha, Hs.
    destruct (find _ (rev s)) eqn:F1.
    - intros [= <-]. apply find_some in F1. apply Hs. apply in_rev. tauto.
    - destruct (find _ (rev a)) eqn:F2.
      + intros [= <-]. apply find_some in F2. apply Ha. apply in_rev. tauto.
      + discriminate.
  Qed.

  Lemma join_table_resolve a s x :
    resolve0 (map_of_events s (map_of_events a [])) x = join_resolve P a s x.
  Proof.
    unfold resolve0, join_resolve. rewrite !mget_map_of_events, rev_app_distr, find_app_c.
    destruct (find _ (rev s)); auto. destruct (find _ (rev a)); auto.
  Qed.

  (* the outcome of the join checks once CheckStateResponse returned a and s *)
  Lemma sj_after_csr fuel rauth rstate join a s :
    (2 * length (auth_ids join) < fuel)%nat ->
    check_state_response unit sig_ok allowed (pcall_of prov) fuel hp rauth rstate tt = (CsrOk a s, tt) ->
    exists r, check_send_join unit sig_ok allowed (pcall_of prov) fuel hp rauth rstate join tt = (r, tt) /\
      r <> SjOutOfFuel /\
      (r = SjOk a s <-> allowed_by allowed join (join_auth_events P a s join) = true /\ allowed join s = true) /\
      (forall a' s', r = SjOk a' s' -> a' = a /\ s' = s).
  Proof.
    intros Hfj Hc. unfold check_send_join. rewrite Hc.
    pose proof (csr_ok_state unit sig_ok allowed (pcall_of prov) fuel hp rauth rstate tt a s tt Hc) as (Ha' & Hs' & _).
    set (mJ := map_of_events s (map_of_events a [])).
    destruct (check_allowed_spec mJ (fun x b => join_table_state a s x b Ha' Hs') fuel join mJ Hfj (Inv_m0 mJ))
      as (v & m' & Hca & Hiff & Hnf & _ & _).
    { intros x Hx. exact Hx. }
    rewrite Hca.
    assert (Hl : res_list (resolve0 mJ) (auth_ids join) = join_auth_events P a s join).
    { unfold res_list, join_auth_events. apply flat_map_ext. intros x. unfold mJ. now rewrite join_table_resolve. }
    rewrite Hl in Hiff.
    destruct (allowed_by allowed join (join_auth_events P a s join)) eqn:A1.
    - assert (Hv : v = VAllowed) by (apply Hiff; reflexivity). subst v.
      destruct (allowed join s) eqn:A2.
      + exists (SjOk a s). split; [reflexivity|]. split; [discriminate|]. split; [split; auto|].
        intros a0 s0 [= <- <-]; auto.
      + exists SjNotAllowedByState. split; [reflexivity|]. split; [discriminate|].
        split; [split; [discriminate | intros [_ H]; discriminate]|]. discriminate.
    - assert (Hv : v <> VAllowed) by (intros H; apply Hiff in H; congruence).
      destruct v; try congruence;
        (exists SjNotAllowedByAuth; split; [reflexivity|]; split; [discriminate|];
         split; [split; [discriminate | intros [H _]; discriminate]|]; discriminate).
  Qed.

  Theorem sj_accept_iff fuel rauth rstate join a s :
    (2 * length (auth_ids join) < fuel)%nat ->
    (check_send_join unit sig_ok allowed (pcall_of prov) fuel hp rauth rstate join tt = (SjOk a s, tt)
     <-> check_state_response unit sig_ok allowed (pcall_of prov) fuel hp rauth rstate tt = (CsrOk a s, tt)
         /\ allowed_by allowed join (join_auth_events P a s join) = true
         /\ allowed join s = true).
  Proof.
    intros Hfj. split.
    - intros Hsj.
      destruct (check_state_response unit sig_ok allowed (pcall_of prov) fuel hp rauth rstate tt)
        as [r ps1] eqn:Hc. destruct ps1.
      destruct r as [a' s'| | | |];
        try (unfold check_send_join in Hsj; rewrite Hc in Hsj; discriminate).
      destruct (sj_after_csr fuel rauth rstate join a' s' Hfj Hc) as (r & Hr & _ & Hiff & Huniq).
      rewrite Hr in Hsj. injection Hsj as ->. destruct (Huniq a s eq_refl) as [-> ->].
      split; auto. apply Hiff. reflexivity.
    - intros (Hc & H1 & H2).
      destruct (sj_after_csr fuel rauth rstate join a s Hfj Hc) as (r & Hr & _ & Hiff & _).
      rewrite Hr. f_equal. apply Hiff. auto.
  Qed.

  Theorem sj_no_out_of_fuel fuel rauth rstate join :
    let all := untrusted_events rauth ++ untrusted_events rstate in
    (forall e, In e all -> (2 * length (auth_ids e) < fuel)%nat) ->
    (2 * length (auth_ids join) < fuel)%nat ->
    fst (check_send_join unit sig_ok allowed (pcall_of prov) fuel hp rauth rstate join tt) <> SjOutOfFuel.
  Proof.
    intros all Hf Hfj.
    destruct (csr_shape fuel rauth rstate Hf) as [[H|[H|H]]|H]; simpl in H.
    1-3: unfold check_send_join; rewrite H; simpl; discriminate.
    destruct (sj_after_csr fuel rauth rstate join _ _ Hfj H) as (r & Hr & Hnf & _). rewrite Hr. exact Hnf.
  Qed.
End StateProofs.
